(* Search.v: code-shaped model of ai/minimax.go (pvSearch, zwSearch, ttGet/ttPut/teSuffices, recordCut, nullMoveOK, Analyze,
   AnalyzeAll) and ai/moves.go (moveGenerator), including cancellation: the context is cancelled inside the k-th leaf
   evaluation of an Analyze call (section variable cancel_at = k; 0 = never), which is how the harness injects it.

   The model describes the REPAIRED code of /repo:
     - 02f56c9  moveGenerator.snapshotTE: the generator works on a copy of the table entry taken when it is created;
     - 8daa71e  Analyze seeds the value from an exact root table entry;
     - AnalyzeAll stops listing lines once the search is cancelled.
   The section variable [pinned] selects the code before these repairs (pinned = true: the generator re-reads the
   table slot on every Next, Analyze starts from v = 0, AnalyzeAll never reads the flag in its second pass).  Everything exported at the end of the file is the fixed variant. *)
From Coq Require Import NArith ZArith List Bool Lia.
Require Import Board Move GameOver Eval.
Import ListNotations.
Open Scope Z_scope.

Definition MaxEval : Z := 2 ^ 30.
Definition MinEval : Z := - MaxEval.
Definition WinThreshold : Z := 2 ^ 29.
Definition hashMul : N := 7046029254386353131.            (* 0x61C8864680B583EB *)
Definition max_depth : nat := 15.

Record entry := { e_hash : N; e_value : Z; e_m : rmove; e_bound : N; e_depth : Z }.      (* bound: 0 lower, 1 exact, 2 upper *)
Definition entry0 := {| e_hash := 0; e_value := 0; e_m := {| mX := 0; mY := 0; mT := 0; mS := 0 |}; e_bound := 0; e_depth := 0 |}.
Definition move0 : rmove := {| mX := 0; mY := 0; mT := 0; mS := 0 |}.

Record config := {
  c_depth : Z; c_nosort : bool; c_nonull : bool; c_noreduce : bool; c_multicut : bool;
  c_eval : position -> Z }.

Record stats := {
  s_evaluated : Z; s_visited : Z; s_scout : Z; s_terminal : Z; s_tthits : Z; s_ttshortcut : Z; s_research : Z;
  s_cutnodes : Z; s_cut0 : Z; s_cut1 : Z; s_cutsearch : Z; s_allnodes : Z; s_nullsearch : Z; s_nullcut : Z;
  s_reduced : Z; s_mcsearch : Z; s_mccut : Z }.
Definition stats0 := {| s_evaluated := 0; s_visited := 0; s_scout := 0; s_terminal := 0; s_tthits := 0; s_ttshortcut := 0; s_research := 0;
  s_cutnodes := 0; s_cut0 := 0; s_cut1 := 0; s_cutsearch := 0; s_allnodes := 0; s_nullsearch := 0; s_nullcut := 0;
  s_reduced := 0; s_mcsearch := 0; s_mccut := 0 |}.

Record sstate := {
  table : list entry;
  history : list (rmove * Z);
  response : list (rmove * rmove);
  fpv : list (list rmove);          (* frame[ply].pv: 15 slots each *)
  fm : list rmove;                  (* frame[ply].m *)
  st : stats;
  evals : Z }.                      (* leaf evaluations since the start of this Analyze *)

(* ---- small helpers ---- *)
Definition rmove_eqb (a b : rmove) : bool := (mX a =? mX b) && (mY a =? mY b) && (mT a =? mT b)%N && (mS a =? mS b)%N.   (* struct equality *)
Definition move_equal (a b : rmove) : bool :=                                                                   (* Move.Equal *)
  (mX a =? mX b) && (mY a =? mY b) && (mT a =? mT b)%N && (if (5 <=? mT a)%N then (mS a =? mS b)%N else true).
Fixpoint assoc {V} (k : rmove) (l : list (rmove * V)) : option V :=
  match l with [] => None | (k', v) :: r => if rmove_eqb k k' then Some v else assoc k r end.
Fixpoint assoc_set {V} (k : rmove) (v : V) (l : list (rmove * V)) : list (rmove * V) :=
  match l with [] => [(k, v)] | (k', v') :: r => if rmove_eqb k k' then (k, v) :: r else (k', v') :: assoc_set k v r end.
Fixpoint set_nth {A} (l : list A) (i : nat) (v : A) : list A :=
  match l, i with [] , _ => [] | _ :: t, O => v :: t | h :: t, S j => h :: set_nth t j v end.
Definition znth {A} (l : list A) (i : Z) (d : A) : A := nth (Z.to_nat i) l d.
Definition set_prefix (arr l : list rmove) : list rmove := l ++ skipn (length l) arr.

Definition upd_st (s : sstate) (f : stats -> stats) : sstate :=
  {| table := table s; history := history s; response := response s; fpv := fpv s; fm := fm s; st := f (st s); evals := evals s |}.
Definition set_table (s : sstate) (t : list entry) : sstate :=
  {| table := t; history := history s; response := response s; fpv := fpv s; fm := fm s; st := st s; evals := evals s |}.
Definition set_fpv (s : sstate) (ply : Z) (arr : list rmove) : sstate :=
  {| table := table s; history := history s; response := response s; fpv := set_nth (fpv s) (Z.to_nat ply) arr; fm := fm s; st := st s; evals := evals s |}.
Definition set_fm (s : sstate) (ply : Z) (m : rmove) : sstate :=
  {| table := table s; history := history s; response := response s; fpv := fpv s; fm := set_nth (fm s) (Z.to_nat ply) m; st := st s; evals := evals s |}.

Section Srch.
Variable pinned : bool.            (* true = the code before the repairs 02f56c9 / 8daa71e *)
Variable basis : list N.
Variable cfg : config.
Variable cancel_at : Z.          (* 0 = never; k = the context of this Analyze call is cancelled inside its k-th leaf evaluation *)

(* atomic.LoadInt32(ai.cancel) != 0 *)
Definition cancelled (s : sstate) : bool := (0 <? cancel_at) && (cancel_at <=? evals s).

Definition mvp := move_prealloc (hash_sq basis) true.      (* MovePreallocated with the origin bounds check of ef08d03 *)
Definition phash (p : position) : N := hash_of p.
Definition is_over (p : position) : bool := match game_over p with Some (o, _) => o | None => false end.
Definition pass_move (p : position) : position :=
  {| size := size p; black_wins_ties := black_wins_ties p; whiteStones := whiteStones p; whiteCaps := whiteCaps p;
     blackStones := blackStones p; blackCaps := blackCaps p; move := move p + 1; White := White p; Black := Black p;
     Standing := Standing p; Caps := Caps p; Height := Height p; Stacks := Stacks p; hash := hash p |}.
Definition try_move (p : position) (m : rmove) : option position :=
  if (mT m =? 1)%N then Some (pass_move p) else match mvp p m with Ok q => Some q | _ => None end.

(* ---- transposition table ---- *)
Definition tt_slots (s : sstate) (h : N) : nat * nat :=
  let n := N.of_nat (length (table s)) in
  (N.to_nat (h mod n), N.to_nat (((h * hashMul) mod 2 ^ 64) mod n))%N.
Definition tt_get (s : sstate) (h : N) : option nat :=
  match table s with [] => None | _ =>
    let '(i1, i2) := tt_slots s h in
    if (e_hash (nth i1 (table s) entry0) =? h)%N then Some i1
    else if (e_hash (nth i2 (table s) entry0) =? h)%N then Some i2 else None end.
(* ttPut: moves slot i1 to i2 when occupied, returns slot i1 *)
Definition tt_put (s : sstate) (h : N) : sstate * option nat :=
  match table s with [] => (s, None) | _ =>
    if cancelled s then (s, None) else
    let '(i1, i2) := tt_slots s h in
    let e1 := nth i1 (table s) entry0 in
    let t := if negb (e_hash e1 =? 0)%N then set_nth (table s) i2 e1 else table s in
    (set_table s t, Some i1) end.
Definition te_suffices (te : entry) (depth a b : Z) : bool :=
  ((depth <=? e_depth te) &&
     ((e_bound te =? 1)%N || ((e_value te <? a) && (e_bound te =? 2)%N) || ((b <? e_value te) && (e_bound te =? 0)%N)))
  || ((e_bound te =? 1)%N && ((WinThreshold <? e_value te) || (e_value te <? - WinThreshold))).

(* ---- the move generator ---- *)
(* g_te: the pointer mg.te (a table index); g_tec: the move of mg.teCopy, the snapshot taken by snapshotTE *)
Record mgen := { g_te : option nat; g_tec : option rmove; g_pv : list rmove; g_r : rmove; g_ms : option (list rmove); g_i : Z;
                 g_ply : Z; g_depth : Z; g_p : position }.
Definition set_i (g : mgen) (i : Z) := {| g_te := g_te g; g_tec := g_tec g; g_pv := g_pv g; g_r := g_r g; g_ms := g_ms g; g_i := i; g_ply := g_ply g; g_depth := g_depth g; g_p := g_p g |}.

Fixpoint insert_sorted (h : rmove * Z) (l : list (rmove * Z)) : list (rmove * Z) :=
  match l with [] => [h] | x :: r => if snd x <? snd h then h :: l else x :: insert_sorted h r end.
Definition sort_moves (s : sstate) (ms : list rmove) : list rmove :=     (* a stable stand-in for Go's unstable sort.Sort *)
  map fst (fold_right insert_sorted [] (map (fun m => (m, match assoc m (history s) with Some v => v | None => 0 end)) ms)).

Definition te_move (s : sstate) (g : mgen) : option rmove :=
  if pinned then option_map (fun i => e_m (nth i (table s) entry0)) (g_te g) else g_tec g.
(* *mg = moveGenerator{..., te: te}; mg.snapshotTE() *)
Definition new_gen (s : sstate) (te : option nat) (pv : list rmove) (ply depth : Z) (p : position) : mgen :=
  {| g_te := te; g_tec := option_map (fun i => e_m (nth i (table s) entry0)) te; g_pv := pv; g_r := move0; g_ms := None; g_i := 0;
     g_ply := ply; g_depth := depth; g_p := p |}.

(* the fuel of every loop over the generator: the number of generated moves plus the hint slots (the Go loops have no bound;
   with this fuel the model's loops never stop early: SearchGen.gfuel_ok) *)
Definition gfuel (g : mgen) : nat := (length (match g_ms g with Some ms => ms | None => all_moves (g_p g) end) + 8)%nat.

Fixpoint mg_next (fuel : nat) (s : sstate) (g : mgen) : mgen * option (rmove * position) :=
  match fuel with O => (g, None) | S f =>
    let try (g : mgen) (m : rmove) := match try_move (g_p g) m with Some q => (g, Some (m, q)) | None => mg_next f s g end in
    let i := g_i g in
    if i =? 0 then
      match te_move s g with Some m => try (set_i g 1) m | None => mg_next f s (set_i g 1) end
    else if i =? 1 then
      match g_pv g with
      | m :: _ => match te_move s g with
                  | Some tm => if move_equal m tm then mg_next f s (set_i g 2) else try (set_i g 2) m
                  | None => try (set_i g 2) m end
      | [] => mg_next f s (set_i g 2)
      end
    else if i =? 2 then
      if g_ply g =? 0 then mg_next f s (set_i g 3) else
      match assoc (znth (fm s) (g_ply g - 1) move0) (response s) with
      | Some r => let g' := {| g_te := g_te g; g_tec := g_tec g; g_pv := g_pv g; g_r := r; g_ms := g_ms g; g_i := 3; g_ply := g_ply g; g_depth := g_depth g; g_p := g_p g |} in
                  try g' r
      | None => mg_next f s {| g_te := g_te g; g_tec := g_tec g; g_pv := g_pv g; g_r := move0; g_ms := g_ms g; g_i := 3; g_ply := g_ply g; g_depth := g_depth g; g_p := g_p g |}
      end
    else
      (* case 3 (generate / sort) then the default case *)
      let g := if i =? 3 then
                 let ms := match g_ms g with Some ms => ms | None => all_moves (g_p g) end in
                 let ms := if (1 <? g_depth g) && negb (c_nosort cfg) then sort_moves s ms else ms in
                 {| g_te := g_te g; g_tec := g_tec g; g_pv := g_pv g; g_r := g_r g; g_ms := Some ms; g_i := 4; g_ply := g_ply g; g_depth := g_depth g; g_p := g_p g |}
               else g in
      let j := g_i g - 4 in
      let ms := match g_ms g with Some ms => ms | None => [] end in
      let g := set_i g (g_i g + 1) in
      if Z.of_nat (length ms) <=? j then (g, None) else
      let m := znth ms j move0 in
      if (match te_move s g with Some tm => move_equal tm m | None => false end) then mg_next f s g
      else if (match g_pv g with pm :: _ => move_equal pm m | [] => false end) then mg_next f s g
      else if move_equal (g_r g) m then mg_next f s g
      else try g m
  end.

Definition record_cut (s : sstate) (m : rmove) (mvno depth ply : Z) : sstate :=
  let s := upd_st s (fun t =>
     {| s_evaluated := s_evaluated t; s_visited := s_visited t; s_scout := s_scout t; s_terminal := s_terminal t; s_tthits := s_tthits t;
        s_ttshortcut := s_ttshortcut t; s_research := s_research t; s_cutnodes := s_cutnodes t + 1;
        s_cut0 := if mvno =? 1 then s_cut0 t + 1 else s_cut0 t; s_cut1 := if mvno =? 2 then s_cut1 t + 1 else s_cut1 t;
        s_cutsearch := if (mvno =? 1) || (mvno =? 2) then s_cutsearch t else s_cutsearch t + mvno + 1;
        s_allnodes := s_allnodes t; s_nullsearch := s_nullsearch t; s_nullcut := s_nullcut t; s_reduced := s_reduced t;
        s_mcsearch := s_mcsearch t; s_mccut := s_mccut t |}) in
  let inc := if (0 <=? depth) && (depth <? 63) then 2 ^ depth else 0 in
  let h := assoc_set m ((match assoc m (history s) with Some v => v | None => 0 end) + inc) (history s) in
  let r := if 0 <? ply then assoc_set (znth (fm s) (ply - 1) move0) m (response s) else response s in
  {| table := table s; history := h; response := r; fpv := fpv s; fm := fm s; st := st s; evals := evals s |}.

Definition bump (s : sstate) (f : stats -> stats) := upd_st s f.
Definition st_eval (over : bool) (t : stats) : stats :=
  {| s_evaluated := s_evaluated t + 1; s_visited := s_visited t; s_scout := s_scout t; s_terminal := if over then s_terminal t + 1 else s_terminal t;
     s_tthits := s_tthits t; s_ttshortcut := s_ttshortcut t; s_research := s_research t; s_cutnodes := s_cutnodes t; s_cut0 := s_cut0 t;
     s_cut1 := s_cut1 t; s_cutsearch := s_cutsearch t; s_allnodes := s_allnodes t; s_nullsearch := s_nullsearch t; s_nullcut := s_nullcut t;
     s_reduced := s_reduced t; s_mcsearch := s_mcsearch t; s_mccut := s_mccut t |}.
Definition st_add (dv ds dh dsh dr da dns dnc drd dms dmc : Z) (t : stats) : stats :=
  {| s_evaluated := s_evaluated t; s_visited := s_visited t + dv; s_scout := s_scout t + ds; s_terminal := s_terminal t;
     s_tthits := s_tthits t + dh; s_ttshortcut := s_ttshortcut t + dsh; s_research := s_research t + dr; s_cutnodes := s_cutnodes t; s_cut0 := s_cut0 t;
     s_cut1 := s_cut1 t; s_cutsearch := s_cutsearch t; s_allnodes := s_allnodes t + da; s_nullsearch := s_nullsearch t + dns; s_nullcut := s_nullcut t + dnc;
     s_reduced := s_reduced t + drd; s_mcsearch := s_mcsearch t + dms; s_mccut := s_mccut t + dmc |}.

Definition null_move_ok (s : sstate) (ply depth : Z) (p : position) : bool :=
  if c_nonull cfg then false else
  if (ply =? 0) || (depth <? 3) then false else
  if (mT (znth (fm s) (ply - 1) move0) =? 1)%N then false else
  if (whiteStones p <? 3)%N || (blackStones p <? 3)%N then false else
  if Z.of_nat (length (Stacks p)) <=? Z.of_N (popcount (N.lor (White p) (Black p))) + 3 then false else true.

(* the table-shortcut prefix shared by both searches: Some result = return now *)
Definition tt_probe (s : sstate) (p : position) (ply depth a b : Z) : sstate * option nat * option (list rmove * Z) :=
  match tt_get s (phash p) with
  | None => (s, None, None)
  | Some i =>
    let s := bump s (st_add 0 0 1 0 0 0 0 0 0 0 0) in
    let te := nth i (table s) entry0 in
    if te_suffices te depth a b then
      match try_move p (e_m te) with
      | Some _ => let s := bump s (st_add 0 0 0 1 0 0 0 0 0 0 0) in
                  let arr := set_prefix (znth (fpv s) ply []) [e_m te] in
                  (set_fpv s ply arr, None, Some ([e_m te], e_value te))
      | None => (s, None, None)
      end
    else (s, Some i, None)
  end.

Definition write_entry (s : sstate) (i : nat) (h : N) (depth : Z) (m : rmove) (v : Z) (bound : N) : sstate :=
  set_table s (set_nth (table s) i {| e_hash := h; e_value := v; e_m := m; e_bound := bound; e_depth := wrap8 depth |}).

(* ---- the two searches ----
   One function for both: zw = true is zwSearch (β ignored, cut flag used), zw = false is pvSearch.  The recursion is on fuel
   (maxDepth would do: depth decreases on every call); the child search is passed to the node function and to the three child
   loops as [rec], so that facts about a loop can be proved from facts about the child search. *)
Definition sres := (sstate * (list rmove * Z))%type.
Definition rec_t := bool -> sstate -> position -> Z -> Z -> list rmove -> Z -> Z -> bool -> sres.      (* zw s p ply depth pv α β cut *)

Definition count_eval (s : sstate) : sstate :=
  {| table := table s; history := history s; response := response s; fpv := fpv s; fm := fm s; st := st s; evals := evals s + 1 |}.

(* the multi-cut loop of zwSearch; m is the FIRST move throughout (the Go loop never reassigns it) *)
Fixpoint mc_loop (rec : rec_t) (k : nat) (ply depth a : Z) (cut : bool) (m : rmove) (s : sstate) (g : mgen) (child : position) (i cuts : Z)
  : sstate * mgen * bool :=
  match k with O => (s, g, false) | S k' =>
    if 6 <=? i then (s, g, false) else
    let s := set_fm s ply m in
    let '(s, (_, v)) := rec true s child (ply + 1) (depth - 1 - 2) [] (- a - 1) 0 (negb cut) in
    let cuts := if a <? - v then cuts + 1 else cuts in
    if (a <? - v) && (3 <=? cuts) then (bump s (st_add 0 0 0 0 0 0 0 0 0 0 1), g, true) else
    let '(g', nx) := mg_next (gfuel g) s g in
    match nx with Some (_, c') => mc_loop rec k' ply depth a cut m s g' c' (i + 1) cuts | None => (s, g', false) end
  end.

(* the child loop of zwSearch: result (state, best, didCut, aborted); aborted = the cancel flag was seen after a child: return nil, 0 *)
Fixpoint zw_loop (rec : rec_t) (k : nat) (ply depth a : Z) (cut : bool) (s : sstate) (g : mgen) (i : Z) (best : list rmove)
  : sstate * list rmove * bool * bool :=
  match k with O => (s, best, false, false) | S k' =>
    let '(g, nx) := mg_next (gfuel g) s g in
    match nx with
    | None => (s, best, false, false)
    | Some (m, child) =>
      let i := i + 1 in
      let s := set_fm s ply m in
      let '(s, (ms, v)) := rec true s child (ply + 1) (depth - 1) (tl best) (- a - 1) 0 (negb cut) in
      if a <? - v then
        let s := record_cut s m i depth ply in
        let best := m :: ms in
        (set_fpv s ply (set_prefix (znth (fpv s) ply []) best), best, true, false)
      else if cancelled s then (s, best, false, true) else zw_loop rec k' ply depth a cut s g i best
    end
  end.

(* the search of one child in pvSearch: full window for the first child, zero-window scout (and re-search) for the others *)
Definition pv_child (rec : rec_t) (s : sstate) (child : position) (ply depth : Z) (best : list rmove) (a b i : Z) : sres :=
  if 1 <? i then
    let '(s, (ms, v)) := rec true s child (ply + 1) (depth - 1) (tl best) (- a - 1) 0 true in
    if (a <? - v) && (- v <? b) then rec false (bump s (st_add 0 0 0 0 1 0 0 0 0 0 0)) child (ply + 1) (depth - 1) (tl best) (- b) (- a) true
    else (s, (ms, v))
  else rec false s child (ply + 1) (depth - 1) (tl best) (- b) (- a) true.

(* the child loop of pvSearch: result (state, best, α, improved, aborted) *)
Fixpoint pv_loop (rec : rec_t) (k : nat) (ply depth b : Z) (s : sstate) (g : mgen) (i : Z) (best : list rmove) (a : Z) (improved : bool)
  : sstate * list rmove * Z * bool * bool :=
  match k with O => (s, best, a, improved, false) | S k' =>
    let '(g, nx) := mg_next (gfuel g) s g in
    match nx with
    | None => (s, best, a, improved, false)
    | Some (m, child) =>
      let i := i + 1 in
      let s := set_fm s ply m in
      let '(s, (ms, v)) := pv_child rec s child ply depth best a b i in
      let v := - v in
      if a <? v then
        let best := m :: ms in
        let s := set_fpv s ply (set_prefix (znth (fpv s) ply []) best) in
        if b <=? v then (record_cut s m i depth ply, best, v, true, false)
        else if cancelled s then (s, best, v, true, true) else pv_loop rec k' ply depth b s g i best v true
      else if cancelled s then (s, best, a, improved, true) else pv_loop rec k' ply depth b s g i best a improved
    end
  end.

(* the table store at the end of zwSearch / pvSearch (ttPut refuses once the flag is set) *)
Definition zw_store (s : sstate) (p : position) (depth : Z) (best : list rmove) (a : Z) (didcut : bool) : sstate :=
  let '(s, slot) := tt_put s (phash p) in
  match slot with
  | Some i => let s := write_entry s i (phash p) depth (hd move0 best) a (if didcut then 0%N else 2%N) in
              if didcut then s else bump s (st_add 0 0 0 0 0 1 0 0 0 0 0)
  | None => s end.
Definition pv_store (s : sstate) (p : position) (depth : Z) (best : list rmove) (a' b : Z) (improved : bool) : sstate :=
  let h := phash p in
  let '(s, slot) := tt_put s h in
  match slot with
  | Some i =>
    let te1 := nth i (table s) entry0 in
    if negb (e_hash te1 =? h)%N || (e_depth te1 <=? depth) then
      let s := write_entry s i h depth (hd move0 best) a' (if negb improved then 2%N else if b <=? a' then 0%N else 1%N) in
      if negb improved then bump s (st_add 0 0 0 0 0 1 0 0 0 0 0) else s
    else s
  | None => s end.

(* zwSearch, last part: the child loop and the store *)
Definition zw_tail (rec : rec_t) (s : sstate) (g : mgen) (p : position) (ply depth a : Z) (cut : bool) : sres :=
  let g := set_i g 0 in
  let best0 := firstn 1 (znth (fpv s) ply []) in
  let '(s, best, didcut, aborted) := zw_loop rec (gfuel g) ply depth a cut s g 0 best0 in
  if aborted then (s, ([], 0)) else
  (zw_store s p depth best a didcut, (best, if didcut then a + 1 else a)).

(* zwSearch, multi-cut *)
Definition zw_mc (rec : rec_t) (s : sstate) (g0 : mgen) (p : position) (ply depth a : Z) (cut : bool) : sres :=
  if c_multicut cfg && cut && (3 <? depth) then
    let s := bump s (st_add 0 0 0 0 0 0 0 0 0 1 0) in
    let '(g1, first) := mg_next (gfuel g0) s g0 in
    match first with
    | None => zw_tail rec s g1 p ply depth a cut
    | Some (m, child0) =>
      let '(s, g, mccut) := mc_loop rec 8%nat ply depth a cut m s g1 child0 0 0 in
      if mccut then (s, ([], a + 1)) else zw_tail rec s g p ply depth a cut
    end
  else zw_tail rec s g0 p ply depth a cut.

(* zwSearch, slide reduction (m.IsSlide() && m.Slides.Singleton(), origin emptied, destination holds exactly the moved stones) *)
Definition reduce_slide (s : sstate) (p : position) (ply depth : Z) : sstate * Z :=
  if negb (c_noreduce cfg) && (0 <? ply) then
    let m := znth (fm s) (ply - 1) move0 in
    if (5 <=? mT m)%N && (15 <? mS m)%N then
      let sz := wrap8 (Z.of_N (size p)) in
      let i := wrap8 (mX m + wrap8 (mY m * sz)) in
      let l := Z.of_nat (length (nibbles 8 (mS m))) in
      let '(dx, dy) := if (mT m =? 5)%N then (wrap8 (mX m - l), mY m) else if (mT m =? 6)%N then (wrap8 (mX m + l), mY m)
                       else if (mT m =? 7)%N then (mX m, wrap8 (mY m + l)) else (mX m, wrap8 (mY m - l)) in
      let j := wrap8 (dx + wrap8 (dy * sz)) in
      if (nthN (Height p) (Z.to_N i) =? 0)%N && (Z.of_N (nthN (Height p) (Z.to_N j)) =? Z.of_N (N.land (mS m) 15))
      then (bump s (st_add 0 0 0 0 0 0 0 0 1 0 0), depth - 2) else (s, depth)
    else (s, depth)
  else (s, depth).

(* zwSearch: slide reduction, then the generator is created (snapshotTE reads the table as it is now) *)
Definition zw_reduce (rec : rec_t) (s : sstate) (te : option nat) (p : position) (ply depth : Z) (pv : list rmove) (a : Z) (cut : bool) : sres :=
  let '(s, depth) := reduce_slide s p ply depth in
  zw_mc rec s (new_gen s te pv ply depth p) p ply depth a cut.

(* zwSearch after the table probe: null move first *)
Definition zw_node (rec : rec_t) (s : sstate) (te : option nat) (p : position) (ply depth : Z) (pv : list rmove) (a : Z) (cut : bool) : sres :=
  if null_move_ok s ply depth p then
    let s := set_fm s ply {| mX := 0; mY := 0; mT := 1; mS := 0 |} in
    let s := bump s (st_add 0 0 0 0 0 0 1 0 0 0 0) in
    let '(s, (_, v)) := rec true s (pass_move p) (ply + 1) (depth - 3) [] (- a - 1) 0 true in
    if a + 1 <=? - v then (bump s (st_add 0 0 0 0 0 0 0 1 0 0 0), ([], - v))
    else zw_reduce rec s te p ply depth pv a cut
  else zw_reduce rec s te p ply depth pv a cut.

(* pvSearch after the table probe *)
Definition pv_node (rec : rec_t) (s : sstate) (te : option nat) (p : position) (ply depth : Z) (pv : list rmove) (a b : Z) : sres :=
  let g0 := new_gen s te pv ply depth p in
  let arr0 := znth (fpv s) ply [] in
  let best0 := match pv with [] => firstn 1 arr0 | _ => pv end in
  let s := set_fpv s ply (set_prefix arr0 best0) in
  let '(s, best, a', improved, aborted) := pv_loop rec (gfuel g0) ply depth b s g0 0 best0 a false in
  if aborted then (s, ([], 0)) else
  (pv_store s p depth best a' b improved, (best, a')).

(* one node: leaf test, counters, table probe, then zw_node / pv_node *)
Definition srch_step (rec : rec_t) : rec_t := fun zw s p ply depth pv a b cut =>
  let over := is_over p in
  if (depth <=? 0) || over then (count_eval (bump s (st_eval over)), ([], c_eval cfg p)) else
  let s := bump s (st_add 1 (if zw then 1 else if b =? a + 1 then 1 else 0) 0 0 0 0 0 0 0 0 0) in
  let '(s, te, ret) := tt_probe s p ply depth a (if zw then a + 1 else b) in
  match ret with
  | Some r => (s, r)
  | None => if zw then zw_node rec s te p ply depth pv a cut else pv_node rec s te p ply depth pv a b
  end.

Fixpoint srch (fuel : nat) : rec_t :=
  match fuel with
  | O => fun zw s p ply depth pv a b cut => (s, ([], 0))
  | S f => srch_step (srch f)
  end.

(* Analyze: iterative deepening (no deadline, no MaxEvals); result = (pv, value, Stats.Depth, merged Stats, Stats.Canceled) *)
Definition st_merge (a b : stats) : stats :=
  {| s_evaluated := s_evaluated a + s_evaluated b; s_visited := s_visited a + s_visited b; s_scout := s_scout a + s_scout b;
     s_terminal := s_terminal a + s_terminal b; s_tthits := s_tthits a + s_tthits b; s_ttshortcut := s_ttshortcut a + s_ttshortcut b;
     s_research := s_research a + s_research b; s_cutnodes := s_cutnodes a + s_cutnodes b; s_cut0 := s_cut0 a + s_cut0 b;
     s_cut1 := s_cut1 a + s_cut1 b; s_cutsearch := s_cutsearch a + s_cutsearch b; s_allnodes := s_allnodes a + s_allnodes b;
     s_nullsearch := s_nullsearch a + s_nullsearch b; s_nullcut := s_nullcut a + s_nullcut b; s_reduced := s_reduced a + s_reduced b;
     s_mcsearch := s_mcsearch a + s_mcsearch b; s_mccut := s_mccut a + s_mccut b |}.

(* the iterative-deepening loop of Analyze; dmax = Cfg.Depth (read by this loop only), d = Stats.Depth so far *)
Definition reset_st (s : sstate) : sstate :=
  {| table := table s; history := history s; response := response s; fpv := fpv s; fm := fm s; st := stats0; evals := evals s |}.
Definition ares := (sstate * (list rmove * Z * Z * stats * bool))%type.
Fixpoint az_iter (dmax base : Z) (p : position) (k : nat) (i : Z) (s : sstate) (ms : list rmove) (v : Z) (acc : stats) (d : Z) : ares :=
  match k with O => (s, (ms, v, d, acc, false)) | S k' =>
    if dmax <? i + base then (s, (ms, v, d, acc, false)) else
    let s := reset_st s in
    let '(s, (next, nv)) := srch 40 false s p 0 (i + base) ms (MinEval - 1) (MaxEval + 1) true in
    match (if cancelled s then [] else next) with
    | [] => (s, (ms, v, d, acc, true))
    | _ =>
      let acc := st_merge (st s) acc in
      if (WinThreshold <? nv) || (nv <? - WinThreshold) then (s, (next, nv, i + base, acc, false))
      else az_iter dmax base p k' (i + 1) s next nv acc (i + base)
    end
  end.

(* history halving, evaluation counter reset *)
Definition az_start (s0 : sstate) : sstate :=
  {| table := table s0; history := map (fun kv => (fst kv, Z.quot (snd kv) 2)) (history s0); response := response s0;
     fpv := fpv s0; fm := fm s0; st := st s0; evals := 0 |}.
(* the exact root entry: (base, ms, v) *)
Definition az_root (s0 : sstate) (p : position) : Z * list rmove * Z :=
  match tt_get s0 (phash p) with
  | Some i => let te := nth i (table s0) entry0 in
              if (e_bound te =? 1)%N then (e_depth te, [e_m te], if pinned then 0 else e_value te) else (0, [], 0)
  | None => (0, [], 0) end.

Definition analyze_depth (dmax : Z) (s0 : sstate) (p : position) : ares :=
  let s0 := az_start s0 in
  let '(base, ms0, v0) := az_root s0 p in
  az_iter dmax base p 16%nat 1 s0 ms0 v0 stats0 base.

Definition analyze_gen (s0 : sstate) (p : position) : ares := analyze_depth (c_depth cfg) s0 p.

Definition new_state (table_entries : nat) : sstate :=
  {| table := repeat entry0 table_entries; history := []; response := []; fpv := repeat (repeat move0 max_depth) max_depth;
     fm := repeat move0 max_depth; st := stats0; evals := 0 |}.

(* AnalyzeAll: Analyze, then every root move is searched with the window (v-1, v+1); result = (lines, value, depth, canceled).
   Repaired code (fix: AnalyzeAll stops listing lines once the search is cancelled): after every child search of the second pass the
   cancel flag is read; when it is set the loop stops, the lines found so far are reported and Stats.Canceled is set.  pinned = true is
   the code before that repair (the flag is never read in the second pass: an abandoned child search counts as value 0). *)
Definition analyze_all_gen (s0 : sstate) (p : position) : sstate * (list (list rmove) * Z * Z * bool) :=
  let '(s, (pv, v, d, _, canc)) := analyze_gen s0 p in
  match pv with
  | [] => (s, ([], v, d, canc))
  | pm :: pvt =>
    let g0 := new_gen s None pv 0 d p in
    let '(s, out, brk) :=
      (fix loop (k : nat) (s : sstate) (g : mgen) (out : list (list rmove)) : sstate * list (list rmove) * bool :=
         match k with O => (s, out, false) | S k' =>
           let '(g, nx) := mg_next (gfuel g) s g in
           match nx with
           | None => (s, out, false)
           | Some (m, child) =>
             let s := set_fm s 0 m in
             let '(s, (ms, cv)) := srch 40 false s child 1 (d - 1) pvt (- v - 1) (- v + 1) true in
             if negb pinned && cancelled s then (s, out, true) else
             let cv := - cv in
             if negb (cv =? v) then loop k' s g out
             else if move_equal m pm then loop k' s g out
             else loop k' s g (out ++ [m :: ms])
           end
         end) (gfuel g0) s g0 [pv] in
    (s, (out, v, d, canc || brk))
  end.
End Srch.

(* the repaired code (what /repo contains now) *)
Definition analyze_search (basis : list N) (cfg : config) := analyze_gen false basis cfg 0.                 (* never cancelled *)
Definition analyze_cancel (basis : list N) (cfg : config) (k : Z) := analyze_gen false basis cfg k.         (* cancelled inside the k-th leaf evaluation *)
Definition analyze_limited (basis : list N) (cfg : config) (d : Z) := analyze_depth false basis cfg 0 d.    (* uninterrupted, Cfg.Depth = d *)
Definition analyze_all (basis : list N) (cfg : config) := analyze_all_gen false basis cfg 0.
Definition analyze_all_cancel (basis : list N) (cfg : config) (k : Z) := analyze_all_gen false basis cfg k.   (* cancelled inside the k-th leaf evaluation *)
Definition analyze_all_pinned (basis : list N) (cfg : config) (k : Z) := analyze_all_gen true basis cfg k.   (* before the AnalyzeAll repair *)
(* the code before the repairs *)
Definition analyze_pinned (basis : list N) (cfg : config) (k : Z) := analyze_gen true basis cfg k.

(* ai.EvaluateWinner *)
Definition evaluate_winner (p : position) : Z :=
  match game_over p with
  | Some (true, GNone) => 0
  | Some (true, w) => let mine := match w with GWhite => to_move_white p | _ => negb (to_move_white p) end in
                      if mine then Eval.WinBase else - Eval.WinBase
  | _ => 0
  end.
