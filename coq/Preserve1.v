(* C01/C08 strengthening, part 1: the full invariant of positions (pos_ok), the explicit result of a
   placement (placed) with the case analysis of the placement branch of move_prealloc (mv_place_char),
   and preservation of the invariant by placements (place_ok). *)
From Coq Require Import NArith ZArith Arith List Bool Lia ZifyN ZifyBool ZifyNat.
Require Import Board Stack Rules Move Refine RefinePlace RefinePlace2 RefinePlace3 Slide1 Slide2 Slide3 Slide4 Slide5 Slide6 Slide7 Slide8 MoveRefines HashInv GameOver.
Import ListNotations.
Ltac Zify.zify_post_hook ::= Z.div_mod_to_equations.

(* ---- number of pieces on the board ---- *)
Definition sumH (l : list N) : N := fold_right N.add 0%N l.

Lemma sumH_cons a l : sumH (a :: l) = (a + sumH l)%N.
Proof. reflexivity. Qed.

Lemma sumH_updN : forall l i v, (i < length l)%nat -> (sumH (updN l i v) + nth i l 0 = sumH l + v)%N.
Proof.
  induction l as [|a l IH]; intros i v Hi; cbn [length] in Hi; [lia|].
  destruct i as [|i]; cbn [updN nth]; rewrite !sumH_cons; [lia|].
  specialize (IH i v ltac:(lia)). lia.
Qed.

Lemma nth_le_sumH : forall l i, (nth i l 0 <= sumH l)%N.
Proof.
  induction l as [|a l IH]; intros [|i]; cbn [nth]; rewrite ?sumH_cons; try (cbn; lia).
  specialize (IH i). lia.
Qed.

Lemma sumH_repeat0 n : sumH (repeat 0%N n) = 0%N.
Proof. induction n; cbn [repeat]; rewrite ?sumH_cons; auto. Qed.

Lemma updN_nth : forall l i, updN l i (nth i l 0%N) = l.
Proof. induction l as [|a l IH]; intros [|i]; cbn; try reflexivity. now rewrite IH. Qed.

(* ---- the extra clauses of the invariant ---- *)
(* the stack word has no bit at or above Height-1 (so it is 0 for heights 0 and 1) *)
Definition stk_ok (b : bstate) (i : N) : Prop :=
  forall j, (nthN (bhs b) i - 1 <= j)%N -> N.testbit (nthN (bst b) i) j = false.
Definition hi_clear (sz x : N) : Prop := forall j, (sz * sz <= j)%N -> N.testbit x j = false.
Definition mask_ok (sz : N) (b : bstate) : Prop :=
  hi_clear sz (bw b) /\ hi_clear sz (bb b) /\ hi_clear sz (bs b) /\ hi_clear sz (bc b).

Record ext_ok (sz : N) (b : bstate) : Prop := {
  eo_lenH : length (bhs b) = nsq sz;
  eo_lenS : length (bst b) = nsq sz;
  eo_stk : forall i, (i < sz * sz)%N -> stk_ok b i;
  eo_mask : mask_ok sz b;
  eo_hash : hash_inv hsq fnvBasis (nsq sz) b }.

(* The invariant of positions: what New establishes and every successful move preserves. *)
Record pos_ok (p : position) : Prop := {
  po_size : (3 <= size p <= 8)%N;
  po_board : board_ok (size p) (bview p);
  po_res : reserves_ok p;
  po_ext : ext_ok (size p) (bview p) }.

(* pieces in play + reserves *)
Definition total (p : position) : N :=
  (sumH (Height p) + whiteStones p + whiteCaps p + blackStones p + blackCaps p)%N.

(* ---- bit facts above 64 ---- *)
Lemma testbit_setb b i j : (i < 64)%N -> N.testbit (setb b i) j = N.testbit b j || (j =? i)%N.
Proof. intros. unfold setb. now rewrite N.lor_spec, testbit_bit. Qed.
Lemma testbit_clrb b i j : (i < 64)%N -> N.testbit (clrb b i) j = N.testbit b j && negb (j =? i)%N.
Proof. intros. unfold clrb. now rewrite N.ldiff_spec, testbit_bit. Qed.

Lemma hi_clear_setb sz x i : (i < sz * sz)%N -> (sz * sz <= 64)%N -> hi_clear sz x -> hi_clear sz (setb x i).
Proof. intros Hi Hs H j Hj. rewrite testbit_setb by lia. rewrite (H j Hj). cbn [orb]. lia. Qed.
Lemma hi_clear_clrb sz x i : (i < 64)%N -> hi_clear sz x -> hi_clear sz (clrb x i).
Proof. intros Hi H j Hj. rewrite testbit_clrb by lia. now rewrite (H j Hj). Qed.

(* ---- a change confined to the Height/Stacks entries of one square ---- *)
Lemma ext_after sz b b' i hv sv : (3 <= sz <= 8)%N -> (i < sz * sz)%N -> ext_ok sz b ->
  bhs b' = updN (bhs b) (N.to_nat i) hv -> bst b' = updN (bst b) (N.to_nat i) sv ->
  stk_ok b' i -> mask_ok sz b' ->
  bh b' = N.lxor (N.lxor (bh b) (hash_at hsq (bhs b) (bst b) i)) (hash_at hsq (bhs b') (bst b') i) ->
  ext_ok sz b'.
Proof.
  intros Hsz Hi [LH LS ST MK HS] EH ES Hst Hmk Hh.
  assert (Hn : (N.to_nat i < nsq sz)%nat) by (unfold nsq; nia).
  constructor.
  - now rewrite EH, updN_length.
  - now rewrite ES, updN_length.
  - intros j Hj. destruct (N.eq_dec j i) as [->|Hne]; [assumption|].
    intros k Hk. unfold stk_ok in ST. rewrite ES, nthN_updN by lia. rewrite EH, nthN_updN in Hk by lia.
    replace (N.to_nat j =? N.to_nat i)%nat with false in * by lia. now apply ST.
  - assumption.
  - unfold hash_inv. rewrite Hh. apply bracket_preserves; try assumption.
    intros j Hj Hne. rewrite EH, ES, !nthN_updN by lia. rewrite Nat2N.id.
    replace (j =? N.to_nat i)%nat with false by lia. split; reflexivity.
Qed.

(* ---- placements ---- *)
Definition place_white (p : position) : bool := if (move p <? 2)%Z then negb (to_move_white p) else to_move_white p.
Definition place_reserve (p : position) (k : pkind) : N :=
  match k with
  | KCap => if to_move_white p then whiteCaps p else blackCaps p
  | _ => if place_white p then whiteStones p else blackStones p
  end.
Definition kind_code (k : pkind) : N := match k with KFlat => 2 | KStanding => 3 | KCap => 4 | KNone => 0 end.

(* the position the placement branch builds *)
Definition placed (p : position) (k : pkind) (i : N) : position :=
  let pw := place_white p in
  let v := u8 (place_reserve p k + 255) in
  {| size := size p; Move.black_wins_ties := Move.black_wins_ties p;
     whiteStones := match k with KCap => whiteStones p | _ => if pw then v else whiteStones p end;
     whiteCaps := match k with KCap => if to_move_white p then v else whiteCaps p | _ => whiteCaps p end;
     blackStones := match k with KCap => blackStones p | _ => if pw then blackStones p else v end;
     blackCaps := match k with KCap => if to_move_white p then blackCaps p else v | _ => blackCaps p end;
     move := (move p + 1)%Z;
     White := if pw then setb (White p) i else White p;
     Move.Black := if pw then Move.Black p else setb (Move.Black p) i;
     Standing := match k with KStanding => setb (Standing p) i | _ => Standing p end;
     Caps := match k with KCap => setb (Caps p) i | _ => Caps p end;
     Height := updN (Height p) (N.to_nat i) (u8 (nthN (Height p) i + 1));
     Stacks := Stacks p; hash := hash p |}.

Definition off_board (p : position) (m : rmove) : bool :=
  ((mX m <? 0) || (Z.of_N (size p) <=? mX m) || (mY m <? 0) || (Z.of_N (size p) <=? mY m))%Z.

(* the placement branch of MovePreallocated as a decision list *)
Lemma mv_place_char p m k : (3 <= size p <= 8)%N -> length (Height p) = nsq (size p) ->
  k <> KNone -> mT m = kind_code k ->
  mv p m =
  if off_board p m then Err else
  if (move p <? 2)%Z && negb (match k with KFlat => true | _ => false end) then Err else
  let i := sq_index p (mX m) (mY m) in
  if has (N.lor (White p) (Move.Black p)) i then Err else
  if (place_reserve p k <=? 0)%N then Err else Ok (placed p k i).
Proof.
  intros Hsz HL Hk Ht. unfold mv, move_prealloc, off_board. rewrite Ht.
  destruct ((mX m <? 0)%Z || (Z.of_N (size p) <=? mX m)%Z || (mY m <? 0)%Z || (Z.of_N (size p) <=? mY m)%Z) eqn:Hb.
  { destruct k; try contradiction; reflexivity. }
  assert (Hx : (0 <= mX m < Z.of_N (size p))%Z) by lia.
  assert (Hy : (0 <= mY m < Z.of_N (size p))%Z) by lia.
  destruct (sq_index_on_board p (mX m) (mY m) Hsz Hx Hy) as [Ei Li].
  set (i := sq_index p (mX m) (mY m)) in *.
  assert (Hidx : idx (Height p) i = Ok (nthN (Height p) i)).
  { apply idx_ok. unfold nsq in HL. nia. }
  unfold placed, place_reserve, place_white.
  destruct k; try contradiction; cbn -[N.add u8 setb has N.leb Z.ltb];
    destruct (move p <? 2)%Z; cbn -[N.add u8 setb has N.leb Z.ltb]; try reflexivity;
    destruct (has (N.lor (White p) (Move.Black p)) i); try reflexivity;
    destruct (to_move_white p); cbn -[N.add u8 setb has N.leb Z.ltb];
    match goal with |- context [(?r <=? 0)%N] => destruct (r <=? 0)%N end; try reflexivity;
    rewrite Hidx; reflexivity.
Qed.

Lemma u8_pred x : (0 < x < 256)%N -> (u8 (x + 255) + 1 = x)%N.
Proof. unfold u8. intros. lia. Qed.

Lemma hash_at_low hf hs st i : (nthN hs i <= 1)%N -> hash_at hf hs st i = 0%N.
Proof. intros H. unfold hash_at. now replace (nthN hs i <=? 1)%N with true by lia. Qed.

Theorem place_ok p k i : pos_ok p -> k <> KNone -> (i < size p * size p)%N ->
  has (N.lor (White p) (Move.Black p)) i = false -> (0 < place_reserve p k)%N ->
  pos_ok (placed p k i) /\ total (placed p k i) = total p.
Proof.
  intros [Hsz Hbo Hres Hext] Hk Hi Hocc Hr.
  assert (Hi64 : (i < 64)%N) by nia.
  assert (Hbo' := Hbo). destruct Hbo' as [LH LS SQ]. cbn [bview bhs bst] in LH, LS.
  assert (Hil : (N.to_nat i < length (Height p))%nat) by (rewrite LH; unfold nsq; nia).
  destruct (SQ i Hi) as [Hh Ho Hex Htop Hsc]. cbn [bview bhs bw bb bs bc] in *.
  rewrite has_lor in Hocc by assumption. apply orb_false_elim in Hocc as [HW HB].
  assert (Hh0 : nthN (Height p) i = 0%N) by (apply Ho; auto).
  destruct (Htop Hh0) as [HS HC].
  assert (Hresv : (place_reserve p k < 256)%N).
  { destruct Hres as (A & B & C & D). unfold place_reserve. destruct k, (to_move_white p), (place_white p); assumption. }
  set (q := placed p k i).
  assert (Eh : Height q = updN (Height p) (N.to_nat i) 1%N).
  { subst q. unfold placed. cbn [Height]. rewrite Hh0. reflexivity. }
  (* the square *)
  assert (Hsq : sq_ok (bview q) i).
  { constructor; cbn [bview bhs bw bb bs bc]; rewrite ?Eh, ?nthN_updN, ?Nat.eqb_refl by assumption.
    - lia.
    - split; [discriminate|]. subst q. unfold placed. cbn [White Move.Black]. intros [A B].
      destruct (place_white p); rewrite has_set_same in * by assumption; discriminate.
    - subst q. unfold placed. cbn [White Move.Black].
      destruct (place_white p); rewrite has_set_same, ?HW, ?HB by assumption; reflexivity.
    - discriminate.
    - subst q. unfold placed. cbn [Standing Caps].
      destruct k; rewrite ?has_set_same, ?HS, ?HC by assumption; reflexivity. }
  assert (Hse : same_elsewhere (bview p) (bview q) i).
  { unfold same_elsewhere. cbn [bview bhs bst bw bb bs bc]. rewrite Eh, updN_length.
    split; [reflexivity|]. split; [reflexivity|]. intros j Hj Hne.
    rewrite nthN_updN by assumption. replace (N.to_nat j =? N.to_nat i)%nat with false by lia.
    subst q. unfold placed. cbn [Stacks White Move.Black Standing Caps].
    destruct (place_white p), k; rewrite ?has_setb_other by assumption; repeat split; reflexivity. }
  destruct (board_after (size p) (bview p) (bview q) i Hsz Hi Hbo Hsq Hse) as [Hbq _].
  split; [constructor|].
  - exact Hsz.
  - exact Hbq.
  - destruct Hres as (A & B & C & D). subst q. unfold placed, reserves_ok. cbn [whiteStones whiteCaps blackStones blackCaps].
    assert (u8 (place_reserve p k + 255) < 256)%N by (unfold u8; lia).
    destruct k, (place_white p), (to_move_white p); repeat split; assumption.
  - change (size q) with (size p).
    apply (ext_after (size p) (bview p) (bview q) i 1%N (nthN (Stacks p) i)); try assumption.
    + cbn [bview bst]. subst q. unfold placed. cbn [Stacks].
      symmetry. apply updN_nth.
    + intros j Hj. cbn [bview bst bhs]. change (Stacks q) with (Stacks p).
      destruct Hext as [_ _ ST _ _]. apply (ST i Hi). cbn [bview bhs]. rewrite Hh0. lia.
    + destruct Hext as [_ _ _ (M1 & M2 & M3 & M4) _]. cbn [bview bw bb bs bc] in *.
      subst q. unfold placed, mask_ok. cbn [bview bw bb bs bc White Move.Black Standing Caps].
      assert (size p * size p <= 64)%N by nia.
      destruct (place_white p), k; repeat split; try assumption; apply hi_clear_setb; assumption.
    + cbn [bview bh bhs bst]. change (hash q) with (hash p).
      rewrite (hash_at_low hsq (Height p)) by lia.
      rewrite (hash_at_low hsq (Height q)) by (rewrite Eh, nthN_updN, Nat.eqb_refl by assumption; lia).
      now rewrite !N.lxor_0_r.
  - (* conservation *)
    unfold total. assert (E := sumH_updN (Height p) (N.to_nat i) 1%N Hil).
    change (nth (N.to_nat i) (Height p) 0%N) with (nthN (Height p) i) in E. rewrite Hh0 in E.
    rewrite Eh. subst q. unfold placed. cbn [whiteStones whiteCaps blackStones blackCaps].
    assert (P := u8_pred (place_reserve p k) ltac:(lia)).
    unfold place_reserve in *.
    destruct k, (place_white p), (to_move_white p); try contradiction; lia.
Qed.
Print Assumptions place_ok.
