(* OpeningEx.v (C04, opening book): consequences and non-vacuity of OpeningFacts.v.
   book_entries_legal: the invariant of BuildOpeningBook in plain words.
   game_positions_good: every position of a game from tak.New (default counts, sizes 3..6) satisfies the hypotheses that
     opening_book_move_legal puts on the queried position.
   ex_nonvacuous: the 5x5 book with the single line "a1 e5": it builds, all hypotheses hold (NoCollisionOn by computing the
     17 hashes involved), and the start position is answered with a move. *)
From Coq Require Import NArith ZArith Arith List Bool Lia ZifyN ZifyBool ZifyNat Permutation.
Require Import Rules Sym SymRules1 SymRules2 SymRules3 SymRules4.
Require Import Board Stack Move Refine RefinePlace RefinePlace2 RefinePlace3 Slide1 Slide2 Slide3 Slide4 Slide5 Slide6 Slide7 Slide8
  MoveRefines HashInv GameOver Preserve1 Preserve2 PreserveExt Preserve3 Preserve4 Preserve5 Preserve6 Reach1.
Require Import Alloc Generated.Consts.
Require Import Tps Symmetry SymCode1 Canon2 Canon4.
Require Import TpsFacts TpsFacts2 TpsFacts3 TpsFacts4 TpsFacts5 TpsFacts6 TpsFacts8 TpsFacts9 Import1 Import3 Import4 Import5.
Require PtnMove PtnMoveFacts PtnMoveFacts2 AllMovesFacts5.
Require Import Opening OpeningFacts1 OpeningFacts2 OpeningFacts.
Import ListNotations.

(* ---- the invariant, in plain words ---- *)
Theorem book_entries_legal sz lines b (S : position -> Prop) :
  NoCollisionOn S -> (forall q, book_position sz lines q -> S q) -> lines_heights64 sz lines ->
  build_book gen_basis sz lines = BOk b ->
  forall e, In e b ->
    be_hash e = hash_of (be_pos e) /\ be_moves e <> [] /\
    forall c, In c (be_moves e) -> exists q', mv (be_pos e) (ch_move c) = Ok q'.
Proof.
  intros NC HS H64 Hb e He. destruct (build_book_ok sz lines b S NC HS H64 Hb) as [B1 B2].
  pose proof (proj1 (Forall_forall _ _) B1 e He) as [O1 _ _ O4]. pose proof (proj1 (Forall_forall _ _) B2 e He) as Hne.
  split; [exact O1|]. split; [exact Hne|]. intros c Hc.
  destruct (proj1 (Forall_forall _ _) O4 c Hc) as [(q' & E & _) _]. exists q'. exact E.
Qed.

(* ---- positions of a real game satisfy the hypotheses on the queried position ---- *)
Lemma good_step p m p' : good p -> (total p <= 64)%N -> mv p m = Ok p' -> good p' /\ (total p' <= 64)%N.
Proof.
  intros [Hp RM Hb Ho] Ht E.
  destruct (move_preserves_small p m p' Hp Ht (mv_not_pass _ _ _ E) E) as (R & Hp' & St).
  split; [|rewrite (st_total _ _ St); exact Ht].
  constructor; [exact Hp'| | |].
  - apply (move_reserves_match p m p' Hp Hp' RM R). now destruct St.
  - rewrite (st_bwt _ _ St). exact Hb.
  - apply (opening_inv_step p m p' Ho); [now destruct St|exact R].
Qed.

Lemma replay_stuck ms (r : res position) : (forall q, r <> Ok q) ->
  fold_left (fun r m => match r with Ok q => mv q m | e => e end) ms r = r.
Proof. induction ms as [|m ms IH]; intros H; cbn [fold_left]; [reflexivity|]. destruct r; [exfalso; eapply H; reflexivity|apply IH; exact H|apply IH; exact H]. Qed.

Lemma replay_good : forall ms p q, good p -> (total p <= 64)%N -> AllMovesFacts5.replay p ms = Ok q -> good q.
Proof.
  induction ms as [|m ms IH]; intros p q Gp Ht H; unfold AllMovesFacts5.replay in H; cbn [fold_left] in H; [now injection H as <-|].
  destruct (mv p m) as [p'| |] eqn:E.
  - destruct (good_step p m p' Gp Ht E) as (Gp' & Ht'). apply (IH p' q Gp' Ht'). exact H.
  - rewrite replay_stuck in H by (intros; discriminate). discriminate.
  - rewrite replay_stuck in H by (intros; discriminate). discriminate.
Qed.

Theorem game_positions_good sz p0 ms p : (sz <= 6)%Z -> new_pos gen_basis sz = Ok p0 -> AllMovesFacts5.replay p0 ms = Ok p ->
  pos_ok p /\ reserves_match_board p /\ opening_consistent p.
Proof.
  intros Hs Hn Hr. destruct (new_pos_good sz p0 Hn) as (G0 & _).
  destruct (replay_good ms p0 p G0 (new_pos_total sz p0 Hs Hn) Hr) as [A B _ D].
  split; [exact A|]. split; [exact B|]. now apply opening_inv_consistent.
Qed.

(* ---- a decidable check of NoCollisionOn for a finite list of positions ---- *)
Definition ncb (L : list position) : bool :=
  forallb (fun a => forallb (fun b =>
     negb (hash_of a =? hash_of b)%N ||
     (list_eqb (list_eqb piece_eqb) (sq (abs a)) (sq (abs b)) && Bool.eqb (Z.even (Move.move a)) (Z.even (Move.move b)))) L) L.

Lemma ncb_sound L : ncb L = true -> NoCollisionOn (fun x => In x L).
Proof.
  intros H a b Ha Hb Eh. unfold ncb in H. rewrite forallb_forall in H. specialize (H a Ha). rewrite forallb_forall in H. specialize (H b Hb).
  apply N.eqb_eq in Eh. rewrite Eh in H. cbn [negb orb] in H. apply andb_true_iff in H as [H1 H2].
  split; [|now apply eqb_prop].
  apply (list_eqb_sound (list_eqb piece_eqb)); [|exact H1]. apply list_eqb_sound. apply piece_eqb_sound.
Qed.

Lemma nc_subset (S S' : position -> Prop) : (forall x, S x -> S' x) -> NoCollisionOn S' -> NoCollisionOn S.
Proof. intros Hs H a b Ha Hb. apply H; now apply Hs. Qed.

(* ---- the example: size 5, one line "a1 e5" ---- *)
Definition ex_line : list N := [97; 49; 32; 101; 53]%N.
Definition ex_w1 : list N := [97; 49]%N.
Definition ex_w2 : list N := [101; 53]%N.
Definition ex_p0 : position := Eval vm_compute in match new_pos gen_basis 5 with Ok p => p | _ => zero_pos 5 end.
Definition ex_mA : PtnMove.move := Eval vm_compute in match PtnMove.parse_move ex_w1 with PtnMove.Ok m => m | _ => PtnMove.Build_move 0 0 0 0 end.
Definition ex_p1 : position := Eval vm_compute in match mv ex_p0 (to_rmove ex_mA) with Ok p => p | _ => zero_pos 5 end.
Definition ex_book : book := Eval vm_compute in match build_book gen_basis 5 [ex_line] with BOk b => b | _ => [] end.
Definition ex_list : list position := ex_p0 :: map (imgk ex_p0) (seq 0 8) ++ map (imgk ex_p1) (seq 0 8).

Lemma ex_new : new_pos gen_basis 5 = Ok ex_p0. Proof. vm_compute. reflexivity. Qed.
Lemma ex_split : split_sp ex_line [] = [ex_w1; ex_w2]. Proof. vm_compute. reflexivity. Qed.
Lemma ex_parse : PtnMove.parse_move ex_w1 = PtnMove.Ok ex_mA. Proof. vm_compute. reflexivity. Qed.
Lemma ex_move : mv ex_p0 (to_rmove ex_mA) = Ok ex_p1. Proof. vm_compute. reflexivity. Qed.
Lemma ex_build : build_book gen_basis 5 [ex_line] = BOk ex_book. Proof. vm_compute. reflexivity. Qed.
Lemma ex_ncb : ncb ex_list = true. Proof. vm_compute. reflexivity. Qed.

Lemma ex_positions q : book_position 5 [ex_line] q -> In q ex_list.
Proof.
  intros (line & p0 & q0 & k & Hl & Hn & Ho & Hk & ->).
  destruct Hl as [<-|[]]. rewrite ex_new in Hn. injection Hn as <-. rewrite ex_split in Ho.
  assert (Hq : q0 = ex_p0 \/ q0 = ex_p1).
  { inversion Ho as [? ? ? ? _|? ? ? m0 p' ? P M O]; subst; [now left|right].
    rewrite ex_parse in P. injection P as <-. rewrite ex_move in M. injection M as <-.
    inversion O as [? ? ? ? _|? ? ? ? ? ? _ _ O2]; subst; [reflexivity|inversion O2]. }
  unfold ex_list. right. apply in_or_app.
  destruct Hq as [-> | ->]; [left|right]; apply in_map; apply in_seq; lia.
Qed.

Theorem ex_nonvacuous :
  exists (b : book) (p : position) (m : rmove) (j : nat),
  build_book gen_basis 5 [ex_line] = BOk b /\
  lines_heights64 5 [ex_line] /\
  NoCollisionOn (fun x => x = p \/ book_position 5 [ex_line] x) /\
  pos_ok p /\ reserves_match_board p /\ opening_consistent p /\
  in_range (fun _ _ => 0%Z) /\
  book_get_move b p (fun _ _ => 0%Z) 0 = Ok (m, true, j) /\ m <> zero_move.
Proof.
  destruct (new_pos_good 5 ex_p0 ex_new) as ([Hp RM _ Ho] & _).
  destruct (book_get_move ex_book ex_p0 (fun _ _ => 0%Z) 0) as [[[m ok] j]| |] eqn:G; [|vm_compute in G; discriminate|vm_compute in G; discriminate].
  exists ex_book, ex_p0, m, j.
  split; [exact ex_build|]. split; [apply small_lines_heights64; lia|].
  split. { apply (nc_subset _ (fun x => In x ex_list)); [|exact (ncb_sound _ ex_ncb)]. intros x [->|Hx]; [now left|now apply ex_positions]. }
  split; [exact Hp|]. split; [exact RM|]. split; [now apply opening_inv_consistent|].
  split; [intros i n Hn; lia|].
  vm_compute in G. injection G as <- <- <-. split; [reflexivity|discriminate].
Qed.
