(* SearchAllInst.v: AnalyzeAll of the engine model with the context cancelled inside the k-th leaf evaluation (k = 0: never), instantiated
   with the hash basis regenerated from /repo: the entry points the OCaml drivers of C05 / C16 call.  run_analyze_all_cancel = the repaired
   code, run_analyze_all_pinned = the code before the AnalyzeAll repair. *)
From Coq Require Import NArith ZArith List.
Require Import Board Move GameOver Eval Search.
Require Import Generated.Consts.

Definition run_analyze_all_cancel (cfg : config) (k : Z) (s : sstate) (p : position) := analyze_all_cancel gen_basis cfg k s p.
Definition run_analyze_all_pinned (cfg : config) (k : Z) (s : sstate) (p : position) := analyze_all_pinned gen_basis cfg k s p.
