(* SearchDedupEx.v: non-vacuity of dedup_value_preserving (SearchDedup4.v), computed on the instantiated model: the empty 3x3 board
   (ply 0: the de-duplication is active at the root and one ply below), depth 2, EvaluateWinner, no table, DedupSymmetry ON.
   All hypotheses hold - touched set: the tree of depth 2 below the start position; dedup_nocollision by a boolean check over its
   nodes - the theorem applies, and the run with the option visits fewer positions than the run without it and reports the same value. *)
From Coq Require Import NArith ZArith List Bool Lia.
Require Import Board Stack Rules Move GameOver Refine Alloc Preserve1 Reach1 PreserveEx Tps Symmetry TpsFacts5 Import5 OpeningFacts2.
Require Import Eval EvalSpec Search NegamaxSpec SearchGen SearchExact SearchInst SearchC CancelEx SearchNeg2 SearchNeg3 SearchNeg5.
Require Import SearchTable5 SearchDedup SearchDedupInst SearchDedup2 SearchDedup3 SearchDedup4.
Require Import Generated.Consts.
Import ListNotations.
Open Scope Z_scope.

Definition cfg_dd := mk_cfg 2 true true true false 1.       (* depth 2, NoSort, precise, EvaluateWinner *)
Definition Udd := Ulev start3 2.

Definition nc_checkb (ps : list position) : bool :=
  forallb (fun p => is_over p || negb (move p <? max_dedup) ||
    let cs := children gen_basis p in
    forallb (fun q => forallb (fun q' => forallb (fun k => negb (phash q =? hash_of (imgk q' k))%N || pos_eqb q (imgk q' k)) (seq 0 8)) cs) cs) ps.

Lemma nc_checkb_ok ps : nc_checkb ps = true -> forall p q q' k, In p ps -> is_over p = false -> move p < max_dedup ->
  In q (children gen_basis p) -> In q' (children gen_basis p) -> (k < 8)%nat -> phash q = hash_of (imgk q' k) -> q = imgk q' k.
Proof.
  intros H p q q' k Hp EO Hm Hq Hq' Hk E. unfold nc_checkb in H. rewrite forallb_forall in H. specialize (H p Hp).
  rewrite EO in H. replace (move p <? max_dedup) with true in H by (symmetry; apply Z.ltb_lt; exact Hm). cbn [negb orb] in H.
  rewrite forallb_forall in H. specialize (H q Hq). rewrite forallb_forall in H. specialize (H q' Hq').
  rewrite forallb_forall in H. specialize (H k ltac:(apply in_seq; lia)).
  apply orb_true_iff in H. destruct H as [H|H]; [apply negb_true_iff in H; apply N.eqb_neq in H; contradiction|apply pos_eqb_eq; exact H].
Qed.

Lemma nc_check_ex : nc_checkb (lev start3 1) = true.
Proof. vm_compute. reflexivity. Qed.

Lemma Udd_closed : closedU Udd.
Proof.
  intros d p q (LE & H) EO Hq. split; [lia|]. replace (2 - d)%nat with (S (2 - S d)) by lia. apply (lev_step start3 _ p q H EO Hq).
Qed.

Lemma nc_ex : dedup_nocollision (PosG Udd).
Proof.
  intros d p q q' k (_ & _ & (LE & Hp)) EO Hm Hq Hq' Hk E.
  apply (nc_checkb_ok _ nc_check_ex p q q' k); try assumption.
  assert (J : exists j, (2 - S d)%nat = j /\ (j <= 1)%nat) by (eexists; split; [reflexivity|lia]). destruct J as (j & EJ & LJ). rewrite EJ in Hp.
  destruct j as [|[|j]]; [apply lev_mono; exact Hp|exact Hp|lia].
Qed.

Lemma G_start3 : G start3.
Proof.
  pose proof (base_ok_new 3 false 10 0 ltac:(lia) ltac:(lia) ltac:(lia) ltac:(lia)) as (Hp & _). rewrite <- start3_new in Hp.
  split; [|vm_compute; intros F; discriminate F]. constructor; [exact Hp| |reflexivity|].
  - unfold reserves_match_board. vm_compute. repeat split; try reflexivity; intros F; discriminate F.
  - assert (E1 : rsum_p start3 = 20%N) by (vm_compute; reflexivity). assert (E2 : rfull start3 = 20%N) by (vm_compute; reflexivity).
    assert (E3 : Move.move start3 = 0) by reflexivity. unfold opening_inv. rewrite E1, E2, E3. lia.
Qed.

Definition r_acc_d (r : list rmove * Z * Z * stats * bool) : stats := let '(_, _, _, a, _) := r in a.
Definition run_on := run_analyze_d true cfg_dd 0 (new_state 0) start3.
Definition run_off := run_analyze_d false cfg_dd 0 (new_state 0) start3.

Lemma runs_dd : r_value (snd run_on) = r_value (snd run_off) /\ r_depth (snd run_on) = 2 /\ r_depth (snd run_off) = 2 /\
  s_visited (r_acc_d (snd run_on)) < s_visited (r_acc_d (snd run_off)) /\ r_value (snd run_on) = nmx gen_basis evaluate_winner 2 start3.
Proof. vm_compute. repeat split. Qed.

Example dedup_theorem_applies :
  precise cfg_dd /\ c_eval cfg_dd = evaluate_winner /\ closedU Udd /\ dedup_nocollision (PosG Udd) /\ base_ok start3 /\ G start3 /\
  exact_result gen_basis cfg_dd start3 (r_pv (snd run_on)) (r_value (snd run_on)) (r_depth (snd run_on)).
Proof.
  assert (HP : precise cfg_dd) by (repeat split).
  assert (Hb : base_ok start3) by (rewrite start3_new; apply base_ok_new; lia).
  assert (E : analyze_gen_d gen_basis cfg_dd 0 true (new_state 0) start3 =
              (fst run_on, (r_pv (snd run_on), r_value (snd run_on), r_depth (snd run_on), r_acc_d (snd run_on), r_canceled (snd run_on)))).
  { unfold run_on, run_analyze_d. destruct (analyze_gen_d gen_basis cfg_dd 0 true (new_state 0) start3) as [s [[[[pv v] d] acc] c]]. reflexivity. }
  destruct runs_dd as (_ & D & _).
  assert (P0 : 0 < 2) by lia.
  split; [exact HP|]. split; [reflexivity|]. split; [exact Udd_closed|]. split; [exact nc_ex|]. split; [exact Hb|]. split; [exact G_start3|].
  pose proof (analyze_dedup_exact_winner cfg_dd Udd HP) as T0.
  assert (HE : c_eval cfg_dd = evaluate_winner) by reflexivity.
  specialize (T0 HE Udd_closed nc_ex 0 true (new_state 0) start3 (fst run_on) (r_pv (snd run_on)) (r_value (snd run_on))).
  specialize (T0 (r_depth (snd run_on)) (r_acc_d (snd run_on)) (r_canceled (snd run_on)) (SI_new 0 eq_refl) Hb G_start3).
  assert (M : move start3 + 16 <= max_terminal_ply) by (vm_compute; intros F; discriminate F).
  specialize (T0 M).
  assert (HUp : forall d0 : nat, (1 <= d0 <= 16)%nat -> Z.of_nat d0 <= c_depth cfg_dd -> Udd d0 start3).
  { intros d0 H1 H2. change (c_depth cfg_dd) with 2 in H2. apply Ulev_root. lia. }
  specialize (T0 HUp E). apply (proj2 T0). rewrite D. exact P0.
Qed.
