(* Soundness of `proven` for the depth-first proof-number search of Dfpn.v (the model of prove/dfpn.go), under explicit
   hypotheses about the set Sp of positions a run may touch: no hash collision on Sp (and no position with the key of an
   empty slot), immediate threats reported by CountThreats are real (C19), a live position has a move. *)
From Coq Require Import NArith ZArith List Bool Lia Arith.
Require Import Board Move GameOver Eval Search AndOr Pn PnFacts Dfpn.
Import ListNotations.
Open Scope N_scope.

Lemma all_moves_le p : size p <= 8 -> N.of_nat (length (all_moves p)) <= 65280.
Proof.
  intros Hs. unfold all_moves.
  set (sz := N.to_nat (size p)).
  assert (Hsz : N.of_nat sz <= 8) by (unfold sz; lia).
  match goal with |- N.of_nat (length (flat_map ?f ?l)) <= _ =>
    assert (H : N.of_nat (length (flat_map f l)) <= N.of_nat (length l) * (8 * 1020)) end.
  { apply flat_map_lenN. intros x.
    match goal with |- N.of_nat (length (flat_map ?f ?l)) <= _ =>
      assert (H : N.of_nat (length (flat_map f l)) <= N.of_nat (length l) * 1020) end.
    { apply flat_map_lenN. intros y.
      repeat match goal with |- context[if ?b then _ else _] => destruct b end; cbn [length]; try lia.
      match goal with |- N.of_nat (length (flat_map ?f ?l)) <= _ =>
        assert (H : N.of_nat (length (flat_map f l)) <= N.of_nat (length l) * 255) end.
      { apply flat_map_lenN. intros [t d].
        match goal with |- N.of_nat (length (flat_map ?f ?l)) <= _ =>
          assert (H : N.of_nat (length (flat_map f l)) <= N.of_nat (length l) * 1) end.
        { apply flat_map_lenN. intros s. destruct (_ =? _); cbn; lia. }
        pose proof (slides_rows_small (N.to_nat (N.min (nthN (Height p) (N.of_nat (y * sz + x))) (size p)))). lia. }
      cbn [length] in H. lia. }
    rewrite seq_length in H. lia. }
  rewrite seq_length in H. lia.
Qed.

(* the kernel must not try to evaluate the bit-level functions on abstract positions when it compares a definition with its body *)
Strategy 1000 [solve lookup game_over all_moves hash_of count_threats analyze check_repetition].

Definition INFv : N := 1073741824.
Lemma INF_val : INF = INFv. Proof. reflexivity. Qed.

Section DfpnSound.
Variable basis : list N.
Variable aw : bool.                          (* the attacker is White *)
Variable Sp : position -> Prop.               (* the positions a run may touch, e.g. everything reachable from the root *)

Notation W := (PnFacts.W basis aw).
Notation term := (PnFacts.terminal aw).
Notation attp := (PnFacts.attp aw).
Notation succs := (PnFacts.succs basis).
Notation dmv := (Dfpn.dmv basis).

Hypothesis S_step : forall p m q, Sp p -> term p = None -> In m (all_moves p) -> dmv p m = Ok q -> Sp q.
Hypothesis S_small : forall p, Sp p -> size p <= 8.
(* NoCollisionOn Sp: positions of Sp with the same hash are the same for the game *)
Hypothesis S_hash : forall p q, Sp p -> Sp q -> hash_of p = hash_of q ->
  (W p <-> W q) /\ to_move_white p = to_move_white q /\ term p = term q.
Hypothesis S_nonzero : forall p, Sp p -> hash_of p <> 0.          (* 0 is the key of an empty table slot *)
Hypothesis S_moves : forall p, Sp p -> term p = None -> all_moves p <> [].      (* a live position has a move *)
(* C19: an immediate threat of the attacker reported by CountThreats is a forced win *)
Hypothesis threats_sound : forall p, Sp p -> term p = None -> solve p <> None -> attp p = true -> W p.

(* ---------- what an entry (phi, delta) says about a position ---------- *)
Definition bounded (ph de : N) : Prop := ph <= INF /\ de <= INF.
Definition canon (ph de : N) : Prop := (ph = 0 -> de = INF) /\ (de = 0 -> ph = INF).
Definition solved (ph de : N) : Prop := ph = 0 \/ de = 0.
(* proven: phi = 0 where the attacker is to move, delta = 0 where the defender is *)
Definition claim (p : position) (ph de : N) : Prop :=
  (attp p = true -> ph = 0 -> W p) /\ (attp p = false -> de = 0 -> W p).
Definition entry_ok (p : position) (ph de : N) : Prop :=
  bounded ph de /\ canon ph de /\ claim p ph de /\ (term p <> None -> solved ph de).

Definition good_entry (e : dentry) : Prop :=
  forall p, Sp p -> hash_of p = d_hash e -> entry_ok p (d_phi e) (d_delta e).
Definition table_ok (s : dstate) : Prop := Forall good_entry (dtable s).

Lemma entry_transfer p q ph de : Sp p -> Sp q -> hash_of q = hash_of p -> entry_ok p ph de -> entry_ok q ph de.
Proof.
  intros Hp Hq Hh (Hb & Hc & (C1 & C2) & Ht). destruct (S_hash q p Hq Hp Hh) as (HW & Hm & Htm).
  assert (Ha : attp q = attp p) by (unfold PnFacts.attp; now rewrite Hm).
  repeat split; try apply Hb; try apply Hc.
  - intros A Z. apply HW. apply C1; [now rewrite <- Ha|assumption].
  - intros A Z. apply HW. apply C2; [now rewrite <- Ha|assumption].
  - intros Hn. apply Ht. now rewrite <- Htm.
Qed.

Lemma good_of_ok g e : Sp g -> d_hash e = hash_of g -> entry_ok g (d_phi e) (d_delta e) -> good_entry e.
Proof. intros Hg Hh Hok p Hp Hph. apply entry_transfer with (p := g); auto. congruence. Qed.

Lemma good_dentry0 : good_entry dentry0.
Proof. intros p Hp Hh. cbn in Hh. now apply S_nonzero in Hp. Qed.

(* a solved entry is beyond every threshold: mid returns it unchanged *)
Lemma solved_exceeded ph de bphi bdelta :
  canon ph de -> solved ph de -> bphi <= INF -> bdelta <= INF -> exceeded ph de bphi bdelta = true.
Proof.
  intros [C1 C2] [H|H] Hb1 Hb2; unfold exceeded; apply orb_true_iff.
  - right. rewrite (C1 H). now apply N.leb_le.
  - left. rewrite (C2 H). now apply N.leb_le.
Qed.

(* ---------- terminalBounds ---------- *)
Lemma terminal_bounds_forms p r : terminal_bounds aw p r = (0, INF) \/ terminal_bounds aw p r = (INF, 0).
Proof. unfold terminal_bounds. destruct (Bool.eqb _ _); auto. Qed.

Lemma terminal_bounds_basic p r ph de : terminal_bounds aw p r = (ph, de) -> bounded ph de /\ canon ph de /\ solved ph de.
Proof.
  intros E. destruct (terminal_bounds_forms p r) as [F|F]; rewrite F in E; injection E as <- <-; rewrite INF_val; unfold bounded, canon, solved, INFv; repeat split; try lia; auto; try discriminate.
Qed.

(* a finished position: the bounds claim a win only for the real winner *)
Lemma terminal_bounds_over p who ph de :
  game_over p = Some (true, who) -> terminal_bounds aw p who = (ph, de) -> claim p ph de.
Proof.
  intros Eg E. unfold terminal_bounds in E.
  assert (Ht : (match who with GWhite => aw | GBlack => negb aw | GNone => false end) = true -> W p).
  { intros H. apply W_term. unfold PnFacts.terminal. rewrite Eg, H. reflexivity. }
  unfold claim, PnFacts.attp. destruct who, aw, (to_move_white p); cbn in *; injection E as <- <-; rewrite ?INF_val; unfold INFv;
    split; intros A Z; try discriminate; auto.
Qed.

(* repetition: never a proven claim *)
Lemma terminal_bounds_rep p ph de : terminal_bounds aw p GNone = (ph, de) -> claim p ph de.
Proof.
  intros E. unfold terminal_bounds in E. unfold claim, PnFacts.attp.
  destruct aw, (to_move_white p); cbn in *; injection E as <- <-; rewrite ?INF_val; unfold INFv; split; intros A Z; discriminate.
Qed.

Lemma solve_mover p r : solve p = Some r -> terminal_bounds aw p r = (0, INF).
Proof.
  unfold solve. destruct (analyze p) as [[wg bg]|]; [|discriminate].
  destruct (count_threats _ _ _ _) as [[[wp wtt] bp] btt].
  unfold terminal_bounds.
  destruct ((0 <? wp + wtt)%Z && to_move_white p) eqn:E1.
  - intros H. injection H as <-. apply andb_true_iff in E1 as [_ E1]. rewrite E1. now destruct aw.
  - destruct ((0 <? bp + btt)%Z && negb (to_move_white p)) eqn:E2; [|discriminate].
    intros H. injection H as <-. apply andb_true_iff in E2 as [_ E2]. apply negb_true_iff in E2. rewrite E2. now destruct aw.
Qed.

(* ---------- computePNs ---------- *)
Definition capsum (acc ph : N) : N := if INF <? acc + ph then INF else acc + ph.
Definition cphi (ch : dchild) : N := d_phi (ch_data ch).
Definition cdelta (ch : dchild) : N := d_delta (ch_data ch).

Lemma compute_pns_split cs a b :
  fold_left (fun (acc : N * N) ch => let d := snd acc + cphi ch in (N.min (fst acc) (cdelta ch), if INF <? d then INF else d)) cs (a, b) =
  (fold_left (fun m ch => N.min m (cdelta ch)) cs a, fold_left (fun s ch => capsum s (cphi ch)) cs b).
Proof. revert a b. induction cs as [|c r IH]; intros a b; cbn; [reflexivity|]. apply IH. Qed.

Lemma fmin_le cs a : fold_left (fun m ch => N.min m (cdelta ch)) cs a <= a.
Proof. revert a. induction cs as [|c r IH]; intros a; cbn; [lia|]. specialize (IH (N.min a (cdelta c))). lia. Qed.

Lemma fmin_0 cs a : fold_left (fun m ch => N.min m (cdelta ch)) cs a = 0 -> a = 0 \/ exists ch, In ch cs /\ cdelta ch = 0.
Proof.
  revert a. induction cs as [|c r IH]; intros a H; cbn in H; [now left|].
  apply IH in H as [H|(c' & Hc & H0)].
  - destruct (N.min_spec a (cdelta c)) as [[_ E]|[_ E]]; rewrite E in H; [now left|]. right. exists c. split; [now left|assumption].
  - right. exists c'. split; [now right|assumption].
Qed.

Lemma fmin_all cs a v : a = v -> (forall ch, In ch cs -> cdelta ch = v) -> fold_left (fun m ch => N.min m (cdelta ch)) cs a = v.
Proof.
  revert a. induction cs as [|c r IH]; intros a Ha H; cbn; [assumption|].
  apply IH; [|intros; apply H; now right]. rewrite (H c (or_introl eq_refl)). lia.
Qed.

Lemma capsum_le acc ph : capsum acc ph <= INF.
Proof. unfold capsum. destruct (INF <? acc + ph) eqn:E; [lia|]. apply N.ltb_ge in E. assumption. Qed.
Lemma capsum_ge_acc acc ph : acc <= INF -> acc <= capsum acc ph.
Proof. unfold capsum. destruct (INF <? acc + ph); lia. Qed.
Lemma capsum_ge_ph acc ph : ph <= INF -> ph <= capsum acc ph.
Proof. unfold capsum. destruct (INF <? acc + ph); lia. Qed.
Lemma capsum_0 acc ph : capsum acc ph = 0 -> acc = 0 /\ ph = 0.
Proof. unfold capsum. rewrite INF_val. unfold INFv. destruct (_ <? _); [discriminate|lia]. Qed.

Lemma fsum_le cs b : b <= INF -> fold_left (fun s ch => capsum s (cphi ch)) cs b <= INF.
Proof. revert b. induction cs as [|c r IH]; intros b Hb; cbn; [assumption|]. apply IH. apply capsum_le. Qed.

Lemma fsum_ge cs b : b <= INF -> b <= fold_left (fun s ch => capsum s (cphi ch)) cs b /\
  forall ch, In ch cs -> cphi ch <= INF -> cphi ch <= fold_left (fun s ch => capsum s (cphi ch)) cs b.
Proof.
  revert b. induction cs as [|c r IH]; intros b Hb; cbn; [split; [lia|intros ? []]|].
  destruct (IH (capsum b (cphi c)) (capsum_le _ _)) as [I1 I2]. split.
  - pose proof (capsum_ge_acc b (cphi c) Hb). lia.
  - intros ch [Heq|Hin] Hle; [subst ch|now apply I2]. pose proof (capsum_ge_ph b (cphi c) Hle). lia.
Qed.

Lemma fsum_0 cs b : fold_left (fun s ch => capsum s (cphi ch)) cs b = 0 -> b = 0 /\ forall ch, In ch cs -> cphi ch = 0.
Proof.
  revert b. induction cs as [|c r IH]; intros b H; cbn in H; [split; [assumption|intros ? []]|].
  apply IH in H as [H Hr]. apply capsum_0 in H as [Hb Hc]. split; [assumption|]. intros c' [<-|Hin]; auto.
Qed.

Lemma compute_pns_eq cs : compute_pns cs =
  (fold_left (fun m ch => N.min m (cdelta ch)) cs INF, fold_left (fun s ch => capsum s (cphi ch)) cs 0).
Proof. unfold compute_pns. apply compute_pns_split. Qed.

(* ---------- a node from its children ---------- *)
Definition child_ok (g : position) (ch : dchild) : Prop :=
  Sp (ch_g ch) /\ (exists m, In m (all_moves g) /\ dmv g m = Ok (ch_g ch)) /\
  d_hash (ch_data ch) = hash_of (ch_g ch) /\ entry_ok (ch_g ch) (cphi ch) (cdelta ch).
Definition complete (g : position) (cs : list dchild) : Prop :=
  (forall m q, In m (all_moves g) -> dmv g m = Ok q -> exists ch, In ch cs /\ ch_g ch = q) \/
  (exists ch, In ch cs /\ cdelta ch = 0).

Lemma INF_pos : INF <> 0. Proof. rewrite INF_val. discriminate. Qed.

Lemma attp_flip g m q : dmv g m = Ok q -> attp q = negb (attp g).
Proof.
  intros E. unfold PnFacts.attp. unfold Dfpn.dmv in E. rewrite (to_move_flip _ _ _ _ _ E).
  destruct (to_move_white g), aw; reflexivity.
Qed.

Lemma dmv_succ g m q : In m (all_moves g) -> dmv g m = Ok q -> In q (succs g).
Proof. intros Hm E. apply succs_in with (m := m); assumption. Qed.

Lemma node_entry g cs ph de :
  Sp g -> term g = None -> Forall (child_ok g) cs -> complete g cs -> compute_pns cs = (ph, de) -> entry_ok g ph de.
Proof.
  intros Hg Ht Hcs Hcomp E. rewrite compute_pns_eq in E. injection E as Eph Ede.
  rewrite Forall_forall in Hcs.
  assert (Hb : bounded ph de).
  { split; [subst ph; apply fmin_le|subst de; apply fsum_le; rewrite INF_val; unfold INFv; lia]. }
  assert (Hphi0 : ph = 0 -> exists ch, In ch cs /\ cdelta ch = 0).
  { intros H0. rewrite H0 in Eph. apply fmin_0 in Eph as [Eph|Eph]; [now apply INF_pos in Eph|assumption]. }
  assert (Hde0 : de = 0 -> forall ch, In ch cs -> cphi ch = 0).
  { intros H0. rewrite H0 in Ede. now apply fsum_0 in Ede as [_ Ede]. }
  assert (Hcanon : canon ph de).
  { split.
    - intros H0. destruct (Hphi0 H0) as (ch & Hin & Hd).
      destruct (Hcs ch Hin) as (_ & _ & _ & (Hbd & [_ Hc2] & _)).
      assert (cphi ch <= de).
      { subst de. apply fsum_ge; [rewrite INF_val; unfold INFv; lia|assumption|apply Hbd]. }
      rewrite (Hc2 Hd) in H. destruct Hb. lia.
    - intros H0. subst ph. apply fmin_all; [reflexivity|]. intros ch Hin.
      destruct (Hcs ch Hin) as (_ & _ & _ & (_ & [Hc1 _] & _)). apply Hc1. now apply Hde0. }
  repeat split; try apply Hb; try apply Hcanon.
  - (* attacker to move, phi = 0: a child with delta = 0 *)
    intros Ha H0. destruct (Hphi0 H0) as (ch & Hin & Hd).
    destruct (Hcs ch Hin) as (_ & (m & Hm & Em) & _ & (_ & _ & [_ C2] & _)).
    apply W_or with (q := ch_g ch); auto. { eapply dmv_succ; eauto. }
    apply C2; [|assumption]. rewrite (attp_flip _ _ _ Em), Ha. reflexivity.
  - (* defender to move, delta = 0: every child has phi = 0, and the children are all the moves *)
    intros Ha H0. pose proof (Hde0 H0) as Hall.
    destruct Hcomp as [Hcomp|(ch & Hin & Hd)].
    + apply W_and; auto. intros q Hq. apply in_succs in Hq as (m & Hm & Em).
      destruct (Hcomp m q Hm Em) as (ch & Hin & <-).
      destruct (Hcs ch Hin) as (_ & _ & _ & (_ & _ & [C1 _] & _)).
      apply C1; [|now apply Hall]. rewrite (attp_flip _ _ _ Em), Ha. reflexivity.
    + destruct (Hcs ch Hin) as (_ & _ & _ & (_ & [_ Hc2] & _)).
      rewrite (Hall ch Hin) in Hc2. specialize (Hc2 Hd). symmetry in Hc2. now apply INF_pos in Hc2.
  - intros Hn. contradiction.
Qed.

(* ---------- the entry of a freshly generated child ---------- *)
Lemma term_live p : (forall who, game_over p <> Some (true, who)) -> term p = None.
Proof. intros H. unfold PnFacts.terminal. destruct (game_over p) as [[[|] who]|]; auto. now contradiction (H who). Qed.

Lemma lookup_good s p b : table_ok s -> lookup s p = Some b -> good_entry b /\ d_hash b = hash_of p.
Proof.
  unfold lookup, table_ok. intros Ht E. destruct (dtable s) as [|e0 tl] eqn:Etab; [discriminate|].
  match type of E with context[nth ?i ?l ?d] => destruct (nth_in_or_default i l d) as [Hin|Hd]; set (e := nth i l d) in * end.
  - destruct (d_hash e =? hash_of p) eqn:Eh; [|discriminate]. injection E as <-. apply N.eqb_eq in Eh.
    split; [|assumption]. rewrite Forall_forall in Ht. apply Ht. exact Hin.
  - destruct (d_hash e =? hash_of p) eqn:Eh; [|discriminate]. injection E as <-. apply N.eqb_eq in Eh.
    split; [|assumption]. rewrite Hd. apply good_dentry0.
Qed.

Lemma miss_entry_ok p : Sp p -> term p = None -> entry_ok p 1 (N.of_nat (length (all_moves p)) mod 2 ^ 32).
Proof.
  intros Hp Htm.
  pose proof (all_moves_le p (S_small p Hp)) as Hle. pose proof (S_moves p Hp Htm) as Hne.
  assert (Hlt : N.of_nat (length (all_moves p)) < 2 ^ 32) by (change (2 ^ 32) with 4294967296; lia).
  rewrite (N.mod_small _ _ Hlt).
  assert (Hpos : N.of_nat (length (all_moves p)) <> 0) by (destruct (all_moves p); [now contradiction Hne|cbn; lia]).
  unfold entry_ok, bounded, canon, claim, solved. rewrite INF_val. unfold INFv.
  repeat split; try lia; try discriminate; try contradiction.
Qed.

Lemma threat_entry_ok p : Sp p -> term p = None -> solve p <> None -> entry_ok p 0 INF.
Proof.
  intros Hp Htm Hs. unfold entry_ok, bounded, canon, claim, solved.
  repeat split; try lia; try discriminate; auto.
Qed.

Lemma over_entry_ok p who ph de : game_over p = Some (true, who) -> terminal_bounds aw p who = (ph, de) -> entry_ok p ph de.
Proof.
  intros Eg Eb. destruct (terminal_bounds_basic _ _ _ _ Eb) as (B1 & B2 & B3).
  split; [assumption|]. split; [assumption|]. split; [eapply terminal_bounds_over; eauto|]. intros _. assumption.
Qed.

Lemma entry_threat s p s' e r : Sp p -> term p = None -> solve p = Some r ->
   (let '(ph, de) := terminal_bounds aw p r in
    (bump_d s (fun t => {| ds_rep := ds_rep t; ds_term := ds_term t; ds_solved := ds_solved t + 1; ds_hits := ds_hits t; ds_miss := ds_miss t |}),
     mk_entry ph de (hash_of p))) = (s', e) ->
  dtable s' = dtable s /\ d_hash e = hash_of p /\ entry_ok p (d_phi e) (d_delta e).
Proof.
  intros Hp Htm Es E'.
  rewrite (solve_mover p r Es) in E'. injection E' as <- <-.
  split; [reflexivity|]. split; [reflexivity|]. apply threat_entry_ok; auto. congruence.
Qed.

Lemma entry_hit s p s' e b : table_ok s -> Sp p -> lookup s p = Some b ->
   (bump_d s (fun t => {| ds_rep := ds_rep t; ds_term := ds_term t; ds_solved := ds_solved t; ds_hits := ds_hits t + 1; ds_miss := ds_miss t |}), b) = (s', e) ->
  dtable s' = dtable s /\ d_hash e = hash_of p /\ entry_ok p (d_phi e) (d_delta e).
Proof.
  intros Ht Hp El E'.
  injection E' as <- <-. destruct (lookup_good _ _ _ Ht El) as [Hg Hh].
  split; [reflexivity|]. split; [assumption|]. exact (Hg p Hp (eq_sym Hh)).
Qed.

Lemma entry_miss s p s' e : Sp p -> term p = None ->
  (bump_d s (fun t => {| ds_rep := ds_rep t; ds_term := ds_term t; ds_solved := ds_solved t; ds_hits := ds_hits t; ds_miss := ds_miss t + 1 |}),
   mk_entry 1 (N.of_nat (length (all_moves p)) mod 2 ^ 32) (hash_of p)) = (s', e) ->
  dtable s' = dtable s /\ d_hash e = hash_of p /\ entry_ok p (d_phi e) (d_delta e).
Proof.
  intros Hp Htm E'. injection E' as <- <-. split; [reflexivity|]. split; [reflexivity|]. now apply miss_entry_ok.
Qed.

Lemma child_entry_live_ok s p s' e :
  table_ok s -> Sp p -> (forall who, game_over p <> Some (true, who)) -> child_entry_live aw s p = (s', e) ->
  dtable s' = dtable s /\ d_hash e = hash_of p /\ entry_ok p (d_phi e) (d_delta e).
Proof.
  intros Ht Hp Hno E'. unfold child_entry_live in E'. pose proof (term_live p Hno) as Htm.
  destruct (solve p) as [r|] eqn:Es.
  - eapply entry_threat; eauto.
  - destruct (lookup s p) as [b|] eqn:El.
    + eapply entry_hit; eauto.
    + eapply entry_miss; eauto.
Qed.

Lemma child_entry_ok s p s' e :
  table_ok s -> Sp p -> child_entry aw s p = (s', e) ->
  dtable s' = dtable s /\ d_hash e = hash_of p /\ entry_ok p (d_phi e) (d_delta e).
Proof.
  intros Ht Hp E. unfold child_entry in E.
  destruct (game_over p) as [[[|] who]|] eqn:Eg.
  - destruct (terminal_bounds aw p who) as [ph de] eqn:Eb. injection E as <- <-.
    split; [reflexivity|]. split; [reflexivity|]. eapply over_entry_ok; eauto.
  - eapply child_entry_live_ok; eauto. intros w; congruence.
  - eapply child_entry_live_ok; eauto. intros w; congruence.
Qed.

(* ---------- the child loop ---------- *)
Lemma swap_in (x : dchild) l : In x (swap_first_last l) <-> In x l.
Proof.
  destruct l as [|c0 r]; [tauto|]. destruct r as [|c1 r']; [tauto|].
  unfold swap_first_last. destruct (rev (c1 :: r')) as [|l mid] eqn:Er; [tauto|].
  assert (E : c1 :: r' = rev mid ++ [l]).
  { rewrite <- (rev_involutive (c1 :: r')), Er. reflexivity. }
  rewrite E. split.
  - intros [<-|H]; [right; apply in_or_app; right; now left|].
    apply in_app_or in H as [H|[<-|[]]]; [right; apply in_or_app; now left|now left].
  - intros [<-|H]; [right; apply in_or_app; right; now left|].
    apply in_app_or in H as [H|[<-|[]]]; [right; apply in_or_app; now left|now left].
Qed.

Definition covered (cs : list dchild) (q : position) : Prop := exists ch, In ch cs /\ ch_g ch = q.

Lemma gen_children_ok g killer : Sp g -> term g = None ->
  forall ms s acc s' cs,
    table_ok s -> Forall (child_ok g) acc -> (forall m, In m ms -> In m (all_moves g)) ->
    gen_children basis aw g killer ms s acc = (s', cs) ->
    dtable s' = dtable s /\ Forall (child_ok g) cs /\
    (((forall q, covered acc q -> covered cs q) /\ (forall m q, In m ms -> dmv g m = Ok q -> covered cs q)) \/
     (exists ch, In ch cs /\ cdelta ch = 0)).
Proof.
  intros Hg Htg ms. induction ms as [|m r IH]; intros s acc s' cs Ht Hacc Hms E; cbn [gen_children] in E.
  - injection E as <- <-. split; [reflexivity|]. split; [assumption|]. left. split; [auto|intros ? ? []].
  - destruct (dmv g m) as [p| |] eqn:Em.
    + destruct (child_entry aw s p) as [s1 e] eqn:Ec.
      assert (Hp : Sp p) by (eapply S_step; eauto; apply Hms; now left).
      destruct (child_entry_ok _ _ _ _ Ht Hp Ec) as (Hd1 & Hh & Hok).
      set (ch := {| ch_move := m; ch_g := p; ch_data := e |}) in *.
      assert (Hch : child_ok g ch).
      { unfold child_ok, cphi, cdelta, ch. cbn [ch_g ch_data ch_move]. split; [assumption|]. split; [exists m; split; [apply Hms; now left|assumption]|]. split; assumption. }
      set (acc1 := match killer with Some k => if rmove_eqb m k then swap_first_last (acc ++ [ch]) else acc ++ [ch] | None => acc ++ [ch] end) in *.
      assert (Hin1 : forall x, In x acc1 <-> In x (acc ++ [ch])).
      { intros x. unfold acc1. destruct killer as [k|]; [|tauto]. destruct (rmove_eqb m k); [apply swap_in|tauto]. }
      assert (Hacc1 : Forall (child_ok g) acc1).
      { apply Forall_forall. intros x Hx. apply Hin1 in Hx. apply in_app_or in Hx as [Hx|[<-|[]]]; [|assumption].
        rewrite Forall_forall in Hacc. now apply Hacc. }
      assert (Ht1 : table_ok s1) by (unfold table_ok; now rewrite Hd1).
      destruct (d_delta e =? 0) eqn:Ed.
      * injection E as <- <-. split; [assumption|]. split; [assumption|]. right. exists ch. split; [apply Hin1; apply in_or_app; right; now left|].
        apply N.eqb_eq in Ed. exact Ed.
      * apply IH in E; auto; [|intros; apply Hms; now right].
        destruct E as (E1 & E2 & E3). split; [congruence|]. split; [assumption|].
        destruct E3 as [[E3 E4]|E3]; [left|now right]. split.
        -- intros q (x & Hx & Hq). apply E3. exists x. split; [apply Hin1; apply in_or_app; now left|assumption].
        -- intros m' q [<-|Hm'] Eq; [|eapply E4; eauto].
           apply E3. exists ch. split; [apply Hin1; apply in_or_app; right; now left|]. cbn. congruence.
    + apply IH in E; auto; [|intros; apply Hms; now right].
      destruct E as (E1 & E2 & E3). split; [assumption|]. split; [assumption|].
      destruct E3 as [[E3 E4]|E3]; [left|now right]. split; [assumption|].
      intros m' q [<-|Hm'] Eq; [congruence|eapply E4; eauto].
    + apply IH in E; auto; [|intros; apply Hms; now right].
      destruct E as (E1 & E2 & E3). split; [assumption|]. split; [assumption|].
      destruct E3 as [[E3 E4]|E3]; [left|now right]. split; [assumption|].
      intros m' q [<-|Hm'] Eq; [congruence|eapply E4; eauto].
Qed.

(* ---------- selectChild: the thresholds handed down stay within INF ---------- *)
Lemma select_child_bounds cs bphi bdelta de best cphi' cdelta' :
  select_child cs bphi bdelta de = (best, (cphi', cdelta')) ->
  bdelta <= INF ->
  (forall ch, nth_error cs (Z.to_nat best) = Some ch -> cphi ch <= de) ->
  cphi' <= INF /\ cdelta' <= INF.
Proof.
  unfold select_child. intros E Hb Hle.
  destruct (fold_left _ _ _) as [[best0 d1] d2]. injection E as <- <- <-.
  split; [|lia].
  assert (Hsub : bdelta + match nth_error cs (Z.to_nat best0) with Some c => d_phi (ch_data c) | None => 0 end - de <= bdelta).
  { destruct (nth_error cs (Z.to_nat best0)) as [c|] eqn:En; [|lia]. specialize (Hle c eq_refl). unfold cphi in Hle. lia. }
  pose proof (N.mod_le (bdelta + match nth_error cs (Z.to_nat best0) with Some c => d_phi (ch_data c) | None => 0 end - de) (2 ^ 32)) as Hm.
  assert (2 ^ 32 <> 0) by (change (2 ^ 32) with 4294967296; discriminate). specialize (Hm H). lia.
Qed.

Lemma set_child_spec cs i e : forall x, In x (set_child cs i e) ->
  In x cs \/ exists c, nth_error cs i = Some c /\ x = {| ch_move := ch_move c; ch_g := ch_g c; ch_data := e |}.
Proof.
  unfold set_child.
  assert (G : forall l k x, (k <= i)%nat ->
    In x ((fix go (l : list dchild) (k : nat) : list dchild :=
            match l with [] => [] | c :: r => if Nat.eqb k i then {| ch_move := ch_move c; ch_g := ch_g c; ch_data := e |} :: r else c :: go r (S k) end) l k) ->
    In x l \/ exists c, nth_error l (i - k) = Some c /\ x = {| ch_move := ch_move c; ch_g := ch_g c; ch_data := e |}).
  { induction l as [|c r IH]; intros k x Hk H; [contradiction|].
    destruct (Nat.eqb k i) eqn:Ek.
    - apply Nat.eqb_eq in Ek. subst k. destruct H as [<-|H]; [|left; now right].
      right. exists c. rewrite Nat.sub_diag. split; reflexivity.
    - apply Nat.eqb_neq in Ek. destruct H as [<-|H]; [left; now left|].
      apply IH in H; [|lia]. destruct H as [H|(c' & Hn & Hx)]; [left; now right|].
      right. exists c'. split; [|assumption]. replace (i - k)%nat with (S (i - S k)) by lia. exact Hn. }
  intros x H. apply G in H; [|lia]. now rewrite Nat.sub_0_r in H.
Qed.

Lemma set_child_covered cs i e q : covered cs q -> covered (set_child cs i e) q.
Proof.
  unfold set_child, covered.
  assert (G : forall l k, (exists ch, In ch l /\ ch_g ch = q) ->
    exists ch, In ch ((fix go (l : list dchild) (k : nat) : list dchild :=
            match l with [] => [] | c :: r => if Nat.eqb k i then {| ch_move := ch_move c; ch_g := ch_g c; ch_data := e |} :: r else c :: go r (S k) end) l k) /\ ch_g ch = q).
  { induction l as [|c r IH]; intros k (ch & Hin & Hq); [contradiction|].
    destruct (Nat.eqb k i).
    - destruct Hin as [<-|Hin]; [eexists; split; [now left|assumption]|exists ch; split; [now right|assumption]].
    - destruct Hin as [<-|Hin]; [exists c; split; [now left|assumption]|].
      destruct (IH (S k)) as (ch' & Hin' & Hq'); [eauto|]. exists ch'. split; [now right|assumption]. }
  intros H. now apply G.
Qed.

(* ---------- mid ---------- *)
Definition rec_ok (rec : dstate -> position -> N -> N -> dentry -> dstate * dentry * N) : Prop :=
  forall s g bphi bdelta cur s' cur' w,
    table_ok s -> Sp g -> d_hash cur = hash_of g -> entry_ok g (d_phi cur) (d_delta cur) -> bphi <= INF -> bdelta <= INF ->
    rec s g bphi bdelta cur = (s', cur', w) ->
    table_ok s' /\ d_hash cur' = hash_of g /\ entry_ok g (d_phi cur') (d_delta cur').

Lemma mid_loop_ok rec g bphi bdelta : rec_ok rec -> Sp g -> term g = None -> bphi <= INF -> bdelta <= INF ->
  forall k s cs cur lw s' cur' w,
    table_ok s -> d_hash cur = hash_of g -> Forall (child_ok g) cs -> complete g cs ->
    mid_loop rec bphi bdelta k s cs cur lw = (s', cur', w) ->
    table_ok s' /\ d_hash cur' = hash_of g /\ entry_ok g (d_phi cur') (d_delta cur').
Proof.
  intros Hrec Hg Htm Hb1 Hb2 k. induction k as [|k IH]; intros s cs cur lw s' cur' w Ht Hh Hcs Hcomp E; cbn [mid_loop] in E;
    destruct (compute_pns cs) as [ph de] eqn:Ecp; pose proof (node_entry g cs ph de Hg Htm Hcs Hcomp Ecp) as Hnode.
  - injection E as <- <- _. split; [destruct (exceeded _ _ _ _); assumption|]. split; assumption.
  - destruct (exceeded ph de bphi bdelta) eqn:Eex.
    + injection E as <- <- _. split; [assumption|]. split; assumption.
    + destruct (select_child cs bphi bdelta de) as [best [cphi' cdelta']] eqn:Esel.
      destruct (nth_error cs (Z.to_nat best)) as [ch|] eqn:En.
      * (* the children are complete: otherwise a child with delta = 0 makes the node solved, hence exceeded *)
        assert (Hunsolved : ~ solved ph de).
        { intros Hsol. destruct Hnode as (_ & Hc & _). rewrite (solved_exceeded _ _ _ _ Hc Hsol Hb1 Hb2) in Eex. discriminate. }
        assert (Hcomp1 : forall m q, In m (all_moves g) -> dmv g m = Ok q -> covered cs q).
        { destruct Hcomp as [Hc|(x & Hx & Hd)]; [exact Hc|]. exfalso. apply Hunsolved. left.
          rewrite compute_pns_eq in Ecp. injection Ecp as Eph _. subst ph.
          apply N.le_antisymm; [|lia].
          assert (forall l a, In x l -> fold_left (fun m ch => N.min m (cdelta ch)) l a <= cdelta x) as Hm.
          { induction l as [|c r IHl]; intros a Hin; [contradiction|]. cbn. destruct Hin as [<-|Hin]; [|now apply IHl].
            pose proof (fmin_le r (N.min a (cdelta c))). lia. }
          specialize (Hm cs INF Hx). lia. }
        assert (Hchok : child_ok g ch).
        { rewrite Forall_forall in Hcs. apply Hcs. eapply nth_error_In; eauto. }
        destruct Hchok as (HSc & Hmv & Hhc & Hokc).
        assert (Hthr : cphi' <= INF /\ cdelta' <= INF).
        { eapply select_child_bounds; eauto. intros c Hc. rewrite En in Hc. injection Hc as <-.
          rewrite compute_pns_eq in Ecp. injection Ecp as _ Ede. subst de.
          apply fsum_ge; [rewrite INF_val; unfold INFv; lia|eapply nth_error_In; eauto|apply Hokc]. }
        destruct Hthr as [Hthr1 Hthr2].
        match type of E with context[rec ?s1 _ _ _ _] => destruct (rec s1 (ch_g ch) cphi' cdelta' (ch_data ch)) as [[s2 ne] w2] eqn:Er end.
        apply Hrec in Er; auto. destruct Er as (Ht2 & Hh2 & Hok2).
        destruct (dfuel_out s2).
        -- injection E as <- <- _. split; [exact Ht2|]. split; assumption.
        -- apply IH in E; auto.
           ++ apply Forall_forall. intros x Hx. apply set_child_spec in Hx as [Hx|(c & Hc & ->)].
              ** rewrite Forall_forall in Hcs. now apply Hcs.
              ** rewrite En in Hc. injection Hc as <-. unfold child_ok, cphi, cdelta. cbn. repeat split; auto; apply Hok2.
           ++ left. intros m q Hm Eq. apply set_child_covered. eapply Hcomp1; eauto.
      * injection E as <- <- _. split; [assumption|]. split; assumption.
Qed.

Lemma store_ok s e : table_ok s -> good_entry e -> table_ok (store s e).
Proof.
  unfold store, table_ok. intros Ht He. destruct (dtable s) as [|e0 tl] eqn:Etab; [now rewrite Etab|].
  destruct (_ <=? _); [|now rewrite Etab]. cbn [dtable].
  rewrite <- Etab in *. clear Etab.
  assert (G : forall (l : list dentry) i, Forall good_entry l -> Forall good_entry (set_nth l i e)).
  { induction l as [|a l IH]; intros i Hl; [constructor|]. inversion Hl; subst. destruct i; cbn; constructor; auto. }
  now apply G.
Qed.

Lemma mid_ok lfuel : forall fuel, rec_ok (mid basis aw lfuel fuel).
Proof.
  induction fuel as [|f IH]; intros s g bphi bdelta cur s' cur' w Ht Hg Hh Hok Hb1 Hb2 E; cbn [mid] in E.
  - injection E as <- <- _. split; [exact Ht|]. split; assumption.
  - destruct (exceeded (d_phi cur) (d_delta cur) bphi bdelta) eqn:Eex; [injection E as <- <- _; split; [assumption|split; assumption]|].
    (* not beyond the thresholds: the entry is unsolved, so the position is live *)
    assert (Htm : term g = None).
    { destruct (term g) eqn:Et; [|reflexivity]. exfalso. destruct Hok as (_ & Hc & _ & Hs).
      assert (Hne : term g <> None) by (rewrite Et; discriminate).
      pose proof (solved_exceeded _ _ _ _ Hc (Hs Hne) Hb1 Hb2) as Hx. congruence. }
    destruct (check_repetition s).
    + destruct (terminal_bounds aw g GNone) as [ph de] eqn:Eb. injection E as <- <- _.
      split; [exact Ht|]. split; [exact Hh|]. cbn [set_bounds d_phi d_delta].
      destruct (terminal_bounds_basic _ _ _ _ Eb) as (B1 & B2 & B3).
      split; [assumption|]. split; [assumption|]. split; [eapply terminal_bounds_rep; eauto|]. intros _. assumption.
    + destruct (gen_children basis aw g _ (all_moves g) s []) as [s1 cs] eqn:Egen.
      apply gen_children_ok in Egen; auto. destruct Egen as (Hd1 & Hcs & Hcov).
      assert (Ht1 : table_ok s1) by (unfold table_ok; now rewrite Hd1).
      assert (Hcomp : complete g cs).
      { destruct Hcov as [[_ Hc]|Hc]; [left|now right]. intros m q Hm Eq. apply (Hc m q Hm Eq). }
      destruct (mid_loop (mid basis aw lfuel f) bphi bdelta lfuel s1 cs cur 1) as [[s2 cur2] w2] eqn:El.
      apply mid_loop_ok with (g := g) in El; auto.
      destruct El as (Ht2 & Hh2 & Hok2). injection E as <- <- _.
      split; [|split; assumption].
      assert (Ht3 : table_ok (if d_phi cur2 =? 0 then
                       {| dtable := dtable s2; dstack := dstack s2;
                          killers := set_nth (killers s2 ++ repeat move0 (S (length (dstack s)) - length (killers s2))) (length (dstack s)) (d_pv cur2);
                          dst := dst s2; dfuel_out := dfuel_out s2 |} else s2))
        by (destruct (d_phi cur2 =? 0); assumption).
      match goal with |- table_ok (if ?c then _ else _) => destruct c end; [|exact Ht3].
      apply store_ok; [exact Ht3|eapply good_of_ok; eauto].
Qed.

(* ---------- Prove ---------- *)
Lemma prove_from_ok lfuel dfuel s0 g s e w :
  table_ok s0 -> Sp g -> prove_from basis aw lfuel dfuel s0 g = (s, e, w) ->
  table_ok s /\ entry_ok g (d_phi e) (d_delta e).
Proof.
  intros Ht0 Hg E. unfold prove_from in E.
  assert (Hlive : (forall who, game_over g <> Some (true, who)) ->
                  mid basis aw lfuel dfuel s0 g (INF / 2) (INF / 2)
                      {| d_phi := 1; d_delta := 1; d_hash := hash_of g; d_work := 0; d_pv := move0 |} = (s, e, w) ->
                  table_ok s /\ entry_ok g (d_phi e) (d_delta e)).
  { intros Hno E'. apply mid_ok in E'; auto.
    - split; apply E'.
    - pose proof (term_live g Hno) as Htm. cbn [d_phi d_delta]. unfold entry_ok, bounded, canon, claim, solved. rewrite INF_val. unfold INFv.
      repeat split; try lia; try discriminate. intros Hf. now rewrite Htm in Hf.
    - rewrite INF_val. unfold INFv. cbn. lia.
    - rewrite INF_val. unfold INFv. cbn. lia. }
  destruct (game_over g) as [[[|] who]|] eqn:Eg.
  - destruct (terminal_bounds aw g who) as [ph de] eqn:Eb. injection E as <- <- _. split; [assumption|]. cbn [d_phi d_delta]. eapply over_entry_ok; eauto.
  - apply Hlive; [|exact E]. intros w'; congruence.
  - apply Hlive; [|exact E]. intros w'; congruence.
Qed.

Lemma result_proven g e : entry_ok g (d_phi e) (d_delta e) -> result_of aw g e = 1 -> W g.
Proof.
  intros (_ & _ & [C1 C2] & _) Hr. unfold result_of in Hr. unfold PnFacts.attp in *.
  destruct (Bool.eqb aw (to_move_white g)) eqn:Ea.
  - apply eqb_prop in Ea. destruct (d_phi e =? 0) eqn:Ep; [|destruct (d_delta e =? 0); discriminate].
    apply C1; [rewrite Ea; now destruct (to_move_white g)|now apply N.eqb_eq].
  - apply eqb_false_iff in Ea. destruct (d_delta e =? 0) eqn:Ed; [|destruct (d_phi e =? 0); discriminate].
    apply C2; [destruct aw, (to_move_white g); auto; now contradiction Ea|now apply N.eqb_eq].
Qed.

Lemma table0_ok entries : table_ok (dstate0 entries).
Proof. unfold table_ok, dstate0. cbn [dtable]. apply Forall_forall. intros x Hx. apply repeat_spec in Hx. subst x. apply good_dentry0. Qed.

(* a solver whose table is sound stays sound and reports `proven` only for forced wins of the attacker *)
Theorem dfpn_proven_sound_from lfuel dfuel s0 g s e w :
  table_ok s0 -> Sp g -> prove_from basis aw lfuel dfuel s0 g = (s, e, w) ->
  table_ok s /\ (result_of aw g e = 1 -> W g).
Proof.
  intros Ht0 Hg E. destruct (prove_from_ok _ _ _ _ _ _ _ Ht0 Hg E) as [Ht Hok]. split; [assumption|]. now apply result_proven.
Qed.

(* a fresh solver *)
Theorem dfpn_proven_sound lfuel dfuel entries g s e w :
  Sp g -> prove basis aw lfuel dfuel entries g = (s, e, w) -> result_of aw g e = 1 -> W g.
Proof.
  intros Hg E. unfold prove in E. eapply dfpn_proven_sound_from; eauto. apply table0_ok.
Qed.
End DfpnSound.
