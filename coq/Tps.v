(* Codec/Tps.v (draft): ptn/tps.go and tak.FromSquares / tak.New / Position.At over byte lists *)
From Coq Require Import NArith ZArith List Bool Lia Ascii.
Require Import Board Move GameOver PtnMove Playtak.
Import ListNotations.
Local Open Scope char_scope.
Local Open Scope N_scope.

Notation res := Move.res.
Notation Ok := Move.Ok. Notation Err := Move.Err. Notation Panic := Move.Panic.

Definition default_pieces : list N := [0; 0; 0; 10; 15; 21; 30; 40; 50].
Definition default_caps : list N := [0; 0; 0; 0; 0; 1; 1; 2; 2].

(* pieces as in pieces.go: colour bit 7 = white, bit 6 = black; kind in the low two bits *)
Inductive pc := P (black : bool) (k : N).      (* k: 1 flat, 2 standing, 3 capstone *)

Section T.
Variable basis : list N.

(* tak.New for a size already known to be 3..8, then FromSquares *)
Definition from_squares (sz : N) (board : list (list (list pc))) (mv : Z) : position :=
  let n := N.to_nat sz in
  let cells := flat_map (fun row => row) board in                      (* y-major: index x + y*size *)
  let step (acc : N * N * N * N * N * N * N * N * list N * list N * N) (ic : nat * list pc) :=
    let '(w, b, s, c, ws, wc, bs, bc, hs, st, h) := acc in
    let '(i, sq) := ic in
    match sq with
    | [] => acc
    | P tb tk :: _ =>
      let bi := bit (N.of_nat i) in
      let w := if tb then w else N.lor w bi in
      let b := if tb then N.lor b bi else b in
      let c := if tk =? 3 then N.lor c bi else c in
      let s := if tk =? 2 then N.lor s bi else s in
      let '(ws, wc, bs, bc) :=
        fold_left (fun (r : N * N * N * N) (pp : pc) =>
          let '(ws, wc, bs, bc) := r in
          match pp with
          | P false 3 => (ws, u8 (wc + 255), bs, bc) | P true 3 => (ws, wc, bs, u8 (bc + 255))
          | P false _ => (u8 (ws + 255), wc, bs, bc) | P true _ => (ws, wc, u8 (bs + 255), bc)
          end) sq (ws, wc, bs, bc) in
      let stk := fold_left (fun (a : N * nat) (pp : pc) =>
                   let '(v, j) := a in
                   match pp with P true _ => (if (j =? 0)%nat then v else N.lor v (shl64 1 (N.of_nat (j - 1))), S j) | _ => (v, S j) end)
                 sq (0, 0%nat) in
      let hs := updN hs i (u8 (N.of_nat (length sq))) in
      let st := updN st i (fst stk) in
      (w, b, s, c, ws, wc, bs, bc, hs, st, N.lxor h (hash_at (hash_sq basis) hs st (N.of_nat i)))
    end in
  let dp := nth n default_pieces 0 in let dc := nth n default_caps 0 in
  let init := (0, 0, 0, 0, dp, dc, dp, dc, repeat 0 (n * n), repeat 0 (n * n), fnvBasis) in
  let '(w, b, s, c, ws, wc, bs, bc, hs, st, h) := fold_left step (combine (seq 0 (n * n)) cells) init in
  {| size := sz; black_wins_ties := false; whiteStones := ws; whiteCaps := wc; blackStones := bs; blackCaps := bc;
     Move.move := mv; White := w; Black := b; Standing := s; Caps := c; Height := hs; Stacks := st; hash := h |}.

(* ---- parsing ---- *)
(* the byte loop of parseRow for one stack: acc = pieces so far, top first; C/S only as the last byte *)
Fixpoint parse_stack (len : nat) (i : nat) (s : list N) (acc : list pc) : res (list pc) :=
  match s with
  | [] => Ok acc
  | ch :: r =>
    if ch =? B "1" then parse_stack len (S i) r (P false 1 :: acc)
    else if ch =? B "2" then parse_stack len (S i) r (P true 1 :: acc)
    else if (ch =? B "C") || (ch =? B "S") then
      if negb (i =? len - 1)%nat then Err else
      match acc with
      | [] => Err                                                 (* i == 0: "stone type without a stone" (repaired; was stack[0] on an empty slice) *)
      | P tb _ :: below => Ok (P tb (if ch =? B "S" then 2 else 3) :: below)
      end
    else Err
  end.

Definition parse_cell (bitS : list N) : res (list (list pc)) :=       (* one comma-separated item: 1 stack, or `count` empties *)
  match bitS with
  | [] => Err                                                          (* len(bit) == 0: "empty square in row" (repaired; was bit[0] on an empty string) *)
  | c0 :: rest =>
    if c0 =? B "x" then
      let count := match rest with [] => 1 | c1 :: _ => (c1 + 256 - B "0") mod 256 end in
      Ok (repeat [] (N.to_nat count))
    else
      match parse_stack (length bitS) 0%nat bitS [] with Ok stk => Ok [stk] | Err => Err | Panic => Panic end
  end.

Fixpoint parse_row_items (items : list (list N)) : res (list (list pc)) :=
  match items with
  | [] => Ok []
  | it :: r => match parse_cell it with
               | Ok cs => match parse_row_items r with Ok rest => Ok (cs ++ rest) | e => e end
               | Err => Err | Panic => Panic
               end
  end.
Definition parse_row (row : list N) : res (list (list pc)) := parse_row_items (split_on (B ",") row []).

Fixpoint parse_rows (rows : list (list N)) (acc : list (list (list pc))) : res (list (list (list pc))) :=
  match rows with
  | [] => Ok acc
  | r :: rest => match parse_row r with Ok row => parse_rows rest (row :: acc) | Err => Err | Panic => Panic end
  end.

Definition parse_tps (s : list N) : res position :=
  let ws := words s in
  if negb (length ws =? 3)%nat then Err else
  match atoi (nth 1 ws []), atoi (nth 2 ws []) with
  | Some turn, Some mvn =>
    if negb ((turn =? 1)%Z || (turn =? 2)%Z) then Err else
    let wrap64 z := ((z + 2 ^ 63) mod 2 ^ 64 - 2 ^ 63)%Z in
    let mv := wrap64 (2 * (mvn - 1) + (turn - 1))%Z in
    match parse_rows (split_on (B "/") (nth 0 ws []) []) [] with
    | Ok pieces =>
      let n := length pieces in
      if (n <? 3)%nat || (8 <? n)%nat then Err else
      if negb (forallb (fun r => (length r =? n)%nat) pieces) then Err else
      Ok (from_squares (N.of_nat n) pieces mv)
    | Err => Err | Panic => Panic
    end
  | None, _ => Err
  | Some turn, None => if negb ((turn =? 1)%Z || (turn =? 2)%Z) then Err else Err
  end.

(* ---- formatting ---- *)
Definition at_sq (p : position) (i : N) : list pc :=                   (* Position.At: top first *)
  if N.land (N.lor (White p) (Black p)) (bit i) =? 0 then [] else
  let h := N.to_nat (nthN (Height p) i) in
  let tb := negb (has (White p) i) in
  let k := if has (Standing p) i then 2 else if has (Caps p) i then 3 else 1 in
  match h with O => [] (* make(Square, 0); sq[0] = … would panic; not reachable on wf positions *) | S h' =>
    P tb k :: map (fun j => P (N.testbit (nthN (Stacks p) i) (N.of_nat j)) 1) (seq 0 h') end.

Fixpoint dec (fuel : nat) (n : N) (acc : list N) : list N :=
  match fuel with O => acc | S f => let acc := (B "0" + n mod 10) :: acc in if n / 10 =? 0 then acc else dec f (n / 10) acc end.
Definition fmt_int (z : Z) : list N := if (z <? 0)%Z then B "-" :: dec 25 (Z.to_N (- z)) [] else dec 25 (Z.to_N z) [].

Definition tps_square (sq : list pc) : list N :=
  map (fun pp => match pp with P false _ => B "1" | P true _ => B "2" end) (rev sq) ++
  match sq with P _ 2 :: _ => [B "S"] | P _ 3 :: _ => [B "C"] | _ => [] end.

Fixpoint tps_row (fuel : nat) (p : position) (y x : nat) : list (list N) :=
  let n := N.to_nat (size p) in
  match fuel with O => [] | S f =>
    if (n <=? x)%nat then [] else
    let empties := (fix cnt (k : nat) (x' : nat) : nat :=
                      match k with O => 0%nat | S k' =>
                        if (x' <? n)%nat && (match at_sq p (N.of_nat (x' + y * n)) with [] => true | _ => false end)
                        then S (cnt k' (S x')) else 0%nat end) n x in
    match empties with
    | O => tps_square (at_sq p (N.of_nat (x + y * n))) :: tps_row f p y (S x)
    | S O => [B "x"] :: tps_row f p y (x + 1)
    | k => (B "x" :: fmt_int (Z.of_nat k)) :: tps_row f p y (x + k)
    end
  end.

Fixpoint join (sep : N) (l : list (list N)) : list N :=
  match l with [] => [] | [a] => a | a :: r => a ++ sep :: join sep r end.

Definition format_tps (p : position) : list N :=
  let n := N.to_nat (size p) in
  join (B "/") (map (fun y => join (B ",") (tps_row (S n) p y 0)) (rev (seq 0 n)))
  ++ [B " "] ++ (if to_move_white p then [B "1"] else [B "2"]) ++ [B " "] ++ fmt_int (Z.quot (Move.move p) 2 + 1).
End T.
