(* OpeningFacts1.v (C04, opening book): what the rules of Rules.v look at in the ply counter.
   rules_move_transfer: two abstract positions that differ only in the ply counter - same parity, same side of "ply < 2" -
   accept the same raw moves, with the same resulting squares.  rules_move_rsum: a move takes at most one piece from the
   reserves, exactly one in the two opening plies.  rules_slide_nonzero: a legal slide carries at least one piece. *)
From Coq Require Import NArith ZArith Arith List Bool Lia ZifyN ZifyBool ZifyNat.
Require Import Rules.
Import ListNotations.

(* ---- the rules look at the ply counter only through its parity and through "ply < 2" ---- *)
Record same_but_ply (a a' : apos) : Prop := {
  sb_n : n a = n a'; sb_sq : sq a = sq a';
  sb_ws : wstones a = wstones a'; sb_wc : wcaps a = wcaps a'; sb_bs : bstones a = bstones a'; sb_bc : bcaps a = bcaps a';
  sb_even : Z.even (ply a) = Z.even (ply a');
  sb_open : (ply a <? 2)%Z = (ply a' <? 2)%Z }.

Lemma deal_ext a a' : n a = n a' -> forall drops board d x y carry, deal a board d x y carry drops = deal a' board d x y carry drops.
Proof.
  intros Hn. induction drops as [|c rest IH]; intros board d x y carry; cbn [deal]; [reflexivity|].
  destruct (delta d) as [dx dy]. unfold on_board, idx. rewrite Hn.
  destruct (negb _); [reflexivity|]. destruct (land_on _ _ _); [|reflexivity]. apply IH.
Qed.

Lemma place_transfer a a' k x y s : same_but_ply a a' -> place a k x y = Some s ->
  exists s', place a' k x y = Some s' /\ sq s' = sq s.
Proof.
  intros [Hn Hsq H1 H2 H3 H4 He Ho] H. unfold place in *.
  unfold on_board, stack_at, set_stack, idx, to_move in *. rewrite <- Hn, <- Hsq, <- H1, <- H2, <- H3, <- H4, <- He, <- Ho.
  destruct (negb _); [discriminate|]. destruct (nth _ (sq a) []); [|discriminate].
  destruct ((ply a <? 2)%Z && _); [discriminate|].
  destruct k; destruct (if (ply a <? 2)%Z then flip (if Z.even (ply a) then White else Black) else (if Z.even (ply a) then White else Black));
    match type of H with
    | match (if ?r =? 0 then _ else _)%N with _ => _ end = _ => destruct (r =? 0)%N; [discriminate|]
    end; injection H as <-; eexists; (split; [reflexivity|reflexivity]).
Qed.

Lemma slide_transfer a a' d x y drops s : same_but_ply a a' -> slide a d x y drops = Some s ->
  exists s', slide a' d x y drops = Some s' /\ sq s' = sq s.
Proof.
  intros [Hn Hsq H1 H2 H3 H4 He Ho] H. unfold slide in *.
  rewrite <- (deal_ext a a' Hn).
  unfold on_board, stack_at, set_stack, idx, to_move in *. rewrite <- Hn, <- Hsq, <- He, <- Ho.
  destruct (ply a <? 2)%Z; [discriminate|]. destruct (negb _); [discriminate|]. destruct (existsb _ _); [discriminate|].
  destruct (_ || _ || _); [discriminate|].
  destruct (nth _ (sq a) []) as [|[c kd] st]; [discriminate|].
  destruct (negb _); [discriminate|]. destruct (deal _ _ _ _ _ _ _); [|discriminate].
  injection H as <-. eexists; split; reflexivity.
Qed.

Lemma rules_move_transfer a a' m s : same_but_ply a a' -> rules_move a m = Some s ->
  exists s', rules_move a' m = Some s' /\ sq s' = sq s.
Proof.
  intros S H. unfold rules_move in *. destruct (decode m) as [[k x y|d x y drops]|]; [| |discriminate].
  - eapply place_transfer; eassumption.
  - eapply slide_transfer; eassumption.
Qed.

(* ---- reserves and the ply counter ---- *)
Definition rsum (a : apos) : N := (wstones a + wcaps a + bstones a + bcaps a)%N.

Lemma rules_move_rsum a m s : rules_move a m = Some s ->
  ply s = (ply a + 1)%Z /\ n s = n a /\ (rsum s = rsum a \/ rsum s + 1 = rsum a)%N /\ ((ply a < 2)%Z -> (rsum s + 1 = rsum a)%N).
Proof.
  intros H. unfold rules_move in H. destruct (decode m) as [[k x y|d x y drops]|]; [| |discriminate].
  - unfold place in H. destruct (negb _); [discriminate|]. destruct (stack_at a x y); [|discriminate].
    destruct ((ply a <? 2)%Z && _); [discriminate|].
    destruct k; destruct (if (ply a <? 2)%Z then flip (to_move a) else to_move a);
    match type of H with
    | match (if ?r =? 0 then _ else _)%N with _ => _ end = _ => destruct (N.eqb_spec r 0); [discriminate|]
    end; injection H as <-; unfold rsum; cbn [ply Rules.n wstones wcaps bstones bcaps]; repeat split; try (right; lia); intros; lia.
  - unfold slide in H. destruct (Z.ltb_spec (ply a) 2); [discriminate|]. destruct (negb _); [discriminate|].
    destruct (existsb _ _); [discriminate|]. destruct (_ || _ || _); [discriminate|].
    destruct (stack_at a x y) as [|[c kd] st]; [discriminate|]. destruct (negb _); [discriminate|].
    destruct (deal _ _ _ _ _ _ _); [|discriminate]. injection H as <-.
    unfold rsum; cbn [ply Rules.n wstones wcaps bstones bcaps]. repeat split; try (left; reflexivity). intros; lia.
Qed.

(* a slide carries at least one piece: Slides = 0 is never legal *)
Lemma rules_slide_nonzero a m s : rules_move a m = Some s -> (5 <= mtype m)%N -> mslides m <> 0%N.
Proof.
  intros H Ht E. unfold rules_move, decode in H. rewrite E in H.
  destruct (mtype m) as [|q]; [discriminate|]. do 4 (try destruct q as [q|q|]); try discriminate; try lia;
  cbn [nibbles N.eqb] in H; unfold slide in H;
  (destruct (ply a <? 2)%Z; [discriminate|]); (destruct (negb _); [discriminate|]); cbn in H; discriminate.
Qed.

Lemma rules_move_not_pass a m s : rules_move a m = Some s -> mtype m <> 1%N.
Proof. intros H E. unfold rules_move, decode in H. rewrite E in H. discriminate. Qed.
