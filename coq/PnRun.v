(* Entry point of the PN model with the constants regenerated from /repo (used by the C06 driver and by Properties/C06.v). *)
From Coq Require Import NArith ZArith List Bool.
Require Import Board Move GameOver Pn.
Require Import Generated.Consts.
Import ListNotations.
Open Scope N_scope.

(* Prove() replaces MaxDepth = 0 by math.MaxInt16 *)
Definition eff_maxdepth (maxdepth : Z) : Z := if (maxdepth =? 0)%Z then 32767%Z else maxdepth.

(* prove.New(Config{MaxNodes, PreserveSolved, MaxDepth}).Prove(p): the attacker is the side to move.
   Result: (final tree, counters, verdict 1 proven / 2 disproven / 0 unknown, move, why the loop stopped). *)
Definition pn_run (iters dfuel : nat) (maxnodes : N) (preserve : bool) (maxdepth : Z) (p : position) : pn * pstats * N * rmove * N :=
  prove_pn gen_basis {| pc_maxnodes := maxnodes; pc_preserve := preserve; pc_maxdepth := eff_maxdepth maxdepth |} (to_move_white p) iters dfuel p.
