(* Selfplay.v: code-shaped model of the game loop of cmd/internal/selfplay/simulate.go (`worker`) over the client model of
   TeiClient.v, and of `Simulate`'s tally.

   worker: two clients c1 (Config.P1) and c2 (Config.P2), each with its own engine process (oracles eng1 / eng2 of TeiClient.v).
   For every game: NewGame(opening.Size()) on c1, then on c2 (log.Fatalf on an error); the player of c1 is White unless
   p1color is Black; tc = nil when GameTime = 0, otherwise {GameTime, GameTime, Increment, Increment}; then at most Cutoff times
        ctx = background, or WithTimeout(Limit) when Limit != 0
        m, err = (the player of the side to move).TEIGetMove(ctx, p, tc);   duration = the wall time of that call
        if tc != nil { *tm = *tm - duration; if *tm <= 1 ms { winner = the other side; break }; *tm += inc }     (tm: the mover's clock)
        if err != nil { log.Fatalf }
        p, e = p.Move(m); if e != nil { panic("illegal move") };  ms = append(ms, m)
        if over, w := p.GameOver(); over { winner = w; break }
   and the Result {Initial, Position, Moves, Winner} (Winner = NoColor when the loop ran out at Cutoff).
   Note the order: the clock is settled BEFORE the error is looked at - a call that failed but also overran the clock is a time loss.

   Wall-clock readings are inputs of the model: [dur k] = the duration of the k-th call of the game (time.Since(before)), and
   [left k] = deadline.Sub(time.Now()) as TEIGetMove computes it for the k-th call when Limit != 0 (at most Limit, less by what
   the client has spent before it looks).  time.Duration arithmetic wraps (wrap64).  A panic inside TEIGetMove (dead player,
   blank engine line) propagates at once; a call that never returns makes the worker hang. *)
From Coq Require Import NArith ZArith List Bool Lia.
Require Import Board Move GameOver PtnMove Playtak Tps TeiBudget Tei TeiClient.
Import ListNotations.
Local Open Scope Z_scope.

Record config := { cf_cutoff : nat; cf_limit : Z; cf_gametime : Z; cf_increment : Z }.
Record spec := { sp_opening : position; sp_p1white : bool }.                       (* gameSpec: opening, p1color = White? *)
Record result := { r_initial : position; r_position : position; r_moves : list PtnMove.move; r_winner : gcolor }.

Inductive spanic :=
| SPClient (w : cpanic)              (* a panic inside TEIGetMove *)
| SPIllegal (m : PtnMove.move)       (* panic("illegal move: ...") *)
| SPRules.                           (* a panic inside Position.Move / GameOver (none on well-formed positions) *)
Inductive gres := GDone (r : result) | GFatal (e : cerr) | GPanic (w : spanic) | GHang.

Definition flip_mover (white_to_move : bool) : gcolor := if white_to_move then GBlack else GWhite.     (* p.ToMove().Flip() *)

Section W.
Variable ES1 ES2 : Type.
Variable eng1 : ES1 -> list N -> option (eresp ES1).
Variable eng2 : ES2 -> list N -> option (eresp ES2).
Variable basis : list N.                 (* the hash basis of tak positions *)
Variable cf : config.

Record wstate := { w_c1 : client ES1; w_c2 : client ES2 }.

(* one TEIGetMove by the player of the side to move: the player of c1 is White iff p1white *)
Definition ask (w : wstate) (p1white : bool) (g1 g2 : Z) (p : position) (dl : option Z) (tc : option tctl) : wstate * outcome PtnMove.move :=
  if Bool.eqb (to_move_white p) p1white
  then let '(c, o) := tei_get_move ES1 eng1 (w_c1 w) g1 p dl tc in ({| w_c1 := c; w_c2 := w_c2 w |}, o)
  else let '(c, o) := tei_get_move ES2 eng2 (w_c2 w) g2 p dl tc in ({| w_c1 := w_c1 w; w_c2 := c |}, o).

(* the clock of the side to move after the call: None = it ran out *)
Definition settle (white : bool) (duration : Z) (t : tctl) : option tctl :=
  let tm := if white then tc_white t else tc_black t in
  let inc := if white then tc_winc t else tc_binc t in
  let tm1 := wrap64 (tm - duration) in
  if tm1 <=? 1000000 then None else
  let tm2 := wrap64 (tm1 + inc) in
  Some (if white then {| tc_white := tm2; tc_black := tc_black t; tc_winc := tc_winc t; tc_binc := tc_binc t |}
        else {| tc_white := tc_white t; tc_black := tm2; tc_winc := tc_winc t; tc_binc := tc_binc t |}).

Section G.
Variable dur : nat -> Z.
Variable left : nat -> Z.
Variable opening : position.
Variable p1white : bool.
Variable g1 g2 : Z.

(* the loop `for i := 0; i < Cutoff; i++`: [fuel] iterations left, k = i; ms = the moves so far *)
Fixpoint game_loop (fuel : nat) (k : nat) (w : wstate) (p : position) (tc : option tctl) (ms : list PtnMove.move) : wstate * gres :=
  match fuel with
  | O => (w, GDone {| r_initial := opening; r_position := p; r_moves := ms; r_winner := GNone |})
  | S f =>
    let dl := if cf_limit cf =? 0 then None else Some (left k) in
    let white := to_move_white p in
    let '(w1, o) := ask w p1white g1 g2 p dl tc in
    match o with
    | RPanic pw => (w1, GPanic (SPClient pw))
    | RHang => (w1, GHang)
    | _ =>
      match (match tc with Some t => (match settle white (dur k) t with Some t' => Some (Some t') | None => None end) | None => Some None end) with
      | None => (w1, GDone {| r_initial := opening; r_position := p; r_moves := ms; r_winner := flip_mover white |})
      | Some tc1 =>
        match o with
        | RErr e => (w1, GFatal e)
        | ROk m =>
          match move_prealloc (hash_sq basis) true p (to_rmove m) with
          | Move.Err => (w1, GPanic (SPIllegal m))
          | Move.Panic => (w1, GPanic SPRules)
          | Move.Ok q =>
            match game_over q with
            | None => (w1, GPanic SPRules)
            | Some (true, c) => (w1, GDone {| r_initial := opening; r_position := q; r_moves := ms ++ [m]; r_winner := c |})
            | Some (false, _) => game_loop f (S k) w1 q tc1 (ms ++ [m])
            end
          end
        | _ => (w1, GHang)      (* not reached: RPanic / RHang were handled above *)
        end
      end
    end
  end.
End G.

(* one game of the worker's `for g := range games` *)
Definition play_game (dur left : nat -> Z) (w : wstate) (g : spec) : wstate * gres :=
  let size := Z.of_N (Move.size (sp_opening g)) in
  match new_game ES1 eng1 (w_c1 w) size with
  | (c1, ROk ga) =>
    match new_game ES2 eng2 (w_c2 w) size with
    | (c2, ROk gb) =>
      let tc := if cf_gametime cf =? 0 then None
                else Some {| tc_white := cf_gametime cf; tc_black := cf_gametime cf; tc_winc := cf_increment cf; tc_binc := cf_increment cf |} in
      game_loop dur left (sp_opening g) (sp_p1white g) ga gb (cf_cutoff cf) 0 {| w_c1 := c1; w_c2 := c2 |} (sp_opening g) tc []
    | (c2, RErr e) => ({| w_c1 := c1; w_c2 := c2 |}, GFatal e)
    | (c2, RPanic pw) => ({| w_c1 := c1; w_c2 := c2 |}, GPanic (SPClient pw))
    | (c2, RHang) => ({| w_c1 := c1; w_c2 := c2 |}, GHang)
    end
  | (c1, RErr e) => ({| w_c1 := c1; w_c2 := w_c2 w |}, GFatal e)
  | (c1, RPanic pw) => ({| w_c1 := c1; w_c2 := w_c2 w |}, GPanic (SPClient pw))
  | (c1, RHang) => ({| w_c1 := c1; w_c2 := w_c2 w |}, GHang)
  end.

(* the games of one worker in a row, on the same two clients: the results so far and how it went on
   ([dur j] / [left j]: the clock readings of game number j) *)
Fixpoint play_games (dur left : nat -> nat -> Z) (j : nat) (w : wstate) (gs : list spec) : wstate * list result * option gres :=
  match gs with
  | [] => (w, [], None)
  | g :: rest =>
    match play_game (dur j) (left j) w g with
    | (w1, GDone r) => let '(w2, rs, e) := play_games dur left (S j) w1 rest in (w2, r :: rs, e)
    | (w1, other) => (w1, [], Some other)
    end
  end.
End W.

Arguments w_c1 {ES1 ES2}. Arguments w_c2 {ES1 ES2}.

(* ---- Simulate's tally: a function of the results (Stats without the per-game list) ---- *)
Record pstats := { ps_wins : Z; ps_white : Z; ps_black : Z; ps_flat : Z; ps_road : Z; ps_time : Z }.
Record stats := { st_p1 : pstats; st_p2 : pstats; st_white : Z; st_black : Z; st_ties : Z; st_cutoff : Z }.
Definition pstats0 := {| ps_wins := 0; ps_white := 0; ps_black := 0; ps_flat := 0; ps_road := 0; ps_time := 0 |}.
Definition stats0 := {| st_p1 := pstats0; st_p2 := pstats0; st_white := 0; st_black := 0; st_ties := 0; st_cutoff := 0 |}.

Definition tally_player (ps : pstats) (r : result) : pstats :=
  let over := match game_over (r_position r) with Some (true, _) => true | _ => false end in
  let road := match win_details (r_position r) with Some d => wd_road d | None => false end in
  {| ps_wins := ps_wins ps + 1;
     ps_white := ps_white ps + (match r_winner r with GWhite => 1 | _ => 0 end);
     ps_black := ps_black ps + (match r_winner r with GBlack => 1 | _ => 0 end);
     ps_flat := ps_flat ps + (if over && negb road then 1 else 0);
     ps_road := ps_road ps + (if over && road then 1 else 0);
     ps_time := ps_time ps + (if over then 0 else 1) |}.

(* one `for r := range rc` step; [p1white]: r.spec.p1color = White *)
Definition tally_one (st : stats) (p1white : bool) (r : result) : stats :=
  let over := match game_over (r_position r) with Some (true, _) => true | _ => false end in
  let st1 :=
    match r_winner r with
    | GWhite => {| st_p1 := st_p1 st; st_p2 := st_p2 st; st_white := st_white st + 1; st_black := st_black st; st_ties := st_ties st; st_cutoff := st_cutoff st |}
    | GBlack => {| st_p1 := st_p1 st; st_p2 := st_p2 st; st_white := st_white st; st_black := st_black st + 1; st_ties := st_ties st; st_cutoff := st_cutoff st |}
    | GNone => if over
               then {| st_p1 := st_p1 st; st_p2 := st_p2 st; st_white := st_white st; st_black := st_black st; st_ties := st_ties st + 1; st_cutoff := st_cutoff st |}
               else {| st_p1 := st_p1 st; st_p2 := st_p2 st; st_white := st_white st; st_black := st_black st; st_ties := st_ties st; st_cutoff := st_cutoff st + 1 |}
    end in
  match r_winner r with
  | GNone => st1
  | c =>
    (* the winner is player 2 iff r.Winner == p1color.Flip() *)
    let p1wins := match c with GWhite => p1white | _ => negb p1white end in
    if p1wins
    then {| st_p1 := tally_player (st_p1 st1) r; st_p2 := st_p2 st1; st_white := st_white st1; st_black := st_black st1; st_ties := st_ties st1; st_cutoff := st_cutoff st1 |}
    else {| st_p1 := st_p1 st1; st_p2 := tally_player (st_p2 st1) r; st_white := st_white st1; st_black := st_black st1; st_ties := st_ties st1; st_cutoff := st_cutoff st1 |}
  end.

Definition tally (rs : list (bool * result)) : stats := fold_left (fun st x => tally_one st (fst x) (snd x)) rs stats0.
Definition stats_count (st : stats) : Z := st_white st + st_black st + st_ties st + st_cutoff st.
