(* Extraction of the executable models for the correspondence check.  ExtrOcamlBasic only:
   bool, option, list, prod, unit, sumbool map to OCaml's; N, Z, positive, nat stay Coq datatypes.
   Run from the output directory:  coqc -R /verif/coq TV /verif/coq/Extract.v *)
Require Extraction.
Require Import ExtrOcamlBasic.
Require Import Board Move GameOver Rules Refine Inst.
Separate Extraction
  Inst.mv_pinned Inst.mv_fixed Inst.hash_full Inst.scratch Refine.abs Rules.rules_move Refine.raw
  GameOver.game_over GameOver.analyze GameOver.all_moves GameOver.count_flats GameOver.has_road.
