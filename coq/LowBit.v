(* x & (x-1) clears the lowest set bit; x &^ (x & (x-1)) isolates it *)
From Coq Require Import NArith PArith List Bool Lia ZifyN ZifyBool ZifyNat.
Open Scope N_scope.

Fixpoint pctz (p : positive) : N :=
  match p with xO q => N.succ (pctz q) | _ => 0 end.
Definition ctz (x : N) : N := match x with 0 => 0 | Npos p => pctz p end.

Lemma testbit_ctz p : N.testbit (Npos p) (pctz p) = true.
Proof.
  induction p as [p IH|p IH|]; cbn [pctz]; try reflexivity.
  change (Npos p~0) with (N.double (Npos p)). rewrite N.double_bits_succ. exact IH.
Qed.

Lemma testbit_below_ctz p i : i < pctz p -> N.testbit (Npos p) i = false.
Proof.
  revert i. induction p as [p IH|p IH|]; cbn [pctz]; intros i Hi; try lia.
  destruct (N.eq_dec i 0) as [->|Hn]; [reflexivity|].
  replace i with (N.succ (N.pred i)) by lia.
  change (Npos p~0) with (N.double (Npos p)). rewrite N.double_bits_succ. apply IH. lia.
Qed.

(* the clearing lemma, on positives *)
Lemma land_pred_bits p i : N.testbit (N.land (Npos p) (Npos p - 1)) i = N.testbit (Npos p) i && negb (i =? pctz p).
Proof.
  revert i. induction p as [p IH|p IH|]; intros i.
  - (* 2p+1: minus one clears bit 0 *)
    cbn [pctz]. replace (Npos p~1 - 1) with (N.double (Npos p)) by lia.
    rewrite N.land_spec. destruct (N.eq_dec i 0) as [->|Hn].
    + change (N.double (Npos p)) with (2 * Npos p). rewrite N.testbit_even_0. apply andb_false_r.
    + replace (i =? 0) with false by lia. rewrite andb_true_r.
      replace i with (N.succ (N.pred i)) by lia.
      rewrite N.double_bits_succ. change (Npos p~1) with (N.succ_double (Npos p)).
      rewrite N.succ_double_spec, N.testbit_odd_succ by lia. apply andb_diag.
  - (* 2p: borrow *)
    cbn [pctz]. replace (Npos p~0 - 1) with (N.succ_double (Npos p - 1)) by lia.
    change (Npos p~0) with (N.double (Npos p)).
    rewrite N.land_spec. destruct (N.eq_dec i 0) as [->|Hn].
    + change (N.double (Npos p)) with (2 * Npos p). rewrite N.testbit_even_0. reflexivity.
    + replace i with (N.succ (N.pred i)) by lia.
      rewrite N.double_bits_succ, N.succ_double_spec, N.testbit_odd_succ by lia.
      rewrite <- N.land_spec, IH. f_equal. f_equal. lia.
  - cbn. destruct i; reflexivity.
Qed.

Lemma clear_lowest x i : x <> 0 -> N.testbit (N.land x (x - 1)) i = N.testbit x i && negb (i =? ctz x).
Proof. destruct x as [|p]; [congruence|]. intros _. apply land_pred_bits. Qed.

Lemma isolate_lowest x i : x <> 0 -> N.testbit (N.ldiff x (N.land x (x - 1))) i = (i =? ctz x).
Proof.
  intros Hx. rewrite N.ldiff_spec, clear_lowest by assumption.
  destruct (N.eqb_spec i (ctz x)) as [->|Hn].
  - destruct x as [|p]; [congruence|]. cbn [ctz]. rewrite testbit_ctz. reflexivity.
  - destruct (N.testbit x i); reflexivity.
Qed.

Lemma ctz_lowest x i : x <> 0 -> N.testbit x i = true -> ctz x <= i.
Proof.
  destruct x as [|p]; [congruence|]. intros _ H. cbn [ctz].
  destruct (N.le_gt_cases (pctz p) i); [assumption|]. rewrite testbit_below_ctz in H by assumption. discriminate.
Qed.

Lemma ctz_set x : x <> 0 -> N.testbit x (ctz x) = true.
Proof. destruct x as [|p]; [congruence|]. intros _. apply testbit_ctz. Qed.
Print Assumptions isolate_lowest.
