(* C10 on the import paths: for every position satisfying the C01 invariant whose reserves match its board and whose tie-break flag is the
   default, ParseTPS (FormatTPS p) returns p ITSELF, field for field (tps_round_trip_exact); in particular for tak.FromSquares of every
   fitting board within the default piece counts (tps_round_trip_squares: "all well-formed boards with default piece counts") and for the
   rebuilt symmetry images. *)
From Coq Require Import NArith ZArith Arith List Bool Lia ZifyN ZifyBool ZifyNat.
Require Import Board Stack Rules Move Refine GameOver Preserve1 Reach1.
Require Import Alloc Generated.Consts.
Require Import Tps Symmetry SymCode1 TpsFacts TpsFacts5 TpsFacts6 TpsFacts9 Import1 Import3.
Import ListNotations.
Close Scope Z_scope. Close Scope N_scope.

Theorem tps_round_trip_exact p : pos_ok p -> reserves_match_board p -> Move.black_wins_ties p = false -> (0 <= Move.move p < 2 ^ 63)%Z ->
  parse_tps gen_basis (format_tps p) = Ok p.
Proof.
  intros Hp RM Hb Hm.
  destruct (tps_format_parse_equal gen_basis p (po_size _ Hp) Hm (pos_ok_rep_ok p Hp) RM) as (q & Hq & Eq & _).
  rewrite Hq, Eq. f_equal. rewrite <- Hb. now destruct p.
Qed.
Print Assumptions tps_round_trip_exact.

Theorem tps_round_trip_squares n board mv : fit_board n board -> counts_fit n board -> (0 <= mv < 2 ^ 63)%Z ->
  let p := from_squares gen_basis (N.of_nat n) board mv in
  parse_tps gen_basis (format_tps p) = Ok p.
Proof.
  intros FB CF Hm. cbv zeta. destruct (fs_facts n board mv FB) as (_ & E2 & E3 & _).
  apply tps_round_trip_exact; [now apply from_squares_pos_ok|now apply from_squares_reserves_match|exact E3|now rewrite E2].
Qed.

Theorem tps_round_trip_image k p : k < 8 -> pos_ok p -> reserves_match_board p -> (0 <= Move.move p < 2 ^ 63)%Z ->
  let q := image gen_basis p (csym (N.to_nat (size p)) k) in
  parse_tps gen_basis (format_tps q) = Ok q.
Proof.
  intros Hk Hp RM Hm. cbv zeta. destruct (image_fields p (csym (N.to_nat (size p)) k) Hp) as (_ & E2 & E3).
  apply tps_round_trip_exact; [now apply image_pos_ok|now apply image_reserves_match|exact E3|now rewrite E2].
Qed.

Example ex_round_trip_squares :
  let p := from_squares gen_basis 5 ex_board5 13 in parse_tps gen_basis (format_tps p) = Ok p.
Proof. destruct ex_fit as [FB CF]. apply (tps_round_trip_squares 5 ex_board5 13 FB CF). lia. Qed.
