(* C04, Monte-Carlo player, part 2: corner forcing (cornerMove) and "after one pass the root has a child". *)
From Coq Require Import NArith ZArith List Bool Lia.
Require Import Board Move GameOver Refine RefinePlace RefinePlace2 LegalMoveLive Eval EvalInst Mcts MctsFacts.
Import ListNotations.
Open Scope N_scope.

(* ---------- math/rand ---------- *)
Lemma land_le a b : N.land a b <= b.
Proof.
  assert (E1 : N.land (N.land a b) (N.ldiff b a) = 0).
  { apply N.bits_inj. intros i. rewrite N.land_spec, N.land_spec, N.ldiff_spec, N.bits_0.
    destruct (N.testbit a i), (N.testbit b i); reflexivity. }
  assert (E2 : N.lor (N.land a b) (N.ldiff b a) = b).
  { apply N.bits_inj. intros i. rewrite N.lor_spec, N.land_spec, N.ldiff_spec.
    destruct (N.testbit a i), (N.testbit b i); reflexivity. }
  assert (E : N.land a b + N.ldiff b a = b) by (rewrite (N.add_nocarry_lxor _ _ E1), (N.lxor_lor _ _ E1); exact E2).
  lia.
Qed.

Lemma reject_ok rs max v rest : reject rs max = Ok (v, rest) -> v <= max.
Proof.
  revert v rest. induction rs as [|x rs IH]; intros v rest H; cbn [reject] in H; [discriminate|].
  destruct (N.ltb_spec max x); [eauto|]. injection H as <- _. assumption.
Qed.
Lemma reject_no_panic rs max : reject rs max <> Panic.
Proof. induction rs as [|x rs IH]; cbn [reject]; [discriminate|]. destruct (max <? x); [exact IH|discriminate]. Qed.

(* Int31n(n), n > 0: never panics, and the result is below n whatever the source returns *)
Lemma int31n_spec n rs : (0 < n)%Z ->
  match int31n n rs with Ok (r, _) => (Z.of_N r < n)%Z | Err => True | Panic => False end.
Proof.
  intros Hn. unfold int31n. replace (n <=? 0)%Z with false by lia.
  destruct (N.land (Z.to_N n) (Z.to_N n - 1) =? 0).
  - destruct rs as [|v rest]; [exact I|]. assert (L := land_le v (Z.to_N n - 1)). lia.
  - destruct (reject rs _) as [[v rest]| |] eqn:E; [|exact I|exact (reject_no_panic _ _ E)].
    assert (Hm : v mod Z.to_N n < Z.to_N n) by (apply N.mod_lt; lia). lia.
Qed.
Lemma intn_spec n rs : (0 < n)%Z ->
  match intn n rs with Ok (r, _) => (Z.of_N r < n)%Z | Err => True | Panic => False end.
Proof.
  intros Hn. unfold intn. replace (n <=? 0)%Z with false by lia.
  destruct (n <=? 2 ^ 31 - 1)%Z; [apply int31n_spec; exact Hn|exact I].
Qed.

(* ---------- cornerMove ---------- *)
Definition occupied (p : position) (x y : Z) : bool := has (N.lor (White p) (Move.Black p)) (Z.to_N (x + y * Z.of_N (size p))).
Definition corner (p : position) (a : N) : Z := ((Z.of_N (size p) - 1) * Z.of_N a)%Z.

Lemma at_len_spec p x y : wf p -> (0 <= x < Z.of_N (size p))%Z -> (0 <= y < Z.of_N (size p))%Z ->
  exists n, at_len p x y = Ok n /\ (n = 0 <-> occupied p x y = false).
Proof.
  intros W Hx Hy. pose proof (wf_size p W) as Hs.
  destruct (sq_index_on_board p x y Hs Hx Hy) as [_ Hi']. 
  assert (Hi : Z.to_N (x + y * Z.of_N (size p)) < size p * size p).
  { destruct (sq_index_on_board p x y Hs Hx Hy) as [<- L]. exact L. }
  unfold at_len, occupied. rewrite uint_of_int_id by nia.
  set (i := Z.to_N (x + y * Z.of_N (size p))) in *.
  destruct (has (N.lor (White p) (Move.Black p)) i) eqn:Hh.
  - rewrite (idx_ok (Height p) i 0) by (rewrite (wf_lenH p W); lia). cbn [bind].
    fold (nthN (Height p) i).
    destruct (N.eqb_spec (nthN (Height p) i) 0) as [Z0|NZ].
    + apply (wf_occ p W i Hi) in Z0. congruence.
    + eexists. split; [reflexivity|]. split; [contradiction|discriminate].
  - exists 0. split; [reflexivity|]. split; auto.
Qed.

Lemma corner_range p a : (3 <= size p <= 8) -> a < 2 -> (0 <= corner p a < Z.of_N (size p))%Z.
Proof. intros Hs Ha. unfold corner. assert (a = 0 \/ a = 1) as [-> | ->] by lia; lia. Qed.

(* With ForceCorners in the two opening plies: the square cornerMove returns is empty and the flat placement on it is
   accepted by MovePreallocated; the call does not panic; it only fails to return (Err = oracle stream exhausted) when
   every pair of draws selected an occupied corner. *)
Fixpoint all_pairs_occupied (p : position) (rs : rstream) : Prop :=
  match rs with
  | a :: b :: rest => occupied p (corner p (N.land a 1)) (corner p (N.land b 1)) = true /\ all_pairs_occupied p rest
  | _ => True
  end.

Lemma intn2 rs : intn 2 rs = match rs with [] => Err | v :: rest => Ok (N.land v 1, rest) end.
Proof. reflexivity. Qed.

Lemma corner_loop_spec p : wf p -> (move p < 2)%Z -> opening_supply p -> forall fuel rs,
  match corner_loop fuel p rs with
  | Ok (m, _) => exists q, mv p m = Ok q
  | Err => (length rs < fuel)%nat -> all_pairs_occupied p rs
  | Panic => False
  end.
Proof.
  intros W Hop OS. pose proof (wf_size p W) as Hs.
  induction fuel as [|f IH]; intros rs; cbn [corner_loop]; [lia|].
  rewrite intn2. destruct rs as [|a rs1]; cbn [bind]; [intros _; exact I|].
  rewrite intn2. destruct rs1 as [|b rs2]; cbn [bind]; [intros _; exact I|].
  fold (corner p (N.land a 1)). fold (corner p (N.land b 1)).
  assert (Ha : N.land a 1 < 2) by (assert (L := land_le a 1); lia).
  assert (Hb : N.land b 1 < 2) by (assert (L := land_le b 1); lia).
  assert (Rx := corner_range p _ Hs Ha). assert (Ry := corner_range p _ Hs Hb).
  set (x := corner p (N.land a 1)) in *. set (y := corner p (N.land b 1)) in *.
  destruct (at_len_spec p x y W Rx Ry) as (n & En & Hn). rewrite En. cbn [bind].
  destruct (N.ltb_spec 0 n) as [Hpos|Hz].
  - specialize (IH rs2). destruct (corner_loop f p rs2) as [[m r]| |]; [exact IH| |exact IH].
    intros Hl. cbn [all_pairs_occupied]. split.
    + destruct (occupied p x y) eqn:E; [exact E|]. assert (n = 0) by (apply Hn; reflexivity). lia.
    + apply IH. cbn [length] in Hl. lia.
  - assert (n = 0) by lia. subst n. assert (Ho : occupied p x y = false) by (apply Hn; reflexivity).
    rewrite !wrap8_id by lia.
    destruct (sq_index_on_board p x y Hs Rx Ry) as [Esq Li].
    apply (place_flat_ok p x y (sq_index p x y)).
    + lia.
    + reflexivity.
    + rewrite Esq. exact Ho.
    + rewrite (idx_ok (Height p) _ 0) by (rewrite (wf_lenH p W); lia). f_equal.
      apply (wf_occ p W _ Li). rewrite Esq. exact Ho.
    + replace (move p <? 2)%Z with true by lia. specialize (OS Hop). destruct (to_move_white p); exact OS.
Qed.

Theorem corner_move_legal p rs : wf p -> (move p < 2)%Z -> opening_supply p ->
  match corner_move p rs with
  | Ok (m, _) => exists q, mv p m = Ok q
  | Err => all_pairs_occupied p rs
  | Panic => False
  end.
Proof.
  intros W Hop OS. unfold corner_move. assert (H := corner_loop_spec p W Hop OS (S (length rs)) rs).
  destruct (corner_loop (S (length rs)) p rs) as [[m r]| |]; [exact H|apply H; lia|exact H].
Qed.

(* when at most one square is occupied (plies 0 and 1), two pairs of draws that differ in a low bit cannot both have hit
   an occupied corner: the loop ends as soon as the stream holds two such pairs *)
Definition at_most_one_occupied (p : position) : Prop :=
  forall i j, has (N.lor (White p) (Move.Black p)) i = true -> has (N.lor (White p) (Move.Black p)) j = true -> i = j.

Fixpoint pairs (rs : rstream) : list (N * N) :=
  match rs with a :: b :: rest => (N.land a 1, N.land b 1) :: pairs rest | _ => [] end.

Lemma all_pairs_occupied_pairs p rs : all_pairs_occupied p rs ->
  Forall (fun ab => occupied p (corner p (fst ab)) (corner p (snd ab)) = true) (pairs rs).
Proof.
  revert rs. fix IH 1. intros [|a [|b rest]]; cbn [all_pairs_occupied pairs]; intros H; try constructor.
  - exact (proj1 H).
  - apply IH. exact (proj2 H).
Qed.

Theorem corner_move_returns p rs ab ab' : wf p -> (move p < 2)%Z -> opening_supply p -> at_most_one_occupied p ->
  In ab (pairs rs) -> In ab' (pairs rs) -> ab <> ab' ->
  exists m rs' q, corner_move p rs = Ok (m, rs') /\ mv p m = Ok q.
Proof.
  intros W Hop OS One I1 I2 Hne. pose proof (wf_size p W) as Hs.
  assert (H := corner_move_legal p rs W Hop OS).
  destruct (corner_move p rs) as [[m r]| |]; [destruct H as [q Hq]; eauto| |contradiction].
  exfalso. apply all_pairs_occupied_pairs in H. rewrite Forall_forall in H.
  assert (O1 := H _ I1). assert (O2 := H _ I2). unfold occupied in O1, O2.
  assert (E := One _ _ O1 O2).
  assert (R : forall rs0 c, In c (pairs rs0) -> fst c < 2 /\ snd c < 2).
  { fix IH 1. intros [|a [|b rest]] c; cbn [pairs]; try contradiction. intros [<-|I]; [|exact (IH rest c I)].
    cbn [fst snd]. assert (L1 := land_le a 1). assert (L2 := land_le b 1). lia. }
  destruct (R _ _ I1) as [A1 B1]. destruct (R _ _ I2) as [A2 B2].
  destruct ab as [a b], ab' as [a' b']. cbn [fst snd] in *. unfold corner in E.
  apply Hne. assert (a = a' /\ b = b'); [|f_equal; tauto].
  assert (a = 0 \/ a = 1) as [-> | ->] by lia; assert (a' = 0 \/ a' = 1) as [-> | ->] by lia;
  assert (b = 0 \/ b = 1) as [-> | ->] by lia; assert (b' = 0 \/ b' = 1) as [-> | ->] by lia; split; try reflexivity; exfalso; nia.
Qed.
Print Assumptions corner_move_legal.
Print Assumptions corner_move_returns.
