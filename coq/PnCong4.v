(* C06, congruence part 4: the two corollaries of pn_verdict_sound against the attractor of the retrograde oracle WITHOUT
   the hypothesis equal_congruent, for roots that are positions of a game (PnCong3.cinv: C01's invariant, at most 64 pieces,
   reserves = configuration - board, ply counter on the side of the opening that the board shows), in particular for every
   position replayed from tak.New with any configuration of at most 64 pieces (sizes 3..6 with the default counts). *)
From Coq Require Import NArith ZArith Arith List Bool Lia.
Require Import Board Move Refine GameOver Preserve1 Reach1 Alloc AndOr AndOrS Pn PnRun PnFacts PnRunFacts PnCong1 PnCong2 PnCong3.
Require Import Generated.Consts.
Import ListNotations.
Open Scope N_scope.

Section Game.
Variable c : N * N * N * N.
Variable b : bool.
Variable aw : bool.
Notation succs := (succs gen_basis).
Notation terminal := (terminal aw).
Notation attp := (attp aw).
Notation wnp := (wn position succs terminal attp).

Lemma cinv_succ p q : cinv c b p -> In q (succs p) -> cinv c b q.
Proof. intros Hp Hq. apply in_succs in Hq as (m & _ & E). eapply cinv_step; [exact Hp|]. rewrite mv_is_pmv. exact E. Qed.

(* equal_congruent, relative to the positions of one game *)
Theorem equal_congruent_cinv : forall n q p, cinv c b q -> cinv c b p -> pos_equal q p = true -> wnp n q = wnp n p.
Proof. intros n q p Hq Hp E. apply sim_wn. eapply cinv_equal_sim; eassumption. Qed.

Theorem truth_equiv_cinv k p : cinv c b p -> (Wb position pos_equal succs terminal attp k [] p <-> wnp k p = true).
Proof.
  intros Hp. apply (truth_equiv_bounded_inv position pos_equal succs terminal attp (cinv c b)); [| |exact Hp].
  - intros p1 c1 H1 _ Hc. eapply cinv_succ; eassumption.
  - exact equal_congruent_cinv.
Qed.
End Game.

Lemma cinv_size c b p : cinv c b p -> size p <= 8.
Proof. intros [[Hs _ _ _] _ _ _ _]. lia. Qed.

Theorem pn_proven_rules_cinv : forall c b cfg p0 iters dfuel root st mv why,
  cinv c b p0 ->
  prove_pn gen_basis cfg (to_move_white p0) iters dfuel p0 = (root, st, 1, mv, why) ->
  exists k, Wb position pos_equal (succs gen_basis) (terminal (to_move_white p0)) (attp (to_move_white p0)) k [] p0.
Proof.
  intros c b cfg p0 iters dfuel root st mv why Hc E.
  destruct (pn_verdict_sound gen_basis cfg _ p0 eq_refl (cinv_size c b p0 Hc) _ _ _ _ _ _ _ E) as [H _].
  destruct (H eq_refl) as [[n Hn] _]. exists n. apply (truth_equiv_cinv c b); assumption.
Qed.

Theorem pn_disproven_attractor_cinv : forall c b cfg p0 iters dfuel root st mv why,
  cinv c b p0 -> (0 <= pc_maxdepth cfg)%Z ->
  prove_pn gen_basis cfg (to_move_white p0) iters dfuel p0 = (root, st, 2, mv, why) ->
  wn position (succs gen_basis) (terminal (to_move_white p0)) (attp (to_move_white p0)) (Z.to_nat (pc_maxdepth cfg)) p0 = false.
Proof.
  intros c b cfg p0 iters dfuel root st mv why Hc Hd E.
  destruct (pn_verdict_sound gen_basis cfg _ p0 eq_refl (cinv_size c b p0 Hc) _ _ _ _ _ _ _ E) as [_ H].
  specialize (H eq_refl). cbn [L length map] in H.
  destruct (wn _ _ _ _ (Z.to_nat (pc_maxdepth cfg)) p0) eqn:Ew; [|reflexivity].
  exfalso. apply H. split; [cbn; lia|]. cbn [Z.of_nat]. rewrite Z.sub_0_r. apply (truth_equiv_cinv c b); assumption.
Qed.

(* ---- for the entry point PnRun.pn_run (Prover.Prove with the constants of /repo) ---- *)
Theorem pn_run_proven_rules : forall c b iters dfuel maxnodes preserve maxdepth (p : position) root st mv why,
  cinv c b p ->
  pn_run iters dfuel maxnodes preserve maxdepth p = (root, st, 1, mv, why) ->
  exists k, Wb position pos_equal (succs gen_basis) (terminal (to_move_white p)) (attp (to_move_white p)) k [] p.
Proof. intros c b iters dfuel maxnodes preserve maxdepth p root st mv why Hc E. unfold pn_run in E. eapply pn_proven_rules_cinv; eassumption. Qed.

Theorem pn_run_disproven_attractor : forall c b iters dfuel maxnodes preserve maxdepth (p : position) root st mv why,
  cinv c b p -> (0 <= maxdepth)%Z ->
  pn_run iters dfuel maxnodes preserve maxdepth p = (root, st, 2, mv, why) ->
  wn position (succs gen_basis) (terminal (to_move_white p)) (attp (to_move_white p)) (Z.to_nat (eff_maxdepth maxdepth)) p = false.
Proof.
  intros c b iters dfuel maxnodes preserve maxdepth p root st mv why Hc Hd E. unfold pn_run in E.
  apply (pn_disproven_attractor_cinv c b _ p _ _ _ _ _ _ Hc) in E; [exact E|].
  cbn [pc_maxdepth]. unfold eff_maxdepth. destruct (maxdepth =? 0)%Z; lia.
Qed.

(* ---- roots that are positions of real games: anything replayed from tak.New ---- *)
Theorem pn_run_proven_rules_reachable : forall sz bwt stones caps ms iters dfuel maxnodes preserve maxdepth (p : position) root st mv why,
  3 <= sz <= 8 -> 2 * (stones + caps) <= 64 -> replay (new_pos sz bwt stones caps) ms = Ok p ->
  pn_run iters dfuel maxnodes preserve maxdepth p = (root, st, 1, mv, why) ->
  exists k, Wb position pos_equal (succs gen_basis) (terminal (to_move_white p)) (attp (to_move_white p)) k [] p.
Proof.
  intros sz bwt stones caps ms iters dfuel maxnodes preserve maxdepth p root st mv why Hsz Hc Hr E.
  eapply pn_run_proven_rules; [|exact E]. eapply reachable_cinv; eassumption.
Qed.

Theorem pn_run_disproven_attractor_reachable : forall sz bwt stones caps ms iters dfuel maxnodes preserve maxdepth (p : position) root st mv why,
  3 <= sz <= 8 -> 2 * (stones + caps) <= 64 -> replay (new_pos sz bwt stones caps) ms = Ok p -> (0 <= maxdepth)%Z ->
  pn_run iters dfuel maxnodes preserve maxdepth p = (root, st, 2, mv, why) ->
  wn position (succs gen_basis) (terminal (to_move_white p)) (attp (to_move_white p)) (Z.to_nat (eff_maxdepth maxdepth)) p = false.
Proof.
  intros sz bwt stones caps ms iters dfuel maxnodes preserve maxdepth p root st mv why Hsz Hc Hr Hd E.
  eapply pn_run_disproven_attractor; [|exact Hd|exact E]. eapply reachable_cinv; eassumption.
Qed.

Print Assumptions pn_run_proven_rules_reachable.
Print Assumptions pn_run_disproven_attractor_reachable.

(* ---- non-vacuity: the roots of PnRunFacts' two examples are replays from tak.New ---- *)
Definition pl (x y : Z) (t : N) : rmove := {| mX := x; mY := y; mT := t; mS := 0 |}.
(* 3x3, default 10 stones: 1. b2 a3  2. b3 b1 gives "1,1,x/x,2,x/x,2,x 1 3" *)
Example ex_won_reachable : replay (new_pos 3 false 10 0) [pl 1 1 2; pl 0 2 2; pl 1 2 2; pl 1 0 2] = Ok ex_won.
Proof. vm_compute. reflexivity. Qed.
Example ex_won_cinv : cinv (10, 0, 10, 0) false ex_won.
Proof. eapply reachable_cinv; [| |exact ex_won_reachable]; lia. Qed.
Example ex_proven_rules :
  exists k, Wb position pos_equal (succs gen_basis) (terminal (to_move_white ex_won)) (attp (to_move_white ex_won)) k [] ex_won.
Proof.
  destruct (pn_run 50 50 0 false 0 ex_won) as [[[[root st] result] mv] why] eqn:E.
  assert (R : result = 1) by (pose proof ex_proven as X; rewrite E in X; tauto). subst result.
  eapply pn_run_proven_rules; [exact ex_won_cinv|exact E].
Qed.

(* 3x3 with 3 stones per side: 1. a3 c3  2. Sa2 b3, White to move with one stone left each *)
Example ex_lost_reachable : replay (new_pos 3 false 3 0) [pl 0 2 2; pl 2 2 2; pl 0 1 3; pl 1 2 2] = Ok ex_lost.
Proof. vm_compute. reflexivity. Qed.
Example ex_lost_cinv : cinv (3, 0, 3, 0) false ex_lost.
Proof. eapply reachable_cinv; [| |exact ex_lost_reachable]; lia. Qed.
Example ex_disproven_attractor :
  wn position (succs gen_basis) (terminal (to_move_white ex_lost)) (attp (to_move_white ex_lost))
     (Z.to_nat (eff_maxdepth 0)) ex_lost = false.
Proof.
  destruct (pn_run 50 50 1615 true 0 ex_lost) as [[[[root st] result] mv] why] eqn:E.
  assert (R : result = 2) by (pose proof ex_disproven as X; rewrite E in X; tauto). subst result.
  eapply pn_run_disproven_attractor; [exact ex_lost_cinv|lia|exact E].
Qed.
