From Coq Require Import NArith ZArith Arith List Bool Lia ZifyN ZifyBool ZifyNat.
Require Import Board Move GameOver.
Import ListNotations.
Open Scope N_scope.

(* ---- compositions: an independent enumerator ---- *)
Fixpoint comps (fuel : nat) (h : nat) : list (list nat) :=
  match fuel with
  | O => []
  | S f => flat_map (fun i => [i] :: map (cons i) (comps f (h - i))) (seq 1 h)
  end.

Definition good (h : nat) (ds : list nat) : Prop := ds <> [] /\ Forall (fun d => 1 <= d)%nat ds /\ (list_sum ds <= h)%nat.

Lemma comps_complete : forall f h ds, (h <= f)%nat -> good h ds -> In ds (comps f h).
Proof.
  induction f as [|f IH]; intros h ds Hf (Hne & Hpos & Hsum).
  - destruct ds as [|d ds]; [congruence|]. inversion Hpos; subst. cbn in Hsum. lia.
  - destruct ds as [|d ds]; [congruence|]. inversion Hpos as [|? ? Hd Hpos']; subst. cbn in Hsum.
    cbn [comps]. apply in_flat_map. exists d. split; [apply in_seq; lia|].
    destruct ds as [|d' ds]; [now left|]. right. apply in_map. apply IH; [lia|].
    repeat split; [discriminate|assumption|cbn in *; lia].
Qed.

Lemma comps_sound : forall f h ds, In ds (comps f h) -> good h ds.
Proof.
  induction f as [|f IH]; intros h ds H; [destruct H|].
  cbn [comps] in H. apply in_flat_map in H as (i & Hi & H). apply in_seq in Hi.
  destruct H as [<-|H].
  - split; [discriminate|split; [constructor; [lia|constructor]|cbn [list_sum fold_right]; lia]].
  - apply in_map_iff in H as (t & <- & Ht). apply IH in Ht as (A & B & C).
    split; [discriminate|split; [constructor; [lia|assumption]|change (list_sum (i :: t)) with (i + list_sum t)%nat; lia]].
Qed.

(* ---- packing ---- *)
Definition pack (ds : list nat) : N := fold_right (fun d acc => prepend acc (N.of_nat d)) 0 ds.

(* the table built like init() is, for each h = 1..8, a duplicate-free listing of pack over comps 8 h *)
Fixpoint nodupb (l : list N) : bool :=
  match l with [] => true | x :: t => negb (existsb (N.eqb x) t) && nodupb t end.
Definition same_set (a b : list N) : bool :=
  forallb (fun x => existsb (N.eqb x) b) a && forallb (fun x => existsb (N.eqb x) a) b.

Fixpoint list_eqb (e : N -> N -> bool) (a b : list N) : bool :=
  match a, b with [], [] => true | x :: a', y :: b' => e x y && list_eqb e a' b' | _, _ => false end.

Definition table_ok (h : nat) : bool :=
  let t := nth h slides_table [] in
  nodupb t && same_set t (map pack (comps 8 h)) &&
  forallb (fun ds => list_eqb N.eqb (nibbles 8 (pack ds)) (map N.of_nat ds)) (comps 8 h).

Lemma tables_computed : forallb table_ok (seq 1 8) = true.
Proof. vm_compute. reflexivity. Qed.

(* ---- from the computed booleans to statements ---- *)
Lemma existsb_eqb_In x l : existsb (N.eqb x) l = true <-> In x l.
Proof. rewrite existsb_exists. split; [intros (y & Hy & E); apply N.eqb_eq in E; now subst|intros H; exists x; split; [assumption|apply N.eqb_refl]]. Qed.

Lemma nodupb_NoDup l : nodupb l = true -> NoDup l.
Proof.
  induction l as [|x l IH]; cbn; intros H; constructor.
  - apply andb_prop in H as [H _]. intros Hin. apply existsb_eqb_In in Hin. rewrite Hin in H. discriminate.
  - apply IH. now apply andb_prop in H as [_ H].
Qed.

Lemma list_eqb_eq a b : list_eqb N.eqb a b = true -> a = b.
Proof.
  revert b; induction a as [|x a IH]; intros [|y b] H; cbn in H; try discriminate; auto.
  apply andb_prop in H as [E H]. apply N.eqb_eq in E. subst. f_equal. now apply IH.
Qed.

Theorem slides_table_spec h : (1 <= h <= 8)%nat ->
  NoDup (nth h slides_table []) /\
  (forall s, In s (nth h slides_table []) <-> exists ds, good h ds /\ s = pack ds) /\
  (forall ds, good h ds -> nibbles 8 (pack ds) = map N.of_nat ds).
Proof.
  intros Hh. assert (H := tables_computed). rewrite forallb_forall in H.
  specialize (H h ltac:(apply in_seq; lia)). unfold table_ok in H.
  apply andb_prop in H as [H H3]. apply andb_prop in H as [H1 H2].
  unfold same_set in H2. apply andb_prop in H2 as [H2a H2b]. rewrite forallb_forall in H2a, H2b, H3.
  split; [now apply nodupb_NoDup|split].
  - intros s. split.
    + intros Hin. specialize (H2a s Hin). apply existsb_eqb_In, in_map_iff in H2a as (ds & <- & Hds).
      exists ds. split; [now apply comps_sound in Hds|reflexivity].
    + intros (ds & Hg & ->). apply existsb_eqb_In. apply H2b. apply in_map. apply comps_complete; [lia|assumption].
  - intros ds Hg. apply list_eqb_eq. apply H3. apply comps_complete; [lia|assumption].
Qed.
Print Assumptions slides_table_spec.

(* ---- the nibble mask test of AllMoves ---- *)
Lemma small_bits_high d i : (d < 16)%nat -> 4 <= i -> N.testbit (N.of_nat d) i = false.
Proof.
  intros Hd Hi. destruct d as [|d]; [apply N.bits_0|]. apply N.bits_above_log2.
  assert (N.log2 (N.of_nat (S d)) < 4); [|lia]. apply N.log2_lt_pow2; [lia|]. cbn. lia.
Qed.

Lemma pack_bits_high ds : Forall (fun d => d < 16)%nat ds -> forall i, 4 * N.of_nat (length ds) <= i -> N.testbit (pack ds) i = false.
Proof.
  induction ds as [|d ds IH]; intros Hd i Hi; cbn [pack fold_right length] in *; [apply N.bits_0|].
  inversion Hd as [|? ? Hd1 Hd']; subst. fold (pack ds). unfold prepend.
  rewrite N.land_spec, N.lor_spec, N.shiftl_spec_high' by lia.
  rewrite (IH Hd') by lia. rewrite small_bits_high by (auto; lia). reflexivity.
Qed.

Lemma mask_test ds dc : Forall (fun d => d < 16)%nat ds -> (length ds <= dc)%nat ->
  N.land (pack ds) (N.ldiff (N.ones 32) (N.ones (4 * N.of_nat dc))) = 0.
Proof.
  intros Hd Hl. apply N.bits_inj. intros i. rewrite N.land_spec, N.ldiff_spec, N.bits_0.
  destruct (N.lt_ge_cases i (4 * N.of_nat dc)).
  - rewrite (N.ones_spec_low (4 * N.of_nat dc)) by assumption. cbn. now rewrite !andb_false_r.
  - rewrite pack_bits_high by (auto; lia). reflexivity.
Qed.
Print Assumptions mask_test.

(* ---- every slide shape with a mover-owned origin, carry within the limit and a path on the board is generated ---- *)
Definition dist (p : position) (x y : nat) (t : N) : option nat :=
  let sz := N.to_nat (size p) in
  if t =? 5 then Some x else if t =? 6 then Some (sz - x - 1)%nat
  else if t =? 8 then Some y else if t =? 7 then Some (sz - y - 1)%nat else None.

Lemma good_small h ds : (h <= 8)%nat -> good h ds -> Forall (fun d => d < 16)%nat ds /\ (length ds <= 8)%nat.
Proof.
  intros Hh (Hne & Hpos & Hsum). split.
  - clear Hne. induction ds as [|d ds IH]; [constructor|]. inversion Hpos; subst.
    change (list_sum (d :: ds)) with (d + list_sum ds)%nat in Hsum.
    constructor; [lia|apply IH; [assumption|lia]].
  - assert (length ds <= list_sum ds)%nat; [|lia]. clear Hne Hsum.
    induction ds as [|d ds IH]; [cbn; lia|]. inversion Hpos; subst. specialize (IH H2).
    change (list_sum (d :: ds)) with (d + list_sum ds)%nat. cbn [length]. lia.
Qed.

Theorem allmoves_has_slide p x y t dc ds :
  (3 <= size p <= 8) -> (x < N.to_nat (size p))%nat -> (y < N.to_nat (size p))%nat ->
  let i := N.of_nat (y * N.to_nat (size p) + x) in
  nthN (Height p) i <> 0 -> (2 <= move p)%Z ->
  (if to_move_white p then has (White p) i else has (Black p) i) = true ->
  dist p x y t = Some dc ->
  good (N.to_nat (N.min (nthN (Height p) i) (size p))) ds -> (length ds <= dc)%nat ->
  In {| mX := Z.of_nat x; mY := Z.of_nat y; mT := t; mS := pack ds |} (all_moves p).
Proof.
  intros Hs Hx Hy i Hh Hmv Hown Hd Hg Hl.
  unfold all_moves. apply in_flat_map. exists x. split; [apply in_seq; lia|].
  apply in_flat_map. exists y. split; [apply in_seq; lia|]. fold i.
  replace (nthN (Height p) i =? 0) with false by lia.
  replace (move p <? 2)%Z with false by lia.
  destruct (to_move_white p); rewrite Hown; cbn [negb andb].
  all: apply in_flat_map; exists (t, dc); split.
  all: try (unfold dist in Hd; cbn [In];
            destruct (N.eqb_spec t 5) as [->|]; [injection Hd as <-; auto|];
            destruct (N.eqb_spec t 6) as [->|]; [injection Hd as <-; auto|];
            destruct (N.eqb_spec t 8) as [->|]; [injection Hd as <-; auto|];
            destruct (N.eqb_spec t 7) as [->|]; [injection Hd as <-; auto 6|discriminate]).
  all: cbn [fst snd]; apply in_flat_map; exists (pack ds).
  all: set (h := N.to_nat (N.min (nthN (Height p) i) (size p))) in *.
  all: assert (Hh8 : (1 <= h <= 8)%nat) by (subst h; lia).
  all: destruct (slides_table_spec h Hh8) as (_ & Hin & _).
  all: destruct (good_small h ds ltac:(lia) Hg) as [Hsm Hlen].
  all: split; [apply Hin; eauto|].
  all: rewrite mask_test by assumption; cbn; auto.
Qed.
Print Assumptions allmoves_has_slide.
