(* C09, refined model, part 7: a clone is identical to its source, immediately and after any further operations, with
   Height and Stacks read through the headers (the statement of AllocFacts3.clone_identical over Alloc2). *)
From Coq Require Import NArith ZArith List Bool Lia Arith.
Require Import Board Move GameOver Alloc AllocFacts AllocFacts2 AllocFacts3 Alloc2 Alloc2Facts5 Alloc2Facts6.
Import ListNotations.

Section S.
Variable hsq : N -> N -> N -> N.

Lemma ops_ok2_ok ops : forall ps zs, ops_ok2_from hsq ps zs ops = true -> ops_ok_from hsq ps ops = true.
Proof.
  induction ops as [|o ops IH]; intros ps zs H; cbn in *; [reflexivity|].
  apply andb_true_iff in H. destruct H as [H1 H2]. unfold op_ok2 in H1. apply andb_true_iff in H1. destruct H1 as [H1 _].
  rewrite H1. cbn. eapply IH. exact H2.
Qed.

Theorem clone_identical2 ops h ops' : ops_ok2 hsq (ops ++ OClone h :: ops') = true ->
  exists v, pval (pure_run hsq ops) h = Some v /\
    let c := length (pure_run hsq ops) in
    let st := run2 hsq (ops ++ OClone h :: ops') in
    (Forall (never_buf c) ops' -> observe2 st c = Some (observe_pure v)) /\
    (Forall (never_buf h) ops' -> observe2 st h = Some (observe_pure v)).
Proof.
  intro Hok2. pose proof (ops_ok2_ok _ _ _ Hok2) as Hok'. rewrite ops_ok_from_app in Hok'.
  apply andb_true_iff in Hok'. destruct Hok' as [_ H2]. fold (pure_run hsq ops) in H2.
  cbn [ops_ok_from op_ok] in H2. apply andb_true_iff in H2. destruct H2 as [H2 _].
  destruct (pval (pure_run hsq ops) h) as [v|] eqn:Ev; [|discriminate].
  exists v. split; [reflexivity|]. cbn zeta.
  assert (E : pure_run hsq (ops ++ OClone h :: ops') =
              pure_run_from hsq (pure_run hsq ops ++ [Some v]) ops').
  { unfold pure_run. rewrite pure_run_from_app. cbn [pure_run_from pure_step].
    fold (pure_run hsq ops). rewrite Ev. reflexivity. }
  split; intro Hf; apply (value_semantics2 hsq _ Hok2); rewrite E; apply pure_run_from_keeps; try assumption.
  - apply pval_app_new.
  - rewrite pval_app_old by (eapply pval_lt; eassumption). exact Ev.
Qed.
End S.
