(* C20: the scripted openings with the three candidate repairs of fpa.go switched on never fail.
   Complete enumeration: FpaEnum*.v (30 runs of Fpa.run by vm_compute); lifting: FpaFacts.run_clean_sound. *)
From Coq Require Import NArith ZArith List Bool Lia.
Require Import Board Move GameOver Tps Symmetry Fpa FpaFacts.
Require Import FpaEnumDS4W FpaEnumDS4B FpaEnumDS5W FpaEnumDS5B FpaEnumDS6W FpaEnumDS6B FpaEnumDS7W FpaEnumDS7B FpaEnumDS8W FpaEnumDS8B FpaEnumCairn4W FpaEnumCairn4B FpaEnumCairn5W FpaEnumCairn5B FpaEnumCairn6W FpaEnumCairn6B FpaEnumCairn7W FpaEnumCairn7B FpaEnumCairn8W FpaEnumCairn8B FpaEnumCenter.
Import ListNotations.

Definition sizes : list N := [4; 5; 6; 7; 8]%N.

Lemma all_clean : forall v sz botw, In sz sizes -> failing (run [] repaired v sz botw) = 0%N.
Proof.
  intros v sz botw H. unfold sizes in H. cbn [In] in H.
  destruct H as [<-|[<-|[<-|[<-|[<-|[]]]]]]; destruct v; destruct botw.
  - rewrite enum_center_4_w; reflexivity.
  - rewrite enum_center_4_b; reflexivity.
  - rewrite enum_ds_4_w; reflexivity.
  - rewrite enum_ds_4_b; reflexivity.
  - rewrite enum_cairn_4_w; reflexivity.
  - rewrite enum_cairn_4_b; reflexivity.
  - rewrite enum_center_5_w; reflexivity.
  - rewrite enum_center_5_b; reflexivity.
  - rewrite enum_ds_5_w; reflexivity.
  - rewrite enum_ds_5_b; reflexivity.
  - rewrite enum_cairn_5_w; reflexivity.
  - rewrite enum_cairn_5_b; reflexivity.
  - rewrite enum_center_6_w; reflexivity.
  - rewrite enum_center_6_b; reflexivity.
  - rewrite enum_ds_6_w; reflexivity.
  - rewrite enum_ds_6_b; reflexivity.
  - rewrite enum_cairn_6_w; reflexivity.
  - rewrite enum_cairn_6_b; reflexivity.
  - rewrite enum_center_7_w; reflexivity.
  - rewrite enum_center_7_b; reflexivity.
  - rewrite enum_ds_7_w; reflexivity.
  - rewrite enum_ds_7_b; reflexivity.
  - rewrite enum_cairn_7_w; reflexivity.
  - rewrite enum_cairn_7_b; reflexivity.
  - rewrite enum_center_8_w; reflexivity.
  - rewrite enum_center_8_b; reflexivity.
  - rewrite enum_ds_8_w; reflexivity.
  - rewrite enum_ds_8_b; reflexivity.
  - rewrite enum_cairn_8_w; reflexivity.
  - rewrite enum_cairn_8_b; reflexivity.

Qed.

(* the scripted opening is really exercised: number of scripted nodes per variant, size 4..8 and colour *)
Lemma all_scripted : forall v sz, In sz sizes -> (0 < scripted (run [] repaired v sz true) + scripted (run [] repaired v sz false))%N.
Proof.
  intros v sz H. unfold sizes in H. cbn [In] in H.
  destruct H as [<-|[<-|[<-|[<-|[<-|[]]]]]]; destruct v.
  - rewrite enum_center_4_w, enum_center_4_b; reflexivity.
  - rewrite enum_ds_4_w, enum_ds_4_b; reflexivity.
  - rewrite enum_cairn_4_w, enum_cairn_4_b; reflexivity.
  - rewrite enum_center_5_w, enum_center_5_b; reflexivity.
  - rewrite enum_ds_5_w, enum_ds_5_b; reflexivity.
  - rewrite enum_cairn_5_w, enum_cairn_5_b; reflexivity.
  - rewrite enum_center_6_w, enum_center_6_b; reflexivity.
  - rewrite enum_ds_6_w, enum_ds_6_b; reflexivity.
  - rewrite enum_cairn_6_w, enum_cairn_6_b; reflexivity.
  - rewrite enum_center_7_w, enum_center_7_b; reflexivity.
  - rewrite enum_ds_7_w, enum_ds_7_b; reflexivity.
  - rewrite enum_cairn_7_w, enum_cairn_7_b; reflexivity.
  - rewrite enum_center_8_w, enum_center_8_b; reflexivity.
  - rewrite enum_ds_8_w, enum_ds_8_b; reflexivity.
  - rewrite enum_cairn_8_w, enum_cairn_8_b; reflexivity.

Qed.

Theorem fpa_scripts_ok : forall v sz botw n st p,
  In sz sizes ->
  reach repaired v botw (fstate0, root [] sz) n (st, p) ->
  stops (max_ply_of v) p = false -> to_move_white p = botw ->
  forall r, get_move repaired v st p = Some r ->
  exists m st' q, r = Ok m /\ mv1 p m = Ok q /\ legal_move repaired v st p m = Ok (st', true).
Proof.
  intros v sz botw n st p Hsz Hr. exact (run_clean_sound repaired v sz botw (all_clean v sz botw Hsz) n (st, p) Hr).
Qed.
