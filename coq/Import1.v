(* C01/C08/C10/C14, the IMPORT paths of positions, part 1: tak.FromSquares.
   For every board that fits the representation (3..8 rows of as many squares, each square empty or of the shape
   Position.At produces - a top of kind 1..3 over flats - and at most 64 high) and every ply number,
   the position FromSquares builds from tak.New (default piece counts) satisfies the C01 invariant pos_ok
   (from_squares_wf) - with NO hypothesis on the piece counts: the byte reserves wrap, and pos_ok only asks for byte
   range - and it abstracts to exactly that board; the reserves are the default counts minus the pieces on the board
   modulo 256, i.e. exactly `default - on board` as soon as no colour/kind has more pieces on the board than the
   default count (counts_fit: the exact reserve hypothesis). *)
From Coq Require Import NArith ZArith Arith List Bool Lia ZifyN ZifyBool ZifyNat.
Require Import Board Stack Rules Move Refine RefinePlace RefinePlace2 RefinePlace3 Slide1 Slide2 Slide3 Slide4 Slide5 Slide6 Slide7 Slide8
  MoveRefines HashInv GameOver Preserve1 Preserve2 PreserveExt Preserve3 Preserve4 Preserve5 Preserve6 Reach1 HashMove1.
Require Import Alloc Generated.Consts.
Require Import PtnMove Playtak Tps TpsFacts TpsFacts2 TpsFacts3 TpsFacts4 TpsFacts5 TpsFacts6 TpsFacts8 TpsFacts9.
Import ListNotations.
Local Open Scope N_scope.

(* ---- boards that fit ---- *)
Definition fit_cell (sq : list pc) : Prop := sq = [] \/ (wf_square sq /\ (length sq <= 64)%nat).

Record fit_board (n : nat) (board : list (list (list pc))) : Prop := {
  fb_size : (3 <= n <= 8)%nat;
  fb_rows : length board = n;
  fb_cols : Forall (fun row => length row = n) board;
  fb_cells : Forall (Forall fit_cell) board }.

(* the abstract piece a TPS/At piece stands for *)
Definition piece_of (pp : pc) : piece :=
  match pp with
  | P b k => (if b then Rules.Black else Rules.White, if k =? 2 then Rules.Standing else if k =? 3 then Rules.Cap else Rules.Flat)
  end.

Lemma piece_of_pc_of x : piece_of (pc_of x) = x.
Proof. destruct x as [[] []]; reflexivity. Qed.

Lemma pc_of_piece_of pp : flat_pc pp \/ (match pp with P _ k => k = 1 \/ k = 2 \/ k = 3 end) -> pc_of (piece_of pp) = pp.
Proof.
  destruct pp as [b k]. intros H.
  assert (Hk : k = 1 \/ k = 2 \/ k = 3) by (destruct H as [H|H]; [cbn in H; auto|exact H]).
  destruct Hk as [->|[->| ->]]; destruct b; reflexivity.
Qed.

(* the pieces of a board by the reserve they come from *)
Definition pieces_of (board : list (list (list pc))) : list pc := concat (concat board).
Definition dp (n : nat) : N := nth n default_pieces 0.
Definition dc (n : nat) : N := nth n default_caps 0.

(* the exact reserve hypothesis: no more pieces of a colour and kind on the board than tak.New hands out *)
Definition counts_fit (n : nat) (board : list (list (list pc))) : Prop :=
  count is_ws (pieces_of board) <= dp n /\ count is_wc (pieces_of board) <= dc n /\
  count is_bs (pieces_of board) <= dp n /\ count is_bc (pieces_of board) <= dc n.

(* the abstract position a board, a ply number and the default reserves describe *)
Definition board_apos (n : nat) (board : list (list (list pc))) (mv : Z) : apos :=
  {| Rules.n := n; sq := map (map piece_of) (concat board);
     wstones := dp n - count is_ws (pieces_of board); wcaps := dc n - count is_wc (pieces_of board);
     bstones := dp n - count is_bs (pieces_of board); bcaps := dc n - count is_bc (pieces_of board);
     ply := mv; Rules.black_wins_ties := false |}.

(* ---- one square ---- *)
Lemma hgt_nil : hgt [] = 0.
Proof. reflexivity. Qed.

Lemma hgt_fit c : fit_cell c -> hgt c = N.of_nat (length c).
Proof.
  intros [->|[_ L]]; [reflexivity|]. unfold hgt, u8. apply N.mod_small. lia.
Qed.

Lemma top_sc c : top_stand c && top_cap c = false.
Proof.
  destruct c as [|[b k] r]; [reflexivity|]. cbn [top_stand top_cap].
  destruct (N.eqb_spec k 2) as [->|]; [reflexivity|reflexivity].
Qed.

Lemma cell_sq_ok b i c : i < 64 -> fit_cell c ->
  nthN (bhs b) i = hgt c -> N.testbit (bw b) i = top_white c -> N.testbit (bb b) i = top_black c ->
  N.testbit (bs b) i = top_stand c -> N.testbit (bc b) i = top_cap c -> sq_ok b i.
Proof.
  intros Hi Hc EH EW EB ES EC. pose proof (hgt_fit c Hc) as Hh.
  constructor; rewrite ?has_spec by exact Hi; rewrite ?EH, ?EW, ?EB, ?ES, ?EC, ?Hh.
  - destruct Hc as [->|[_ L]]; [cbn; lia|lia].
  - destruct c as [|[[] k] r]; cbn [length top_white top_black]; split; intros H; try (destruct H; discriminate); try lia; auto.
  - destruct c as [|[[] k] r]; reflexivity.
  - destruct c as [|pp r]; cbn [length]; intros H; [split; reflexivity|lia].
  - apply top_sc.
Qed.

Lemma cell_stk_ok b i c : fit_cell c -> nthN (bhs b) i = hgt c -> nthN (bst b) i = stk_bits c -> stk_ok b i.
Proof.
  intros Hc EH ES j Hj. rewrite EH, (hgt_fit c Hc) in Hj. rewrite ES.
  destruct c as [|top below]; [apply N.bits_0|]. rewrite stk_bits_spec. cbn [length] in Hj.
  replace (j <? N.of_nat (length below)) with false by lia. now rewrite andb_false_r.
Qed.

Lemma cell_abs_stack q i c : i < 64 -> fit_cell c ->
  nthN (Height q) i = hgt c -> nthN (Stacks q) i = stk_bits c ->
  N.testbit (Move.Black q) i = top_black c -> N.testbit (Standing q) i = top_stand c -> N.testbit (Caps q) i = top_cap c ->
  abs_stack q i = map piece_of c.
Proof.
  intros Hi Hc EH ES EB ESt EC. unfold abs_stack. rewrite !has_spec by exact Hi.
  rewrite EH, ES, EB, ESt, EC, (hgt_fit c Hc).
  destruct Hc as [->|[W L]]; [reflexivity|].
  destruct c as [|[tb k] below]; [destruct W|]. destruct W as [Hk Hfl]. cbn [length] in *.
  replace (N.of_nat (S (length below)) =? 0) with false by lia.
  cbn [map]. f_equal.
  - cbn [top_black top_stand top_cap piece_of]. now destruct tb.
  - replace (N.to_nat (N.of_nat (S (length below))) - 1)%nat with (length below) by lia.
    set (f := fun j : nat => N.testbit (stk_bits (P tb k :: below)) (N.of_nat j)).
    transitivity (map piece_of (map (fun j => P (f j) 1) (seq 0 (length below)))).
    + rewrite map_map. apply map_ext. intros j. reflexivity.
    + f_equal. symmetry. apply flats_eq_map; [exact Hfl|]. intros j Hj. cbn [plus]. unfold f.
      rewrite stk_bits_spec, Nat2N.id.
      replace (N.of_nat j <? 64) with true by lia. replace (N.of_nat j <? N.of_nat (length below)) with true by lia.
      reflexivity.
Qed.

(* ---- reading the lists FromSquares builds ---- *)
Lemma nth_map_hgt cells j : nth j (map hgt cells) 0 = hgt (nth j cells []).
Proof. exact (map_nth hgt cells [] j). Qed.
Lemma nth_map_stk cells j : nth j (map stk_bits cells) 0 = stk_bits (nth j cells []).
Proof. exact (map_nth stk_bits cells [] j). Qed.

Lemma Forall_concat {A} (Q : A -> Prop) (ll : list (list A)) : Forall (Forall Q) ll -> Forall Q (concat ll).
Proof. induction 1 as [|l ll Hl _ IH]; cbn [concat]; [constructor|]. apply Forall_app. split; assumption. Qed.

Lemma Forall_nth_default {A} (Q : A -> Prop) (l : list A) d j : Q d -> Forall Q l -> Q (nth j l d).
Proof.
  intros Hd Hl. destruct (lt_dec j (length l)) as [H|H].
  - rewrite Forall_forall in Hl. apply Hl. now apply nth_In.
  - rewrite nth_overflow by lia. exact Hd.
Qed.

(* ---- the theorem ---- *)
Section FS.
Variable n : nat.
Variable board : list (list (list pc)).
Variable mv : Z.
Hypothesis FB : fit_board n board.

Local Notation q := (from_squares gen_basis (N.of_nat n) board mv).
Local Notation cells := (concat board).

Lemma fs_cells_len : length cells = (n * n)%nat.
Proof. destruct FB as [_ Hr Hc _]. rewrite (concat_length_uniform n) by exact Hc. now rewrite Hr. Qed.

Lemma fs_cell_fit j : fit_cell (nth j cells []).
Proof. apply Forall_nth_default; [now left|]. apply Forall_concat. apply (fb_cells _ _ FB). Qed.

Lemma fs_facts : size q = N.of_nat n /\ Move.move q = mv /\ Move.black_wins_ties q = false /\ fs_ok gen_basis n cells q.
Proof.
  pose proof fs_cells_len as Hlen. pose proof (fb_size _ _ FB) as Hn.
  destruct (from_squares_spec gen_basis (N.of_nat n) board mv) as (E1 & E2 & E3 & F).
  { rewrite flat_map_id_concat, Nat2N.id. exact Hlen. }
  { rewrite Nat2N.id. nia. }
  rewrite Nat2N.id, flat_map_id_concat in F. auto.
Qed.

Lemma fs_reserves :
  whiteStones q = dec8 (dp n) (count is_ws (pieces_of board)) /\ whiteCaps q = dec8 (dc n) (count is_wc (pieces_of board)) /\
  blackStones q = dec8 (dp n) (count is_bs (pieces_of board)) /\ blackCaps q = dec8 (dc n) (count is_bc (pieces_of board)).
Proof.
  destruct fs_facts as (_ & _ & _ & F). pose proof (fo_res _ _ _ _ F) as R.
  rewrite rstep_fold in R by (apply default_pieces_lt || apply default_caps_lt).
  unfold pieces_of, dp, dc. now inversion R.
Qed.

Lemma dec8_lt a k : dec8 a k < 256.
Proof. unfold dec8. apply N.mod_upper_bound. lia. Qed.

(* what every on-board index reads *)
Lemma fs_square i : i < N.of_nat n * N.of_nat n ->
  let c := nth (N.to_nat i) cells [] in
  i < 64 /\ fit_cell c /\ nthN (Height q) i = hgt c /\ nthN (Stacks q) i = stk_bits c /\
  N.testbit (White q) i = top_white c /\ N.testbit (Move.Black q) i = top_black c /\
  N.testbit (Standing q) i = top_stand c /\ N.testbit (Caps q) i = top_cap c.
Proof.
  intros Hi c. destruct fs_facts as (_ & _ & _ & F). pose proof fs_cells_len as Hlen. pose proof (fb_size _ _ FB) as Hn.
  assert (Hin : (i <? N.of_nat (length cells)) = true) by (rewrite Hlen; lia).
  split; [nia|]. split; [apply fs_cell_fit|].
  split; [unfold nthN; rewrite (fo_H _ _ _ _ F); apply nth_map_hgt|].
  split; [unfold nthN; rewrite (fo_S _ _ _ _ F); apply nth_map_stk|].
  rewrite (fo_w _ _ _ _ F), (fo_b _ _ _ _ F), (fo_s _ _ _ _ F), (fo_c _ _ _ _ F), Hin. auto.
Qed.

Theorem from_squares_pos_ok : pos_ok q.
Proof.
  destruct fs_facts as (E1 & E2 & E3 & F). pose proof fs_cells_len as Hlen. pose proof (fb_size _ _ FB) as Hn.
  assert (LH : length (Height q) = nsq (size q)).
  { rewrite (fo_H _ _ _ _ F), map_length, Hlen, E1. unfold nsq. lia. }
  assert (LS : length (Stacks q) = nsq (size q)).
  { rewrite (fo_S _ _ _ _ F), map_length, Hlen, E1. unfold nsq. lia. }
  constructor.
  - rewrite E1. lia.
  - constructor; [exact LH|exact LS|]. intros i Hi. rewrite E1 in Hi.
    destruct (fs_square i Hi) as (H64 & Hc & EH & ES & EW & EB & ESt & EC).
    now apply (cell_sq_ok (bview q) i (nth (N.to_nat i) cells [])).
  - destruct fs_reserves as (R1 & R2 & R3 & R4). unfold reserves_ok. rewrite R1, R2, R3, R4.
    repeat split; apply dec8_lt.
  - constructor; [exact LH|exact LS| | |].
    + intros i Hi. rewrite E1 in Hi.
      destruct (fs_square i Hi) as (H64 & Hc & EH & ES & _).
      now apply (cell_stk_ok (bview q) i (nth (N.to_nat i) cells [])).
    + assert (Hout : forall j, size q * size q <= j -> (j <? N.of_nat (length cells)) = false) by (intros j Hj; rewrite Hlen; lia).
      unfold mask_ok, hi_clear. cbn [bview bw bb bs bc].
      split; [|split; [|split]]; intros j Hj.
      * now rewrite (fo_w _ _ _ _ F), (Hout j Hj).
      * now rewrite (fo_b _ _ _ _ F), (Hout j Hj).
      * now rewrite (fo_s _ _ _ _ F), (Hout j Hj).
      * now rewrite (fo_c _ _ _ _ F), (Hout j Hj).
    + unfold hash_inv. cbn [bview bh bhs bst]. rewrite (fo_hash _ _ _ _ F). now apply scratch_is_hsum.
Qed.

Theorem from_squares_abs_sq : sq (abs q) = map (map piece_of) cells.
Proof.
  destruct fs_facts as (E1 & _). pose proof fs_cells_len as Hlen.
  unfold abs. cbn [sq]. rewrite E1, Nat2N.id.
  apply (nth_ext _ _ [] []); [now rewrite !map_length, seq_length, Hlen|].
  intros j Hj. rewrite map_length, seq_length in Hj.
  rewrite nth_indep with (d' := (fun i => abs_stack q (N.of_nat i)) 0%nat) by (now rewrite map_length, seq_length).
  rewrite (map_nth (fun i => abs_stack q (N.of_nat i))), seq_nth by exact Hj. cbn [plus].
  change (nth j (map (map piece_of) cells) []) with (nth j (map (map piece_of) cells) (map piece_of [])). rewrite (map_nth (map piece_of)).
  destruct (fs_square (N.of_nat j) ltac:(lia)) as (H64 & Hc & EH & ES & _ & EB & ESt & EC). rewrite Nat2N.id in *.
  now apply cell_abs_stack.
Qed.

Theorem from_squares_abs : counts_fit n board -> abs q = board_apos n board mv.
Proof.
  intros (C1 & C2 & C3 & C4). destruct fs_facts as (E1 & E2 & E3 & _). destruct fs_reserves as (R1 & R2 & R3 & R4).
  pose proof from_squares_abs_sq as Esq.
  unfold abs in *. cbn [sq] in Esq. unfold board_apos. rewrite Esq, E1, E2, E3, R1, R2, R3, R4, Nat2N.id.
  rewrite !dec8_sub by (assumption || apply default_pieces_lt || apply default_caps_lt). reflexivity.
Qed.
End FS.

(* the export: all of it in one statement *)
Theorem from_squares_wf n board mv : fit_board n board ->
  let q := from_squares gen_basis (N.of_nat n) board mv in
  pos_ok q /\ size q = N.of_nat n /\ Move.move q = mv /\ Move.black_wins_ties q = false /\
  sq (abs q) = map (map piece_of) (concat board) /\
  whiteStones q = dec8 (dp n) (count is_ws (pieces_of board)) /\ whiteCaps q = dec8 (dc n) (count is_wc (pieces_of board)) /\
  blackStones q = dec8 (dp n) (count is_bs (pieces_of board)) /\ blackCaps q = dec8 (dc n) (count is_bc (pieces_of board)) /\
  (counts_fit n board -> abs q = board_apos n board mv).
Proof.
  intros FB q. destruct (fs_facts n board mv FB) as (E1 & E2 & E3 & _).
  destruct (fs_reserves n board mv FB) as (R1 & R2 & R3 & R4).
  split; [now apply from_squares_pos_ok|]. split; [exact E1|]. split; [exact E2|]. split; [exact E3|].
  split; [now apply from_squares_abs_sq|]. split; [exact R1|]. split; [exact R2|]. split; [exact R3|]. split; [exact R4|].
  now apply from_squares_abs.
Qed.
Print Assumptions from_squares_wf.

(* ---- decidable versions, and non-vacuity ---- *)
Definition fit_cellb (sq : list pc) : bool :=
  match sq with
  | [] => true
  | P _ k :: below => ((k =? 1) || (k =? 2) || (k =? 3)) && forallb (fun pp => match pp with P _ k' => k' =? 1 end) below
                      && (List.length sq <=? 64)%nat
  end.

Lemma fit_cellb_ok sq : fit_cellb sq = true -> fit_cell sq.
Proof.
  destruct sq as [|[b k] below]; [now left|]. intros H. right. cbn [fit_cellb] in H.
  rewrite !andb_true_iff in H. destruct H as [[Hk Hfl] Hlen]. split.
  - cbn [wf_square]. split; [lia|]. apply Forall_forall. intros [b' k'] Hin.
    rewrite forallb_forall in Hfl. specialize (Hfl _ Hin). cbn in *. lia.
  - now apply Nat.leb_le in Hlen.
Qed.

Definition fit_boardb (n : nat) (board : list (list (list pc))) : bool :=
  (3 <=? n)%nat && (n <=? 8)%nat && (List.length board =? n)%nat && forallb (fun row => (List.length row =? n)%nat) board
  && forallb (forallb fit_cellb) board.

Lemma fit_boardb_ok n board : fit_boardb n board = true -> fit_board n board.
Proof.
  unfold fit_boardb. rewrite !andb_true_iff. intros [[[[H1 H2] H3] H4] H5]. constructor.
  - split; [now apply Nat.leb_le|now apply Nat.leb_le].
  - now apply Nat.eqb_eq.
  - apply Forall_forall. intros row Hr. rewrite forallb_forall in H4. apply Nat.eqb_eq. now apply H4.
  - apply Forall_forall. intros row Hr. apply Forall_forall. intros sq Hs. apply fit_cellb_ok.
    rewrite forallb_forall in H5. specialize (H5 _ Hr). rewrite forallb_forall in H5. now apply H5.
Qed.

Definition counts_fitb (n : nat) (board : list (list (list pc))) : bool :=
  (count is_ws (pieces_of board) <=? dp n) && (count is_wc (pieces_of board) <=? dc n) &&
  (count is_bs (pieces_of board) <=? dp n) && (count is_bc (pieces_of board) <=? dc n).
Lemma counts_fitb_ok n board : counts_fitb n board = true -> counts_fit n board.
Proof. unfold counts_fitb, counts_fit. rewrite !andb_true_iff. intros [[[A B] C] D]. repeat split; lia. Qed.

(* a 5x5 board: a white flat, a white capstone, a black capstone on a six-high stack, a white wall on a black flat, a black flat *)
Definition ex_board5 : list (list (list pc)) :=
  [ [[P false 1]; []; []; [P false 3]; []];
    [[]; [P true 3; P false 1; P true 1; P true 1; P false 1; P false 1; P true 1]; []; []; []];
    [[]; []; [P false 2; P true 1]; []; []];
    [[]; []; []; []; []];
    [[]; []; []; []; [P true 1]] ].

Example ex_fit : fit_board 5 ex_board5 /\ counts_fit 5 ex_board5.
Proof. split; [apply fit_boardb_ok|apply counts_fitb_ok]; vm_compute; reflexivity. Qed.

Example ex_from_squares_wf :
  let q := from_squares gen_basis 5 ex_board5 13 in
  pos_ok q /\ abs q = board_apos 5 ex_board5 13 /\
  nth 6 (sq (abs q)) [] = [(Rules.Black, Cap); (Rules.White, Flat); (Rules.Black, Flat); (Rules.Black, Flat); (Rules.White, Flat); (Rules.White, Flat); (Rules.Black, Flat)] /\
  wstones (abs q) = 16 /\ wcaps (abs q) = 0 /\ bstones (abs q) = 16 /\ bcaps (abs q) = 0.
Proof.
  intros q. destruct ex_fit as [FB CF].
  destruct (from_squares_wf 5 ex_board5 13 FB) as (A & _ & _ & _ & _ & _ & _ & _ & _ & B).
  change (from_squares gen_basis (N.of_nat 5) ex_board5 13) with q in *.
  specialize (B CF). split; [exact A|]. split; [exact B|]. rewrite B. vm_compute. repeat split; reflexivity.
Qed.

(* the reserve hypothesis is exact: with one white flat too many (11 on a 3x3 board, 10 in the reserve) the byte counter
   wraps to 255 although pos_ok holds *)
Definition ex_over3 : list (list (list pc)) :=
  [ [[P false 1; P false 1]; [P false 1; P false 1]; [P false 1; P false 1]];
    [[P false 1; P false 1]; [P false 1; P false 1]; [P false 1]];
    [[]; []; []] ].
Example ex_reserve_wraps :
  fit_board 3 ex_over3 /\ ~ counts_fit 3 ex_over3 /\ pos_ok (from_squares gen_basis 3 ex_over3 0) /\
  whiteStones (from_squares gen_basis 3 ex_over3 0) = 255.
Proof.
  assert (FB : fit_board 3 ex_over3) by (apply fit_boardb_ok; vm_compute; reflexivity).
  split; [exact FB|]. split; [intros (C & _); vm_compute in C; apply C; reflexivity|].
  split; [exact (from_squares_pos_ok 3 ex_over3 0 FB)|].
  destruct (fs_reserves 3 ex_over3 0 FB) as (R & _). change (N.of_nat 3) with 3 in R. rewrite R. vm_compute. reflexivity.
Qed.
