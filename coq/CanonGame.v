(* C15: NoCollision in the form "equal Position.Hash implies Position.Equal" among the eight replay boards.
   Canon3.nocoll_trace asks, for a board whose hash equals board 0's, that it SHOWS the same position (abs: squares, reserves, ply,
   tie flag).  The eight boards Canonical keeps are replays from tak.New(Config{Size}) of the same number of moves, so they are
   positions of one game (PnCong3.cinv, sizes 3..6: at most 64 pieces) with the same ply counter - whatever the hash comparisons did.
   Inside one game Position.Equal (bit boards, heights, stacks, size, side to move - not the reserves, not the ply) identifies only
   records that differ in the ply counter (PnCong3.cinv_equal_sim); with equal ply counters they are the same record.  Hence
   nocoll_pe_trace (equal hash => pos_equal, along the trace) implies nocoll_trace, and the C15 theorems hold with it. *)
From Coq Require Import NArith ZArith Arith List Bool Lia.
Require Import Rules SymRules2.
Require Import Board Move GameOver Tps Symmetry CanonFacts Refine Preserve1 Reach1 Alloc Canon1 Canon2 Canon2b Canon3 Canon4 Canon5 Canon9 Canon10 Canon12.
Require Import SymCode1 Pn PnCong1 PnCong3.
Require Import Generated.Consts.
Import ListNotations.
Close Scope Z_scope. Close Scope N_scope.

Definition dflt_c (sz : N) : N * N * N * N :=
  (nth (N.to_nat sz) gen_defaultPieces 0%N, nth (N.to_nat sz) gen_defaultCaps 0%N, nth (N.to_nat sz) gen_defaultPieces 0%N, nth (N.to_nat sz) gen_defaultCaps 0%N).

Lemma new_pos_cinv sz : (3 <= sz <= 6)%N -> PnCong3.cinv (dflt_c sz) false (Symmetry.new_pos gen_basis sz) /\ move (Symmetry.new_pos gen_basis sz) = 0%Z.
Proof.
  intros Hsz. assert (Hin : In sz [3; 4; 5; 6; 7; 8]%N) by (cbn; lia).
  unfold Symmetry.new_pos. rewrite (from_squares_empty_is_new sz Hin). split; [|reflexivity].
  apply cinv_new; [lia|].
  assert (sz = 3 \/ sz = 4 \/ sz = 5 \/ sz = 6)%N as [->|[->|[->| ->]]] by lia; vm_compute; discriminate.
Qed.

Lemma all_res_in {A} (l : list (res A)) bs : all_res l = Ok bs -> forall x, In x bs -> In (Ok x) l.
Proof.
  revert bs. induction l as [|r l IH]; intros bs H x Hx; cbn in H.
  - injection H as <-. contradiction.
  - destruct r as [a| |]; try discriminate. destruct (all_res l) as [t| |] eqn:E; try discriminate. injection H as <-.
    destruct Hx as [<-|Hx]; [now left|right; eapply IH; eauto].
Qed.

Section Game.
Variable sz : N.
Hypothesis Hsz : (3 <= sz <= 6)%N.

(* every board of a state the loop reaches after k moves is a position of the game from tak.New, with ply counter k *)
Definition boards_game (k : nat) (st : cst) : Prop :=
  forall b, In b (fst (fst st)) -> PnCong3.cinv (dflt_c sz) false (cp b) /\ move (cp b) = Z.of_nat k.

Lemma cstep_game k st m st' : boards_game k st -> cstep sz (Ok st) m = Ok st' -> boards_game (S k) st'.
Proof.
  intros Hg E. destruct st as [[boards rots] tfn]. cbn [cstep] in E.
  destruct (transform_move tfn m) as [m1| |]; try discriminate.
  destruct (fold_left _ _ _) as [[best rot]| |]; try discriminate.
  assert (exists m2 bs, all_res (map (move_board (syms (Z.of_N sz)) m2) (combine (seq 0 8) boards)) = Ok bs /\ fst (fst st') = bs) as (m2 & bs & Ea & Est).
  { destruct rot as [r|]; cbv beta iota zeta in E.
    - match type of E with context[all_res ?l] => destruct (all_res l) as [bs| |] eqn:Ea; try discriminate end.
      injection E as <-. exists best, bs. split; [exact Ea|reflexivity].
    - match type of E with context[all_res ?l] => destruct (all_res l) as [bs| |] eqn:Ea; try discriminate end.
      injection E as <-. exists m1, bs. split; [exact Ea|reflexivity]. }
  intros b Hb. rewrite Est in Hb. apply (all_res_in _ _ Ea) in Hb. apply in_map_iff in Hb as ([i c0] & Hmb & Hin).
  apply in_combine_r in Hin. unfold move_board in Hmb. cbn [fst snd] in Hmb.
  destruct (transform_move _ _) as [rm| |]; try discriminate.
  destruct (cmv (cp c0) rm) as [q| |] eqn:Em; try discriminate. injection Hmb as <-. cbn [cp].
  destruct (Hg c0 Hin) as [Hc Hm]. split.
  - eapply cinv_step; [exact Hc|exact Em].
  - unfold cmv, mvp in Em. apply PnFacts.mv_fields in Em as [Em _]. rewrite Em, Hm. lia.
Qed.

Lemma fold_game : forall l st, fold_left (cstep sz) l (cinit sz) = Ok st -> boards_game (length l) st.
Proof.
  induction l as [|m l IH] using rev_ind; intros st H.
  - unfold cinit in H. cbn [fold_left] in H. injection H as <-. intros b Hb. cbn [fst] in Hb. apply (repeat_spec 8 (cstate0 sz)) in Hb. subst b. cbn [cp cstate0 length].
    destruct (new_pos_cinv sz Hsz) as [A B]. split; [exact A|exact B].
  - rewrite fold_cstep_app in H. destruct (cstep_not_ok _ _ _ _ H) as (st0 & E0). rewrite E0 in H.
    rewrite app_length. cbn [length]. rewrite Nat.add_1_r. eapply cstep_game; [|exact H]. now apply IH.
Qed.

(* NoCollision as a statement about Position.Hash and Position.Equal only *)
Definition nocoll_pe_state (st : cst) : Prop :=
  let boards := fst (fst st) in
  forall b, In b boards -> hash_of (cp b) = hash_of (cp (board0 sz boards)) -> pos_equal (cp b) (cp (board0 sz boards)) = true.
Definition nocoll_pe_trace (ms : list rmove) : Prop :=
  forall k st, k < length ms -> fold_left (cstep sz) (firstn k ms) (cinit sz) = Ok st -> nocoll_pe_state st.

Theorem nocoll_pe_nocoll ms : nocoll_pe_trace ms -> nocoll_trace sz ms.
Proof.
  intros H k st Hk Hf b Hb Hh.
  pose proof (fold_game _ _ Hf) as Hg.
  specialize (H k st Hk Hf b Hb Hh). unfold A_of.
  set (boards := fst (fst st)) in *.
  assert (Hb0 : In (board0 sz boards) boards).
  { unfold board0. destruct boards as [|x r]; [contradiction|now left]. }
  destruct (Hg b Hb) as [C1 M1]. destruct (Hg _ Hb0) as [C0 M0].
  destruct (cinv_equal_sim _ _ _ _ C1 C0 H) as [E _].
  rewrite E. rewrite M1, <- M0. now rewrite setmv_id.
Qed.
End Game.

(* ---------- the C15 theorems with that hypothesis (sizes 3..6: every game has at most 64 pieces) ---------- *)
Theorem canonical_legal_images_game : forall sz, (3 <= sz <= 6)%N -> forall ms cs,
  Forall canon_input ms -> nocoll_pe_trace sz ms -> canonical gen_basis sz ms = Ok cs ->
  length cs = length ms /\
  forall k, k <= length ms ->
    exists j A B, j < 8 /\ play (P0 sz) (map raw (firstn k cs)) = Some A /\ play (P0 sz) (map raw (firstn k ms)) = Some B /\ A = img j B.
Proof. intros sz Hsz ms cs Hi Hn. apply canonical_legal_images; auto. now apply nocoll_pe_nocoll. Qed.

Theorem canonical_class_invariant_game : forall sz, (3 <= sz <= 6)%N -> forall g ms cs, g < 8 ->
  Forall canon_input ms -> nocoll_pe_trace sz ms -> canonical gen_basis sz ms = Ok cs ->
  canonical gen_basis sz (map (tmr g (N.to_nat sz)) ms) = Ok cs.
Proof. intros sz Hsz g ms cs Hg Hi Hn. apply canonical_class_invariant; auto. now apply nocoll_pe_nocoll. Qed.

Theorem canonical_idempotent_game : forall sz, (3 <= sz <= 6)%N -> forall ms cs,
  Forall canon_input ms -> nocoll_pe_trace sz ms -> canonical gen_basis sz ms = Ok cs ->
  canonical gen_basis sz cs = Ok cs.
Proof. intros sz Hsz ms cs Hi Hn. apply canonical_idempotent; auto. now apply nocoll_pe_nocoll. Qed.

Theorem canonical_total_game : forall sz, (3 <= sz <= 6)%N -> forall ms B,
  nocoll_pe_trace sz ms -> play (P0 sz) (map raw ms) = Some B -> exists cs, canonical gen_basis sz ms = Ok cs.
Proof. intros sz Hsz ms B Hn. apply canonical_total; auto. now apply nocoll_pe_nocoll. Qed.

(* non-vacuity: the 5x5 example game of Canon5 satisfies the syntactic hypothesis (checked by computation) *)
Definition nocoll_pe_stateb (sz : N) (st : cst) : bool :=
  let boards := fst (fst st) in
  forallb (fun b => negb (hash_of (cp b) =? hash_of (cp (board0 sz boards)))%N || pos_equal (cp b) (cp (board0 sz boards))) boards.
Definition nocoll_pe_traceb (sz : N) (ms : list rmove) : bool :=
  forallb (fun k => match fold_left (cstep sz) (firstn k ms) (cinit sz) with Ok st => nocoll_pe_stateb sz st | _ => true end) (seq 0 (length ms)).
Lemma nocoll_pe_traceb_ok sz ms : nocoll_pe_traceb sz ms = true -> nocoll_pe_trace sz ms.
Proof.
  unfold nocoll_pe_traceb. intros H k st Hk Hf. rewrite forallb_forall in H.
  specialize (H k ltac:(apply in_seq; lia)). rewrite Hf in H. unfold nocoll_pe_stateb in H. rewrite forallb_forall in H.
  intros b Hb Hh. specialize (H b Hb). apply N.eqb_eq in Hh. rewrite Hh in H. cbn [negb orb] in H. exact H.
Qed.
Example ex_nocoll_pe : nocoll_pe_trace 5 ex_ms.
Proof. apply nocoll_pe_traceb_ok. vm_compute. reflexivity. Qed.
Print Assumptions canonical_legal_images_game.
Print Assumptions canonical_class_invariant_game.
Print Assumptions canonical_idempotent_game.
