(* AI/Eval.v (draft): code-shaped model of ai/evaluate.go *)
From Coq Require Import NArith ZArith List Bool Lia.
Require Import Board Move GameOver.
Import ListNotations.
Open Scope N_scope.

(* feature indices, in the order of the Go const block *)
Definition Tempo := 0%nat. Definition TopFlat := 1%nat. Definition FStanding := 2%nat. Definition FCapstone := 3%nat.
Definition HardTopCap := 4%nat. Definition CapMobility := 5%nat.
Definition FlatCaptives_Soft := 6%nat. Definition FlatCaptives_Hard := 7%nat.
Definition StandingCaptives_Soft := 8%nat. Definition StandingCaptives_Hard := 9%nat.
Definition CapstoneCaptives_Soft := 10%nat. Definition CapstoneCaptives_Hard := 11%nat.
Definition Liberties := 12%nat. Definition GroupLiberties := 13%nat. Definition Groups := 14%nat.
Definition Potential := 23%nat. Definition Threat := 24%nat. Definition EmptyControl := 25%nat. Definition FlatControl := 26%nat.
Definition Center := 27%nat. Definition CenterControl := 28%nat.
Definition ThrowMine := 29%nat. Definition ThrowTheirs := 30%nat. Definition ThrowEmpty := 31%nat.
Definition Terminal_Plies := 32%nat. Definition Terminal_Flats := 33%nat. Definition Terminal_Reserves := 34%nat.
Definition Terminal_OpponentReserves := 35%nat. Definition MaxFeature := 36%nat.

Definition weights := list Z.
Definition wt (w : weights) (f : nat) : Z := nth f w 0%Z.
(* ws[f] on a [MaxFeature]int64: panics when out of range *)
Definition wt_idx (w : weights) (f : nat) : res Z := if (f <? MaxFeature)%nat then Ok (wt w f) else Panic.

Definition pc (x : N) : Z := Z.of_N (popcount x).
Definition compl64 (x : N) : N := N.lxor x (N.ones 64).                 (* ^x on uint64 *)
Definition andnot (a b : N) : N := N.ldiff a b.

(* bitboard.Dimensions; the two skip loops run on fuel and report exhaustion (a hang in Go) *)
Fixpoint skip_empty (fuel : nat) (bits b sh : N) : option N :=
  match fuel with O => None | S f => if N.land bits b =? 0 then skip_empty f bits (N.shiftr b sh) sh else Some b end.
Fixpoint count_run (fuel : nat) (bits b sh : N) (n : nat) : nat :=
  match fuel with O => n | S f => if negb (b =? 0) && negb (N.land bits b =? 0) then count_run f bits (N.shiftr b sh) sh (S n) else n end.
Definition dimensions (c : consts) (bits : N) : option (nat * nat) :=
  if bits =? 0 then Some (0, 0)%nat else
  match skip_empty 65 bits (cL c) 1, skip_empty 65 bits (cT c) (Size c) with
  | Some b1, Some b2 => Some (count_run 65 bits b1 1 0, count_run 65 bits b2 (Size c) 0)
  | _, _ => None
  end.

(* mobility(c, p, bit, height) *)
Fixpoint ray (fuel : nat) (e stop : N) (step : N -> N) (m : N) : N :=
  match fuel with O => m | S f => if N.land e stop =? 0 then ray f (step e) stop step (N.lor m e) else m end.
Definition mobility (c : consts) (p : position) (bit0 : N) (height : nat) : N :=
  let stop := andnot (N.lor (N.lor (Caps p) (Standing p)) (compl64 (cMask c))) bit0 in
  let m := bit0 in
  let m := ray height (u64 (N.shiftl bit0 1)) (N.lor stop (cR c)) (fun e => u64 (N.shiftl e 1)) m in
  let m := ray height (N.shiftr bit0 1) (N.lor stop (cL c)) (fun e => N.shiftr e 1) m in
  let m := ray height (u64 (N.shiftl bit0 (Size c))) stop (fun e => u64 (N.shiftl e (Size c))) m in
  ray height (N.shiftr bit0 (Size c)) stop (fun e => N.shiftr e (Size c)) m.

Definition score_groups (c : consts) (gs : list N) (w : weights) (other : N) : res Z :=
  let step (acc : res (Z * N)) (g : N) : res (Z * N) :=
    match acc with
    | Ok (sc, allg) =>
      match dimensions c g with
      | None => Panic                           (* unreachable on groups: would be a hang *)
      | Some (wd, ht) =>
        match wt_idx w (Groups + wd), wt_idx w (Groups + ht) with
        | Ok a, Ok b => Ok ((sc + a + b)%Z, N.lor allg g)
        | _, _ => Panic
        end
      end
    | e => e
    end in
  match fold_left step gs (Ok (0%Z, 0)) with
  | Ok (sc, allg) =>
    if (wt w GroupLiberties =? 0)%Z then Ok sc
    else Ok (sc + pc (andnot (grow c (compl64 other) allg) allg) * wt w GroupLiberties)%Z
  | Err => Err | Panic => Panic
  end.

(* CountThreats *)
Fixpoint lowest_bits (fuel : nat) (s : N) : list N :=          (* the singles iteration: s &^ (s & (s-1)), lowest first *)
  match fuel with O => [] | S f => if s =? 0 then [] else
     let next := N.land s (s - 1) in N.ldiff s next :: lowest_bits f next end.

Definition count_one (c : consts) (p : position) (gs : list N) (pieces : N) : Z * Z :=
  let empty := andnot (cMask c) (N.lor (White p) (Black p)) in
  let nocs := andnot (cMask c) (N.lor (Standing p) (Caps p)) in
  let singles := fold_left (fun s g => andnot s g) gs pieces in
  let junction (g other : N) : bool :=
    (negb (N.land g (cL c) =? 0) && negb (N.land other (cR c) =? 0)) ||
    (negb (N.land g (cR c) =? 0) && negb (N.land other (cL c) =? 0)) ||
    (negb (N.land g (cB c) =? 0) && negb (N.land other (cT c) =? 0)) ||
    (negb (N.land g (cT c) =? 0) && negb (N.land other (cB c) =? 0)) in
  let one (i : nat) (g : N) : Z * Z :=
    if N.land g (cEdge c) =? 0 then (0, 0)%Z else
    let slides := grow c nocs (andnot pieces g) in
    let pm := 0 in let tm := 0 in
    let '(pm, tm) := if negb (N.land g (cL c) =? 0)
                     then (N.lor pm (N.land (N.land (N.shiftr g 1) empty) (cR c)), N.lor tm (N.land (N.land (N.shiftr g 1) slides) (cR c))) else (pm, tm) in
    let '(pm, tm) := if negb (N.land g (cR c) =? 0)
                     then (N.lor pm (N.land (N.land (u64 (N.shiftl g 1)) empty) (cL c)), N.lor tm (N.land (N.land (u64 (N.shiftl g 1)) slides) (cL c))) else (pm, tm) in
    let '(pm, tm) := if negb (N.land g (cT c) =? 0)
                     then (N.lor pm (N.land (N.land (N.shiftr g (Size c)) empty) (cB c)), N.lor tm (N.land (N.land (N.shiftr g (Size c)) slides) (cB c))) else (pm, tm) in
    let '(pm, tm) := if negb (N.land g (cB c) =? 0)
                     then (N.lor pm (N.land (N.land (u64 (N.shiftl g (Size c))) empty) (cT c)), N.lor tm (N.land (N.land (u64 (N.shiftl g (Size c))) slides) (cT c))) else (pm, tm) in
    let others := firstn i gs ++ lowest_bits 65 singles in
    let '(pm, tm) := fold_left (fun (acc : N * N) other =>
        if junction g other then
          let slides2 := grow c nocs (andnot pieces (N.lor g other)) in
          let isect := N.land (grow c (cMask c) g) (grow c (cMask c) other) in
          (N.lor (fst acc) (N.land isect empty), N.lor (snd acc) (N.land isect slides2))
        else acc) others (pm, tm) in
    (pc pm, pc tm) in
  let fix go (i : nat) (l : list N) (acc : Z * Z) : Z * Z :=
    match l with [] => acc | g :: r => let '(a, b) := one i g in go (S i) r (fst acc + a, snd acc + b)%Z end in
  go 0%nat gs (0, 0)%Z.

Definition count_threats (c : consts) (p : position) (wg bg : list N) : Z * Z * Z * Z :=
  let '(wp, wtt) := count_one c p wg (andnot (White p) (N.lor (Standing p) (Caps p))) in
  let '(bp, btt) := count_one c p bg (andnot (Black p) (N.lor (Standing p) (Caps p))) in
  (wp, wtt, bp, btt).

Definition ForcedWin : Z := 2 ^ 20.
Definition score_threats (c : consts) (w : weights) (p : position) (wg bg : list N) : Z :=
  if (wt w Potential =? 0)%Z && (wt w Threat =? 0)%Z then 0%Z else
  let '(wp, wtt, bp, btt) := count_threats c p wg bg in
  if (0 <? wp + wtt)%Z && to_move_white p then ForcedWin
  else if (0 <? bp + btt)%Z && negb (to_move_white p) then (- ForcedWin)%Z
  else ((wp - bp) * wt w Potential + (wtt - btt) * wt w Threat)%Z.

(* computeInfluence: a 3-digit saturating bitwise counter *)
Definition influence (c : consts) (mine : N) : list N :=
  fold_left (fun out b =>
      let g := andnot (grow c (cMask c) b) b in
      let '(out', carry) := fold_left (fun (st : list N * N) o =>
            let '(acc, carry) := st in
            if carry =? 0 then (acc ++ [o], carry) else (acc ++ [N.lxor o carry], N.land o carry)) out ([], g) in
      if carry =? 0 then out' else
        match rev out' with [] => out' | l :: r => rev (N.lor l carry :: r) end)
    (lowest_bits 65 mine) [0; 0; 0].

Definition compute_control (c : consts) (p : position) : N * N :=
  let wi := influence c (andnot (White p) (N.lor (Caps p) (Standing p))) in
  let bi := influence c (andnot (Black p) (N.lor (Caps p) (Standing p))) in
  let '(wc, bc) := fold_left (fun (acc : N * N) (i : nat) =>
        let '(wc, bc) := acc in
        let wb := andnot (nth i wi 0) (N.lor wc bc) in
        let bb := andnot (nth i bi 0) (N.lor wc bc) in
        (N.lor wc (andnot wb bb), N.lor bc (andnot bb wb))) [2; 1; 0]%nat (0, 0) in
  let block := grow c (cMask c) (Standing p) in
  let wcap := grow c (cMask c) (N.land (Caps p) (White p)) in
  let bcap := grow c (cMask c) (N.land (Caps p) (Black p)) in
  let wc := N.lor wc (andnot wcap bcap) in
  let bc := N.lor bc (andnot bcap wcap) in
  (andnot wc block, andnot bc block).

Definition score_control (c : consts) (w : weights) (p : position) : Z :=
  if (wt w EmptyControl =? 0)%Z && (wt w FlatControl =? 0)%Z then 0%Z else
  let '(wc, bc) := compute_control c p in
  let empty := andnot (cMask c) (N.lor (White p) (Black p)) in
  let flat := andnot (N.lor (White p) (Black p)) (N.lor (Standing p) (Caps p)) in
  (wt w EmptyControl * (pc (N.land wc empty) - pc (N.land bc empty)) +
   wt w FlatControl * (pc (N.land wc flat) - pc (N.land bc flat)) +
   wt w CenterControl * (pc (andnot wc (cEdge c)) - pc (andnot bc (cEdge c))))%Z.

Definition WinBase : Z := (2 ^ 29 + 2 ^ 30) / 2.

Definition evaluate_terminal (p : position) (w : weights) (wg bg : list N) (winner : gcolor) : Z :=
  match winner with
  | GNone => 0%Z
  | _ =>
    let '(wf, bf) := count_flats p in
    let road := match has_road p wg bg with Some _ => true | None => false end in
    let '(reserves, opponent, flats) :=
      match winner with
      | GWhite => (Z.of_N (whiteStones p), Z.of_N (blackStones p), (Z.of_N wf - Z.of_N bf)%Z)
      | _ => (Z.of_N (blackStones p), Z.of_N (whiteStones p), (Z.of_N bf - Z.of_N wf)%Z)
      end in
    let flats := if (Z.of_N (size p) <? flats)%Z || road then Z.of_N (size p) else flats in
    let v := (WinBase + wt w Terminal_Reserves * reserves + wt w Terminal_Flats * flats +
              wt w Terminal_OpponentReserves * opponent + wt w Terminal_Plies * move p)%Z in
    let winner_to_move := match winner with GWhite => to_move_white p | _ => negb (to_move_white p) end in
    if winner_to_move then v else (- v)%Z
  end.

(* the per-square loop of evaluate *)
Definition square_score (c : consts) (w : weights) (p : position) (i : nat) (h : N) : Z :=
  if h <=? 1 then 0%Z else
  let bit0 := bit (N.of_nat i) in
  let mask := u64 (shl64 1 (Size c) + (2 ^ 64 - 1)) in                                   (* (1 << c.Size) - 1 *)
  let s := N.land (N.land (nthN (Stacks p) (N.of_nat i)) (u64 (shl64 1 (h - 1) + (2 ^ 64 - 1)))) mask in
  let white := negb (N.land (White p) bit0 =? 0) in
  let '(hf, sf, sign) := if white then ((Z.of_N h - pc s - 1)%Z, pc s, 1%Z) else (pc s, (Z.of_N h - pc s - 1)%Z, (-1)%Z) in
  let cap := negb (N.land (Caps p) bit0 =? 0) in
  let sc := 0%Z in
  let sc := if cap then
              let sc := if Bool.eqb (N.land (Black p) bit0 =? 0) (N.land s 1 =? 0) then (sc + sign * wt w HardTopCap)%Z else sc in
              (sc + sign * wt w CapMobility * pc (mobility c p bit0 (N.to_nat h)))%Z
            else sc in
  let sc := if (0 <? hf)%Z then
              let throw := mobility c p bit0 (Z.to_nat hf) in
              let wt_ := pc (N.land throw (White p)) in let bt := pc (N.land throw (Black p)) in
              let et := pc (andnot throw (N.lor (White p) (Black p))) in
              if white then (sc + wt w ThrowMine * wt_ + wt w ThrowTheirs * bt + wt w ThrowEmpty * et)%Z
              else (sc + wt w ThrowMine * bt + wt w ThrowTheirs * wt_ + wt w ThrowEmpty * et)%Z
            else sc in
  if negb (N.land (Standing p) bit0 =? 0) then (sc + sign * (hf * wt w StandingCaptives_Hard + sf * wt w StandingCaptives_Soft))%Z
  else if cap then (sc + sign * (hf * wt w CapstoneCaptives_Hard + sf * wt w CapstoneCaptives_Soft))%Z
  else (sc + sign * (hf * wt w FlatCaptives_Hard + sf * wt w FlatCaptives_Soft))%Z.

Definition evaluate (w : weights) (p : position) : res Z :=
  let c := precompute (size p) in
  match analyze p, game_over p with
  | Some (wg, bg), Some (over, winner) =>
    if over then Ok (evaluate_terminal p w wg bg winner) else
    let tempo := (Z.quot (wt w TopFlat) 2 + wt w Tempo)%Z in
    let score := if to_move_white p then tempo else (- tempo)%Z in
    let sc := N.lor (Caps p) (Standing p) in
    let score := (score + pc (andnot (White p) sc) * wt w TopFlat - pc (andnot (Black p) sc) * wt w TopFlat
                  + pc (N.land (White p) (Standing p)) * wt w FStanding - pc (N.land (Black p) (Standing p)) * wt w FStanding
                  + pc (N.land (White p) (Caps p)) * wt w FCapstone - pc (N.land (Black p) (Caps p)) * wt w FCapstone
                  + pc (andnot (White p) (cEdge c)) * wt w Center - pc (andnot (Black p) (cEdge c)) * wt w Center)%Z in
    let score := fold_left (fun acc ih => (acc + square_score c w p (fst ih) (snd ih))%Z)
                           (combine (seq 0 (length (Height p))) (Height p)) score in
    match score_groups c wg w (N.lor (Black p) (Standing p)), score_groups c bg w (N.lor (White p) (Standing p)) with
    | Ok gw, Ok gb =>
      let score := (score + gw - gb)%Z in
      let score := if (wt w Liberties =? 0)%Z then score else
                     let wr := andnot (White p) (Standing p) in let br := andnot (Black p) (Standing p) in
                     (score + wt w Liberties * pc (andnot (grow c (compl64 (Black p)) wr) (White p))
                            - wt w Liberties * pc (andnot (grow c (compl64 (White p)) br) (Black p)))%Z in
      let score := (score + score_threats c w p wg bg + score_control c w p)%Z in
      Ok (if to_move_white p then score else (- score)%Z)
    | _, _ => Panic
    end
  | _, _ => Panic
  end.
