(* A richer DFPN example that the congruence makes possible: the 3x3 game with one stone and one capstone per side after
   1. a1 a2 (TPS "x3/1,x2/2,x2 1 2", White to move).  Everything reachable from there contains slide cycles, so it cannot be
   enumerated as position records; up to the ply counter it has a few hundred members, enumerated and checked inside Coq
   (DfpnRep3).  DFPN proves the root for White; dfpn_proven_sound turns that into a forced win.  With attacker Black the
   same run disproves the root without a table hit; dfpn_disproven_sound_nohit gives "Black has no forced win". *)
From Coq Require Import NArith ZArith List Bool Lia.
Require Import Board Move Refine GameOver Eval Search Alloc Reach1 AndOr Pn PnFacts Dfpn DfpnFacts DfpnFactsL DfpnExample PnCong1 PnCong3 DfpnRep1 DfpnRep3 DfpnRep8.
Require Import Generated.Consts.
Import ListNotations.
Open Scope N_scope.

Definition mk (x y : Z) (t s : N) : rmove := {| mX := x; mY := y; mT := t; mS := s |}.
Definition root11 : position :=
  Eval vm_compute in match replay (new_pos 3 false 1 1) [mk 0 0 2 0; mk 0 1 2 0] with Ok p => p | _ => new_pos 3 false 1 1 end.
Lemma root11_reachable : replay (new_pos 3 false 1 1) [mk 0 0 2 0; mk 0 1 2 0] = Ok root11.
Proof. vm_compute. reflexivity. Qed.

Definition reach11h : list (N * position) := Eval vm_compute in bfs 400 [root11] [(hash_of root11, root11)].
Lemma reach11_size : length reach11h = 657%nat. Proof. vm_compute. reflexivity. Qed.

Lemma c_step : chkL_step reach11h = true. Proof. vm_compute. reflexivity. Qed.
Lemma c_small : chkL_small reach11h = true. Proof. vm_compute. reflexivity. Qed.
Lemma c_hash : chkL_hash reach11h = true. Proof. vm_compute. reflexivity. Qed.
Lemma c_nonzero : chkL_nonzero reach11h = true. Proof. vm_compute. reflexivity. Qed.
Lemma c_moves : chkL_moves reach11h = true. Proof. vm_compute. reflexivity. Qed.
Lemma c_threats_att : chkL_threats_att true reach11h = true. Proof. vm_compute. reflexivity. Qed.
Lemma c_threats_def : chkL_threats_def false reach11h = true. Proof. vm_compute. reflexivity. Qed.

Lemma root11_in : SpL reach11h root11.
Proof. apply SpL_rep. assert (H : existsb (fun r => simb root11 r) (map snd reach11h) = true) by (vm_compute; reflexivity).
  apply existsb_exists in H as (r & Hr & Hs). apply simb_sim in Hs. destruct Hs as [E _].
  assert (existsb (pos_eqb root11) (map snd reach11h) = true) as H2 by (vm_compute; reflexivity).
  apply existsb_exists in H2 as (r2 & Hr2 & Hq). apply pos_eqb_eq in Hq. subst r2. exact Hr2.
Qed.

(* the cyclic structure: the set is closed under moves, yet no list of records is - some member is reachable from itself *)
Example dfpn_proven_sound_cyclic :
  (let '(_, e, _) := prove gen_basis true 1000 1000 16 root11 in result_of true root11 e = 1) /\
  exists n, wn position (succs gen_basis) (terminal true) (attp true) n root11 = true.
Proof.
  assert (Hrun : let '(_, e, _) := prove gen_basis true 1000 1000 16 root11 in result_of true root11 e = 1) by (vm_compute; reflexivity).
  split; [exact Hrun|].
  destruct (prove gen_basis true 1000 1000 16 root11) as [[s e] w] eqn:E.
  apply (dfpn_proven_sound gen_basis true (SpL reach11h)) with (lfuel := 1000%nat) (dfuel := 1000%nat) (entries := 16%nat) (g := root11) (s := s) (e := e) (w := w);
    try assumption.
  - apply SpL_step. exact c_step.
  - apply SpL_small. exact c_small.
  - apply SpL_hash. exact c_hash.
  - apply SpL_nonzero. exact c_nonzero.
  - apply SpL_moves. exact c_moves.
  - apply SpL_threats_att. exact c_threats_att.
  - exact root11_in.
Qed.

Example dfpn_disproven_sound_nohit_cyclic :
  (let '(s, e, _) := prove gen_basis false 1000 1000 16 root11 in result_of false root11 e = 2 /\ ds_hits (dst s) = 0) /\
  forall n, wn position (succs gen_basis) (terminal false) (attp false) n root11 = false.
Proof.
  assert (Hrun : let '(s, e, _) := prove gen_basis false 1000 1000 16 root11 in result_of false root11 e = 2 /\ ds_hits (dst s) = 0) by (vm_compute; split; reflexivity).
  split; [exact Hrun|].
  destruct (prove gen_basis false 1000 1000 16 root11) as [[s e] w] eqn:E. destruct Hrun as [Hr Hh].
  apply (dfpn_disproven_sound_nohit gen_basis false (SpL reach11h)) with (lfuel := 1000%nat) (dfuel := 1000%nat) (entries := 16%nat) (s := s) (e := e) (w := w);
    try assumption.
  - apply SpL_step. exact c_step.
  - apply SpL_small. exact c_small.
  - apply SpL_hashN. exact c_hash.
  - apply SpL_moves. exact c_moves.
  - apply SpL_threats_def. exact c_threats_def.
  - exact root11_in.
Qed.

(* the full theorem (repaired solver): no condition on the counters *)
Example dfpn_disproven_sound_cyclic :
  (let '(_, e, _) := prove gen_basis false 1000 1000 16 root11 in result_of false root11 e = 2) /\
  forall n, wn position (succs gen_basis) (terminal false) (attp false) n root11 = false.
Proof.
  assert (Hrun : let '(_, e, _) := prove gen_basis false 1000 1000 16 root11 in result_of false root11 e = 2) by (vm_compute; reflexivity).
  split; [exact Hrun|].
  destruct (prove gen_basis false 1000 1000 16 root11) as [[s e] w] eqn:E.
  apply (dfpn_disproven_sound gen_basis false (SpL reach11h)) with (lfuel := 1000%nat) (dfuel := 1000%nat) (entries := 16%nat) (s := s) (e := e) (w := w);
    try assumption.
  - apply SpL_step. exact c_step.
  - apply SpL_small. exact c_small.
  - apply SpL_hashF. exact c_hash.
  - apply SpL_nonzero. exact c_nonzero.
  - apply SpL_moves. exact c_moves.
  - apply SpL_threats_def. exact c_threats_def.
  - exact root11_in.
Qed.


(* a reused solver (configured attacker Black) over a sequence of roots of this game: every `disproven` is sound *)
Definition seq11 : list position := Eval vm_compute in root11 :: firstn 3 (succs gen_basis root11).
Example dfpn_seq_sound_cyclic :
  Forall2 (fun g (out : dstate * dentry * N * N) =>
             snd out = 2 -> forall n, wn position (succs gen_basis) (terminal false) (attp false) n g = false)
          seq11 (prove_seq gen_basis 1000 1000 2 (dsolver0 16) seq11) /\
  existsb (fun out : dstate * dentry * N * N => snd out =? 2) (prove_seq gen_basis 1000 1000 2 (dsolver0 16) seq11) = true.
Proof.
  split; [|vm_compute; reflexivity].
  apply (dfpn_seq_sound gen_basis false (SpL reach11h)).
  - apply SpL_step. exact c_step.
  - apply SpL_small. exact c_small.
  - apply SpL_hashF. exact c_hash.
  - apply SpL_nonzero. exact c_nonzero.
  - apply SpL_moves. exact c_moves.
  - apply SpL_threats_def. exact c_threats_def.
  - reflexivity.
  - assert (H : forallb (inL reach11h) seq11 = true) by (vm_compute; reflexivity).
    rewrite forallb_forall in H. apply Forall_forall. intros g Hg. apply inL_ok. now apply H.
  - apply sv0_okL. apply SpL_nonzero. exact c_nonzero.
Qed.

(* the root is a position of a real game (PnCong3.cinv), and so is every member of the set *)
Example root11_cinv : cinv (1, 1, 1, 1) false root11.
Proof. eapply reachable_cinv; [| |exact root11_reachable]; lia. Qed.
