(* C06, congruence part 2 (any game): AndOrS.truth_equiv_bounded relative to an invariant.  The congruence "positions the
   test `same` identifies have the same history-free value" is only needed between positions of a set Inv that contains
   the root and is closed under the moves of its live positions - every position on a line of play from the root. *)
From Coq Require Import List Bool Arith Lia.
Require Import AndOr AndOrS.
Import ListNotations.

Section AndOrInv.
Variable pos : Type.
Variable same : pos -> pos -> bool.
Variable moves : pos -> list pos.
Variable terminal : pos -> option bool.
Variable att : pos -> bool.
Variable Inv : pos -> Prop.

Notation wn := (wn pos moves terminal att).
Notation Wb := (Wb pos same moves terminal att).

Hypothesis Inv_step : forall p c, Inv p -> terminal p = None -> In c (moves p) -> Inv c.
Hypothesis same_wn : forall n q p, Inv q -> Inv p -> same q p = true -> wn n q = wn n p.

Lemma wn_Wb_inv : forall n p, Inv p -> wn n p = true -> (forall k, k < n -> wn k p = false) ->
  forall h, (forall q, In q h -> Inv q) -> (forall q, In q h -> wn n q = false) -> Wb n h p.
Proof.
  induction n as [n IHn] using lt_wf_ind. intros p Hi Hw Hmin h Hih Hh.
  assert (Hrep : rep_ok pos same h p).
  { unfold rep_ok, reps.
    assert (E : filter (fun q => same q p) h = []).
    { clear - Hh Hw same_wn Hi Hih. induction h as [|q h IH]; [reflexivity|]. cbn.
      destruct (same q p) eqn:Es.
      - rewrite <- (same_wn n q p (Hih q (or_introl eq_refl)) Hi Es), (Hh q (or_introl eq_refl)) in Hw. discriminate.
      - apply IH; intros; [apply Hih|apply Hh]; now right. }
    rewrite E. cbn. lia. }
  destruct (terminal p) as [b|] eqn:Ht.
  - apply Wb_term. destruct n; cbn in Hw; rewrite Ht in Hw; now subst.
  - destruct n as [|n]; [cbn in Hw; rewrite Ht in Hw; discriminate|].
    cbn in Hw. rewrite Ht in Hw.
    assert (Hq : forall m q, m <= n -> In q (p :: h) -> wn m q = false).
    { intros m q Hm [<-|Hin].
      - apply Hmin. lia.
      - destruct (wn m q) eqn:E; [|reflexivity].
        specialize (Hh q Hin). rewrite (wn_le _ _ _ _ m (S n) q) in Hh by (auto; lia). discriminate. }
    assert (Hih' : forall q, In q (p :: h) -> Inv q) by (intros q [<-|Hin]; auto).
    destruct (att p) eqn:Ha.
    + apply existsb_exists in Hw as (c & Hc & Hcw).
      destruct (least' _ _ _ _ _ _ Hcw) as (m & Hm & Hmw & Hml).
      eapply Wb_or; eauto. apply Wb_mono with (k := m); [|lia]. apply (IHn m); eauto; try lia.
    + rewrite forallb_forall in Hw. apply Wb_and; auto. intros c Hc.
      destruct (least' _ _ _ _ _ _ (Hw c Hc)) as (m & Hm & Hmw & Hml).
      apply Wb_mono with (k := m); [|lia]. apply (IHn m); eauto; try lia.
Qed.

Theorem truth_equiv_bounded_inv k p : Inv p -> (Wb k [] p <-> wn k p = true).
Proof.
  intros Hi. split; [apply Wb_wn|]. intros H. destruct (least' _ _ _ _ _ _ H) as (m & Hm & Hmw & Hl).
  apply Wb_mono with (k := m); [|assumption]. apply (wn_Wb_inv m); auto; intros q [].
Qed.
End AndOrInv.
Print Assumptions truth_equiv_bounded_inv.
