(* TeiFacts.v: proofs about the TEI engine model (Tei.v) against the history specification (TeiSpec.v): property C17. *)
From Coq Require Import NArith ZArith List Bool Lia Ascii String.
Require Import Board Move GameOver PtnMove Playtak Tps TeiBudget Tei TeiSpec.
Import ListNotations.
Open Scope N_scope.

Lemma bytes_eqb_eq : forall a b, bytes_eqb a b = true -> a = b.
Proof.
  induction a as [|x a IH]; destruct b as [|y b]; cbn; intros H; try discriminate; auto.
  apply andb_true_iff in H as [H1 H2]. apply N.eqb_eq in H1. subst. f_equal. auto.
Qed.
Lemma bytes_eqb_refl : forall a, bytes_eqb a a = true.
Proof. induction a; cbn; auto. rewrite N.eqb_refl. auto. Qed.

Section F.
Variable basis : list N.
Variable SS : Type.
Variable mk_searcher : Z -> SS.
Variable search : SS -> option Z -> position -> SS * (list rmove * Z * Z * Z).
Notation engine := (engine SS).
Notation step := (step basis SS mk_searcher search).
Notation do_go := (do_go SS mk_searcher search).
Notation run := (run basis SS mk_searcher search).
Notation exec := (exec basis SS mk_searcher search).
Notation sr := (sr SS).
Notation spec_position := (spec_position basis).
Notation agrees := (agrees basis SS).
Notation wf_engine := (wf_engine SS).

(* step, command by command *)
Definition step_new (args : list (list N)) : stepresult SS :=
  match args with
  | [] => sr {| e_mm := None; e_pos := None; e_size := 5 |} [] Running
  | a :: _ => let '(n, ok) := atoi_go a in
              let e' := {| e_mm := None; e_pos := None; e_size := n |} in
              if negb ok || (n <? 3)%Z || (8 <? n)%Z then sr e' [] Failed else sr e' [] Running
  end.
Definition step_pos (e : engine) (args : list (list N)) : stepresult SS :=
  match parse_position basis (e_size e) args with
  | Move.Ok p => sr {| e_mm := e_mm e; e_pos := Some p; e_size := e_size e |} [] Running
  | Move.Err => sr {| e_mm := e_mm e; e_pos := None; e_size := e_size e |} [] Failed
  | Move.Panic => sr e [] Crashed
  end.
Definition step_go (e : engine) (args : list (list N)) : stepresult SS :=
  let g := do_go e args in
  {| sr_eng := gr_eng g; sr_out := gr_out g; sr_status := if gr_crashed g then Crashed else Running; sr_go := gr_go g |}.

Lemma step_classify e line :
  step e line =
  match classify line with
  | CEmpty => sr e [] Running
  | CTei => sr e tei_banner Running
  | CQuit => sr e [] Quit
  | CNew args => step_new args
  | CPos args => step_pos e args
  | CGo args => step_go e args
  | CStop => sr e [] Running
  | CReady => sr e [str "readyok"] Running
  | CUnknown => sr e [] Failed
  end.
Proof.
  unfold Tei.step, classify. destruct (fields line) as [|w0 args]; [reflexivity|].
  repeat match goal with |- context [if bytes_eqb w0 ?s then _ else _] => destruct (bytes_eqb w0 s) end; reflexivity.
Qed.

(* the specification, command by command *)
Lemma spec_size_classify line hist :
  spec_size (line :: hist) = match classify line with
                             | CNew [] => 5%Z | CNew (a :: _) => fst (atoi_go a)
                             | _ => spec_size hist end.
Proof.
  cbn [spec_size]. unfold classify. destruct (fields line) as [|w0 args]; [reflexivity|].
  destruct (bytes_eqb w0 s_teinewgame) eqn:E.
  - apply bytes_eqb_eq in E. subst w0. cbn. destruct args; reflexivity.
  - repeat match goal with |- context [if bytes_eqb w0 ?s then _ else _] => destruct (bytes_eqb w0 s) end; reflexivity.
Qed.

Lemma spec_position_classify line hist :
  spec_position (line :: hist) = match classify line with
                                 | CNew _ => None
                                 | CPos args => match parse_position basis (spec_size hist) args with Move.Ok p => Some p | _ => None end
                                 | _ => spec_position hist end.
Proof.
  cbn [TeiSpec.spec_position]. unfold classify. destruct (fields line) as [|w0 args]; [reflexivity|].
  destruct (bytes_eqb w0 s_teinewgame) eqn:E.
  - apply bytes_eqb_eq in E. subst w0. reflexivity.
  - destruct (bytes_eqb w0 s_position) eqn:E2.
    + apply bytes_eqb_eq in E2. subst w0. reflexivity.
    + repeat match goal with |- context [if bytes_eqb w0 ?s then _ else _] => destruct (bytes_eqb w0 s) end; reflexivity.
Qed.

(* ---- go ---- *)
Lemma do_go_pos e args : e_pos (gr_eng (do_go e args)) = e_pos e /\ e_size (gr_eng (do_go e args)) = e_size e.
Proof.
  unfold Tei.do_go. destruct (e_pos e) eqn:Ep; [|cbn; rewrite ?Ep; auto].
  destruct (parse_go args targs0); [|cbn; rewrite ?Ep; auto].
  destruct (analyze_mm _ _ _ _ _) as [[s' [[[pv v] d] n]]| |]; cbn; rewrite ?Ep; auto.
  destruct pv; cbn; rewrite ?Ep; auto.
Qed.

Lemma do_go_searched e args g :
  gr_go (do_go e args) = Some g -> e_pos e = Some (g_pos g) /\
  exists a, parse_go args targs0 = Some a /\ g_limit g = go_limit (to_move_white (g_pos g)) a /\
            g_fresh g = (match e_mm e with Some _ => false | None => true end).
Proof.
  unfold Tei.do_go. destruct (e_pos e) as [p|] eqn:Ep; [|cbn; discriminate].
  destruct (parse_go args targs0) as [a|]; [|cbn; discriminate].
  destruct (analyze_mm _ _ _ _ _) as [[s' [[[pv v] d] n]]| |]; cbn; try discriminate.
  destruct pv; cbn; intros H; inversion H; subst; cbn; eauto.
Qed.

Lemma do_go_refused e args : e_pos e = None -> do_go e args = {| gr_eng := e; gr_out := []; gr_crashed := false; gr_go := None |}.
Proof. intros H. unfold Tei.do_go. rewrite H. reflexivity. Qed.

(* ---- the engine follows the history ---- *)
Lemma step_agrees hist e line :
  agrees hist e -> sr_status (step e line) <> Crashed -> agrees (line :: hist) (sr_eng (step e line)).
Proof.
  intros [Hp Hs] Hc. unfold TeiSpec.agrees. rewrite spec_position_classify, spec_size_classify.
  rewrite step_classify in *. destruct (classify line) as [| | |args|args|args| | |]; cbn; auto.
  - destruct args as [|a r]; cbn; auto. destruct (atoi_go a) as [n ok]. cbn. destruct (negb ok || _ || _); cbn; auto.
  - unfold step_pos in *. rewrite <- Hs. destruct (parse_position basis (e_size e) args); cbn in *; auto. congruence.
  - unfold step_go. cbn. destruct (do_go_pos e args). split; congruence.
Qed.

Lemma agrees0 : agrees [] (engine0 SS).
Proof. split; reflexivity. Qed.

Lemma exec_snoc e pre line e' :
  exec e pre = Some e' -> exec e (pre ++ [line]) = match sr_status (step e' line) with Running => Some (sr_eng (step e' line)) | _ => None end.
Proof.
  revert e. induction pre as [|l r IH]; cbn; intros e H.
  - inversion H. subst. destruct (sr_status (step e' line)); reflexivity.
  - destruct (sr_status (step e l)); try discriminate. auto.
Qed.

Lemma exec_agrees : forall pre e hist e', agrees hist e -> exec e pre = Some e' -> agrees (rev pre ++ hist) e'.
Proof.
  induction pre as [|l r IH]; cbn; intros e hist e' Ha H.
  - inversion H. subst. exact Ha.
  - destruct (sr_status (step e l)) eqn:St; try discriminate.
    rewrite <- app_assoc. cbn. eapply IH; [|exact H]. apply step_agrees; [exact Ha|congruence].
Qed.

(* C17, first clause: every go analyses exactly the position the commands before it declare - or is refused *)
Theorem tei_position_exact pre line e' :
  exec (engine0 SS) pre = Some e' ->
  (forall g, sr_go (step e' line) = Some g -> spec_position (rev pre) = Some (g_pos g)) /\
  (spec_position (rev pre) = None -> forall args, classify line = CGo args ->
     sr_go (step e' line) = None /\ sr_out (step e' line) = [] /\ sr_eng (step e' line) = e').
Proof.
  intros H. pose proof (exec_agrees pre _ [] e' agrees0 H) as [Hp Hs]. rewrite app_nil_r in *.
  split.
  - intros g Hg. rewrite step_classify in Hg. destruct (classify line); try (cbn in Hg; discriminate).
    + unfold step_new in Hg. destruct args as [|a r]; [cbn in Hg; discriminate|]. destruct (atoi_go a). destruct (negb _ || _ || _); cbn in Hg; discriminate.
    + unfold step_pos in Hg. destruct (parse_position _ _ _); cbn in Hg; discriminate.
    + cbn in Hg. apply do_go_searched in Hg as [Hg _]. congruence.
  - intros Hn args Hc. rewrite step_classify, Hc. unfold step_go. rewrite do_go_refused by congruence. cbn. auto.
Qed.

(* the same for Run on a whole stream: [run] is [exec] followed by the step that ends it *)
Lemma run_exec : forall pre rest e e',
  exec e pre = Some e' ->
  exists o gs, run (pre ++ rest) e = (let '(e2, o2, s2, gs2) := run rest e' in (e2, o ++ o2, s2, gs ++ gs2)).
Proof.
  induction pre as [|l r IH]; cbn [app Tei.run TeiSpec.exec]; intros rest e e' H.
  - inversion H. subst. exists [], []. destruct (run rest e') as [[[e2 o2] s2] gs2]. reflexivity.
  - destruct (sr_status (step e l)) eqn:St; try discriminate.
    destruct (IH rest _ _ H) as (o & gs & Hr). rewrite Hr.
    destruct (run rest e') as [[[e2 o2] s2] gs2].
    exists (sr_out (step e l) ++ o), ((match sr_go (step e l) with Some g => [g] | None => [] end) ++ gs).
    rewrite !app_assoc. reflexivity.
Qed.

Lemma run_gos_in : forall lines e g,
  In g (snd (run lines e)) -> exists pre line rest e', lines = pre ++ line :: rest /\ exec e pre = Some e' /\ sr_go (step e' line) = Some g.
Proof.
  induction lines as [|l r IH]; cbn [Tei.run]; intros e g Hin; [destruct Hin|].
  destruct (sr_status (step e l)) eqn:St.
  - destruct (run r (sr_eng (step e l))) as [[[e2 o2] s2] gs2] eqn:Er. cbn in Hin. apply in_app_or in Hin as [Hin|Hin].
    + exists [], l, r, e. repeat split; auto. destruct (sr_go (step e l)); cbn in Hin; [destruct Hin as [->|[]]; auto|destruct Hin].
    + specialize (IH (sr_eng (step e l)) g). rewrite Er in IH. destruct (IH Hin) as (pre & line & rest & e' & -> & He & Hg).
      exists (l :: pre), line, rest, e'. repeat split; auto. cbn. rewrite St. exact He.
  - cbn in Hin. exists [], l, r, e. repeat split; auto. destruct (sr_go (step e l)); cbn in Hin; [destruct Hin as [->|[]]; auto|destruct Hin].
  - cbn in Hin. exists [], l, r, e. repeat split; auto. destruct (sr_go (step e l)); cbn in Hin; [destruct Hin as [->|[]]; auto|destruct Hin].
  - cbn in Hin. exists [], l, r, e. repeat split; auto. destruct (sr_go (step e l)); cbn in Hin; [destruct Hin as [->|[]]; auto|destruct Hin].
Qed.

Theorem tei_run_position_exact lines g :
  In g (snd (run lines (engine0 SS))) ->
  exists pre line rest, lines = pre ++ line :: rest /\ spec_position (rev pre) = Some (g_pos g).
Proof.
  intros Hin. destruct (run_gos_in _ _ _ Hin) as (pre & line & rest & e' & -> & He & Hg).
  exists pre, line, rest. split; auto. destruct (tei_position_exact pre line e' He) as [H _]. auto.
Qed.

(* ---- sizes ---- *)
Lemma move_size hs b p m q : move_prealloc hs b p m = Move.Ok q -> Move.size q = Move.size p.
Proof.
  unfold move_prealloc, bind. intros H.
  repeat match type of H with
   | context [match ?x with _ => _ end] => destruct x eqn:?; try discriminate
   end; inversion H; reflexivity.
Qed.

Lemma from_squares_size sz board mv : Move.size (from_squares basis sz board mv) = sz.
Proof. unfold from_squares. destruct (fold_left _ _ _) as [[[[[[[[[[w b] s] c] ws] wc] bs] bc] hs] st] h]. reflexivity. Qed.

Lemma apply_moves_size : forall ws p q, apply_moves basis p ws = Move.Ok q -> Move.size q = Move.size p.
Proof.
  induction ws as [|w r IH]; cbn; intros p q H; [inversion H; auto|].
  destruct (parse_move w); try discriminate.
  destruct (tmove basis p (to_rmove a)) eqn:E; try discriminate.
  apply IH in H. rewrite H. eapply move_size. exact E.
Qed.

Lemma parse_position_size size args p : parse_position basis size args = Move.Ok p -> Z.of_N (Move.size p) = size.
Proof.
  unfold parse_position. destruct args as [|w0 rest]; [discriminate|].
  unfold parse_start. intros H.
  assert (K : forall p0 more, Z.of_N (Move.size p0) = size ->
             match more with [] => Move.Ok p0 | m0 :: ms => if bytes_eqb m0 s_moves then apply_moves basis p0 ms else Move.Err end = Move.Ok p ->
             Z.of_N (Move.size p) = size).
  { intros p0 more Hs Hm. destruct more as [|m0 ms]; [inversion Hm; subst; auto|].
    destruct (bytes_eqb m0 s_moves); [|discriminate]. apply apply_moves_size in Hm. congruence. }
  destruct (bytes_eqb w0 s_startpos).
  - destruct ((size <? 3)%Z || (8 <? size)%Z) eqn:Eb; [discriminate|].
    unfold new_pos in H. destruct ((size <? 0)%Z || (8 <? size)%Z); [discriminate|]. destruct (size <? 3)%Z eqn:E3; [discriminate|].
    eapply K; [|exact H]. rewrite from_squares_size. apply Z.ltb_ge in E3. rewrite Z2N.id; lia.
  - destruct (bytes_eqb w0 s_tps); [|discriminate].
    destruct (_ <? 4)%nat; [discriminate|].
    destruct (parse_tps basis _) as [p0| |]; try discriminate.
    destruct (Z.of_N (Move.size p0) =? size)%Z eqn:E; [|discriminate].
    eapply K; [|exact H]. apply Z.eqb_eq. exact E.
Qed.

Lemma step_wf e line : wf_engine e -> wf_engine (sr_eng (step e line)).
Proof.
  intros Hw. pose proof Hw as [Hp Hm]. rewrite step_classify. destruct (classify line) as [| | |args|args|args| | |]; cbn; try exact Hw.
  - unfold step_new. destruct args as [|a r]; [split; cbn; intros; discriminate|].
    destruct (atoi_go a) as [n ok]. destruct (negb ok || _ || _); split; cbn; intros; discriminate.
  - unfold step_pos. destruct (parse_position basis (e_size e) args) eqn:E; cbn; split; cbn; auto; try discriminate.
    intros p H. inversion H. subst. eapply parse_position_size. exact E.
  - unfold step_go. cbn. unfold Tei.do_go. destruct (e_pos e) as [p|] eqn:Ep; [|exact Hw].
    assert (Hmm : fst (match e_mm e with Some s => s | None => (e_size e, mk_searcher (e_size e)) end) = e_size e).
    { destruct (e_mm e) eqn:Em; [apply Hm; reflexivity|reflexivity]. }
    destruct (parse_go args targs0); [|split; cbn; auto; intros mm H; inversion H; subst; exact Hmm].
    destruct (analyze_mm _ _ _ _ _) as [[s' [[[pv v] d] n]]| |]; cbn.
    + destruct pv; split; cbn; auto; intros mm H; inversion H; subst; exact Hmm.
    + split; cbn; auto; intros mm H; inversion H; subst; exact Hmm.
    + split; cbn; auto; intros mm H; inversion H; subst; exact Hmm.
Qed.

Lemma wf_engine0 : wf_engine (engine0 SS).
Proof. split; cbn; intros; discriminate. Qed.

Lemma exec_wf : forall pre e e', wf_engine e -> exec e pre = Some e' -> wf_engine e'.
Proof.
  induction pre as [|l r IH]; cbn; intros e e' Hw H; [inversion H; subst; auto|].
  destruct (sr_status (step e l)); try discriminate. eapply IH; [|exact H]. apply step_wf. exact Hw.
Qed.

(* the searcher is never asked about a position of another size *)
Lemma wf_analyze e p limit : wf_engine e -> e_pos e = Some p ->
  analyze_mm SS search (match e_mm e with Some s => s | None => (e_size e, mk_searcher (e_size e)) end) limit p =
  Move.Ok (search (snd (match e_mm e with Some s => s | None => (e_size e, mk_searcher (e_size e)) end)) limit p).
Proof.
  intros [Hp Hm] Ep. unfold analyze_mm.
  assert (Hmm : fst (match e_mm e with Some s => s | None => (e_size e, mk_searcher (e_size e)) end) = e_size e).
  { destruct (e_mm e) eqn:Em; [apply Hm; reflexivity|reflexivity]. }
  rewrite Hmm, <- (Hp p Ep), Z.eqb_refl. reflexivity.
Qed.

(* ---- C17, second clause: one legal bestmove per go ---- *)
Lemma info_not_bestmove pv v d n : is_bestmove (info_line pv v d n) = false.
Proof. reflexivity. Qed.
Lemma bestmove_is_bestmove m : is_bestmove (bestmove_line m) = true.
Proof. reflexivity. Qed.

(* a go with well-formed arguments on a live position is answered by exactly [info; bestmove m], m legal there *)
Theorem tei_go_answered e line args p :
  searcher_ok basis SS search -> wf_engine e ->
  classify line = CGo args -> e_pos e = Some p -> live p -> parse_go args targs0 <> None ->
  exists m rest v d n, sr_out (step e line) = [info_line (m :: rest) v d n; bestmove_line m] /\ legal basis p m /\
                       exists g, sr_go (step e line) = Some g /\ g_pos g = p.
Proof.
  intros Hs Hw Hc Ep Hl Ha. rewrite step_classify, Hc. unfold step_go. cbn. unfold Tei.do_go. rewrite Ep.
  destruct (parse_go args targs0) as [a|]; [|congruence].
  rewrite (wf_analyze e p _ Hw Ep).
  destruct (Hs (snd (match e_mm e with Some s => s | None => (e_size e, mk_searcher (e_size e)) end)) (go_limit (to_move_white p) a) p Hl)
    as (m & rest & v & d & n & s' & Hsr & Hleg).
  rewrite Hsr. cbn. exists m, rest, v, d, n. repeat split; auto. eexists. split; reflexivity.
Qed.

(* nothing else ever prints a bestmove line; a step prints at most one *)
Theorem tei_bestmove_only_from_go e line l :
  In l (sr_out (step e line)) -> is_bestmove l = true ->
  exists args g m rest v d n, classify line = CGo args /\ sr_go (step e line) = Some g /\
    sr_out (step e line) = [info_line (m :: rest) v d n; bestmove_line m] /\ l = bestmove_line m.
Proof.
  rewrite step_classify. destruct (classify line) as [| | |args|args|args| | |]; cbn; try tauto.
  - intros [<-|[<-|[<-|[]]]]; discriminate.
  - unfold step_new. destruct args as [|a r]; cbn; [tauto|]. destruct (atoi_go a). destruct (negb _ || _ || _); cbn; tauto.
  - unfold step_pos. destruct (parse_position _ _ _); cbn; tauto.
  - unfold Tei.do_go. destruct (e_pos e) as [p|]; [|cbn; tauto].
    destruct (parse_go args targs0) as [a|]; [|cbn; tauto].
    destruct (analyze_mm _ _ _ _ _) as [[s' [[[pv v] d] n]]| |]; cbn; try tauto.
    destruct pv as [|m rest]; cbn; [tauto|].
    intros [<-|[<-|[]]] Hb; [exfalso; assert (X : false = true) by (rewrite <- Hb; reflexivity); discriminate X|].
    exists args. eexists. exists m, rest, v, d, n. repeat split; reflexivity.
  - intros [<-|[]]; discriminate.
Qed.

(* every output line of Run is printed by a step Run got to *)
Lemma run_out_in : forall lines e l,
  In l (snd (fst (fst (run lines e)))) -> exists pre line rest e', lines = pre ++ line :: rest /\ exec e pre = Some e' /\ In l (sr_out (step e' line)).
Proof.
  induction lines as [|ln r IH]; cbn [Tei.run]; intros e l Hin; [destruct Hin|].
  destruct (sr_status (step e ln)) eqn:St; try solve [cbn in Hin; exists [], ln, r, e; repeat split; auto].
  destruct (run r (sr_eng (step e ln))) as [[[e2 o2] s2] gs2] eqn:Er. cbn in Hin. apply in_app_or in Hin as [Hin|Hin].
  - exists [], ln, r, e. repeat split; auto.
  - specialize (IH (sr_eng (step e ln)) l). rewrite Er in IH. destruct (IH Hin) as (pre & line & rest & e' & -> & He & Hl).
    exists (ln :: pre), line, rest, e'. repeat split; auto. cbn. rewrite St. exact He.
Qed.

(* C17 second clause on a whole stream: every bestmove line of Run's output is the second of the two lines printed by one go,
   which searched the position declared by the commands before it, and names the first move of that search's PV *)
Theorem tei_run_bestmove lines l :
  In l (snd (fst (fst (run lines (engine0 SS))))) -> is_bestmove l = true ->
  exists pre line rest e' g m pvr v d n,
    lines = pre ++ line :: rest /\ exec (engine0 SS) pre = Some e' /\
    sr_go (step e' line) = Some g /\ spec_position (rev pre) = Some (g_pos g) /\
    sr_out (step e' line) = [info_line (m :: pvr) v d n; bestmove_line m] /\ l = bestmove_line m.
Proof.
  intros Hin Hb. destruct (run_out_in _ _ _ Hin) as (pre & line & rest & e' & -> & He & Hl).
  destruct (tei_bestmove_only_from_go e' line l Hl Hb) as (args & g & m & pvr & v & d & n & Hc & Hg & Ho & ->).
  exists pre, line, rest, e', g, m, pvr, v, d, n. repeat split; auto.
  destruct (tei_position_exact pre line e' He) as [H _]. auto.
Qed.

(* ---- C17, third clause: a new game discards searcher and position ---- *)
Theorem tei_newgame_resets e line args :
  classify line = CNew args ->
  let e' := sr_eng (step e line) in
  e_mm e' = None /\ e_pos e' = None /\ sr_out (step e line) = [] /\
  (* a go without a new position command is refused and changes nothing *)
  (forall line2 args2, classify line2 = CGo args2 ->
     sr_out (step e' line2) = [] /\ sr_go (step e' line2) = None /\ sr_eng (step e' line2) = e').
Proof.
  intros Hc. cbn. rewrite step_classify, Hc.
  assert (H : e_mm (sr_eng (step_new args)) = None /\ e_pos (sr_eng (step_new args)) = None /\ sr_out (step_new args) = []).
  { unfold step_new. destruct args as [|a r]; cbn; auto. destruct (atoi_go a). destruct (negb _ || _ || _); cbn; auto. }
  destruct H as (H1 & H2 & H3). repeat split; auto;
  rewrite step_classify, H; unfold step_go; rewrite do_go_refused by exact H2; reflexivity.
Qed.

(* the first go that searches after a new game builds a new searcher, for the size now in force, and asks that one *)
Theorem tei_fresh_searcher e line g :
  e_mm e = None -> sr_go (step e line) = Some g ->
  g_fresh g = true /\ e_pos e = Some (g_pos g) /\
  (wf_engine e -> e_mm (sr_eng (step e line)) = Some (e_size e, fst (search (mk_searcher (e_size e)) (g_limit g) (g_pos g)))).
Proof.
  intros Hm Hg. rewrite step_classify in *. destruct (classify line) as [| | |args|args|args| | |]; try (cbn in Hg; discriminate).
  - unfold step_new in Hg. destruct args as [|a r]; [cbn in Hg; discriminate|]. destruct (atoi_go a). destruct (negb _ || _ || _); cbn in Hg; discriminate.
  - unfold step_pos in Hg. destruct (parse_position _ _ _); cbn in Hg; discriminate.
  - cbn in Hg. pose proof (do_go_searched _ _ _ Hg) as (Ep & a & Ha & Hl & Hf). rewrite Hm in Hf.
    repeat split; auto. intros Hw. cbn. unfold Tei.do_go in *. rewrite Ep in *. rewrite Ha in *.
    rewrite (wf_analyze e _ _ Hw Ep) in *. rewrite Hm in *. cbn [snd fst] in *.
    destruct (search (mk_searcher (e_size e)) (go_limit (to_move_white (g_pos g)) a) (g_pos g)) as [s' [[[pv v] d] n]] eqn:Es.
    rewrite Hl, Es. destruct pv; reflexivity.
Qed.

(* a searcher can only come into being in a go: the other commands leave "no searcher" as it is *)
Lemma step_keeps_no_searcher e line : e_mm e = None -> (forall args, classify line <> CGo args) -> e_mm (sr_eng (step e line)) = None.
Proof.
  intros Hm Hn. rewrite step_classify. destruct (classify line) as [| | |args|args|args| | |]; cbn; auto.
  - unfold step_new. destruct args as [|a r]; cbn; auto. destruct (atoi_go a). destruct (negb _ || _ || _); cbn; auto.
  - unfold step_pos. destruct (parse_position _ _ _); cbn; auto.
  - exfalso. eapply Hn. reflexivity.
Qed.

Theorem tei_fresh_searcher_full e line :
  e_mm e = None ->
  ((forall args, classify line <> CGo args) -> e_mm (sr_eng (step e line)) = None) /\
  (forall g, sr_go (step e line) = Some g ->
     g_fresh g = true /\ e_pos e = Some (g_pos g) /\
     (wf_engine e -> e_mm (sr_eng (step e line)) = Some (e_size e, fst (search (mk_searcher (e_size e)) (g_limit g) (g_pos g))))).
Proof.
  intros Hm. split; [exact (step_keeps_no_searcher e line Hm)|]. intros g. exact (tei_fresh_searcher e line g Hm).
Qed.

(* ---- C13: Run never panics ---- *)
Lemma parse_move_total w : parse_move w <> PtnMove.Panic.
Proof.
  unfold parse_move. intros H.
  repeat match type of H with
   | context [match ?x with _ => _ end] => destruct x eqn:?; try discriminate
   end.
Qed.
Lemma new_total sz : (3 <= sz <= 8)%Z -> new_pos basis sz <> Move.Panic.
Proof.
  intros H. unfold new_pos. destruct ((sz <? 0)%Z || (8 <? sz)%Z) eqn:E.
  - apply orb_true_iff in E as [E|E]; apply Z.ltb_lt in E; lia.
  - destruct (sz <? 3)%Z eqn:E3; [apply Z.ltb_lt in E3; lia|discriminate].
Qed.

Section Total.
(* the positions the parsers produce and Move preserves: on them neither Move nor the TPS reader panics *)
Variable good : position -> Prop.
Hypothesis good_new : forall sz p, new_pos basis sz = Move.Ok p -> good p.
Hypothesis tps_total : forall s, parse_tps basis s <> Move.Panic.
Hypothesis good_tps : forall s p, parse_tps basis s = Move.Ok p -> good p.
Hypothesis move_total : forall p m, good p -> tmove basis p m <> Move.Panic.
Hypothesis good_move : forall p m q, good p -> tmove basis p m = Move.Ok q -> good q.

Lemma apply_moves_total : forall ws p, good p -> apply_moves basis p ws <> Move.Panic.
Proof.
  induction ws as [|w r IH]; cbn; intros p Hg; [discriminate|].
  destruct (parse_move w) eqn:Ew; try discriminate; [|exfalso; eapply parse_move_total; exact Ew].
  destruct (tmove basis p (to_rmove a)) eqn:E; try discriminate.
  - apply IH. eapply good_move; eauto.
  - exfalso. eapply move_total; eauto.
Qed.

Lemma parse_position_total size args : parse_position basis size args <> Move.Panic.
Proof.
  unfold parse_position. destruct args as [|w0 rest]; [discriminate|]. unfold parse_start.
  assert (K : forall p0 more, good p0 ->
             match more with [] => Move.Ok p0 | m0 :: ms => if bytes_eqb m0 s_moves then apply_moves basis p0 ms else Move.Err end <> Move.Panic).
  { intros p0 more Hg. destruct more as [|m0 ms]; [discriminate|]. destruct (bytes_eqb m0 s_moves); [apply apply_moves_total; auto|discriminate]. }
  destruct (bytes_eqb w0 s_startpos).
  - destruct ((size <? 3)%Z || (8 <? size)%Z) eqn:Eb; [discriminate|].
    apply orb_false_iff in Eb as [E1 E2]. apply Z.ltb_ge in E1, E2.
    destruct (new_pos basis size) eqn:En; [|discriminate|exfalso; eapply (new_total size); [lia|exact En]].
    apply K. eapply good_new. exact En.
  - destruct (bytes_eqb w0 s_tps); [|discriminate].
    destruct (_ <? 4)%nat; [discriminate|].
    destruct (parse_tps basis _) as [p0| |] eqn:Et; [|discriminate|exfalso; eapply tps_total; exact Et].
    destruct (Z.of_N (Move.size p0) =? size)%Z; [|discriminate].
    apply K. eapply good_tps. exact Et.
Qed.

Lemma step_total e line : wf_engine e -> sr_status (step e line) <> Crashed.
Proof.
  intros Hw. rewrite step_classify. destruct (classify line) as [| | |args|args|args| | |]; cbn; try discriminate.
  - unfold step_new. destruct args as [|a r]; cbn; [discriminate|]. destruct (atoi_go a). destruct (negb _ || _ || _); cbn; discriminate.
  - unfold step_pos. destruct (parse_position basis (e_size e) args) eqn:E; cbn; try discriminate.
    exfalso. eapply parse_position_total. exact E.
  - unfold Tei.do_go. destruct (e_pos e) as [p|] eqn:Ep; [|cbn; discriminate].
    destruct (parse_go args targs0); [|cbn; discriminate].
    rewrite (wf_analyze e p _ Hw Ep). destruct (search _ _ _) as [s' [[[pv v] d] n]]. destruct pv; cbn; discriminate.
Qed.

Theorem tei_run_total : forall lines e, wf_engine e -> snd (fst (run lines e)) <> Crashed.
Proof.
  induction lines as [|l r IH]; cbn [Tei.run]; intros e Hw; [cbn; discriminate|].
  pose proof (step_total e l Hw) as Hs.
  destruct (sr_status (step e l)) eqn:St; try (cbn; congruence).
  specialize (IH (sr_eng (step e l)) (step_wf e l Hw)).
  destruct (run r (sr_eng (step e l))) as [[[e2 o2] s2] gs2]. exact IH.
Qed.
End Total.

(* ---- the clock ---- *)
Theorem tei_limit_within_clock e line g :
  sr_go (step e line) = Some g ->
  exists args a, classify line = CGo args /\ parse_go args targs0 = Some a /\
    let white := to_move_white (g_pos g) in
    let tm := if white then wtime a else btime a in
    let inc := if white then winc a else binc a in
    (g_limit g = None /\ (movetime a <= 0)%Z /\ (tm <= 0)%Z \/
     exists b, g_limit g = Some b /\ b = calc_budget_fixed (movetime a) tm inc /\
       ((0 <= movetime a < 2 ^ 63)%Z -> (0 <= tm < 2 ^ 63)%Z -> (0 <= inc < 2 ^ 63)%Z ->
        ((0 < tm)%Z -> (b < tm)%Z) /\ ((0 < movetime a)%Z -> (b <= movetime a)%Z))).
Proof.
  intros Hg. rewrite step_classify in Hg. destruct (classify line) as [| | |args|args|args| | |] eqn:Hc; try (cbn in Hg; discriminate).
  - unfold step_new in Hg. destruct args as [|a r]; [cbn in Hg; discriminate|]. destruct (atoi_go a). destruct (negb _ || _ || _); cbn in Hg; discriminate.
  - unfold step_pos in Hg. destruct (parse_position _ _ _); cbn in Hg; discriminate.
  - cbn in Hg. apply do_go_searched in Hg as (Ep & a & Ha & Hl & _).
    exists args, a. repeat split; auto. cbn zeta. rewrite Hl. unfold go_limit.
    destruct (to_move_white (g_pos g)).
    + destruct ((0 <? movetime a)%Z || (0 <? wtime a)%Z) eqn:E.
      * right. eexists. repeat split; try reflexivity; intros; eapply budget_bounds_fixed; eauto.
      * left. apply orb_false_iff in E as [E1 E2]. apply Z.ltb_ge in E1, E2. auto.
    + destruct ((0 <? movetime a)%Z || (0 <? btime a)%Z) eqn:E.
      * right. eexists. repeat split; try reflexivity; intros; eapply budget_bounds_fixed; eauto.
      * left. apply orb_false_iff in E as [E1 E2]. apply Z.ltb_ge in E1, E2. auto.
Qed.
End F.
