(* Prove/Pn2.v: prove/pn.go WITH the PN-squared switch (Config.PN2).  Pn.v stays the model of the plain search; this file
   re-states one iteration of the search loop with a hook at the place where expand() tests
   `p.cfg.PN2 && p.stats.Nodes > pn2Threshold`, and defines pn2(): the second-level search from the selected node.
   Unlike Pn.v it keeps `current` of search(): an iteration resumes at the node where updateAncestors stopped instead of
   re-descending from the root.  Without PN2 the two are the same walk (every ancestor of `current` has numbers that
   agree with its children); with PN2 they are not, because the ancestors of a node that pn2 leaves unsolved are not
   recomputed (see `stops`).

   What the code does (pn.go, pn2/expand/search/Prove):
     Prove      MaxNodes /= 2 when PN2 is set (entry point Pn2Run.pn2_run);
     expand(n)  once the FIRST-level counter Stats.Nodes exceeds pn2Threshold, pn2(n) replaces the generation of children;
     pn2(n)     root := n, stats := zero, PN2 := false, limit := Live^2 / MaxNodes (uint64; Live when MaxNodes = 0;
                limit 0 = NO limit), search(limit) - the ordinary loop with n in the role of the root: n keeps its children
                when it is solved, positions/depth/repetition are those of n's line of play from the real root (the
                position stack is shared), evaluate compares with the ORIGINAL side to move; then n.value := proven /
                disproven when n is solved, MaxDepth := max, the old root and stats come back, every child of n loses its
                expanded flag and its children (its numbers and proof depth stay), Nodes += number of children,
                Expanded += 1; back in search(), updateAncestors(n) recomputes n from the children that were kept.
   The second level never nests (PN2 is off while it runs).

   The model threads, next to the counters of PNStats, a trace of the second level (number of pn2 calls, sum of the nodes
   they searched, sum of their limits): the Go code prints these with Debug > 2 and the C06 driver compares them.
   Fuel: `iters`/`dfuel` as in Pn.v for the first level, `k2`/`dfuel2` for every second-level search; the threshold is a
   parameter (the entry point Pn2Run.pn2_run passes the constant of pn.go). *)
From Coq Require Import NArith ZArith List Bool Lia.
Require Import Board Move GameOver Pn.
Import ListNotations.
Open Scope N_scope.

Record p2stats := { s_st : pstats; s_calls : N; s_searched : N; s_limits : N }.
Definition with_st (s : p2stats) (st : pstats) : p2stats :=
  {| s_st := st; s_calls := s_calls s; s_searched := s_searched s; s_limits := s_limits s |}.
Definition s_of (st : pstats) : p2stats := {| s_st := st; s_calls := 0; s_searched := 0; s_limits := 0 |}.

(* the result of one iteration below a node: the new subtree, the counters, and where updateAncestors stopped:
   Some l = at the descendant reached by the child indices l ([] = this node) - the nodes above it are NOT recomputed
   and the next iteration resumes there (`current` of search());  None = it is still climbing *)
Inductive ires2 := Step2 (t : pn) (s : p2stats) (cur : option (list nat)) | Stop2 (why : N).

Definition stats_zero : pstats := {| p_nodes := 0; p_proved := 0; p_disproved := 0; p_dropped := 0; p_expanded := 0; p_maxdepth := 0 |}.

Definition solved (t : pn) : bool := (n_phi t =? 0) || (n_delta t =? 0).

(* updateAncestors returns at `node` when it is unsolved and setNumbers did not change its numbers, or when it is the root.
   t1: the node before setNumbers, t2: after.  NOTE: the second-level search of pn2 writes into the numbers of its root
   in place, so for a node that pn2 leaves unsolved the "old" numbers are already the new ones and the climb stops at
   once: the ancestors keep numbers computed from what the node had before pn2. *)
Definition stops (is_root : bool) (t1 t2 : pn) : bool :=
  (negb (solved t2) && (n_phi t2 =? n_phi t1) && (n_delta t2 =? n_delta t1)) || is_root.

Fixpoint split_at (i : nat) (before l : list pn) : option (list pn * pn * list pn) :=
  match l with
  | [] => None
  | c :: r => match i with O => Some (before, c, r) | S i' => split_at i' (c :: before) r end
  end.

Section P2.
Variable basis : list N.
Variable aw : bool.                               (* the attacker (side to move at the real root) is White *)

(* ---------- one level of the search: the loop of search() with `hook` in the place of the PN2 test of expand() ---------- *)
Section Level.
Variable cfg : pcfg.
(* None: expand generates the children; Some r: expand called pn2 instead and r is the node (its expanded flag set) and
   the counters it left *)
Variable hook : pn -> list (position * bool) -> p2stats -> option ires2.

(* the part of an iteration below the child c of t (`before` = the children in front of it, reversed), and what
   updateAncestors does at t on the way back *)
Definition into_kid (descend : pn -> list (position * bool) -> p2stats -> ires2) (is_root : bool) (t : pn)
           (path : list (position * bool)) (s : p2stats) (before : list pn) (c : pn) (r : list pn) : ires2 :=
  match path with
  | (cur, _) :: _ =>
    match pmv basis cur (n_move c) with
    | Ok q => match descend c ((q, n_irrev c) :: path) s with
              | Step2 c' s' None =>
                let t1 := set_kids t (rev before ++ c' :: r) in
                let '(t2, st2) := update_node cfg is_root t1 (s_st s') in
                Step2 t2 (with_st s' st2) (if stops is_root t1 t2 then Some [] else None)
              | Step2 c' s' (Some l) => Step2 (set_kids t (rev before ++ c' :: r)) s' (Some (length before :: l))
              | Stop2 w => Stop2 w end
    | _ => Stop2 1                                 (* "failed to descend" *)
    end
  | [] => Stop2 1
  end.

(* selectMostProving at one node (Pn.pick_kid) *)
Fixpoint pick_kid2 (descend : pn -> list (position * bool) -> p2stats -> ires2) (is_root : bool) (t : pn)
         (path : list (position * bool)) (s : p2stats) (before l : list pn) : ires2 :=
  match l with
  | [] => Stop2 1                                  (* "consistency error" *)
  | c :: r =>
    if n_delta c =? n_phi t then
      if (n_phi c =? 0) || (n_delta c =? 0) then Stop2 3 else      (* see Pn.pick_kid *)
      into_kid descend is_root t path s before c r
    else pick_kid2 descend is_root t path s (c :: before) r
  end.

(* one iteration of the loop of search(): (walk down to `current` along `forced`,) select, node limit, expand (or pn2),
   updateAncestors.  is_root: the node is p.root of this level.
   Stop2 5: `forced` does not name an unsolved child - cannot happen: the nodes above `current` were unsolved when they were
   selected and have not been touched since (the Go code does not look at them again); the driver reports it if it does *)
Fixpoint iterate2 (fuel : nat) (is_root : bool) (t : pn) (path : list (position * bool)) (s : p2stats) (forced : list nat) : ires2 :=
  match fuel with O => Stop2 2 | S f =>
    if n_expanded t then
      match forced with
      | i :: rest =>
        match split_at i [] (n_kids t) with
        | Some (before, c, r) =>
          if solved c then Stop2 5 else into_kid (fun c p s => iterate2 f false c p s rest) is_root t path s before c r
        | None => Stop2 5
        end
      | [] => pick_kid2 (fun c p s => iterate2 f false c p s []) is_root t path s [] (n_kids t)
      end
    else
      if (0 <? pc_maxnodes cfg) && (pc_maxnodes cfg <? live (s_st s)) then Stop2 0 else
      match hook t path s with
      | Some (Step2 t1 s1 _) =>
        let '(t2, st2) := update_node cfg is_root t1 (s_st s1) in
        Step2 t2 (with_st s1 st2) (if stops is_root t1 t2 then Some [] else None)
      | Some (Stop2 w) => Stop2 w
      | None =>
        let '(t1, st1) := expand_node basis cfg aw t path (s_st s) in
        let '(t2, st2) := update_node cfg is_root t1 st1 in
        Step2 t2 (with_st s st2) (if stops is_root t1 t2 then Some [] else None)
      end
  end.

(* the loop of search() from the node t = p.root of this level, standing at `path` (head = the position of t);
   cur = `current`, as child indices from t *)
Fixpoint search2 (k dfuel : nat) (path : list (position * bool)) (t : pn) (s : p2stats) (cur : list nat) : pn * p2stats * N :=
  match k with O => (t, s, if solved t then 0 else 2) | S k' =>
    if solved t then (t, s, 0) else
    match iterate2 dfuel true t path s cur with
    | Step2 t' s' c => search2 k' dfuel path t' s' (match c with Some l => l | None => [] end)
    | Stop2 w => (t, s, w)
    end
  end.
End Level.

Definition no_hook : pn -> list (position * bool) -> p2stats -> option ires2 := fun _ _ _ => None.

(* ---------- pn2() ---------- *)
Section Top.
Variable cfg : pcfg.                              (* pc_maxnodes: Config.MaxNodes AFTER the halving of Prove() *)
Variable threshold : N.                           (* pn2Threshold *)
Variable pn2on : bool.                            (* Config.PN2 *)
Variable k2 dfuel2 : nat.                         (* fuel of one second-level search *)

(* lim: (oldStats.Live() * oldStats.Live()) / MaxNodes in uint64, or Live() when there is no first-level limit *)
Definition pn2_limit (st : pstats) : N :=
  if 0 <? pc_maxnodes cfg then ((live st * live st) mod 2 ^ 64) / pc_maxnodes cfg else live st.

Definition cfg2 (lim : N) : pcfg := {| pc_maxnodes := lim; pc_preserve := pc_preserve cfg; pc_maxdepth := pc_maxdepth cfg |}.

(* c.flags &= ^flagExpanded; c.firstChild = nil *)
Definition strip (c : pn) : pn :=
  PN (n_move c) (n_phi c) (n_delta c) (n_value c) (n_irrev c) (n_and c) false (n_pdepth c) [].

Definition pn2_value (t : pn) : N :=
  let proof := if n_and t then n_delta t else n_phi t in
  let disproof := if n_and t then n_phi t else n_delta t in
  if proof =? 0 then 1 else if disproof =? 0 then 2 else n_value t.

(* what pn2 leaves in the first-level counters *)
Definition pn2_stats (st : pstats) (nkids : N) (maxdepth2 : N) : pstats :=
  {| p_nodes := p_nodes st + nkids; p_proved := p_proved st; p_disproved := p_disproved st; p_dropped := p_dropped st;
     p_expanded := p_expanded st + 1; p_maxdepth := N.max (p_maxdepth st) maxdepth2 |}.

(* Stop2 4: the second-level search returned without expanding its root - the code would then compute the numbers of an
   unexpanded node from its value; this cannot happen (the first iteration of the second level always expands: its
   counters start at zero, so no limit stops it) and the driver reports it if it ever does *)
Definition pn2_node (t : pn) (path : list (position * bool)) (s : p2stats) : ires2 :=
  let st := s_st s in
  let lim := pn2_limit st in
  let '(t', s', why) := search2 (cfg2 lim) no_hook k2 dfuel2 path t (s_of stats_zero) [] in
  if why =? 0 then
    if n_expanded t' then
      let kids := map strip (n_kids t') in
      Step2 (PN (n_move t') (n_phi t') (n_delta t') (pn2_value t') (n_irrev t') (n_and t') true (n_pdepth t') kids)
            {| s_st := pn2_stats st (N.of_nat (length kids)) (p_maxdepth (s_st s'));
               s_calls := s_calls s + 1; s_searched := s_searched s + p_nodes (s_st s'); s_limits := s_limits s + lim |} None
    else Stop2 4
  else Stop2 why.

(* expand(): `if p.cfg.PN2 && p.stats.Nodes > pn2Threshold { p.pn2(n); return }` *)
Definition pn2_hook (t : pn) (path : list (position * bool)) (s : p2stats) : option ires2 :=
  if pn2on && (threshold <? p_nodes (s_st s)) then Some (pn2_node t path s) else None.

(* prove() + search() + the end of Prove(): (tree, counters and trace, verdict 1 proven / 2 disproven / 0 unknown, move,
   why the loop stopped: 0 root solved or node limit, 1 panic, 2 out of fuel, 3 saturated numbers, 4 see pn2_node,
   5 see iterate2) *)
Definition prove_pn2 (iters dfuel : nat) (p0 : position) : pn * p2stats * N * rmove * N :=
  let '(root, s, why) := search2 cfg pn2_hook iters dfuel [(p0, false)] (root_node cfg aw p0) (s_of stats0) [] in
  let '(result, pv) := verdict root in
  (root, s, result, pv, why).
End Top.
End P2.
