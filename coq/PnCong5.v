(* C06: the no-collision hypotheses of the DFPN theorems (positions of Sp with equal hash have the same value, side to move
   and end of game - DfpnFacts.S_hash; the same value at every depth - DfpnRep1.S_hashN) follow, for a set Sp of positions
   of one game, from the plain statement "equal hash implies Position.Equal on Sp". *)
From Coq Require Import NArith ZArith List Bool.
Require Import Board Move GameOver AndOr Pn PnFacts PnCong1 PnCong3 PnCong4.
Require Import Generated.Consts.
Open Scope N_scope.

Theorem nocollision_from_equal c b aw (Sp : position -> Prop) :
  (forall p, Sp p -> cinv c b p) ->
  (forall p q, Sp p -> Sp q -> hash_of p = hash_of q -> pos_equal p q = true) ->
  (forall p q, Sp p -> Sp q -> hash_of p = hash_of q ->
     (W gen_basis aw p <-> W gen_basis aw q) /\ to_move_white p = to_move_white q /\ terminal aw p = terminal aw q) /\
  (forall p q, Sp p -> Sp q -> hash_of p = hash_of q ->
     forall n, wn position (succs gen_basis) (terminal aw) (attp aw) n p = wn position (succs gen_basis) (terminal aw) (attp aw) n q).
Proof.
  intros Hc He.
  assert (Hs : forall p q, Sp p -> Sp q -> hash_of p = hash_of q -> sim p q).
  { intros p q Hp Hq Eh. eapply cinv_equal_sim; eauto. }
  split.
  - intros p q Hp Hq Eh. pose proof (Hs p q Hp Hq Eh) as S.
    split; [|split; [now apply sim_to_move|now apply sim_terminal]].
    unfold W. split; intros [n Hn]; exists n; [rewrite <- (sim_wn gen_basis aw n p q S)|rewrite (sim_wn gen_basis aw n p q S)]; exact Hn.
  - intros p q Hp Hq Eh n. apply sim_wn. now apply Hs.
Qed.
Print Assumptions nocollision_from_equal.
