From Coq Require Import NArith ZArith Arith List Bool Lia ZifyN ZifyBool ZifyNat.
Require Import Board Stack Rules Move Refine RefinePlace RefinePlace2 RefinePlace3 Slide1 Slide2 Slide3.
Import ListNotations.
Ltac Zify.zify_post_hook ::= Z.div_mod_to_equations.

Lemma updN_length l i v : length (updN l i v) = length l.
Proof. revert i; induction l; intros [|i]; simpl; auto. Qed.

Lemma flats_app a b : flats (a ++ b) = flats a ++ flats b.
Proof. unfold flats. apply map_app. Qed.

Lemma has_setb_same b i : (i < 64)%N -> has (setb b i) i = true.
Proof. apply has_set_same. Qed.
Lemma has_clrb_same b i : (i < 64)%N -> has (clrb b i) i = false.
Proof. intros. rewrite has_clrb, N.eqb_refl by assumption. apply andb_false_r. Qed.
Lemma has_setb_other b i j : (i < 64)%N -> (j < 64)%N -> j <> i -> has (setb b i) j = has b j.
Proof. apply has_clr_other. Qed.
Lemma has_clrb_other b i j : (i < 64)%N -> (j < 64)%N -> j <> i -> has (clrb b i) j = has b j.
Proof. intros. rewrite has_clrb by assumption. destruct (N.eqb_spec j i); [contradiction|apply andb_true_r]. Qed.

Definition same_elsewhere (b b' : bstate) (i : N) : Prop :=
  length (bhs b') = length (bhs b) /\ length (bst b') = length (bst b) /\
  forall j, (j < 64)%N -> j <> i ->
    nthN (bhs b') j = nthN (bhs b) j /\ nthN (bst b') j = nthN (bst b) j /\
    has (bw b') j = has (bw b) j /\ has (bb b') j = has (bb b) j /\ has (bs b') j = has (bs b) j /\ has (bc b') j = has (bc b) j.

(* what the successful branch of drop_at builds, given the standing bit already settled to s1 *)
Definition drop_result (hf : N -> N -> N -> N) (topk : pkind) (stack ct cN i : N) (b : bstate) (s1 : N) : bstate :=
  let hi := nthN (bhs b) i in let sti := nthN (bst b) i in
  let h := N.lxor (bh b) (hash_at hf (bhs b) (bst b) i) in
  let sti := if has (bw b) i then shl64 sti 1 else if has (bb b) i then N.lor (shl64 sti 1) 1 else sti in
  let drop := N.land (shr64 stack (ct - (cN - 1))) (u64 (shl64 1 (cN - 1) + (2^64 - 1))) in
  let sti := N.lor (shl64 sti (cN - 1)) drop in
  let st := updN (bst b) (N.to_nat i) sti in
  let hs := updN (bhs b) (N.to_nat i) (u8 (hi + cN)) in
  let h := N.lxor h (hash_at hf hs st i) in
  let blk := negb (N.land stack (bit (ct - cN)) =? 0)%N in
  let bb' := if blk then setb (bb b) i else clrb (bb b) i in
  let bw' := if blk then clrb (bw b) i else setb (bw b) i in
  let '(c, s) := if (ct - cN =? 0)%N then match topk with KCap => (setb (bc b) i, s1) | KStanding => (bc b, setb s1 i) | _ => (bc b, s1) end
                 else (bc b, s1) in
  {| bw := bw'; bb := bb'; bs := s; bc := c; bhs := hs; bst := st; bh := h |}.

Lemma drop_at_unfold topk stack ct cN i b :
  (N.to_nat i < length (bhs b))%nat -> length (bst b) = length (bhs b) ->
  drop_at hsq topk stack ct cN i b =
    if has (bc b) i then Err
    else if has (bs b) i then
      (if negb (ct =? 1)%N || negb (match topk with KCap => true | _ => false end) then Err
       else Ok (drop_result hsq topk stack ct cN i b (clrb (bs b) i)))
    else Ok (drop_result hsq topk stack ct cN i b (bs b)).
Proof.
  intros Hl Hl2. unfold drop_at.
  assert (E1 : idx (bhs b) i = Ok (nthN (bhs b) i)) by (apply idx_ok; lia).
  assert (E2 : idx (bst b) i = Ok (nthN (bst b) i)) by (apply idx_ok; lia).
  destruct (has (bc b) i); [reflexivity|].
  destruct (has (bs b) i).
  - destruct (negb (ct =? 1)%N || negb match topk with KCap => true | _ => false end); [reflexivity|].
    cbn [bind]. rewrite E1. cbn [bind]. rewrite E2. cbn [bind].
    unfold drop_result. destruct (ct - cN =? 0)%N, topk; reflexivity.
  - cbn [bind]. rewrite E1. cbn [bind]. rewrite E2. cbn [bind].
    unfold drop_result. destruct (ct - cN =? 0)%N, topk; reflexivity.
Qed.

Definition flat_target (b : bstate) (i : N) : list piece :=
  let h := nthN (bhs b) i in
  if (h =? 0)%N then [] else (colour_of (has (bb b) i), Rules.Flat) :: flats (bits (N.to_nat h - 1) (nthN (bst b) i)).

Lemma u8_id x : (x < 256)%N -> u8 x = x.
Proof. apply u8_small. Qed.

Lemma drop_result_sq topk stack ct cN i b s1 :
  (i < 64)%N -> (N.to_nat i < length (bhs b))%nat -> length (bst b) = length (bhs b) ->
  sq_ok b i -> has (bc b) i = false -> has s1 i = false ->
  (forall j, (j < 64)%N -> j <> i -> has s1 j = has (bs b) j) ->
  (1 <= cN <= ct)%N -> (ct <= 64)%N -> (nthN (bhs b) i + cN <= 64)%N ->
  let b' := drop_result hsq topk stack ct cN i b s1 in
  abs_stack_b b' i = skipn (N.to_nat ct - N.to_nat cN) (carried topk stack (N.to_nat ct)) ++ flat_target b i
  /\ sq_ok b' i /\ same_elsewhere b b' i /\ nthN (bhs b') i = (nthN (bhs b) i + cN)%N.
Proof.
  intros Hi Hl Hl2 [Hh Hocc Hex Htop Hsc] Hc Hs1 Hs1o Hcn Hct Hfit b'.
  set (h := nthN (bhs b) i) in *.
  set (blk := negb (N.land stack (bit (ct - cN)) =? 0)%N).
  assert (Hblk : blk = N.testbit stack (ct - cN)) by (apply has_word; lia).
  (* fields of b' at i *)
  assert (Eh : nthN (bhs b') i = (h + cN)%N).
  { subst b'. unfold drop_result. destruct (ct - cN =? 0)%N, topk; cbn [bhs];
      rewrite nthN_updN, Nat.eqb_refl by lia; apply u8_id; lia. }
  assert (Ebb : has (bb b') i = blk).
  { subst b'. unfold drop_result. fold blk. destruct (ct - cN =? 0)%N, topk; cbn [bb];
      destruct blk; rewrite ?has_setb_same, ?has_clrb_same by assumption; reflexivity. }
  assert (Ebw : has (bw b') i = negb blk).
  { subst b'. unfold drop_result. fold blk. destruct (ct - cN =? 0)%N, topk; cbn [bw];
      destruct blk; rewrite ?has_setb_same, ?has_clrb_same by assumption; reflexivity. }
  assert (Ek : kind_of (has (bs b') i) (has (bc b') i) = if (N.to_nat ct - N.to_nat cN =? 0)%nat then rkind topk else Rules.Flat).
  { subst b'. unfold drop_result.
    destruct (N.eqb_spec (ct - cN) 0) as [E0|E0].
    - replace (N.to_nat ct - N.to_nat cN =? 0)%nat with true by lia.
      destruct topk; cbn [bs bc rkind]; rewrite ?has_setb_same, ?Hs1, ?Hc by assumption; reflexivity.
    - replace (N.to_nat ct - N.to_nat cN =? 0)%nat with false by lia.
      cbn [bs bc]. now rewrite Hs1, Hc. }
  assert (Est : bits (N.to_nat (h + cN) - 1) (nthN (bst b') i)
              = skipn (N.to_nat ct - N.to_nat cN + 1) (bits (N.to_nat ct) stack)
                ++ (if has (bw b) i || has (bb b) i then has (bb b) i :: bits (N.to_nat h - 1) (nthN (bst b) i) else [])).
  { assert (E : nthN (bst b') i =
        N.lor (shl64 (if has (bw b) i || has (bb b) i then N.lor (shl64 (nthN (bst b) i) 1) (b2n (has (bb b) i)) else nthN (bst b) i)
                     (N.of_nat (N.to_nat cN) - 1))
              (N.land (shr64 stack (N.of_nat (N.to_nat ct) - (N.of_nat (N.to_nat cN) - 1)))
                      (u64 (shl64 1 (N.of_nat (N.to_nat cN) - 1) + (2 ^ 64 - 1))))).
    { subst b'. unfold drop_result. rewrite !N2Nat.id.
      destruct (ct - cN =? 0)%N, topk; cbn [bst]; rewrite nthN_updN, Nat.eqb_refl by lia;
        (destruct (has (bw b) i) eqn:Ew; [cbn [orb]; destruct (has (bb b) i) eqn:Eb; [cbn in Hex; discriminate|]; cbn [b2n]; now rewrite N.lor_0_r
                                         |cbn [orb]; destruct (has (bb b) i); reflexivity]). }
    rewrite E. replace (N.to_nat (h + cN) - 1)%nat with (N.to_nat h + N.to_nat cN - 1)%nat by lia.
    apply dest_bits; try lia.
    - intros Ho. apply orb_false_elim in Ho. assert (h = 0)%N by (apply Hocc; tauto). lia.
    - intros Ho. destruct (N.eq_dec h 0) as [E0|E0]; [|lia]. apply Hocc in E0 as [E1 E2]. rewrite E1, E2 in Ho. discriminate. }
  split; [|split; [|split; [|exact Eh]]].
  - (* the stack at i *)
    unfold abs_stack_b. rewrite Eh. destruct (N.eqb_spec (h + cN) 0); [lia|].
    rewrite Ebb, Ek, Est, Hblk.
    rewrite skipn_carried by lia.
    replace (N.of_nat (N.to_nat ct - N.to_nat cN)) with (ct - cN)%N by lia.
    cbn [app]. f_equal. rewrite flats_app.
    replace (S (N.to_nat ct - N.to_nat cN)) with (N.to_nat ct - N.to_nat cN + 1)%nat by lia. f_equal.
    unfold flat_target. fold h.
    destruct (N.eqb_spec h 0) as [E0|E0].
    + apply Hocc in E0 as [E1 E2]. rewrite E1, E2. reflexivity.
    + assert (Ho : has (bw b) i || has (bb b) i = true).
      { destruct (has (bw b) i) eqn:E1, (has (bb b) i) eqn:E2; auto. exfalso. apply E0. apply Hocc. auto. }
      rewrite Ho. reflexivity.
  - (* the square stays consistent *)
    constructor.
    + rewrite Eh. lia.
    + rewrite Eh, Ebb, Ebw. split; [lia|]. intros [A B]. destruct blk; discriminate.
    + rewrite Ebb, Ebw. destruct blk; reflexivity.
    + rewrite Eh. lia.
    + subst b'. unfold drop_result. destruct (ct - cN =? 0)%N, topk; cbn [bs bc];
        rewrite ?has_setb_same, ?Hs1, ?Hc by assumption; reflexivity.
  - (* nothing else moves *)
    subst b'. unfold drop_result, same_elsewhere.
    destruct (ct - cN =? 0)%N, topk; cbn [bw bb bs bc bhs bst]; rewrite !updN_length; (split; [reflexivity|split; [reflexivity|]]);
      intros j Hj Hn; rewrite !nthN_updN by lia;
      (replace (N.to_nat j =? N.to_nat i)%nat with false by lia);
      fold blk; destruct blk; rewrite ?has_setb_other, ?has_clrb_other by assumption;
      repeat split; auto.
Qed.
Print Assumptions drop_result_sq.
Print Assumptions drop_result_sq.
