(* C14, the IMPORT paths of positions, part 4: move_equivariant and gameover_invariant for q := Symmetry.image p s (no `_partial`),
   and the commuting square in its strongest form: Move on the image with TransformMove's move returns, field for field, the
   image of the successor (image_move_commutes).
   Hypotheses on p beyond the C01 invariant, both forced by the model of Symmetries (FromSquares on tak.New with the DEFAULT
   configuration): reserves_match_board p and black_wins_ties p = false.  Both are preserved by moves and by images. *)
From Coq Require Import NArith ZArith Arith List Bool Lia ZifyN ZifyBool ZifyNat Permutation.
Require Import Rules Sym SymRules1 SymRules2 SymRules3 SymRules4.
Require Import Board Stack Move Refine RefinePlace RefinePlace2 RefinePlace3 Slide1 Slide2 Slide3 Slide4 Slide5 Slide6 Slide7 Slide8
  MoveRefines HashInv GameOver Preserve1 Preserve2 PreserveExt Preserve3 Preserve4 Preserve5 Preserve6 Reach1 HashMove1 Canon8.
Require Import Alloc Generated.Consts.
Require Import Tps Symmetry SymCode1 Canon2 SymCode2 SymCode3 SymCode4 GameOverFacts1 GameOverFacts2.
Require Import TpsFacts TpsFacts2 TpsFacts3 TpsFacts4 TpsFacts5 TpsFacts6 TpsFacts8 TpsFacts9 Import1 Import3.
Import ListNotations.
Close Scope Z_scope. Close Scope N_scope.

(* ---- two positions satisfying the invariant with the same abstraction are the same record ---- *)
Lemma pos_ok_eq p q : pos_ok p -> pos_ok q -> abs p = abs q -> p = q.
Proof.
  intros Hp Hq E.
  assert (Es : size p = size q).
  { assert (En := f_equal Rules.n E). unfold abs in En. cbn [Rules.n] in En. lia. }
  destruct (representation_canonical p q Hp Hq Es (f_equal sq E)) as (A1 & A2 & A3 & A4 & A5 & A6 & A7).
  assert (B1 := f_equal wstones E). assert (B2 := f_equal wcaps E). assert (B3 := f_equal bstones E). assert (B4 := f_equal bcaps E).
  assert (B5 := f_equal ply E). assert (B6 := f_equal Rules.black_wins_ties E).
  unfold abs in B1, B2, B3, B4, B5, B6. cbn [wstones wcaps bstones bcaps ply Rules.black_wins_ties] in *.
  clear E Hp Hq.
  destruct p as [a1 a2 a3 a4 a5 a6 a7 a8 a9 a10 a11 a12 a13 a14], q as [b1 b2 b3 b4 b5 b6 b7 b8 b9 b10 b11 b12 b13 b14].
  cbn [size Move.black_wins_ties whiteStones whiteCaps blackStones blackCaps Move.move White Move.Black Standing Caps Height Stacks hash] in *.
  subst. reflexivity.
Qed.

(* ---- reserves_match_board is conservation: reserve + pieces on the board = default count ---- *)
Lemma rmb_cons4 p : pos_ok p ->
  reserves_match_board p <-> cons4 (abs p) = (dflt_pieces p, dflt_caps p, dflt_pieces p, dflt_caps p).
Proof.
  intros Hp. pose proof (pos_ok_rep_ok p Hp) as R. pose proof (po_size _ Hp) as Hs.
  unfold reserves_match_board, cons4. rewrite !(on_board_abs _ p R Hs).
  change (fun x => is_ws (pc_of x)) with a_ws. change (fun x => is_wc (pc_of x)) with a_wc.
  change (fun x => is_bs (pc_of x)) with a_bs. change (fun x => is_bc (pc_of x)) with a_bc.
  unfold abs. cbn [wstones wcaps bstones bcaps sq].
  set (s := map _ _). generalize (bcnt a_ws s) (bcnt a_wc s) (bcnt a_bs s) (bcnt a_bc s). intros c1 c2 c3 c4.
  split.
  - intros (L1 & R1 & L2 & R2 & L3 & R3 & L4 & R4). rewrite R1, R2, R3, R4.
    repeat (match goal with |- (_, _) = (_, _) => f_equal end); lia.
  - intros E. injection E as E1 E2 E3 E4. repeat split; lia.
Qed.

Lemma move_reserves_match p m p' : pos_ok p -> pos_ok p' -> reserves_match_board p ->
  rules_move (abs p) (raw m) = Some (abs p') -> size p' = size p -> reserves_match_board p'.
Proof.
  intros Hp Hp' RM Hr Es. apply (rmb_cons4 p' Hp'). apply (rmb_cons4 p Hp) in RM.
  destruct (rules_move_cons4 (abs p) (raw m) (abs p')) as (C & _); [|exact Hr|].
  - unfold abs. cbn [sq Rules.n]. now rewrite map_length, seq_length.
  - unfold dflt_pieces, dflt_caps in *. rewrite Es, C. exact RM.
Qed.

(* ---- move_equivariant for q := the rebuilt image ---- *)
Theorem image_move_equivariant k p m : k < 8 -> pos_ok p -> reserves_match_board p -> Move.black_wins_ties p = false ->
  fits64 p m -> transformable m -> mT m <> 1%N ->
  let s := csym (N.to_nat (size p)) k in
  match transform_move s m with
  | Ok m' => match mv p m, mv (image gen_basis p s) m' with
             | Ok p', Ok q' => abs q' = img k (abs p') /\ pos_ok p' /\ pos_ok q'
             | Err, Err => True
             | _, _ => False
             end
  | _ => False
  end.
Proof.
  intros Hk Hp RM Hb Hf Ht Hm s. apply move_equivariant64_code; try assumption.
  - now apply image_pos_ok.
  - now apply image_abs.
Qed.
Print Assumptions image_move_equivariant.

(* the commuting square, field for field: Move (image p) (TransformMove m) = image (Move p m), errors included, no panic *)
Theorem image_move_commutes k p m : k < 8 -> pos_ok p -> reserves_match_board p -> Move.black_wins_ties p = false ->
  fits64 p m -> transformable m -> mT m <> 1%N ->
  let s := csym (N.to_nat (size p)) k in
  match transform_move s m with
  | Ok m' => match mv p m with
             | Ok p' => mv (image gen_basis p s) m' = Ok (image gen_basis p' s) /\
                        pos_ok p' /\ reserves_match_board p' /\ Move.black_wins_ties p' = false
             | Err => mv (image gen_basis p s) m' = Err
             | Panic => False
             end
  | _ => False
  end.
Proof.
  intros Hk Hp RM Hb Hf Ht Hm s.
  pose proof (image_move_equivariant k p m Hk Hp RM Hb Hf Ht Hm) as H. cbv zeta in H. fold s in H.
  pose proof (move_refines_rules64 p m Hp Hf Hm) as R.
  destruct (transform_move s m) as [m'| |]; try contradiction.
  destruct (mv p m) as [p'| |]; destruct (mv (image gen_basis p s) m') as [q'| |]; try contradiction; try reflexivity.
  destruct H as (E & Hp' & Hq'). destruct R as (Rr & _ & [S1 S2 _ _ _ _]).
  assert (RM' : reserves_match_board p') by (apply (move_reserves_match p m p'); assumption).
  assert (Hb' : Move.black_wins_ties p' = false) by congruence.
  split; [|auto]. f_equal. apply pos_ok_eq; [exact Hq'|now apply image_pos_ok|].
  rewrite E. subst s. rewrite <- S1. symmetry. now apply image_abs.
Qed.
Print Assumptions image_move_commutes.

(* ---- gameover_invariant for q := the rebuilt image ---- *)
Lemma default_pieces_le n : (nth n default_pieces 0 <= 50)%N.
Proof. do 9 (destruct n as [|n]; [cbn; lia|]). destruct n; cbn; lia. Qed.
Lemma default_caps_le n : (nth n default_caps 0 <= 2)%N.
Proof. do 9 (destruct n as [|n]; [cbn; lia|]). destruct n; cbn; lia. Qed.

Lemma pos_ok_inv p : pos_ok p -> reserves_match_board p -> GameOverFacts2.inv p.
Proof.
  intros [Hs Hb _ [_ _ _ (Mw & Mb & _ & _) _]] (_ & R1 & _ & R2 & _ & R3 & _ & R4). cbn [bview bw bb] in *.
  pose proof (default_pieces_le (N.to_nat (size p))). pose proof (default_caps_le (N.to_nat (size p))).
  unfold dflt_pieces, dflt_caps in *.
  constructor; try assumption; try lia.
  - intros i Hi. destruct (N.lt_ge_cases i (size p * size p)) as [L|L]; [exact L|]. rewrite (Mw i L) in Hi. discriminate.
  - intros i Hi. destruct (N.lt_ge_cases i (size p * size p)) as [L|L]; [exact L|]. rewrite (Mb i L) in Hi. discriminate.
Qed.

Theorem image_gameover_invariant k p : k < 8 -> pos_ok p -> reserves_match_board p -> Move.black_wins_ties p = false ->
  let q := image gen_basis p (csym (N.to_nat (size p)) k) in
  game_over q = game_over p /\ win_details q = win_details p.
Proof.
  intros Hk Hp RM Hb q. apply (gameover_invariant k p q Hk).
  - now apply pos_ok_inv.
  - apply pos_ok_inv; [now apply image_pos_ok|now apply image_reserves_match].
  - now apply image_abs.
Qed.
Print Assumptions image_gameover_invariant.

(* ---- non-vacuity: the 14-ply 5x5 position of PreserveEx.v, rotated (k = 6), the long slide of C01's example ---- *)
Require Import PreserveEx.
Lemma p14_hyps : pos_ok p14 /\ reserves_match_board p14 /\ Move.black_wins_ties p14 = false /\ size p14 = 5%N.
Proof.
  destruct (reachable_ok 5 false 21 1 ms14 p14 ltac:(lia) ltac:(lia) no_pass_ms14 replay_ms14) as (A & _ & S & _).
  pose proof (replay_refines ms14 start5) as R.
  split; [exact A|]. split; [|split; [|exact S]].
  - destruct (reachable_round_trip_hyps 5 false ms14 p14 ltac:(lia) no_pass_ms14) as (_ & _ & C & _); [|exact replay_ms14|exact C].
    intros ms1 ms2 q Hsplit Hq. pose proof no_pass_ms14 as Hnp. rewrite Hsplit in Hnp. apply Forall_app in Hnp as [Hnp1 _].
    destruct (reachable_ok 5 false 21 1 ms1 q ltac:(lia) ltac:(lia) Hnp1 Hq) as (A' & T & _).
    apply total_heights64. lia.
  - destruct (new_ok 5 false 21 1 ltac:(lia) ltac:(lia) ltac:(lia)) as (N1 & _ & N3).
    specialize (R N1 ltac:(unfold start5; lia) no_pass_ms14). rewrite replay_ms14 in R.
    destruct R as (_ & _ & _ & _ & B & _). rewrite B. reflexivity.
Qed.

Example ex_image_move_commutes :
  exists m' p', transform_move (csym 5 6) m_long = Ok m' /\ m' <> m_long /\ mv p14 m_long = Ok p' /\
    mv (image gen_basis p14 (csym 5 6)) m' = Ok (image gen_basis p' (csym 5 6)) /\
    White (image gen_basis p14 (csym 5 6)) <> White p14 /\
    game_over (image gen_basis p14 (csym 5 6)) = game_over p14.
Proof.
  destruct p14_hyps as (A & B & C & S). destruct ex_long_slide as (_ & F & M & p' & E & _).
  assert (T : transformable m_long) by (unfold transformable; cbn; lia).
  pose proof (image_move_commutes 6 p14 m_long ltac:(lia) A B C F T M) as H. cbv zeta in H.
  pose proof (image_gameover_invariant 6 p14 ltac:(lia) A B C) as G. cbv zeta in G.
  rewrite S in H, G. change (N.to_nat 5) with 5 in H, G.
  assert (Et : transform_move (csym 5 6) m_long = Ok {| mX := 1; mY := 0; mT := 7; mS := 4370 |}) by (vm_compute; reflexivity).
  rewrite Et in H.
  rewrite E in H. destruct H as (H & _).
  eexists _, p'. split; [reflexivity|]. split; [discriminate|]. split; [exact E|]. split; [exact H|].
  split; [|apply G].
  vm_compute. discriminate.
Qed.
