(* C15, layer 1: Symmetry.canonical taken apart into named pieces (convertible to the model: canonical_unfold is `reflexivity`),
   and what one step computes when every TransformMove involved is on a transformable move. *)
From Coq Require Import NArith ZArith Arith List Bool Lia ZifyN ZifyBool ZifyNat.
Require Import Rules Sym SymRules1 SymRules2 SymRules4.
Require Import Board Move GameOver Tps Symmetry Refine SymCode1.
Require Import Generated.Consts.
Import ListNotations.
Close Scope Z_scope. Close Scope N_scope.

Notation cmv := (mvp gen_basis).
Definition cstate0 (sz : N) : cstate := {| cp := new_pos gen_basis sz; cms := [] |}.
Definition cst := (list cstate * list symfn * symfn)%type.

Definition cand_step (ss : list symfn) (h : N) (m1 : rmove) (st : res (rmove * option symfn)) (ib : nat * cstate)
  : res (rmove * option symfn) :=
  match st with
  | Ok (best, rot) =>
    if (fst ib =? 0)%nat then st else
    if (hash_of (cp (snd ib)) =? h)%N then
      match transform_move (nth (fst ib) ss (fun x y => (x, y))) m1 with
      | Ok rm => if prefer_move rm best then Ok (rm, Some (nth (fst ib) ss (fun x y => (x, y)))) else st
      | Err => Err | Panic => Panic
      end
    else st
  | e => e
  end.

Definition move_board (ss : list symfn) (m2 : rmove) (ib : nat * cstate) : res cstate :=
  match transform_move (nth (fst ib) ss (fun x y => (x, y))) m2 with
  | Ok rm => match cmv (cp (snd ib)) rm with
             | Ok q => Ok {| cp := q; cms := cms (snd ib) ++ [rm] |}
             | Err => Err | Panic => Panic end
  | Err => Err | Panic => Panic
  end.

Definition cstep (sz : N) (acc : res cst) (m : rmove) : res cst :=
  let ss := syms (Z.of_N sz) in
  match acc with
  | Ok (boards, rots, tfn) =>
    let h := hash_of (cp (hd (cstate0 sz) boards)) in
    match transform_move tfn m with
    | Ok m1 =>
      match fold_left (cand_step ss h m1) (combine (seq 0 8) boards) (Ok (m1, None)) with
      | Ok (best, rot) =>
        let '(rots, tfn, m2) := match rot with Some r => let rots' := r :: rots in (rots', compose rots', best) | None => (rots, tfn, m1) end in
        match all_res (map (move_board ss m2) (combine (seq 0 8) boards)) with Ok bs => Ok (bs, rots, tfn) | Err => Err | Panic => Panic end
      | Err => Err | Panic => Panic
      end
    | Err => Err | Panic => Panic
    end
  | e => e
  end.

Definition cinit (sz : N) : res cst := Ok (repeat (cstate0 sz) 8, [], nth 0 (syms (Z.of_N sz)) (fun x y => (x, y))).

Lemma canonical_unfold sz ms :
  canonical gen_basis sz ms =
  match fold_left (cstep sz) ms (cinit sz) with
  | Ok (boards, _, _) => Ok (cms (hd (cstate0 sz) boards))
  | Err => Err | Panic => Panic
  end.
Proof. reflexivity. Qed.

(* errors are absorbing *)
Lemma cstep_not_ok sz acc m st : cstep sz acc m = Ok st -> exists st0, acc = Ok st0.
Proof. destruct acc as [st0| |]; [eauto|discriminate|discriminate]. Qed.

Lemma fold_cstep_app sz ms m acc : fold_left (cstep sz) (ms ++ [m]) acc = cstep sz (fold_left (cstep sz) ms acc) m.
Proof. now rewrite fold_left_app. Qed.

(* ---------- all_res ---------- *)
Lemma all_res_ok {A} (l : list (res A)) bs : all_res l = Ok bs -> l = map Ok bs.
Proof.
  revert bs; induction l as [|a t IH]; intros bs H; cbn [all_res] in H.
  - now inversion H.
  - destruct a as [a| |]; try discriminate. destruct (all_res t) as [t'| |]; try discriminate.
    inversion H. cbn [map]. f_equal. now apply IH.
Qed.

(* ---------- ranges ---------- *)
Definition inrange (L : Z) (m : rmove) : Prop := (- L <= mX m <= L /\ - L <= mY m <= L)%Z.
Definition movelike (m : rmove) : Prop := (mT m <= 8)%N /\ ((5 <= mT m)%N -> mS m <> 0%N).

Lemma transformable_of m : inrange 63 m -> movelike m -> transformable m.
Proof. intros [Hx Hy] [Ht Hs]. unfold transformable. repeat split; try lia; assumption. Qed.

Lemma ttype_le8 k t : (t <= 8)%N -> (ttype k t <= 8)%N.
Proof.
  intros H. destruct t as [|q]; [cbn; lia|]. do 4 (try destruct q as [q|q|]); try (cbn; lia);
  cbn [ttype]; destruct k as [|[|[|[|[|[|[|k]]]]]]]; cbn; lia.
Qed.

Lemma tmr_movelike k s m : movelike m -> movelike (tmr k s m).
Proof.
  intros [Ht Hs]. unfold movelike, tmr. cbn [mT mS]. split; [now apply ttype_le8|].
  intros H5. assert (E : (mT m <? 5)%N = false) by (rewrite <- (ttype_lt5 k); lia).
  rewrite E. apply Hs. lia.
Qed.

Lemma tmr_inrange k s m L : k < 8 -> size_ok s -> (0 <= L)%Z -> inrange L m -> inrange (L + 7) (tmr k s m).
Proof.
  intros Hk Hs HL [Hx Hy]. unfold inrange, tmr, size_ok in *. cbn [mX mY].
  do 8 (destruct k as [|k]; [cbn [sym fst snd]; unfold f; lia|]). lia.
Qed.

Lemma tmr_comp a b s m : a < 8 -> b < 8 -> tmr a s (tmr b s m) = tmr (comp a b) s m.
Proof.
  intros Ha Hb. assert (H := tm_comp a b (Z.of_nat s) (raw m) Ha Hb). rewrite <- !raw_tmr in H.
  destruct (tmr a s (tmr b s m)), (tmr (comp a b) s m). unfold raw in H. cbn in H. now inversion H.
Qed.

(* transform_move only looks at the symmetry near the move *)
Lemma transform_move_ext (t1 t2 : symfn) m :
  (forall x y, (-80 <= x <= 80)%Z -> (-80 <= y <= 80)%Z -> t1 x y = t2 x y) -> inrange 63 m ->
  transform_move t1 m = transform_move t2 m.
Proof.
  intros Hext [Hx Hy]. unfold transform_move. rewrite (Hext (mX m) (mY m)) by lia.
  destruct (t2 (mX m) (mY m)) as [ox oy]. destruct (mT m <? 5)%N; [reflexivity|].
  assert (HL : (0 <= slides_len (mS m) <= 8)%Z) by (unfold slides_len; assert (H8 := nibbles_len_le 8 (mS m)); lia).
  unfold dest. set (L := slides_len (mS m)) in *. clearbody L.
  destruct (mT m) as [|q]; [reflexivity|]. do 4 (try destruct q as [q|q|]); try reflexivity;
    unwrap; rewrite Hext by lia; reflexivity.
Qed.
