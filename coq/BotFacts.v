(* Proofs about Bot.v: the repaired loop transmits only answers computed for the current position
   (bot_sends_only_current), and under a server that keeps its contract the bot's record equals the
   authoritative history after every event, every transmitted move is accepted by the server, and the
   loop has ended exactly when the server ended the game (bot_tracks_server).  The pinned loop is
   refuted on a toy game. *)
From Coq Require Import List Bool Arith Lia.
Require Import Bot.
Import ListNotations.

Section BotFacts.
Variables (pos move : Type).
Variable apply : pos -> move -> option pos.
Variable bots_turn : pos -> bool.
Variable over : pos -> bool.
Variable start : pos.
Variable accept_undo : bool.

Notation state := (state pos move).
Notation server := (server pos move).
Notation event := (event move).
Notation step := (step pos move apply bots_turn over start true accept_undo).
Notation init := (init pos move bots_turn start).
Notation run := (run pos move apply bots_turn over start true accept_undo).
Notation restart := (restart pos move bots_turn start).
Notation cur := (cur pos move start).
Notation sent_ok := (sent_ok pos move apply bots_turn).
Notation stop := (stop pos move start).
Notation srv_init := (srv_init pos move start).
Notation srv_emit := (srv_emit pos move apply start).
Notation srv_hears := (srv_hears pos move apply bots_turn start).
Notation env_allows := (env_allows pos move apply start).
Notation step2 := (step2 pos move apply bots_turn over start true accept_undo).
Notation run2_from := (run2_from pos move apply bots_turn over start true accept_undo).
Notation run2 := (run2 pos move apply bots_turn over start true accept_undo).
Notation env_ok := (env_ok pos move apply bots_turn over start true accept_undo).

(* ---- part 1: sends only current answers (no assumption on the environment) ---- *)
Definition Inv (s : state) : Prop :=
  Forall sent_ok (out _ _ s) /\ (enabled _ _ s = true -> spawned_on _ _ s = cur s /\ bots_turn (cur s) = true).

Lemma restart_inv s : Forall sent_ok (out _ _ s) -> Inv (restart s).
Proof. intros H. split; [exact H|]. simpl. intros E. split; [reflexivity|exact E]. Qed.

Lemma step_inv s e : Inv s -> Inv (step s e).
Proof.
  intros [Ho He]. unfold Bot.step.
  destruct (ended _ _ s || crashed _ _ s); [split; assumption|].
  destruct e as [l| |m|m|].
  - destruct l; try (split; assumption).
    + destruct (apply (cur s) m); (split; [assumption|]); simpl; discriminate.
    + split; [assumption|simpl; discriminate].
    + destruct (armed _ _ s); [now apply restart_inv|split; assumption].
    + destruct accept_undo; [|split; assumption]. split; [assumption|]. simpl. discriminate.
    + destruct (hist _ _ s) as [|? [|? ?]]; destruct (moves _ _ s); try (split; [assumption|simpl; discriminate]).
      now apply restart_inv.
  - split; assumption.
  - destruct (answered _ _ s || over (spawned_on _ _ s)); [split; assumption|]. cbn [enabled set_answered].
    destruct (enabled _ _ s) eqn:E; cbn [negb]; [|split; [assumption|cbn; rewrite E; discriminate]].
    destruct (He eq_refl) as [Hs Ht].
    change (cur (set_answered pos move s)) with (cur s).
    destruct (apply (cur s) m) eqn:A.
    + apply restart_inv. cbn. constructor; [|assumption]. repeat split; cbn; auto. congruence.
    + now apply restart_inv.
  - split; assumption.
  - destruct (armed _ _ s); [now apply restart_inv|split; assumption].
Qed.

Lemma init_inv : Inv init.
Proof. apply restart_inv. constructor. Qed.

Lemma run_from_inv evs : forall s, Inv s -> Inv (run_from pos move apply bots_turn over start true accept_undo s evs).
Proof. induction evs as [|e evs IH]; intros s Hs; simpl; [apply Hs|]. apply IH. now apply step_inv. Qed.

Theorem bot_sends_only_current : forall evs, Forall sent_ok (out _ _ (run evs)).
Proof. intros evs. apply (run_from_inv evs init init_inv). Qed.

(* ---- part 2: the record tracks the server ---- *)
Definition R (s : state) (v : server) : Prop :=
  hist _ _ s = shist _ _ v /\ moves _ _ s = smoves _ _ v /\ ended _ _ s = sended _ _ v /\ crashed _ _ s = false /\
  length (hist _ _ s) = S (length (moves _ _ s)) /\ noks _ _ v = 0 /\
  (ack _ _ v = true -> enabled _ _ s = false).          (* while an undo is outstanding the loop does not listen to its thinker *)

Lemma cur_stop s v : hist _ _ s = shist _ _ v -> cur s = stop v.
Proof. intros H. unfold Bot.cur, Bot.stop. now rewrite H. Qed.

Lemma hears_same v s : srv_hears v s s = v.
Proof. unfold Bot.srv_hears. rewrite !Nat.ltb_irrefl. now destruct v. Qed.

Lemma hears_quiet v s s' : out _ _ s' = out _ _ s -> undo_acks _ _ s' = undo_acks _ _ s -> srv_hears v s s' = v.
Proof. intros Ho Hu. unfold Bot.srv_hears. rewrite Ho, Hu, !Nat.ltb_irrefl. now destruct v. Qed.

Lemma R_restart s v : R s v -> ack _ _ v = false -> R (restart s) v.
Proof. intros (Hh & Hm & He & Hc & Hl & Hn & Ha) Hk. repeat split; try assumption. intros X. congruence. Qed.

Lemma step2_R s v e : R s v -> Inv s -> env_allows s v e = true -> R (step s e) (srv_hears (srv_emit v e) s (step s e)).
Proof.
  intros HR Hi Hal. pose proof HR as (Hh & Hm & He & Hc & Hl & Hn & Ha).
  unfold Bot.step, Bot.srv_emit.
  destruct (ended _ _ s) eqn:En; cbn [orb].
  { rewrite <- He. rewrite hears_same. exact HR. }
  rewrite Hc. rewrite <- He.
  unfold Bot.env_allows in Hal. rewrite <- He in Hal. cbn [orb] in Hal.
  apply andb_prop in Hal. destruct Hal as [Hk Hal].
  destruct e as [l| |m|m|].
  - destruct l.
    + (* LMove *)
      rewrite <- (cur_stop s v Hh) in *.
      destruct (apply (cur s) m) as [p'|] eqn:A; [|discriminate].
      rewrite hears_quiet by reflexivity.
      repeat split; cbn; try congruence; try (now rewrite Hl).
    + discriminate.
    + (* LTime *)
      destruct (armed _ _ s) eqn:Ar.
      * rewrite hears_quiet by reflexivity. apply R_restart; [exact HR|].
        destruct (ack _ _ v); [discriminate|reflexivity].
      * rewrite hears_same. exact HR.
    + (* LReqUndo *)
      destruct accept_undo.
      * unfold Bot.srv_hears. cbn [out undo_acks set_enabled add_ack]. rewrite Nat.ltb_irrefl.
        replace (undo_acks _ _ s <? S (undo_acks _ _ s)) with true by (symmetry; apply Nat.ltb_lt; lia).
        repeat split; cbn; auto; congruence.
      * rewrite hears_same. exact HR.
    + (* LUndo *)
      apply andb_prop in Hal. destruct Hal as [_ Hal].
      rewrite <- Hh in Hal.
      destruct (hist _ _ s) as [|a [|b h]] eqn:Eh; try discriminate.
      destruct (moves _ _ s) as [|m0 ms] eqn:Em; [cbn in Hl; discriminate|].
      rewrite hears_quiet by reflexivity.
      repeat split; cbn; try assumption; try discriminate.
      * rewrite <- Hh. reflexivity.
      * rewrite <- Hm. reflexivity.
      * cbn in Hl. lia.
    + (* LOver *)
      rewrite hears_quiet by reflexivity. repeat split; cbn; auto; congruence.
    + (* LAbandoned *)
      rewrite hears_quiet by reflexivity. repeat split; cbn; auto; congruence.
    + rewrite hears_same. exact HR.
  - (* Closed *)
    rewrite hears_quiet by reflexivity. repeat split; cbn; auto; congruence.
  - (* Answer *)
    destruct (answered _ _ s || over (spawned_on _ _ s)); [rewrite hears_same; exact HR|].
    cbn [enabled set_answered].
    destruct (enabled _ _ s) eqn:E; cbn [negb]; [|rewrite hears_quiet by reflexivity; repeat split; cbn; auto; congruence].
    assert (Hak : ack _ _ v = false) by (destruct (ack _ _ v); [specialize (Ha eq_refl); discriminate|reflexivity]).
    destruct Hi as [_ Hen]. destruct (Hen E) as [Hs Ht].
    change (cur (set_answered pos move s)) with (cur s).
    destruct (apply (cur s) m) as [p'|] eqn:A.
    + unfold Bot.srv_hears. cbn [out undo_acks Bot.restart set_record add_sent set_answered length s_move].
      replace (length (out _ _ s) <? S (length (out _ _ s))) with true by (symmetry; apply Nat.ltb_lt; lia).
      rewrite Nat.ltb_irrefl.
      rewrite <- (cur_stop s v Hh). rewrite Ht, Hak, A. cbn [negb andb].
      repeat split; cbn; try congruence; try (now rewrite Hl).
    + rewrite hears_quiet by reflexivity. repeat split; cbn; auto; congruence.
  - rewrite hears_same. exact HR.
  - destruct (armed _ _ s) eqn:Ar.
    + rewrite hears_quiet by reflexivity. apply R_restart; [exact HR|].
      destruct (ack _ _ v); [discriminate|reflexivity].
    + rewrite hears_same. exact HR.
Qed.

Lemma init_R : R init srv_init.
Proof. repeat split. discriminate. Qed.

Definition is_end (e : event) : bool :=
  match e with Line _ (LOver _) | Line _ (LAbandoned _) | Closed _ => true | _ => false end.

Lemma emit_sended v e : sended _ _ (srv_emit v e) = sended _ _ v || is_end e.
Proof.
  unfold Bot.srv_emit. destruct (sended _ _ v) eqn:E; [now rewrite E|].
  destruct e as [l| |m|m|]; try (cbn; rewrite ?E; reflexivity).
  destruct l; cbn; rewrite ?E; try reflexivity.
  destruct (apply (stop v) m); cbn; rewrite E; reflexivity.
Qed.

Lemma hears_sended v s s' : sended _ _ (srv_hears v s s') = sended _ _ v.
Proof.
  unfold Bot.srv_hears.
  destruct (length (out _ _ s) <? length (out _ _ s')); destruct (undo_acks _ _ s <? undo_acks _ _ s'); cbn; try reflexivity;
    destruct (out _ _ s') as [|o ?]; try reflexivity;
    destruct (if bots_turn (stop v) && negb (ack _ _ v) then apply (stop v) (s_move _ _ o) else None); reflexivity.
Qed.

Lemma run2_from_spec evs : forall s v s' v',
  R s v -> Inv s -> run2_from (s, v) evs = Some (s', v') ->
  s' = run_from pos move apply bots_turn over start true accept_undo s evs /\ R s' v' /\ Inv s' /\
  sended _ _ v' = sended _ _ v || existsb is_end evs.
Proof.
  induction evs as [|e evs IH]; intros s v s' v' HR Hi H; cbn in H.
  - inversion H; subst. cbn. rewrite orb_false_r. auto.
  - destruct (env_allows s v e) eqn:Hal; [|discriminate].
    destruct (IH _ _ _ _ (step2_R s v e HR Hi Hal) (step_inv s e Hi) H) as (E1 & E2 & E3 & E4).
    split; [exact E1|]. split; [exact E2|]. split; [exact E3|].
    rewrite E4, hears_sended, emit_sended. cbn. now rewrite orb_assoc.
Qed.

(* The property of DESIGN 5.7 for the repaired loop.  For EVERY event list - every interleaving of server
   lines, thinker returns (current and late) and timer expiries - during which the server keeps its
   contract (env_ok: it sends only moves legal in its history, Undo only after the bot's acceptance and
   only if there is a move, no malformed lines), after the run:
   the bot's Positions and Moves equal the server's authoritative history, every transmitted move was
   computed for the position current when it was sent, on the bot's turn, and is legal there (sent_ok),
   the server accepted every one of them (noks = 0), the loop has ended iff the server ended the game
   (an Over / Abandoned. line was delivered or the connection closed), and the loop never panicked. *)
Theorem bot_tracks_server : forall evs, env_ok evs ->
  exists v, run2 evs = Some (run evs, v) /\
    hist _ _ (run evs) = shist _ _ v /\ moves _ _ (run evs) = smoves _ _ v /\
    Forall sent_ok (out _ _ (run evs)) /\ noks _ _ v = 0 /\
    (ended _ _ (run evs) = true <-> existsb is_end evs = true) /\
    crashed _ _ (run evs) = false.
Proof.
  intros evs Hok. unfold Bot.env_ok in Hok.
  destruct (run2 evs) as [[s v]|] eqn:E; [|congruence].
  destruct (run2_from_spec evs _ _ _ _ init_R init_inv E) as (E1 & (Hh & Hm & He & Hc & Hl & Hn & Ha) & Hi & Hs).
  exists v. unfold Bot.run. rewrite <- E1.
  repeat split; try assumption; try (apply Hi).
  - intros X. rewrite He, Hs in X. exact X.
  - intros X. rewrite He, Hs. exact X.
Qed.

(* An answer that is already queued in the buffered channel when the loop handles a P/M line or accepts an undo
   request (it landed after the line was taken, before the branch's moveCancel()) is never transmitted: the
   branch sets moves = nil, so whatever the thinker wrote, the next select does not read it. *)
Lemma answer_ignored s a :
  ended _ _ s || crashed _ _ s = true \/ enabled _ _ s = false ->
  out _ _ (step s (Answer _ a)) = out _ _ s /\ moves _ _ (step s (Answer _ a)) = moves _ _ s /\
  hist _ _ (step s (Answer _ a)) = hist _ _ s.
Proof.
  intros H. unfold Bot.step. destruct (ended _ _ s || crashed _ _ s); [auto|].
  destruct H as [H|H]; [discriminate|].
  destruct (answered _ _ s || over (spawned_on _ _ s)); [auto|]. cbn. rewrite H. cbn. auto.
Qed.

Lemma move_line_disables s m :
  let s1 := step s (Line _ (LMove _ m)) in ended _ _ s1 || crashed _ _ s1 = true \/ enabled _ _ s1 = false.
Proof.
  cbn zeta. unfold Bot.step. destruct (ended _ _ s || crashed _ _ s) eqn:E; [left; exact E|].
  destruct (apply (cur s) m); right; reflexivity.
Qed.

Lemma undo_accept_disables s : accept_undo = true ->
  let s1 := step s (Line _ (LReqUndo _)) in ended _ _ s1 || crashed _ _ s1 = true \/ enabled _ _ s1 = false.
Proof.
  intros Hacc. cbn zeta. unfold Bot.step. rewrite Hacc. destruct (ended _ _ s || crashed _ _ s) eqn:E; [left; exact E|].
  right; reflexivity.
Qed.

Lemma queued_answer_ignored_move s m a :
  let s1 := step s (Line _ (LMove _ m)) in
  out _ _ (step s1 (Answer _ a)) = out _ _ s1 /\ moves _ _ (step s1 (Answer _ a)) = moves _ _ s1 /\
  hist _ _ (step s1 (Answer _ a)) = hist _ _ s1.
Proof. cbn zeta. apply answer_ignored, move_line_disables. Qed.

Lemma queued_answer_ignored s m a :
  (let s1 := step s (Line _ (LMove _ m)) in
   out _ _ (step s1 (Answer _ a)) = out _ _ s1 /\ moves _ _ (step s1 (Answer _ a)) = moves _ _ s1 /\
   hist _ _ (step s1 (Answer _ a)) = hist _ _ s1) /\
  (accept_undo = true ->
   let s1 := step s (Line _ (LReqUndo _)) in
   out _ _ (step s1 (Answer _ a)) = out _ _ s1 /\ moves _ _ (step s1 (Answer _ a)) = moves _ _ s1 /\
   hist _ _ (step s1 (Answer _ a)) = hist _ _ s1).
Proof.
  split; [apply queued_answer_ignored_move|].
  intros Hacc. cbn zeta. apply answer_ignored, undo_accept_disables, Hacc.
Qed.

Lemma queued_answer_ignored_undo s a : accept_undo = true ->
  let s1 := step s (Line _ (LReqUndo _)) in
  out _ _ (step s1 (Answer _ a)) = out _ _ s1 /\ moves _ _ (step s1 (Answer _ a)) = moves _ _ s1 /\
  hist _ _ (step s1 (Answer _ a)) = hist _ _ s1.
Proof. intros Hacc. cbn zeta. apply answer_ignored, undo_accept_disables, Hacc. Qed.

End BotFacts.

(* ---- a toy game: positions = ply counter, every move legal, the bot moves on even plies ---- *)
Definition toy_apply (p : nat) (m : nat) : option nat := Some (S p).
Definition toy_run (fixed : bool) := run nat nat toy_apply Nat.even (fun _ => false) 0 fixed true.
Definition toy_run2 := run2 nat nat toy_apply Nat.even (fun _ => false) 0 true true.

(* The pinned loop (fixed = false) is refuted: two replayed moves arrive on resume, then the thinker that was
   started on ply 0 answers, and the answer is transmitted at ply 2. *)
Definition resume_witness : list (event nat) := [Line nat (LMove nat 7); Line nat (LMove nat 8); Answer nat 9].
Lemma pinned_refuted :
  map (fun o => (s_pos _ _ o, s_for _ _ o)) (out _ _ (toy_run false resume_witness)) = [(2, 0)].
Proof. reflexivity. Qed.
Lemma pinned_refuted_prop : ~ Forall (sent_ok nat nat toy_apply Nat.even) (out _ _ (toy_run false resume_witness)).
Proof. intros H. inversion H as [|o l [E _] _]. cbn in E. discriminate. Qed.
Lemma fixed_on_witness : out _ _ (toy_run true resume_witness) = [].
Proof. reflexivity. Qed.

(* env_ok is not vacuous: a run with a send, an accepted undo, a grace expiry, a late answer and the end *)
Definition toy_script : list (event nat) :=
  [Answer nat 1; Line nat (LMove nat 2); Late nat 5; Grace nat; Answer nat 3; Line nat (LReqUndo nat); Line nat (LUndo nat);
   Line nat (LTime nat); Line nat (LOther nat); Answer nat 4; Line nat (LOver nat)].
Lemma toy_script_ok : env_ok nat nat toy_apply Nat.even (fun _ => false) 0 true true toy_script.
Proof. unfold env_ok. vm_compute. discriminate. Qed.
Lemma toy_script_result :
  let s := toy_run true toy_script in
  (rev (moves _ _ s), length (out _ _ s), undo_acks _ _ s, ended _ _ s) = ([1; 2; 4], 3, 1, true).
Proof. reflexivity. Qed.
(* and env_ok does exclude something: an Undo the bot never accepted *)
Lemma toy_undo_unacked : ~ env_ok nat nat toy_apply Nat.even (fun _ => false) 0 true true [Answer nat 1; Line nat (LUndo nat)].
Proof. unfold env_ok. vm_compute. intros H. apply H. reflexivity. Qed.

(* the contract also excludes the grace timer acting between the bot's acceptance and the Undo line *)
Lemma toy_grace_in_undo_window :
  ~ env_ok nat nat toy_apply Nat.even (fun _ => false) 0 true true
      [Answer nat 1; Line nat (LMove nat 2); Line nat (LReqUndo nat); Grace nat].
Proof. unfold env_ok. vm_compute. intros H. apply H. reflexivity. Qed.
(* ... while a thinker may return in that window, and with no timer pending Time lines may pass too *)
Lemma toy_answers_in_undo_window :
  env_ok nat nat toy_apply Nat.even (fun _ => false) 0 true true
      [Answer nat 1; Line nat (LMove nat 2); Grace nat; Line nat (LReqUndo nat); Answer nat 3; Late nat 4; Line nat (LTime nat);
       Line nat (LUndo nat); Answer nat 5].
Proof. unfold env_ok. vm_compute. discriminate. Qed.
