(* C01 strengthening, part 6: every move value against the rules, with the exact representation limit,
   and preservation of the full invariant. *)
From Coq Require Import NArith ZArith Arith List Bool Lia ZifyN ZifyBool ZifyNat.
Require Import Board Stack Rules Move Refine RefinePlace RefinePlace2 RefinePlace3 Slide1 Slide2 Slide3 Slide4 Slide5 Slide6 Slide7 Slide8 MoveRefines HashInv GameOver Preserve1 Preserve2 PreserveExt Preserve3 Preserve4 Preserve5.
Import ListNotations.
Ltac Zify.zify_post_hook ::= Z.div_mod_to_equations.

Lemma pos_ok_wf p : pos_ok p -> wf p.
Proof. intros [A B C D]. now apply board_ok_wf. Qed.

Theorem place_exact p m k : pos_ok p -> k <> KNone -> mT m = kind_code k ->
  match mv p m with
  | Ok p' => rules_move (abs p) (raw m) = Some (abs p') /\ step_ok p p' /\ pos_ok p'
  | Err => rules_move (abs p) (raw m) = None
  | Panic => False
  end.
Proof.
  intros Hp Hk Ht.
  assert (Hty : is_place (mT m)) by (rewrite Ht; destruct k; try contradiction; cbv; auto).
  assert (R := place_refines p m (pos_ok_wf p Hp) Hty).
  destruct (mv p m) as [p'| |] eqn:E; try exact R.
  split; [exact R|].
  assert (Hp' := Hp). destruct Hp' as [Hsz Hbo Hres Hext].
  rewrite (mv_place_char p m k Hsz ltac:(destruct Hbo; assumption) Hk Ht) in E. unfold off_board in E.
  destruct ((mX m <? 0)%Z || (Z.of_N (size p) <=? mX m)%Z || (mY m <? 0)%Z || (Z.of_N (size p) <=? mY m)%Z) eqn:Hb; [discriminate|].
  destruct ((move p <? 2)%Z && _); [discriminate|]. cbv zeta in E.
  destruct (sq_index_on_board p (mX m) (mY m) Hsz ltac:(lia) ltac:(lia)) as [_ Li].
  destruct (has (N.lor (White p) (Move.Black p)) (sq_index p (mX m) (mY m))) eqn:Ho; [discriminate|].
  destruct (place_reserve p k <=? 0)%N eqn:Hr; [discriminate|]. injection E as <-.
  destruct (place_ok p k _ Hp Hk Li Ho ltac:(lia)) as [Q T].
  split; [|exact Q]. destruct Q as [Q1 Q2 Q3 Q4]. constructor; try reflexivity; assumption.
Qed.

(* C01 with the exact limit of the 64-bit stack words.  For EVERY position satisfying the invariant
   (stacks up to 64 high) and every raw move value other than Pass:
   - the model fails exactly when the rules reject, and never panics;
   - when it succeeds the rules succeed too, with a successor s whose stacks have the lengths of the
     result's Height entries; the fields outside the board, the piece count and the hash/canonical-word
     invariants are those of the successor in any case;
   - and s IS the abstraction of the result, which satisfies the invariant again, as soon as no stack
     of the result (equivalently: of s) is higher than 64. *)
Theorem move_exact p m : pos_ok p -> mT m <> 1%N ->
  match mv p m with
  | Ok p' => exists s, rules_move (abs p) (raw m) = Some s /\ step_ok p p' /\ same_shape s p' /\
                       (heights64 p' -> s = abs p' /\ pos_ok p')
  | Err => rules_move (abs p) (raw m) = None
  | Panic => False
  end.
Proof.
  intros Hp Hnp.
  assert (Hplace : forall k, k <> KNone -> mT m = kind_code k ->
     match mv p m with
     | Ok p' => exists s, rules_move (abs p) (raw m) = Some s /\ step_ok p p' /\ same_shape s p' /\ (heights64 p' -> s = abs p' /\ pos_ok p')
     | Err => rules_move (abs p) (raw m) = None
     | Panic => False
     end).
  { intros k Hk Ht. assert (R := place_exact p m k Hp Hk Ht). destruct (mv p m) as [p'| |]; try exact R.
    destruct R as (R1 & R2 & R3). exists (abs p'). split; [exact R1|]. split; [exact R2|]. split; [|auto].
    intros j Hj. unfold abs; cbn [sq].
    assert (Hn : (N.to_nat j < N.to_nat (size p') * N.to_nat (size p'))%nat) by nia.
    rewrite nth_indep with (d' := abs_stack p' (N.of_nat 0)) by (rewrite map_length, seq_length; exact Hn).
    rewrite (map_nth (fun i => abs_stack p' (N.of_nat i))), seq_nth by exact Hn. cbn [plus]. rewrite N2Nat.id.
    rewrite abs_stack_bview. apply length_abs_stack_b. }
  assert (Hslide : forall d, mT m = dir_code d ->
     match mv p m with
     | Ok p' => exists s, rules_move (abs p) (raw m) = Some s /\ step_ok p p' /\ same_shape s p' /\ (heights64 p' -> s = abs p' /\ pos_ok p')
     | Err => rules_move (abs p) (raw m) = None
     | Panic => False
     end).
  { intros d Ht. assert (R := slide_exact p m d Hp Ht). destruct (mv p m) as [p'| |]; try exact R.
    destruct R as (s & R1 & R2 & R3 & R4). exists s. split; [exact R1|]. split; [exact R2|]. split; [exact R3|].
    intros H64. destruct (R4 H64) as [E B]. split; [exact E|].
    destruct R2 as [S1 S2 S3 S4 S5 S6]. destruct Hp as [P1 P2 P3 P4]. constructor; [rewrite S1; exact P1|exact B|exact S5|rewrite S1; exact S6]. }
  destruct (N.eq_dec (mT m) 2) as [E2|N2]; [apply (Hplace KFlat); [discriminate|exact E2]|].
  destruct (N.eq_dec (mT m) 3) as [E3|N3]; [apply (Hplace KStanding); [discriminate|exact E3]|].
  destruct (N.eq_dec (mT m) 4) as [E4|N4]; [apply (Hplace KCap); [discriminate|exact E4]|].
  destruct (N.eq_dec (mT m) 5) as [E5|N5]; [apply (Hslide Left E5)|].
  destruct (N.eq_dec (mT m) 6) as [E6|N6]; [apply (Hslide Right E6)|].
  destruct (N.eq_dec (mT m) 7) as [E7|N7]; [apply (Hslide Up E7)|].
  destruct (N.eq_dec (mT m) 8) as [E8|N8]; [apply (Hslide Down E8)|].
  assert (Hdec : decode (raw m) = None).
  { unfold decode; cbn [raw mtype]. destruct (mT m) as [|q]; [reflexivity|]; do 4 (try destruct q as [q|q|]); try reflexivity; try contradiction; try lia. }
  unfold rules_move. rewrite Hdec. unfold mv, move_prealloc.
  destruct (true && _ && negb (mT m =? 1)%N); [reflexivity|].
  destruct (mT m) as [|q]; [reflexivity|]; do 4 (try destruct q as [q|q|]); try reflexivity; try contradiction; try lia.
Qed.
Print Assumptions move_exact.

(* The representation limit as DESIGN 5.1 states it: no stack of the rules successor exceeds 64 pieces
   (that no stack of p does is part of pos_ok). *)
Definition fits64 (p : position) (m : rmove) : Prop :=
  forall s, rules_move (abs p) (raw m) = Some s -> Forall (fun st => (length st <= 64)%nat) (sq s).

Lemma shape_heights64 s p : same_shape s p -> Forall (fun st => (length st <= 64)%nat) (sq s) -> heights64 p.
Proof.
  intros Hs Hf j Hj. specialize (Hs j Hj).
  destruct (lt_dec (N.to_nat j) (length (sq s))) as [L|L].
  - assert (H := proj1 (Forall_forall _ _) Hf _ (nth_In (sq s) [] L)). cbn beta in H. lia.
  - rewrite nth_overflow in Hs by lia. cbn in Hs. lia.
Qed.

Theorem move_refines_rules64 p m : pos_ok p -> fits64 p m -> mT m <> 1%N ->
  match mv p m with
  | Ok p' => rules_move (abs p) (raw m) = Some (abs p') /\ pos_ok p' /\ step_ok p p'
  | Err => rules_move (abs p) (raw m) = None
  | Panic => False
  end.
Proof.
  intros Hp Hf Hnp. assert (R := move_exact p m Hp Hnp). destruct (mv p m) as [p'| |]; try exact R.
  destruct R as (s & R1 & R2 & R3 & R4).
  destruct (R4 (shape_heights64 s p' R3 (Hf s R1))) as [-> Q]. auto.
Qed.
Print Assumptions move_refines_rules64.

(* every stack is bounded by the number of pieces in play *)
Lemma total_heights64 p : (total p <= 64)%N -> heights64 p.
Proof. intros H j Hj. assert (L := nth_le_sumH (Height p) (N.to_nat j)). unfold nthN, total in *. lia. Qed.

(* PRESERVATION in the form used for reachability: with at most 64 pieces in the game no hypothesis on
   heights is left. *)
Corollary move_preserves_small p m p' : pos_ok p -> (total p <= 64)%N -> mT m <> 1%N -> mv p m = Ok p' ->
  rules_move (abs p) (raw m) = Some (abs p') /\ pos_ok p' /\ step_ok p p'.
Proof.
  intros Hp Ht Hnp E. assert (R := move_exact p m Hp Hnp). rewrite E in R.
  destruct R as (s & R1 & R2 & R3 & R4).
  assert (H64 : heights64 p') by (apply total_heights64; rewrite (st_total _ _ R2); exact Ht).
  destruct (R4 H64) as [-> Q]. auto.
Qed.

(* the old hypothesis (every stack <= 64 - size) implies the exact one *)
Lemma tall_ok_fits64 p m : pos_ok p -> tall_ok p -> mT m <> 1%N -> fits64 p m.
Proof.
  intros Hp Ht Hnp s Hs. destruct Hp as [P1 P2 P3 P4].
  assert (R := move_refines_rules p m P1 P2 P3 Ht Hnp).
  assert (X := move_exact p m (Build_pos_ok p P1 P2 P3 P4) Hnp).
  destruct (mv p m) as [p'| |] eqn:E; [|congruence|contradiction].
  destruct X as (s' & X1 & X2 & X3 & X4). assert (s' = s) by congruence. subst s'.
  rewrite Hs in R. injection R as ->.
  (* heights of the result: every stack grew by at most the carry *)
  apply Forall_forall. intros st Hin. destruct (In_nth _ _ [] Hin) as (k & Hk & <-).
  unfold abs in Hk; cbn [sq] in Hk. rewrite map_length, seq_length in Hk.
  assert (Hj : (N.of_nat k < size p' * size p')%N) by nia.
  specialize (X3 (N.of_nat k) Hj). rewrite Nat2N.id in X3. rewrite X3.
  (* the bound comes from the conservation of pieces is not available here; use the old slide theorem's board_ok *)
  destruct (N.eq_dec (mT m) 2) as [E2|N2]; [|destruct (N.eq_dec (mT m) 3) as [E3|N3]; [|destruct (N.eq_dec (mT m) 4) as [E4|N4]]].
  1: assert (Q := place_exact p m KFlat (Build_pos_ok p P1 P2 P3 P4) ltac:(discriminate) E2).
  2: assert (Q := place_exact p m KStanding (Build_pos_ok p P1 P2 P3 P4) ltac:(discriminate) E3).
  3: assert (Q := place_exact p m KCap (Build_pos_ok p P1 P2 P3 P4) ltac:(discriminate) E4).
  1-3: rewrite E in Q; destruct Q as (_ & _ & [_ [_ _ SQ] _ _]); destruct (SQ _ Hj) as [A _ _ _ _]; cbn [bview bhs] in A; lia.
  assert (Hd : exists d, mT m = dir_code d).
  { destruct (N.eq_dec (mT m) 5); [exists Left; auto|]. destruct (N.eq_dec (mT m) 6); [exists Right; auto|].
    destruct (N.eq_dec (mT m) 7); [exists Up; auto|]. destruct (N.eq_dec (mT m) 8); [exists Down; auto|].
    exfalso. unfold mv, move_prealloc in E. destruct (true && _ && negb (mT m =? 1)%N); [discriminate|].
    destruct (mT m) as [|q]; [discriminate|]; do 4 (try destruct q as [q|q|]); try discriminate; try contradiction; try lia. }
  destruct Hd as [d Hd]. assert (Q := slide_refines p m d P1 P2 Ht Hd). rewrite E in Q.
  destruct Q as (_ & [_ _ SQ] & _). destruct (SQ _ Hj) as [A _ _ _ _]. cbn [bview bhs] in A. lia.
Qed.
Print Assumptions tall_ok_fits64.
