(* TeiInst.v: the TEI engine model of Tei.v run with the search model of Search.v as its searcher (for extraction).
   The ConfigFactory of the harness (harness/overlay/tei_driver_test.go.txt) is
     MinimaxConfig{Size: size, Depth: depth, Seed: 1, NoSort: true, NoNullMove: true, NoReduceSlides: true, TableMem: 32*tbl or -1,
                   Evaluate: recording wrapper of evaluator number evk}
   evk 0 = ai.MakeEvaluator(size, nil), 1 = ai.EvaluateWinner, 2 = the harness's cheap positional evaluator [cheap_eval].
   The time limit is ignored: the harness only compares scripts whose budgets are generous (>= 20 s) or absent. *)
From Coq Require Import NArith ZArith List Bool.
Require Import Board Move GameOver Eval Search Tei.
Require Import Generated.Consts.
Import ListNotations.
Open Scope Z_scope.

(* harness evaluator 2: decided games as EvaluateWinner; otherwise a weighted count of owned squares, for the side to move *)
Definition cheap_eval (p : position) : Z :=
  match game_over p with
  | Some (true, _) => evaluate_winner p
  | _ =>
    let v := fold_left (fun acc i =>
                 let w := 1 + Z.of_nat ((i * 37) mod 11) in
                 let acc := if N.testbit (White p) (N.of_nat i) then acc + w else acc in
                 if N.testbit (Black p) (N.of_nat i) then acc - w else acc) (seq 0 64) 0 in
    if to_move_white p then v else - v
  end.

Definition tei_cfg (depth : Z) (evk : N) (size : Z) : config :=
  {| c_depth := depth; c_nosort := true; c_nonull := true; c_noreduce := true; c_multicut := false;
     c_eval := match evk with
               | 0%N => fun p => match Eval.evaluate (nth (Z.to_nat size) gen_DefaultWeights []) p with Move.Ok v => v | _ => 0 end
               | 1%N => evaluate_winner
               | _ => cheap_eval
               end |}.

Definition SS := (config * sstate)%type.
Definition inst_mk (depth : Z) (evk : N) (tbl : nat) (size : Z) : SS := (tei_cfg depth evk size, new_state tbl).
Definition inst_search (ss : SS) (limit : option Z) (p : position) : SS * (list rmove * Z * Z * Z) :=
  let '(s', (pv, v, d, stt, _)) := analyze_search gen_basis (fst ss) (snd ss) p in
  ((fst ss, s'), (pv, v, d, s_visited stt)).

Definition inst_step (depth : Z) (evk : N) (tbl : nat) := step gen_basis SS (inst_mk depth evk tbl) inst_search.
Definition inst_run (depth : Z) (evk : N) (tbl : nat) := run gen_basis SS (inst_mk depth evk tbl) inst_search.
Definition inst_run_bytes (depth : Z) (evk : N) (tbl : nat) := run_bytes gen_basis SS (inst_mk depth evk tbl) inst_search.
Definition inst_engine0 : engine SS := engine0 SS.
