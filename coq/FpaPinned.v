(* C20 on the code as pinned: one witness per failure class, as reachable nodes (FpaFacts.reach) at which
   node_ok fails; and the failing-branch counts of the whole 4x4 domain. *)
From Coq Require Import NArith ZArith List Bool Lia.
Require Import Board Move GameOver Tps Symmetry Fpa FpaFacts.
Import ListNotations.

Definition rmove_eqb (a b : rmove) : bool :=
  (mX a =? mX b)%Z && (mY a =? mY b)%Z && (mT a =? mT b)%N && (mS a =? mS b)%N.
Lemma rmove_eqb_eq : forall a b, rmove_eqb a b = true -> a = b.
Proof.
  intros [] []; unfold rmove_eqb; cbn. intros H.
  repeat (apply andb_true_iff in H; destruct H as [H ?]).
  apply Z.eqb_eq in H. apply Z.eqb_eq in H2. apply N.eqb_eq in H1. apply N.eqb_eq in H0. subst. reflexivity.
Qed.

(* a checker for paths: every move of ms is a step of the opening (either kind) *)
Section Check.
Variables (fx : fixes) (v : variant) (botw : bool).
Definition check_step (st : fstate) (p : position) (m : rmove) : option (fstate * position) :=
  if stops (max_ply_of v) p then None else
  match legal_move fx v st p m, mv1 p m with
  | Ok (st', true), Ok q =>
    if Bool.eqb (to_move_white p) botw then
      match get_move fx v st p with
      | None => if existsb (rmove_eqb m) (all_moves p) then Some (st', q) else None
      | Some (Ok m') => if rmove_eqb m' m then Some (st', q) else None
      | Some _ => None
      end
    else if existsb (rmove_eqb m) (all_moves p) then Some (st', q) else None
  | _, _ => None
  end.
Fixpoint check_path (st : fstate) (p : position) (ms : list rmove) : option (fstate * position) :=
  match ms with
  | [] => Some (st, p)
  | m :: r => match check_step st p m with Some (st', q) => check_path st' q r | None => None end
  end.

Lemma existsb_in : forall m l, existsb (rmove_eqb m) l = true -> In m l.
Proof.
  intros m l H. apply existsb_exists in H. destruct H as [x [Hin He]]. apply rmove_eqb_eq in He. subst. exact Hin.
Qed.

Lemma check_step_step : forall st p m st' q, check_step st p m = Some (st', q) -> step fx v botw (st, p) (st', q).
Proof.
  intros st p m st' q H. unfold check_step in H.
  destruct (stops (max_ply_of v) p) eqn:Hs; [discriminate|].
  destruct (legal_move fx v st p m) as [[st1 b]| |] eqn:Hl; try discriminate. destruct b; try discriminate.
  destruct (mv1 p m) as [q1| |] eqn:Hm; try discriminate.
  destruct (Bool.eqb (to_move_white p) botw) eqn:He.
  - apply Bool.eqb_prop in He.
    destruct (get_move fx v st p) as [[m'| |]|] eqn:Hg; try discriminate.
    + destruct (rmove_eqb m' m) eqn:E; [|discriminate]. apply rmove_eqb_eq in E. subst m'. injection H as <- <-.
      eapply s_script; eauto.
    + destruct (existsb (rmove_eqb m) (all_moves p)) eqn:E; [|discriminate]. injection H as <- <-.
      eapply s_free; eauto. apply existsb_in; exact E.
  - destruct (existsb (rmove_eqb m) (all_moves p)) eqn:E; [|discriminate]. injection H as <- <-.
    eapply s_free; eauto.
    + left. intros Heq. rewrite Heq in He. rewrite Bool.eqb_reflx in He. discriminate.
    + apply existsb_in; exact E.
Qed.

Lemma reach_trans_step : forall a b c n, step fx v botw a b -> reach fx v botw b n c -> reach fx v botw a (S n) c.
Proof.
  intros a b c n Hs Hr. induction Hr.
  - econstructor; [constructor|exact Hs].
  - econstructor; [exact IHHr|assumption].
Qed.

Lemma check_path_reach : forall ms st p c, check_path st p ms = Some c -> reach fx v botw (st, p) (length ms) c.
Proof.
  induction ms as [|m r IH]; intros st p c H; cbn in H.
  - injection H as <-. constructor.
  - destruct (check_step st p m) as [[st' q]|] eqn:Hs; [|discriminate].
    apply check_step_step in Hs. apply IH in H. cbn [length]. eapply reach_trans_step; eauto.
Qed.

(* the node at the end of a checked path fails the claim: the bot is to move, a move is scripted, and it is not Fine *)
Definition bad_node (c : fstate * position) : bool :=
  let '(st, p) := c in
  negb (stops (max_ply_of v) p) && Bool.eqb (to_move_white p) botw &&
  match script_step fx v st p with SStep _ Fine _ => false | SNone => false | _ => true end.

Lemma bad_node_not_ok : forall c, bad_node c = true -> ~ node_ok fx v botw c.
Proof.
  intros [st p] H Hok. unfold bad_node in H.
  apply andb_true_iff in H. destruct H as [H H3]. apply andb_true_iff in H. destruct H as [H1 H2].
  apply negb_true_iff in H1. apply Bool.eqb_prop in H2.
  unfold node_ok in Hok. specialize (Hok H1 H2). unfold script_step in H3.
  destruct (get_move fx v st p) as [r|] eqn:Hg; [|discriminate].
  destruct (Hok r eq_refl) as [m [st' [q [-> [Hm Hl]]]]]. rewrite Hm, Hl in H3. discriminate.
Qed.

Lemma witness : forall sz ms c, check_path fstate0 (root [] sz) ms = Some c -> bad_node c = true ->
  exists n c, reach fx v botw (fstate0, root [] sz) n c /\ ~ node_ok fx v botw c.
Proof.
  intros sz ms c Hp Hb. exists (length ms), c. split; [apply check_path_reach; exact Hp|apply bad_node_not_ok; exact Hb].
Qed.
End Check.

Definition pl (x y : Z) : rmove := {| mX := x; mY := y; mT := 2; mS := 0 |}.
Definition sl (x y : Z) (t : N) : rmove := {| mX := x; mY := y; mT := t; mS := 1 |}.

(* class doublestack-black-illegal, 5x5, bot Black:  a1 b1 b1< [b1] a1>  ->  b1< is an illegal slide
   (Black's second stone was scripted onto White's vacated start square and is now covered) *)
Definition w_ds : list rmove := [pl 0 0; pl 1 0; sl 1 0 5; pl 1 0; sl 0 0 6].
(* class cairn-black-occupied, 4x4, bot Black:  a1 b2 a3  ->  b2 is occupied *)
Definition w_cb : list rmove := [pl 0 0; pl 1 1; pl 0 2].
(* class cairn-white-selfreject, 4x4, bot White:  a1 a2 [b3] a4  ->  b3> is rejected by Cairn.LegalMove *)
Definition w_cw : list rmove := [pl 0 0; pl 0 1; pl 1 2; pl 0 3].

Theorem fpa_refuted_pinned :
  (exists n c, reach pinned DoubleStack false (fstate0, root [] 5) n c /\ ~ node_ok pinned DoubleStack false c) /\
  (exists n c, reach pinned Cairn false (fstate0, root [] 4) n c /\ ~ node_ok pinned Cairn false c) /\
  (exists n c, reach pinned Cairn true (fstate0, root [] 4) n c /\ ~ node_ok pinned Cairn true c).
Proof.
  split; [|split].
  - destruct (check_path pinned DoubleStack false fstate0 (root [] 5) w_ds) as [c|] eqn:E; [|vm_compute in E; discriminate E].
    eapply witness; [exact E|]. vm_compute in E. injection E as <-. vm_compute. reflexivity.
  - destruct (check_path pinned Cairn false fstate0 (root [] 4) w_cb) as [c|] eqn:E; [|vm_compute in E; discriminate E].
    eapply witness; [exact E|]. vm_compute in E. injection E as <-. vm_compute. reflexivity.
  - destruct (check_path pinned Cairn true fstate0 (root [] 4) w_cw) as [c|] eqn:E; [|vm_compute in E; discriminate E].
    eapply witness; [exact E|]. vm_compute in E. injection E as <-. vm_compute. reflexivity.
Qed.

(* what the three witnesses show, spelled out (Examples) *)
Example w_ds_illegal : match check_path pinned DoubleStack false fstate0 (root [] 5) w_ds with
  | Some (st, p) => script_step pinned DoubleStack st p = SStep (sl 1 0 5) Illegal None | None => False end.
Proof. vm_compute. reflexivity. Qed.
Example w_cb_occupied : match check_path pinned Cairn false fstate0 (root [] 4) w_cb with
  | Some (st, p) => script_step pinned Cairn st p = SStep (pl 1 1) Illegal None | None => False end.
Proof. vm_compute. reflexivity. Qed.
Example w_cw_selfreject : match check_path pinned Cairn true fstate0 (root [] 4) w_cw with
  | Some (st, p) => script_step pinned Cairn st p = SStep (sl 1 2 6) SelfReject None | None => False end.
Proof. vm_compute. reflexivity. Qed.
(* the same paths are fine once the repairs are on (the repaired script answers another move) *)
Example w_ds_repaired : match check_path repaired DoubleStack false fstate0 (root [] 5) [pl 0 0; pl 1 0; sl 1 0 5] with
  | Some (st, p) => get_move repaired DoubleStack st p = Some (Ok (pl 0 1)) | None => False end.
Proof. vm_compute. reflexivity. Qed.

(* failing-branch counts of the whole 4x4 domain on the pinned code (equal to the Go enumeration) *)
Theorem fpa_pinned_counts_4 :
  illegal (run [] pinned DoubleStack 4 false) = 65%N /\ illegal (run [] pinned Cairn 4 false) = 448%N /\
  selfrej (run [] pinned Cairn 4 true) = 626%N /\
  failing (run [] pinned DoubleStack 4 true) = 0%N /\ crash (run [] pinned Cairn 4 false) = 0%N.
Proof. vm_compute. repeat split. Qed.
