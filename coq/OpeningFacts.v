(* OpeningFacts.v (C04, opening book): the invariant of BuildOpeningBook and the legality of every move the book answers.
   book_ok S b: every entry is keyed by the hash of its position, its position is good (C01 invariant, reserves match the
   board, default tie-break, opening invariant) and belongs to the collision-free set S, its reply list is non-empty, every
   reply is accepted by Position.Move on the entry's position, every weight is an int value.
   opening_book_move_legal / opening_player_move_legal: see coq/Properties/C04.v. *)
From Coq Require Import NArith ZArith Arith List Bool Lia ZifyN ZifyBool ZifyNat Permutation.
Require Import Rules Sym SymRules1 SymRules2 SymRules3 SymRules4.
Require Import Board Stack Move Refine RefinePlace RefinePlace2 RefinePlace3 Slide1 Slide2 Slide3 Slide4 Slide5 Slide6 Slide7 Slide8
  MoveRefines HashInv GameOver Preserve1 Preserve2 PreserveExt Preserve3 Preserve4 Preserve5 Preserve6 Reach1.
Require Import Alloc Generated.Consts.
Require Import Tps Symmetry SymCode1 Canon2 Canon4.
Require Import TpsFacts TpsFacts2 TpsFacts3 TpsFacts4 TpsFacts5 TpsFacts6 TpsFacts8 TpsFacts9 Import1 Import3 Import4 Import5.
Require PtnMove PtnMoveFacts PtnMoveFacts2.
Require Import Opening OpeningFacts1 OpeningFacts2.
Import ListNotations.

(* ---- the positions of a book line ---- *)
(* [on_line p ws q]: reading the words ws from position p, the build looks q up (q is the position in front of a word
   that parses); [reached p ws q]: q is p or a position some prefix of the words leads to. *)
Inductive on_line : position -> list (list N) -> position -> Prop :=
| ol_here p w r m0 : PtnMove.parse_move w = PtnMove.Ok m0 -> on_line p (w :: r) p
| ol_next p w r m0 p' q : PtnMove.parse_move w = PtnMove.Ok m0 -> mv p (to_rmove m0) = Ok p' -> on_line p' r q -> on_line p (w :: r) q.
Inductive reached : position -> list (list N) -> position -> Prop :=
| re_here p ws : reached p ws p
| re_next p w r m0 p' q : PtnMove.parse_move w = PtnMove.Ok m0 -> mv p (to_rmove m0) = Ok p' -> reached p' r q -> reached p (w :: r) q.

Lemma bump_Forall (P : child -> Prop) sm : P {| ch_move := sm; ch_weight := wrap64 (0 + 1) |} ->
  (forall c, P c -> P {| ch_move := ch_move c; ch_weight := wrap64 (ch_weight c + 1) |}) ->
  forall ms, Forall P ms -> Forall P (bump ms sm).
Proof.
  intros Hn Hw. induction ms as [|c r IH]; intros H; cbn [bump]; [constructor; [apply Hn|constructor]|].
  inversion H as [|? ? Hc Hr]; subst. destruct (move_equal (ch_move c) sm).
  - constructor; [now apply Hw|exact Hr].
  - constructor; [exact Hc|now apply IH].
Qed.
Lemma bump_nonempty ms sm : bump ms sm <> [].
Proof. destruct ms as [|c r]; cbn [bump]; [discriminate|]. destruct (move_equal _ _); discriminate. Qed.

Lemma book_get_In b h e : book_get b h = Some e -> In e b /\ be_hash e = h.
Proof.
  induction b as [|a r IH]; cbn [book_get]; [discriminate|]. destruct (N.eqb_spec (be_hash a) h) as [E|E].
  - intros [= <-]. split; [now left|exact E].
  - intros H. destruct (IH H). split; [now right|assumption].
Qed.
Lemma book_get_None b h : book_get b h = None -> forall e, In e b -> be_hash e <> h.
Proof.
  induction b as [|a r IH]; cbn [book_get]; [intros _ e []|]. destruct (N.eqb_spec (be_hash a) h) as [E|E]; [discriminate|].
  intros H e [<-|He]; [exact E|now apply IH].
Qed.

(* book_bump keeps a property of entries that the bumped entry keeps *)
Lemma book_bump_Forall (P : bentry -> Prop) h sm :
  (forall e, be_hash e = h -> P e -> P {| be_hash := be_hash e; be_pos := be_pos e; be_moves := bump (be_moves e) sm |}) ->
  forall b, Forall P b -> Forall P (book_bump b h sm).
Proof.
  intros Hb. induction b as [|a r IH]; intros H; cbn [book_bump]; [constructor|].
  inversion H as [|? ? Ha Hr]; subst. destruct (N.eqb_spec (be_hash a) h) as [E|E].
  - constructor; [now apply Hb|exact Hr].
  - constructor; [exact Ha|now apply IH].
Qed.
Lemma book_bump_app_new b h pos ms sm : (forall a, In a b -> be_hash a <> h) ->
  book_bump (b ++ [ {| be_hash := h; be_pos := pos; be_moves := ms |} ]) h sm =
  b ++ [ {| be_hash := h; be_pos := pos; be_moves := bump ms sm |} ].
Proof.
  intros Hn. induction b as [|a r IH]; cbn [app book_bump be_hash be_pos be_moves].
  - rewrite N.eqb_refl. reflexivity.
  - destruct (N.eqb_spec (be_hash a) h) as [E|E]; [exfalso; apply (Hn a); [now left|exact E]|].
    f_equal. apply IH. intros x Hx. apply Hn. now right.
Qed.

Section Build.
(* the set of positions among which the 64-bit hash is assumed to separate boards *)
Variable S : position -> Prop.
Hypothesis NC : forall a b, S a -> S b -> hash_of a = hash_of b ->
  sq (abs a) = sq (abs b) /\ Z.even (Move.move a) = Z.even (Move.move b).

Record entry_ok (e : bentry) : Prop := {
  eo_hash : be_hash e = hash_of (be_pos e);
  eo_S : S (be_pos e);
  eo_good : good (be_pos e);
  eo_moves : Forall (fun c => lm (be_pos e) (ch_move c) /\ wrap64 (ch_weight c) = ch_weight c) (be_moves e) }.
Definition book_ok (b : book) : Prop := Forall entry_ok b /\ Forall (fun e => be_moves e <> []) b.

Lemma wrap64_idem z : wrap64 (wrap64 z) = wrap64 z.
Proof. unfold wrap64. pose proof (Z.mod_pos_bound (z + 9223372036854775808) 18446744073709551616 ltac:(lia)) as H.
  set (r := ((z + 9223372036854775808) mod 18446744073709551616)%Z) in *. clearbody r.
  replace (r - 9223372036854775808 + 9223372036854775808)%Z with r by lia. rewrite Z.mod_small by lia. reflexivity. Qed.

Lemma lm_other q e sm : S q -> good q -> entry_ok e -> be_hash e = hash_of q -> lm q sm -> lm (be_pos e) sm.
Proof.
  intros Sq [Hq Rq _ Oq] [Eh ES [He Re _ Oe] _] Hh L.
  destruct (NC q (be_pos e) Sq ES ltac:(congruence)) as (Esq & Eev).
  apply (lm_transfer q (be_pos e) sm); try assumption; now apply opening_inv_consistent.
Qed.

Lemma add_sym_ok sz m b q k sm : book_ok b -> S q -> good q ->
  transform_move (nth k (syms sz) (fun x y => (x, y))) m = Ok sm -> lm q sm ->
  exists b', add_sym sz m (Ok b) (q, k) = Ok b' /\ book_ok b'.
Proof.
  intros [B1 B2] Sq Gq T L. unfold add_sym. cbn [fst snd]. rewrite T.
  assert (Hbump : forall h pos ms, h = hash_of q -> entry_ok {| be_hash := h; be_pos := pos; be_moves := ms |} ->
            entry_ok {| be_hash := h; be_pos := pos; be_moves := bump ms sm |}).
  { intros h pos ms Eh Oe. pose proof (lm_other q _ sm Sq Gq Oe) as L'. specialize (L' Eh L). destruct Oe as [O1 O2 O3 O4].
    cbn [be_hash be_pos be_moves] in *.
    constructor; cbn [be_hash be_pos be_moves]; try assumption.
    apply bump_Forall; [| |exact O4].
    - cbn [ch_move ch_weight]. split; [exact L'|apply wrap64_idem].
    - intros c [Lc _]. cbn [ch_move ch_weight]. split; [exact Lc|apply wrap64_idem]. }
  destruct (book_get b (hash_of q)) as [e|] eqn:G.
  - eexists. split; [reflexivity|]. split.
    + apply book_bump_Forall; [|exact B1]. intros [h pos ms] Eh Oe'. cbn [be_hash be_pos be_moves] in *. now apply Hbump.
    + apply book_bump_Forall; [|exact B2]. intros e' _ _. cbn [be_moves]. apply bump_nonempty.
  - rewrite (book_bump_app_new b (hash_of q) q [] sm (book_get_None b (hash_of q) G)).
    eexists. split; [reflexivity|]. split.
    + apply Forall_app. split; [exact B1|]. constructor; [|constructor].
      apply Hbump; [reflexivity|]. constructor; cbn [be_hash be_pos be_moves]; [reflexivity|exact Sq|exact Gq|constructor].
    + apply Forall_app. split; [exact B2|]. constructor; [|constructor]. cbn [be_moves]. apply bump_nonempty.
Qed.

Lemma fold_add_sym sz m : forall L b, book_ok b ->
  (forall q k, In (q, k) L -> S q /\ good q /\ exists sm, transform_move (nth k (syms sz) (fun x y => (x, y))) m = Ok sm /\ lm q sm) ->
  exists b', fold_left (add_sym sz m) L (Ok b) = Ok b' /\ book_ok b'.
Proof.
  induction L as [|[q k] r IH]; intros b Hb H; cbn [fold_left]; [eauto|].
  destruct (H q k ltac:(now left)) as (Sq & Gq & sm & T & Lq).
  destruct (add_sym_ok sz m b q k sm Hb Sq Gq T Lq) as (b1 & -> & Hb1).
  apply IH; [exact Hb1|]. intros q' k' Hin. apply H. now right.
Qed.

Lemma symmetries_images p q k : In (q, k) (symmetries gen_basis p) -> k < 8 /\ q = imgk p k.
Proof.
  rewrite symmetries_firsts. intros H. apply firsts_In in H as (_ & l1 & l2 & E & _).
  assert (Hin : In (q, k) (all_images p)) by (rewrite E; apply in_or_app; right; now left).
  unfold all_images in Hin. apply in_map_iff in Hin as (i & [= <- <-] & Hi). apply in_seq in Hi. split; [lia|reflexivity].
Qed.

Lemma bmove_mv p m : bmove gen_basis p m = mv p m.
Proof. reflexivity. Qed.

Definition lok (st : lstate) : Prop := match st with LOk _ _ => True | _ => False end.

(* one word of a line *)
Lemma line_step_ok b p w : book_ok b -> good p -> (forall k, k < 8 -> S (imgk p k)) ->
  (forall m0 p', PtnMove.parse_move w = PtnMove.Ok m0 -> mv p (to_rmove m0) = Ok p' -> heights64 p') ->
  match line_step gen_basis (LOk b p) w with
  | LOk b' p' => book_ok b' /\ good p' /\ exists m0, PtnMove.parse_move w = PtnMove.Ok m0 /\ mv p (to_rmove m0) = Ok p'
  | _ => True
  end.
Proof.
  intros Hb Gp HS H64. unfold line_step. destruct (PtnMove.parse_move w) as [m0| |] eqn:P; [|exact I|exact I].
  rewrite bmove_mv.
  destruct (mv p (to_rmove m0)) as [p'| |] eqn:E.
  - assert (Hshape : (-64 <= mX (to_rmove m0) < 64)%Z /\ (-64 <= mY (to_rmove m0) < 64)%Z /\ (mT (to_rmove m0) <= 8)%N).
    { destruct (PtnMoveFacts2.parse_move_fields _ _ P) as (Hx & Hy & Ht). unfold to_rmove. cbn [mX mY mT]. lia. }
    destruct (good_move p (to_rmove m0) p' Gp E (H64 m0 p' eq_refl E) Hshape) as (Gp' & Him).
    destruct (fold_add_sym (Z.of_N (size p)) (to_rmove m0) (symmetries gen_basis p) b Hb) as (b' & -> & Hb').
    { intros q k Hin. destruct (symmetries_images p q k Hin) as (Hk & ->).
      split; [apply HS; exact Hk|]. split; [apply good_image; [exact Hk|exact Gp]|].
      destruct (Him k Hk) as (sm & T & L). exists sm. split; [|exact L]. rewrite nth_syms_csym. exact T. }
    split; [exact Hb'|]. split; [exact Gp'|]. exists m0. auto.
  - destruct (fold_left _ _ _); exact I.
  - destruct (fold_left _ _ _); exact I.
Qed.

Lemma line_fold_abs ws st : ~ lok st -> fold_left (line_step gen_basis) ws st = st.
Proof. induction ws as [|w r IH]; intros H; cbn [fold_left]; [reflexivity|]. destruct st; try (exfalso; apply H; exact I); apply IH; exact H. Qed.

Lemma line_fold_ok : forall ws b p, book_ok b -> good p ->
  (forall q, on_line p ws q -> forall k, k < 8 -> S (imgk q k)) -> (forall q, reached p ws q -> heights64 q) ->
  forall b' p', fold_left (line_step gen_basis) ws (LOk b p) = LOk b' p' -> book_ok b'.
Proof.
  induction ws as [|w r IH]; intros b p Hb Gp HS H64 b' p' F; cbn [fold_left] in F; [now injection F as <- _|].
  assert (St := line_step_ok b p w Hb Gp).
  destruct (line_step gen_basis (LOk b p) w) as [b1 p1|kd wd|] eqn:E.
  - destruct St as (Hb1 & Gp1 & m0 & P & M).
    + intros k Hk. destruct (PtnMove.parse_move w) as [m0| |] eqn:P.
      * apply (HS p (ol_here p w r m0 P) k Hk).
      * unfold line_step in E. rewrite P in E. discriminate.
      * unfold line_step in E. rewrite P in E. discriminate.
    + intros m0 p2 P M. apply H64. eapply re_next; [exact P|exact M|apply re_here].
    + refine (IH b1 p1 Hb1 Gp1 _ _ b' p' F).
      * intros q Hq. apply HS. eapply ol_next; eassumption.
      * intros q Hq. apply H64. eapply re_next; eassumption.
  - rewrite line_fold_abs in F by (intros []). discriminate.
  - rewrite line_fold_abs in F by (intros []). discriminate.
Qed.

Definition bok (st : bres * nat) : Prop := match fst st with BOk _ => True | _ => False end.
Lemma build_fold_abs sz lines st : ~ bok st -> fold_left (build_step gen_basis sz) lines st = st.
Proof.
  induction lines as [|l r IH]; intros H; cbn [fold_left]; [reflexivity|].
  destruct st as [[b|kd lno wd|] n]; try (exfalso; apply H; exact I); apply IH; exact H.
Qed.

Lemma build_fold_ok sz : forall lines b lno, book_ok b ->
  (forall line p0 q k, In line lines -> new_pos gen_basis sz = Ok p0 -> on_line p0 (split_sp line []) q -> k < 8 -> S (imgk q k)) ->
  (forall line p0 q, In line lines -> new_pos gen_basis sz = Ok p0 -> reached p0 (split_sp line []) q -> heights64 q) ->
  forall b' n', fold_left (build_step gen_basis sz) lines (BOk b, lno) = (BOk b', n') -> book_ok b'.
Proof.
  induction lines as [|line r IH]; intros b lno Hb HS H64 b' n' F; cbn [fold_left] in F; [now injection F as <- _|].
  unfold build_step at 2 in F.
  destruct (new_pos gen_basis sz) as [p0| |] eqn:N0.
  - destruct (new_pos_good sz p0 N0) as (G0 & _).
    destruct (fold_left (line_step gen_basis) (split_sp line []) (LOk b p0)) as [b1 p1|kd wd|] eqn:L.
    + refine (IH b1 (Datatypes.S lno) _ _ _ b' n' F).
      * refine (line_fold_ok (split_sp line []) b p0 Hb G0 _ _ b1 p1 L).
        -- intros q Hq k Hk. apply (HS line p0 q k); auto. left; reflexivity.
        -- intros q Hq. apply (H64 line p0 q); auto. left; reflexivity.
      * intros l p0' q k Hl. apply HS. right; exact Hl.
      * intros l p0' q Hl. apply H64. right; exact Hl.
    + rewrite build_fold_abs in F by (intros []). discriminate.
    + rewrite build_fold_abs in F by (intros []). discriminate.
  - rewrite build_fold_abs in F by (intros []). discriminate.
  - rewrite build_fold_abs in F by (intros []). discriminate.
Qed.
End Build.

(* ---- OpeningBook.GetMove: the reservoir loop returns one of the stored replies ---- *)
Lemma pick_in rnd : forall ms i sum out m j, pick rnd i ms sum out = Ok (m, j) -> m = out \/ In m (map ch_move ms).
Proof.
  induction ms as [|c r IH]; intros i sum out m j H; cbn [pick] in H.
  - injection H as <- _. now left.
  - destruct (wrap32 (wrap64 (sum + ch_weight c)) <=? 0)%Z; [discriminate|].
    apply IH in H. cbn [map In]. destruct H as [H|H]; [|now right; right].
    destruct (_ <? _)%Z; [right; left; now symmetry|now left].
Qed.

(* Int31n(n) lies in [0, n) *)
Definition in_range (rnd : nat -> Z -> Z) : Prop := forall i n, (0 < n)%Z -> (0 <= rnd i n < n)%Z.

Lemma pick_first rnd c r i m j : in_range rnd -> wrap64 (ch_weight c) = ch_weight c ->
  pick rnd i (c :: r) 0 zero_move = Ok (m, j) -> In m (map ch_move (c :: r)).
Proof.
  intros Hr Hw H. cbn [pick] in H. rewrite Z.add_0_l, Hw in H.
  destruct (Z.leb_spec (wrap32 (ch_weight c)) 0) as [|Hn]; [discriminate|].
  destruct (Hr i _ Hn) as [_ Hlt]. apply Z.ltb_lt in Hlt. rewrite Hlt in H.
  apply pick_in in H. cbn [map In]. destruct H as [H|H]; [left; now symmetry|now right].
Qed.

(* ---- the theorem ---- *)
(* NoCollision, explicitly: among the positions of S, equal 64-bit hashes mean the same squares and the same side to move *)
Definition NoCollisionOn (S : position -> Prop) : Prop :=
  forall a b, S a -> S b -> hash_of a = hash_of b -> sq (abs a) = sq (abs b) /\ Z.even (Move.move a) = Z.even (Move.move b).

(* the positions BuildOpeningBook looks up or enters: the eight images of every position in front of a word of a line *)
Definition book_position (sz : Z) (lines : list (list N)) (q : position) : Prop :=
  exists line p0 q0 k, In line lines /\ new_pos gen_basis sz = Ok p0 /\ on_line p0 (split_sp line []) q0 /\ k < 8 /\ q = imgk q0 k.

(* the representation limit of C01 along the lines: no stack higher than 64 in any position a line reaches *)
Definition lines_heights64 (sz : Z) (lines : list (list N)) : Prop :=
  forall line p0 q, In line lines -> new_pos gen_basis sz = Ok p0 -> reached p0 (split_sp line []) q -> heights64 q.

Theorem build_book_ok sz lines b S : NoCollisionOn S -> (forall q, book_position sz lines q -> S q) -> lines_heights64 sz lines ->
  build_book gen_basis sz lines = BOk b -> book_ok S b.
Proof.
  intros NC HS H64 H. unfold build_book in H.
  destruct (fold_left (build_step gen_basis sz) lines (BOk [], 0)) as [r n'] eqn:F. cbn [fst] in H. subst r.
  refine (build_fold_ok S NC sz lines [] 0 _ _ _ b n' F).
  - split; constructor.
  - intros line p0 q k Hl Hn Ho Hk. apply HS. exists line, p0, q, k. auto.
  - exact H64.
Qed.

Theorem opening_book_move_legal sz lines b p rnd i m j :
  build_book gen_basis sz lines = BOk b ->
  lines_heights64 sz lines ->
  NoCollisionOn (fun x => x = p \/ book_position sz lines x) ->
  pos_ok p -> reserves_match_board p -> opening_consistent p ->
  in_range rnd ->
  book_get_move b p rnd i = Ok (m, true, j) ->
  exists p', mv p m = Ok p'.
Proof.
  intros Hb H64 NC Hp RM Oc Hr G.
  pose proof (build_book_ok sz lines b _ NC (fun q Hq => or_intror Hq) H64 Hb) as [B1 B2].
  unfold book_get_move in G. destruct (book_get b (hash_of p)) as [e|] eqn:Ge; [|discriminate].
  destruct (book_get_In b _ e Ge) as (Hin & Eh).
  pose proof (proj1 (Forall_forall _ _) B1 e Hin) as [O1 O2 [Ge1 Ge2 _ Ge4] O4].
  pose proof (proj1 (Forall_forall _ _) B2 e Hin) as Hne.
  destruct (pick rnd i (be_moves e) 0 zero_move) as [[m' j']| |] eqn:Pk; try discriminate. injection G as <- <-.
  destruct (be_moves e) as [|c r] eqn:Em; [contradiction|].
  pose proof (proj1 (Forall_forall _ _) O4) as Hall.
  assert (Hm : In m' (map ch_move (c :: r))) by (apply (pick_first rnd c r i m' j' Hr); [apply (Hall c); now left|exact Pk]).
  apply in_map_iff in Hm as (c' & <- & Hc'). destruct (Hall c' Hc') as [L _].
  destruct (NC (be_pos e) p O2 (or_introl eq_refl) ltac:(congruence)) as (Esq & Eev).
  destruct (lm_transfer (be_pos e) p (ch_move c') Ge1 Hp Ge2 RM (opening_inv_consistent _ Ge4) Oc Esq Eev L) as (p' & E & _).
  exists p'. exact E.
Qed.

(* OpeningPlayer.GetMove: the book's answer, else the inner player's *)
Theorem opening_player_move_legal sz lines b inner p rnd i m j :
  build_book gen_basis sz lines = BOk b ->
  lines_heights64 sz lines ->
  NoCollisionOn (fun x => x = p \/ book_position sz lines x) ->
  pos_ok p -> reserves_match_board p -> opening_consistent p ->
  in_range rnd ->
  (forall m', inner p = Ok m' -> exists p', mv p m' = Ok p') ->
  opening_player_get_move b inner p rnd i = Ok (m, j) ->
  exists p', mv p m = Ok p'.
Proof.
  intros Hb H64 NC Hp RM Oc Hr Hin G. unfold opening_player_get_move in G.
  destruct (book_get_move b p rnd i) as [[[m1 [|]] j1]| |] eqn:E; try discriminate.
  - injection G as <- <-. eapply opening_book_move_legal; eassumption.
  - destruct (inner p) as [m2| |] eqn:Ei; try discriminate. injection G as <- <-. now apply Hin.
Qed.

(* ---- sizes 3..6: at most 62 pieces in the game, no stack can exceed 64, the height hypothesis disappears ---- *)
Lemma reached_small : forall p ws q, reached p ws q -> pos_ok p -> (total p <= 64)%N -> pos_ok q /\ (total q <= 64)%N.
Proof.
  induction 1 as [|p w r m0 p' q P M _ IH]; intros Hp Ht; [auto|].
  destruct (move_preserves_small p (to_rmove m0) p' Hp Ht (mv_not_pass _ _ _ M) M) as (_ & Hp' & St).
  apply IH; [exact Hp'|]. rewrite (st_total _ _ St). exact Ht.
Qed.

Lemma new_pos_total sz p0 : (sz <= 6)%Z -> new_pos gen_basis sz = Ok p0 -> (total p0 <= 64)%N.
Proof.
  intros Hs H. destruct (new_pos_good sz p0 H) as (_ & _ & Hr). unfold new_pos in H.
  destruct ((sz <? 0) || (8 <? sz))%Z; [discriminate|]. destruct (sz <? 3)%Z; [discriminate|]. injection H as <-.
  assert (Hc : (sz = 3 \/ sz = 4 \/ sz = 5 \/ sz = 6)%Z) by lia.
  destruct Hc as [->|[->|[->| ->]]]; vm_compute; discriminate.
Qed.

Lemma small_lines_heights64 sz lines : (sz <= 6)%Z -> lines_heights64 sz lines.
Proof.
  intros Hs line p0 q _ Hn Hr. destruct (new_pos_good sz p0 Hn) as ([Hp _ _ _] & _).
  destruct (reached_small p0 _ q Hr Hp (new_pos_total sz p0 Hs Hn)) as (Hq & _). now apply pos_ok_heights64.
Qed.

Corollary opening_book_move_legal_small sz lines b p rnd i m j :
  (sz <= 6)%Z ->
  build_book gen_basis sz lines = BOk b ->
  NoCollisionOn (fun x => x = p \/ book_position sz lines x) ->
  pos_ok p -> reserves_match_board p -> opening_consistent p ->
  in_range rnd ->
  book_get_move b p rnd i = Ok (m, true, j) ->
  exists p', mv p m = Ok p'.
Proof. intros Hs Hb. apply (opening_book_move_legal sz lines b p rnd i m j Hb (small_lines_heights64 sz lines Hs)). Qed.
