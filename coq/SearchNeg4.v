(* SearchNeg4.v: the side condition [within] of SearchNeg2.v holds outright on small boards.
   AllMoves has at most 3 entries for an empty square and at most 12 * height entries for a stack (boards up to 5x5: the number of
   drop sequences per square is computed for every size, square and carry limit), hence at most 3 * 25 + 12 * (pieces on the board)
   <= 687 entries when the game has at most 51 pieces; and with at most 64 pieces no stack can exceed 64.
   (The bound on the number of generated moves proved here - all_moves_small - was needed while the model's loops had a constant
   fuel of 700; the loops are now bounded by the node's own move count (Search.gfuel), so [within] only asks for the 64 limit.) *)
From Coq Require Import NArith ZArith Arith List Bool Lia ZifyN ZifyNat.
Require Import Board Stack Rules Move GameOver Refine RefinePlace RefinePlace2 Slide2 Slide3 Slide6 MoveRefines Preserve1 Preserve5 Preserve6.
Require Import Search SearchNeg2.
Import ListNotations.
Open Scope nat_scope.

Lemma length_flat_map_le {A B} (f : A -> list B) (g : A -> nat) l :
  (forall a, In a l -> length (f a) <= g a) -> length (flat_map f l) <= list_sum (map g l).
Proof.
  induction l as [|a l IH]; intros H; cbn [flat_map map list_sum fold_right]; [cbn; lia|].
  rewrite app_length. pose proof (H a (or_introl eq_refl)). specialize (IH (fun b Hb => H b (or_intror Hb))). unfold list_sum in *. lia.
Qed.

Lemma length_flat_map_if {A B} (c : A -> bool) (g : A -> B) l :
  length (flat_map (fun s => if c s then [g s] else []) l) = length (filter c l).
Proof. induction l as [|a l IH]; [reflexivity|]. cbn [flat_map filter]. rewrite app_length, IH. destruct (c a); reflexivity. Qed.

(* the number of slides AllMoves lists for a stack with carry limit hh on a square with the distances dcs to the four edges *)
Definition dmask (dc : nat) : N := N.ldiff (N.ones 32) (N.ones (4 * N.of_nat dc)).
Definition slides_len (hh : nat) (dcs : list nat) : nat :=
  list_sum (map (fun dc => length (filter (fun s => (N.land s (dmask dc) =? 0)%N) (nth hh slides_table []))) dcs).

Definition small_table_ok : bool :=
  forallb (fun sz => forallb (fun x => forallb (fun y => forallb (fun hh =>
    slides_len hh [x; sz - x - 1; y; sz - y - 1] <=? 12 * hh) (seq 1 sz)) (seq 0 sz)) (seq 0 sz)) [3; 4; 5].
Lemma small_table_ok_true : small_table_ok = true.
Proof. vm_compute. reflexivity. Qed.

Lemma slides_len_small sz x y hh : In sz [3; 4; 5] -> x < sz -> y < sz -> 1 <= hh <= sz ->
  slides_len hh [x; sz - x - 1; y; sz - y - 1] <= 12 * hh.
Proof.
  intros Hsz Hx Hy Hh. pose proof small_table_ok_true as T. unfold small_table_ok in T.
  rewrite forallb_forall in T. specialize (T sz Hsz).
  rewrite forallb_forall in T. specialize (T x ltac:(apply in_seq; lia)).
  rewrite forallb_forall in T. specialize (T y ltac:(apply in_seq; lia)).
  rewrite forallb_forall in T. specialize (T hh ltac:(apply in_seq; lia)).
  apply Nat.leb_le in T. exact T.
Qed.

(* one square of AllMoves *)
Definition cell (p : position) (x y : nat) : list rmove :=
  let sz := N.to_nat (size p) in
  let white := to_move_white p in
  let cap := if white then (0 <? whiteCaps p)%N else (0 <? blackCaps p)%N in
    let i := N.of_nat (y * sz + x) in
    let X := Z.of_nat x in let Y := Z.of_nat y in
    if (nthN (Height p) i =? 0)%N then
      {| mX := X; mY := Y; mT := 2; mS := 0 |} ::
      (if (2 <=? move p)%Z then {| mX := X; mY := Y; mT := 3; mS := 0 |} ::
         (if cap then [{| mX := X; mY := Y; mT := 4; mS := 0 |}] else []) else [])
    else if (move p <? 2)%Z then []
    else if white && negb (has (White p) i) then []
    else if negb white && negb (has (Black p) i) then []
    else
      let h := N.min (nthN (Height p) i) (size p) in
      flat_map (fun dc : N * nat =>
        let mask := N.ldiff (N.ones 32) (N.ones (4 * N.of_nat (snd dc))) in
        flat_map (fun s => if (N.land s mask =? 0)%N then [{| mX := X; mY := Y; mT := fst dc; mS := s |}] else [])
                 (nth (N.to_nat h) slides_table []))
        [(5%N, x); (6%N, (sz - x - 1)%nat); (8%N, y); (7%N, (sz - y - 1)%nat)].

Lemma all_moves_cells p :
  all_moves p = flat_map (fun x => flat_map (fun y => cell p x y) (seq 0 (N.to_nat (size p)))) (seq 0 (N.to_nat (size p))).
Proof. reflexivity. Qed.

Lemma cell_len p x y : In (N.to_nat (size p)) [3; 4; 5] -> x < N.to_nat (size p) -> y < N.to_nat (size p) ->
  length (cell p x y) <= 3 + 12 * N.to_nat (nthN (Height p) (N.of_nat (y * N.to_nat (size p) + x))).
Proof.
  intros Hsz Hx Hy. unfold cell. cbv zeta.
  set (h := nthN (Height p) (N.of_nat (y * N.to_nat (size p) + x))).
  destruct (h =? 0)%N eqn:E0.
  { destruct (2 <=? move p)%Z; [|cbn; lia]. match goal with |- context [if ?c then [_] else []] => destruct c end; cbn; lia. }
  apply N.eqb_neq in E0.
  destruct (move p <? 2)%Z; [cbn; lia|].
  match goal with |- context [if ?c then [] else _] => destruct c end; [cbn; lia|].
  match goal with |- context [if ?c then [] else _] => destruct c end; [cbn; lia|].
  set (hh := N.to_nat (N.min h (size p))).
  assert (Hh : 1 <= hh <= N.to_nat (size p)) by (subst hh; lia).
  pose proof (slides_len_small _ x y hh Hsz Hx Hy Hh) as B.
  cbn [flat_map fst snd]. rewrite app_nil_r, !app_length.
  rewrite !(length_flat_map_if (fun s => (N.land s _ =? 0)%N) (fun s => {| mX := _; mY := _; mT := _; mS := s |})).
  unfold slides_len, dmask in B. cbn [map list_sum fold_right] in B. subst hh. lia.
Qed.

Lemma list_sum_map_le {A} (f g : A -> nat) l : (forall a, In a l -> f a <= g a) -> list_sum (map f l) <= list_sum (map g l).
Proof.
  induction l as [|a l IH]; intros H; cbn [map list_sum fold_right]; [lia|].
  pose proof (H a (or_introl eq_refl)). specialize (IH (fun b Hb => H b (or_intror Hb))). unfold list_sum in *. lia.
Qed.

Ltac grid_tac :=
  cbn [seq map];
  repeat match goal with |- context [N.of_nat ?e] => let v := eval vm_compute in (N.of_nat e) in change (N.of_nat e) with v end;
  repeat match goal with |- context [nthN ?l ?i] => let v := eval vm_compute in (nthN l i) in change (nthN l i) with v end;
  unfold sumH, list_sum; cbn [fold_right]; lia.

(* the sum over the grid of the heights is the number of pieces on the board (sizes 3..5, by enumeration) *)
Lemma grid_sum sz (H : list N) : In sz [3; 4; 5] -> length H = sz * sz ->
  list_sum (map (fun x => list_sum (map (fun y => 3 + 12 * N.to_nat (nthN H (N.of_nat (y * sz + x)))) (seq 0 sz))) (seq 0 sz))
  = 3 * (sz * sz) + 12 * N.to_nat (sumH H).
Proof.
  intros [<-|[<-|[<-|[]]]] L.
  - do 10 (destruct H as [|? H]; try discriminate L). grid_tac.
  - do 17 (destruct H as [|? H]; try discriminate L). grid_tac.
  - do 26 (destruct H as [|? H]; try discriminate L). grid_tac.
Qed.

Theorem all_moves_small p : (3 <= size p <= 5)%N -> length (Height p) = N.to_nat (size p) * N.to_nat (size p) ->
  length (all_moves p) <= 75 + 12 * N.to_nat (sumH (Height p)).
Proof.
  intros Hs L. set (sz := N.to_nat (size p)) in *.
  assert (Hsz : In sz [3; 4; 5]) by (subst sz; cbn; lia).
  rewrite all_moves_cells. fold sz.
  etransitivity; [apply (length_flat_map_le _ (fun x => list_sum (map (fun y => 3 + 12 * N.to_nat (nthN (Height p) (N.of_nat (y * sz + x)))) (seq 0 sz))))|].
  - intros x Hx. apply in_seq in Hx. apply length_flat_map_le. intros y Hy. apply in_seq in Hy. apply cell_len; fold sz; [exact Hsz|lia|lia].
  - rewrite (grid_sum sz (Height p) Hsz L). assert (sz * sz <= 25) by (subst sz; nia). lia.
Qed.

(* ---- within ---- *)
(* with at most 64 pieces in the game no stack can exceed 64: every board size (the standard sets of 3x3..6x6 have 20, 30, 44, 62) *)
Theorem within_total64 : forall d p, pos_ok p -> (total p <= 64)%N -> within d p.
Proof.
  induction d; intros p Hp Ht; [exact I|]. intros _.
  intros m q E.
  destruct (move_preserves_small p m q Hp Ht (mv_not_pass p m q E) E) as (_ & Hq & ST).
  split; [apply total_heights64; rewrite (st_total _ _ ST); exact Ht|].
  apply IHd; [exact Hq|rewrite (st_total _ _ ST); exact Ht].
Qed.

Theorem within_small : forall d p, pos_ok p -> (size p <= 5)%N -> (total p <= 51)%N -> within d p.
Proof. intros d p Hp _ Ht. apply within_total64; [exact Hp|lia]. Qed.
