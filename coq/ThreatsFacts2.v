(* CountThreats, part 2 (C19): adding one square to a set of road squares.
   If the new square i is adjacent to a piece of a connected part that touches one edge, and is itself on the opposite
   edge or adjacent to a connected part touching the opposite edge, then the enlarged set has a spanning group. *)
From Coq Require Import NArith ZArith List Bool Lia ZifyN ZifyBool ZifyNat.
Require Import Board Flood Masks LowBit Conn Move GameOver Groups1 Groups2 Groups3 Groups4.
Import ListNotations.
Open Scope N_scope.

Section Bridge.
Variable s : N.
Hypothesis Hs : 3 <= s <= 8.
Let c := precompute s.
Variable B : N.
Hypothesis HB : forall i, N.testbit B i = true -> i < s * s.
Variable i : N.
Hypothesis Hi : i < s * s.
Let B' := N.lor B (bit1 i).

Lemma HB' : forall j, N.testbit B' j = true -> j < s * s.
Proof.
  intros j. unfold B'. rewrite N.lor_spec, testbit_bit1. intro H. apply orb_prop in H as [H|H]; [now apply HB|].
  apply N.eqb_eq in H. now subst.
Qed.
Lemma sub_BB' : sub B B'.
Proof. intros j H. unfold B'. now rewrite N.lor_spec, H. Qed.
Lemma i_in_B' : N.testbit B' i = true.
Proof. unfold B'. rewrite N.lor_spec, testbit_bit1, N.eqb_refl. apply orb_true_r. Qed.

Lemma conn_mono a b : conn s B a b -> conn s B' a b.
Proof. unfold conn. apply reach_mono, sub_BB'. Qed.

(* how a square reaches the new square: it is the new square, or connected to it inside B already, or connected inside B
   to a neighbour of it *)
Definition touches (a : N) : Prop := a = i \/ conn s B a i \/ exists j, conn s B a j /\ (nb c j i \/ nb c i j).

Lemma touches_conn a : touches a -> conn s B' a i.
Proof.
  intros [->|[Hc|(j & Hc & Hn)]]. { apply conn_refl, i_in_B'. } { now apply conn_mono. }
  destruct (conn_in_B s Hs B HB a j Hc) as [_ Hj].
  eapply conn_trans; [apply conn_mono; exact Hc|].
  apply conn_step; [apply sub_BB', Hj|apply i_in_B'|].
  destruct Hn as [Hn|Hn]; [exact Hn|]. apply (nb_sym s Hs); auto.
Qed.

Theorem bridge_road a b : touches a -> touches b -> opp s a b ->
  exists gs, groups c B' = Some gs /\ existsb (spans c) gs = true.
Proof.
  intros Ha Hb Ho.
  destruct (spans_iff s Hs B' HB') as (gs & Hg & Hiff). exists gs. split; [exact Hg|].
  apply Hiff. exists a, b. split; [|exact Ho].
  eapply conn_trans; [apply touches_conn; exact Ha|].
  apply (conn_sym s Hs B' HB'). apply touches_conn; exact Hb.
Qed.
End Bridge.
