(* SearchDedup.v: the engine model WITH the option Cfg.DedupSymmetry (ai/minimax.go, pvSearch):
       dedup := ai.Cfg.DedupSymmetry && p.MoveNumber() < maxDedup (= 4)
       for m, child := mg.Next(); child != nil; m, child = mg.Next() {
           if dedup { if _, seen := dedupCache[child.Hash()]; seen { continue }
                      syms, _ := symmetry.Symmetries(child); for _, ps := range syms { dedupCache[ps.P.Hash()] = struct{}{} } }
           i++ ...
   Only pvSearch has it; the skip happens before i++, before stack[ply].m is written and - being a `continue` - without reading the
   cancel flag.  symmetry.Symmetries is Symmetry.symmetries (validated by C14/C15); it rebuilds the images under the position's own
   configuration where the model uses the default one - the two differ in the reserves and the tie-break flag only, which
   Position.Hash does not read (SymmetryCfg.v); FromSquares cannot fail on squares read from a position, so the ignored error never
   occurs.  The cache is a list of hashes (membership is all that is asked of the Go map).

   Search.v is NOT changed: the functions below are pvSearch's loop and what sits above it (node, one search step, the recursion,
   Analyze, AnalyzeAll) with the extra parameter [dedup]; zwSearch and everything below the loop are Search.v's own functions,
   which take the child search as a parameter.  With dedup = false they ARE Search.v's (srch_d_off, analyze_d_off,
   analyze_all_d_off), so every theorem about Search.analyze_gen is a theorem about this model at dedup = false, and
   none of them claims anything about dedup = true.  Repaired code only (pinned = false). *)
From Coq Require Import NArith ZArith List Bool Lia.
Require Import Board Move GameOver Eval Search.
Require Symmetry.
Import ListNotations.
Open Scope Z_scope.

Definition max_dedup : Z := 4.

Section D.
Variable basis : list N.
Variable cfg : config.
Variable cancel_at : Z.
Variable dedup : bool.            (* Cfg.DedupSymmetry *)

(* the hashes symmetry.Symmetries(child) contributes to the cache *)
Definition sym_hashes (q : position) : list N := map (fun pi => hash_of (fst pi)) (Symmetry.symmetries basis q).
Definition in_cache (h : N) (cache : list N) : bool := existsb (N.eqb h) cache.

(* the child loop of pvSearch; dd = the node's `dedup` flag *)
Fixpoint pv_loop_d (rec : rec_t) (k : nat) (ply depth b : Z) (dd : bool) (s : sstate) (g : mgen) (i : Z) (best : list rmove) (a : Z)
  (improved : bool) (cache : list N) : sstate * list rmove * Z * bool * bool :=
  match k with O => (s, best, a, improved, false) | S k' =>
    let '(g, nx) := mg_next false basis cfg (gfuel g) s g in
    match nx with
    | None => (s, best, a, improved, false)
    | Some (m, child) =>
      if dd && in_cache (phash child) cache then pv_loop_d rec k' ply depth b dd s g i best a improved cache else
      let cache := if dd then sym_hashes child ++ cache else cache in
      let i := i + 1 in
      let s := set_fm s ply m in
      let '(s, (ms, v)) := pv_child rec s child ply depth best a b i in
      let v := - v in
      if a <? v then
        let best := m :: ms in
        let s := set_fpv s ply (set_prefix (znth (fpv s) ply []) best) in
        if b <=? v then (record_cut s m i depth ply, best, v, true, false)
        else if cancelled cancel_at s then (s, best, v, true, true) else pv_loop_d rec k' ply depth b dd s g i best v true cache
      else if cancelled cancel_at s then (s, best, a, improved, true) else pv_loop_d rec k' ply depth b dd s g i best a improved cache
    end
  end.

Definition pv_node_d (rec : rec_t) (s : sstate) (te : option nat) (p : position) (ply depth : Z) (pv : list rmove) (a b : Z) : sres :=
  let dd := dedup && (move p <? max_dedup) in
  let g0 := new_gen s te pv ply depth p in
  let arr0 := znth (fpv s) ply [] in
  let best0 := match pv with [] => firstn 1 arr0 | _ => pv end in
  let s := set_fpv s ply (set_prefix arr0 best0) in
  let '(s, best, a', improved, aborted) := pv_loop_d rec (gfuel g0) ply depth b dd s g0 0 best0 a false [] in
  if aborted then (s, ([], 0)) else
  (pv_store cancel_at s p depth best a' b improved, (best, a')).

Definition srch_step_d (rec : rec_t) : rec_t := fun zw s p ply depth pv a b cut =>
  let over := is_over p in
  if (depth <=? 0) || over then (count_eval (bump s (st_eval over)), ([], c_eval cfg p)) else
  let s := bump s (st_add 1 (if zw then 1 else if b =? a + 1 then 1 else 0) 0 0 0 0 0 0 0 0 0) in
  let '(s, te, ret) := tt_probe basis s p ply depth a (if zw then a + 1 else b) in
  match ret with
  | Some r => (s, r)
  | None => if zw then zw_node false basis cfg cancel_at rec s te p ply depth pv a cut else pv_node_d rec s te p ply depth pv a b
  end.

Fixpoint srch_d (fuel : nat) : rec_t :=
  match fuel with
  | O => fun zw s p ply depth pv a b cut => (s, ([], 0))
  | S f => srch_step_d (srch_d f)
  end.

Fixpoint az_iter_d (dmax base : Z) (p : position) (k : nat) (i : Z) (s : sstate) (ms : list rmove) (v : Z) (acc : stats) (d : Z) : ares :=
  match k with O => (s, (ms, v, d, acc, false)) | S k' =>
    if dmax <? i + base then (s, (ms, v, d, acc, false)) else
    let s := reset_st s in
    let '(s, (next, nv)) := srch_d 40 false s p 0 (i + base) ms (MinEval - 1) (MaxEval + 1) true in
    match (if cancelled cancel_at s then [] else next) with
    | [] => (s, (ms, v, d, acc, true))
    | _ =>
      let acc := st_merge (st s) acc in
      if (WinThreshold <? nv) || (nv <? - WinThreshold) then (s, (next, nv, i + base, acc, false))
      else az_iter_d dmax base p k' (i + 1) s next nv acc (i + base)
    end
  end.

Definition analyze_depth_d (dmax : Z) (s0 : sstate) (p : position) : ares :=
  let s0 := az_start s0 in
  let '(base, ms0, v0) := az_root false s0 p in
  az_iter_d dmax base p 16%nat 1 s0 ms0 v0 stats0 base.

Definition analyze_gen_d (s0 : sstate) (p : position) : ares := analyze_depth_d (c_depth cfg) s0 p.

(* AnalyzeAll (repaired code): its own second pass has no de-duplication; the searches it starts have *)
Fixpoint all_loop_d (pm : rmove) (pvt : list rmove) (v d : Z) (k : nat) (s : sstate) (g : mgen) (out : list (list rmove))
  : sstate * list (list rmove) * bool :=
  match k with O => (s, out, false) | S k' =>
    let '(g, nx) := mg_next false basis cfg (gfuel g) s g in
    match nx with
    | None => (s, out, false)
    | Some (m, child) =>
      let s := set_fm s 0 m in
      let '(s, (ms, cv)) := srch_d 40 false s child 1 (d - 1) pvt (- v - 1) (- v + 1) true in
      if cancelled cancel_at s then (s, out, true) else
      let cv := - cv in
      if negb (cv =? v) then all_loop_d pm pvt v d k' s g out
      else if move_equal m pm then all_loop_d pm pvt v d k' s g out
      else all_loop_d pm pvt v d k' s g (out ++ [m :: ms])
    end
  end.
Definition analyze_all_gen_d (s0 : sstate) (p : position) : sstate * (list (list rmove) * Z * Z * bool) :=
  let '(s, (pv, v, d, _, canc)) := analyze_gen_d s0 p in
  match pv with
  | [] => (s, ([], v, d, canc))
  | pm :: pvt =>
    let g0 := new_gen s None pv 0 d p in
    let '(s, out, brk) := all_loop_d pm pvt v d (gfuel g0) s g0 [pv] in
    (s, (out, v, d, canc || brk))
  end.
End D.

(* ---- with the option off this IS Search.v's engine ---- *)
Section Off.
Variable basis : list N.
Variable cfg : config.
Variable k : Z.

Lemma pv_loop_d_off rec : forall n ply depth b s g i best a improved cache,
  pv_loop_d basis cfg k rec n ply depth b false s g i best a improved cache = pv_loop false basis cfg k rec n ply depth b s g i best a improved.
Proof.
  induction n; intros; cbn [pv_loop_d pv_loop andb]; [reflexivity|].
  destruct (mg_next false basis cfg (gfuel g) s g) as [g' [[m child]|]]; [|reflexivity].
  destruct (pv_child rec (set_fm s ply m) child ply depth best a b (i + 1)) as [s1 [ms v]].
  destruct (a <? - v).
  - destruct (b <=? - v); [reflexivity|]. match goal with |- context [cancelled k ?x] => destruct (cancelled k x) end; [reflexivity|apply IHn].
  - destruct (cancelled k s1); [reflexivity|apply IHn].
Qed.
Lemma pv_node_d_off rec s te p ply depth pv a b :
  pv_node_d basis cfg k false rec s te p ply depth pv a b = pv_node false basis cfg k rec s te p ply depth pv a b.
Proof. unfold pv_node_d, pv_node. cbn [andb]. rewrite pv_loop_d_off. reflexivity. Qed.
(* the searches depend on the child search only through its values (no function extensionality is assumed) *)
Definition req (r1 r2 : rec_t) : Prop := forall zw s p ply depth pv a b cut, r1 zw s p ply depth pv a b cut = r2 zw s p ply depth pv a b cut.

Section Ext.
Variables r1 r2 : rec_t.
Hypothesis H : req r1 r2.

Lemma mc_loop_ext : forall n ply depth a cut m s g child i cuts,
  mc_loop false basis cfg r1 n ply depth a cut m s g child i cuts = mc_loop false basis cfg r2 n ply depth a cut m s g child i cuts.
Proof.
  induction n; intros; cbn [mc_loop]; [reflexivity|]. destruct (6 <=? i); [reflexivity|]. rewrite H.
  destruct (r2 true (set_fm s ply m) child (ply + 1) (depth - 1 - 2) [] (- a - 1) 0 (negb cut)) as [s1 [ms v]].
  destruct ((a <? - v) && (3 <=? (if a <? - v then cuts + 1 else cuts))); [reflexivity|].
  destruct (mg_next false basis cfg (gfuel g) s1 g) as [g' [[m' c']|]]; [apply IHn|reflexivity].
Qed.
Lemma zw_loop_ext : forall n ply depth a cut s g i best,
  zw_loop false basis cfg k r1 n ply depth a cut s g i best = zw_loop false basis cfg k r2 n ply depth a cut s g i best.
Proof.
  induction n; intros; cbn [zw_loop]; [reflexivity|].
  destruct (mg_next false basis cfg (gfuel g) s g) as [g' [[m child]|]]; [|reflexivity]. rewrite H.
  destruct (r2 true (set_fm s ply m) child (ply + 1) (depth - 1) (tl best) (- a - 1) 0 (negb cut)) as [s1 [ms v]].
  destruct (a <? - v); [reflexivity|]. destruct (cancelled k s1); [reflexivity|apply IHn].
Qed.
Lemma zw_tail_ext s g p ply depth a cut :
  zw_tail false basis cfg k r1 s g p ply depth a cut = zw_tail false basis cfg k r2 s g p ply depth a cut.
Proof. unfold zw_tail. rewrite zw_loop_ext. reflexivity. Qed.
Lemma zw_mc_ext s g p ply depth a cut :
  zw_mc false basis cfg k r1 s g p ply depth a cut = zw_mc false basis cfg k r2 s g p ply depth a cut.
Proof.
  unfold zw_mc. destruct (c_multicut cfg && cut && (3 <? depth)); [|apply zw_tail_ext].
  destruct (mg_next false basis cfg (gfuel g) (bump s (st_add 0 0 0 0 0 0 0 0 0 1 0)) g) as [g1 [[m child0]|]]; [|apply zw_tail_ext].
  rewrite mc_loop_ext. destruct (mc_loop false basis cfg r2 8 ply depth a cut m (bump s (st_add 0 0 0 0 0 0 0 0 0 1 0)) g1 child0 0 0) as [[s2 g2] mccut].
  destruct mccut; [reflexivity|apply zw_tail_ext].
Qed.
Lemma zw_node_ext s te p ply depth pv a cut :
  zw_node false basis cfg k r1 s te p ply depth pv a cut = zw_node false basis cfg k r2 s te p ply depth pv a cut.
Proof.
  assert (RED : forall s, zw_reduce false basis cfg k r1 s te p ply depth pv a cut = zw_reduce false basis cfg k r2 s te p ply depth pv a cut).
  { intros s0. unfold zw_reduce. destruct (reduce_slide cfg s0 p ply depth) as [s1 d1]. apply zw_mc_ext. }
  unfold zw_node. destruct (null_move_ok cfg s ply depth p); [|apply RED]. rewrite H.
  match goal with |- context [r2 true ?s1 (pass_move p) ?pl ?dd [] ?aa 0 true] => destruct (r2 true s1 (pass_move p) pl dd [] aa 0 true) as [s2 [ms v]] end.
  destruct (a + 1 <=? - v); [reflexivity|apply RED].
Qed.
Lemma pv_child_ext s child ply depth best a b i : pv_child r1 s child ply depth best a b i = pv_child r2 s child ply depth best a b i.
Proof.
  unfold pv_child. destruct (1 <? i); [|apply H]. rewrite H.
  destruct (r2 true s child (ply + 1) (depth - 1) (tl best) (- a - 1) 0 true) as [s1 [ms v]].
  destruct ((a <? - v) && (- v <? b)); [apply H|reflexivity].
Qed.
Lemma pv_loop_d_ext : forall n ply depth b dd s g i best a improved cache,
  pv_loop_d basis cfg k r1 n ply depth b dd s g i best a improved cache = pv_loop_d basis cfg k r2 n ply depth b dd s g i best a improved cache.
Proof.
  induction n; intros; cbn [pv_loop_d]; [reflexivity|].
  destruct (mg_next false basis cfg (gfuel g) s g) as [g' [[m child]|]]; [|reflexivity].
  destruct (dd && in_cache (phash child) cache); [apply IHn|]. rewrite pv_child_ext.
  destruct (pv_child r2 (set_fm s ply m) child ply depth best a b (i + 1)) as [s1 [ms v]].
  destruct (a <? - v).
  - destruct (b <=? - v); [reflexivity|]. match goal with |- context [cancelled k ?x] => destruct (cancelled k x) end; [reflexivity|apply IHn].
  - destruct (cancelled k s1); [reflexivity|apply IHn].
Qed.
Lemma pv_node_d_ext dedup s te p ply depth pv a b :
  pv_node_d basis cfg k dedup r1 s te p ply depth pv a b = pv_node_d basis cfg k dedup r2 s te p ply depth pv a b.
Proof. unfold pv_node_d. rewrite pv_loop_d_ext. reflexivity. Qed.
Lemma srch_step_d_ext dedup : req (srch_step_d basis cfg k dedup r1) (srch_step_d basis cfg k dedup r2).
Proof.
  intros zw s p ply depth pv a b cut. unfold srch_step_d. destruct ((depth <=? 0) || is_over p); [reflexivity|].
  match goal with |- context [tt_probe basis ?s1 p ply depth a ?bb] => destruct (tt_probe basis s1 p ply depth a bb) as [[s2 te] ret] end.
  destruct ret; [reflexivity|]. destruct zw; [apply zw_node_ext|apply pv_node_d_ext].
Qed.
End Ext.

Lemma srch_step_d_off rec : req (srch_step_d basis cfg k false rec) (srch_step false basis cfg k rec).
Proof.
  intros zw s p ply depth pv a b cut. unfold srch_step_d, srch_step. destruct ((depth <=? 0) || is_over p); [reflexivity|].
  match goal with |- context [tt_probe basis ?s1 p ply depth a ?bb] => destruct (tt_probe basis s1 p ply depth a bb) as [[s2 te] ret] end.
  destruct ret; [reflexivity|]. destruct zw; [reflexivity|apply pv_node_d_off].
Qed.
Lemma srch_d_off : forall f, req (srch_d basis cfg k false f) (srch false basis cfg k f).
Proof.
  induction f; [intros zw s p ply depth pv a b cut; reflexivity|]. cbn [srch_d srch].
  intros zw s p ply depth pv a b cut. rewrite (srch_step_d_ext _ _ IHf false). apply srch_step_d_off.
Qed.
Lemma az_iter_d_off dmax base p : forall n i s ms v acc d,
  az_iter_d basis cfg k false dmax base p n i s ms v acc d = az_iter false basis cfg k dmax base p n i s ms v acc d.
Proof.
  induction n; intros; cbn [az_iter_d az_iter]; [reflexivity|]. destruct (dmax <? i + base); [reflexivity|]. rewrite srch_d_off.
  destruct (srch false basis cfg k 40 false (reset_st s) p 0 (i + base) ms (MinEval - 1) (MaxEval + 1) true) as [s1 [next nv]].
  destruct (if cancelled k s1 then [] else next); [reflexivity|]. destruct ((WinThreshold <? nv) || (nv <? - WinThreshold)); [reflexivity|apply IHn].
Qed.
(* Analyze and AnalyzeAll with the option off are Search.v's *)
Theorem analyze_d_off s p : analyze_gen_d basis cfg k false s p = analyze_gen false basis cfg k s p.
Proof.
  unfold analyze_gen_d, analyze_gen, analyze_depth_d, analyze_depth. destruct (az_root false (az_start s) p) as [[base ms0] v0]. apply az_iter_d_off.
Qed.
Lemma all_loop_d_off pm pvt v d : forall n s g out,
  all_loop_d basis cfg k false pm pvt v d n s g out =
  (fix loop (k0 : nat) (s : sstate) (g : mgen) (out : list (list rmove)) : sstate * list (list rmove) * bool :=
     match k0 with O => (s, out, false) | S k' =>
       let '(g, nx) := mg_next false basis cfg (gfuel g) s g in
       match nx with
       | None => (s, out, false)
       | Some (m, child) =>
         let s := set_fm s 0 m in
         let '(s, (ms, cv)) := srch false basis cfg k 40 false s child 1 (d - 1) pvt (- v - 1) (- v + 1) true in
         if negb false && cancelled k s then (s, out, true) else
         let cv := - cv in
         if negb (cv =? v) then loop k' s g out
         else if move_equal m pm then loop k' s g out
         else loop k' s g (out ++ [m :: ms])
       end
     end) n s g out.
Proof.
  induction n; intros; [reflexivity|]. cbn [all_loop_d negb andb].
  destruct (mg_next false basis cfg (gfuel g) s g) as [g' [[m child]|]]; [|reflexivity]. rewrite srch_d_off.
  destruct (srch false basis cfg k 40 false (set_fm s 0 m) child 1 (d - 1) pvt (- v - 1) (- v + 1) true) as [s2 [ms cv]].
  destruct (cancelled k s2); [reflexivity|]. destruct (negb (- cv =? v)); [apply IHn|]. destruct (move_equal m pm); apply IHn.
Qed.
Theorem analyze_all_d_off s p : analyze_all_gen_d basis cfg k false s p = analyze_all_gen false basis cfg k s p.
Proof.
  unfold analyze_all_gen_d, analyze_all_gen. rewrite analyze_d_off.
  destruct (analyze_gen false basis cfg k s p) as [s1 [[[[pv v] d] acc] canc]]. destruct pv as [|pm pvt]; [reflexivity|].
  rewrite all_loop_d_off. reflexivity.
Qed.
End Off.
