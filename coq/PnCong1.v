(* C06, congruence part 1 (bit level, no invariant): Position.Move, GameOver and AllMoves read the ply counter only
   through its parity (side to move) and the opening test (move < 2).  Hence two position records that differ only in
   a ply counter of the same parity on the same side of the opening (`sim`) have the same legal moves, `sim` successors,
   the same end of game and the same history-free value wn n. *)
From Coq Require Import NArith ZArith List Bool Lia.
Require Import Board Move GameOver AndOr Pn PnFacts.
Import ListNotations.
Open Scope N_scope.

Definition setmv (p : position) (k : Z) : position :=
  {| size := size p; black_wins_ties := black_wins_ties p;
     whiteStones := whiteStones p; whiteCaps := whiteCaps p; blackStones := blackStones p; blackCaps := blackCaps p;
     move := k; White := White p; Black := Black p; Standing := Standing p; Caps := Caps p;
     Height := Height p; Stacks := Stacks p; hash := hash p |}.

(* two ply counters the game cannot tell apart *)
Definition plyeq (a b : Z) : Prop := a = b \/ (2 <= a /\ 2 <= b /\ Z.even a = Z.even b)%Z.

Lemma plyeq_even a b : plyeq a b -> Z.even a = Z.even b.
Proof. intros [->|(_ & _ & H)]; auto. Qed.
Lemma plyeq_lt2 a b : plyeq a b -> (a <? 2)%Z = (b <? 2)%Z.
Proof. intros [->|(A & B & _)]; auto. destruct (Z.ltb_spec a 2), (Z.ltb_spec b 2); auto; lia. Qed.
Lemma plyeq_le2 a b : plyeq a b -> (2 <=? a)%Z = (2 <=? b)%Z.
Proof. intros [->|(A & B & _)]; auto. destruct (Z.leb_spec 2 a), (Z.leb_spec 2 b); auto; lia. Qed.
Lemma plyeq_succ a b : plyeq a b -> plyeq (a + 1) (b + 1).
Proof.
  intros [->|(A & B & H)]; [now left|]. right. split; [lia|]. split; [lia|].
  rewrite !Z.even_add, H. reflexivity.
Qed.
Lemma plyeq_refl a : plyeq a a. Proof. now left. Qed.
Lemma plyeq_sym a b : plyeq a b -> plyeq b a.
Proof. intros [->|(A & B & H)]; [now left|]. right. auto. Qed.

Lemma setmv_id p : setmv p (move p) = p.
Proof. now destruct p. Qed.
Lemma setmv_setmv p a b : setmv (setmv p a) b = setmv p b.
Proof. reflexivity. Qed.

Definition rmap {A B} (f : A -> B) (r : res A) : res B := match r with Ok a => Ok (f a) | Err => Err | Panic => Panic end.

(* ---- Position.Move ---- *)
Lemma drops_setmv hsq p k topk stack dx dy ds : forall x y ct b,
  drops hsq (setmv p k) topk stack dx dy x y ct ds b = drops hsq p topk stack dx dy x y ct ds b.
Proof.
  induction ds as [|cN rest IH]; intros x y ct b; [reflexivity|].
  cbn [drops]. change (in_board (setmv p k)) with (in_board p). change (sq_index (setmv p k)) with (sq_index p).
  destruct (negb _); [reflexivity|]. destruct (_ || _); [reflexivity|].
  destruct (drop_at _ _ _ _ _ _); cbn [bind]; auto.
Qed.

Lemma mv_setmv hsq bc p k m : plyeq k (move p) ->
  move_prealloc hsq bc (setmv p k) m = rmap (fun r => setmv r (k + 1)) (move_prealloc hsq bc p m).
Proof.
  intros H. pose proof (plyeq_even _ _ H) as He. pose proof (plyeq_lt2 _ _ H) as Hl.
  unfold move_prealloc.
  change (sq_index (setmv p k)) with (sq_index p). change (top_at (setmv p k)) with (top_at p).
  unfold to_move_white.
  cbn [setmv size black_wins_ties whiteStones whiteCaps blackStones blackCaps move White Black Standing Caps Height Stacks hash].
  rewrite He, Hl.
  repeat (match goal with
  | |- bind (drops _ ?q _ _ _ _ _ _ _ _ _) _ = _ => change q with (setmv p k); rewrite drops_setmv
  | |- (let '(_, _) := (match ?x with KNone => _ | _ => _ end) in _) = _ => destruct x; cbv beta iota
  | |- (let '(_, _) := (if ?b then _ else _) in _) = _ => destruct b; cbv beta iota
  | |- (if ?b then _ else _) = _ => destruct b; cbn [rmap]; [try reflexivity|]
  | |- bind ?r _ = _ => destruct r; cbn [bind rmap]; try reflexivity
  | |- (match ?x with _ => _ end) = _ => destruct x; cbn [bind rmap]; try reflexivity
  end).
Qed.

(* ---- GameOver, AllMoves ---- *)
Lemma analyze_setmv p k : analyze (setmv p k) = analyze p.
Proof. unfold analyze. cbn [setmv size White Black Standing]. reflexivity. Qed.

Lemma game_over_setmv p k : Z.even k = Z.even (move p) -> game_over (setmv p k) = game_over p.
Proof.
  intros He. unfold game_over. rewrite analyze_setmv.
  destruct (analyze p) as [[wg bg]|]; [|reflexivity].
  unfold has_road, to_move_white. cbn [setmv size move]. rewrite He. reflexivity.
Qed.

Lemma all_moves_setmv p k : plyeq k (move p) -> all_moves (setmv p k) = all_moves p.
Proof.
  intros H. unfold all_moves, to_move_white.
  cbn [setmv size black_wins_ties whiteStones whiteCaps blackStones blackCaps move White Black Standing Caps Height Stacks hash].
  rewrite (plyeq_even _ _ H), (plyeq_lt2 _ _ H), (plyeq_le2 _ _ H). reflexivity.
Qed.

(* ---- the relation ---- *)
Definition sim (q p : position) : Prop := q = setmv p (move q) /\ plyeq (move q) (move p).

Lemma sim_refl p : sim p p.
Proof. split; [symmetry; apply setmv_id|apply plyeq_refl]. Qed.

Lemma sim_sym q p : sim q p -> sim p q.
Proof.
  intros [E H]. split; [|now apply plyeq_sym]. rewrite E. cbn [move setmv]. rewrite setmv_setmv. symmetry. apply setmv_id.
Qed.

Lemma sim_to_move q p : sim q p -> to_move_white q = to_move_white p.
Proof. intros [_ H]. unfold to_move_white. now apply plyeq_even. Qed.

Lemma sim_size q p : sim q p -> size q = size p.
Proof. intros [E _]. rewrite E. reflexivity. Qed.

Lemma sim_game_over q p : sim q p -> game_over q = game_over p.
Proof. intros [E H]. rewrite E. apply game_over_setmv. now apply plyeq_even. Qed.

Lemma sim_all_moves q p : sim q p -> all_moves q = all_moves p.
Proof. intros [E H]. rewrite E. now apply all_moves_setmv. Qed.

Lemma sim_mv hsq bc q p m : sim q p ->
  match move_prealloc hsq bc q m, move_prealloc hsq bc p m with
  | Ok q', Ok p' => sim q' p'
  | Err, Err => True
  | Panic, Panic => True
  | _, _ => False
  end.
Proof.
  intros [E H]. remember (move q) as k eqn:Ek. clear Ek. subst q. rewrite (mv_setmv hsq bc p k m H).
  destruct (move_prealloc hsq bc p m) as [p'| |] eqn:Ep; cbn [rmap]; auto.
  apply mv_fields in Ep as [Ep _]. split.
  - cbn [move setmv]. reflexivity.
  - cbn [move setmv]. rewrite Ep. now apply plyeq_succ.
Qed.

(* ---- the game of PnFacts: same successors up to sim, same verdict, same side ---- *)
Section Cong.
Variable basis : list N.
Variable aw : bool.
Notation succs := (succs basis).
Notation terminal := (terminal aw).
Notation attp := (attp aw).
Notation wnp := (wn position succs terminal attp).

Lemma sim_terminal q p : sim q p -> terminal q = terminal p.
Proof. intros H. unfold PnFacts.terminal. now rewrite (sim_game_over q p H). Qed.

Lemma sim_attp q p : sim q p -> attp q = attp p.
Proof. intros H. unfold PnFacts.attp. now rewrite (sim_to_move q p H). Qed.

Lemma sim_succs q p : sim q p -> Forall2 sim (succs q) (succs p).
Proof.
  intros H. unfold PnFacts.succs. rewrite (sim_all_moves q p H).
  induction (all_moves p) as [|m r IH]; cbn [flat_map]; [constructor|].
  pose proof (sim_mv (hash_sq basis) true q p m H) as Hm. unfold pmv.
  destruct (move_prealloc (hash_sq basis) true q m), (move_prealloc (hash_sq basis) true p m); try contradiction; cbn [app]; auto.
Qed.

Lemma existsb_Forall2 {A} (f : A -> bool) l1 l2 (R : A -> A -> Prop) :
  (forall a b, R a b -> f a = f b) -> Forall2 R l1 l2 -> existsb f l1 = existsb f l2.
Proof. intros Hf H. induction H as [|a b l1 l2 Hab _ IH]; cbn; [reflexivity|]. now rewrite (Hf a b Hab), IH. Qed.
Lemma forallb_Forall2 {A} (f : A -> bool) l1 l2 (R : A -> A -> Prop) :
  (forall a b, R a b -> f a = f b) -> Forall2 R l1 l2 -> forallb f l1 = forallb f l2.
Proof. intros Hf H. induction H as [|a b l1 l2 Hab _ IH]; cbn; [reflexivity|]. now rewrite (Hf a b Hab), IH. Qed.

Theorem sim_wn : forall n q p, sim q p -> wnp n q = wnp n p.
Proof.
  induction n as [|n IH]; intros q p H; cbn [wn]; rewrite (sim_terminal q p H); [reflexivity|].
  destruct (terminal p); [reflexivity|]. rewrite (sim_attp q p H).
  destruct (attp p).
  - apply existsb_Forall2 with (R := sim); [apply IH|now apply sim_succs].
  - apply forallb_Forall2 with (R := sim); [apply IH|now apply sim_succs].
Qed.
End Cong.
Print Assumptions sim_wn.
