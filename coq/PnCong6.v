(* C06: the two corollaries against the attractor for the PN search WITH the PN-squared switch (Pn2.v) without the congruence
   hypothesis, for roots that are positions of a game (PnCong3.cinv) - the twins of PnCong4's statements for the plain search. *)
From Coq Require Import NArith ZArith Arith List Bool Lia.
Require Import Board Move Refine GameOver Preserve1 Reach1 Alloc AndOr AndOrS Pn PnRun PnFacts Pn2 Pn2Run Pn2Facts Pn2RunFacts
  PnCong1 PnCong2 PnCong3 PnCong4.
Require Import Generated.Consts.
Import ListNotations.
Open Scope N_scope.

Theorem pn2_proven_rules_cinv : forall c b cfg threshold pn2on k2 dfuel2 p0 iters dfuel root s mv why,
  cinv c b p0 ->
  prove_pn2 gen_basis (to_move_white p0) cfg threshold pn2on k2 dfuel2 iters dfuel p0 = (root, s, 1, mv, why) ->
  exists k, Wb position pos_equal (succs gen_basis) (terminal (to_move_white p0)) (attp (to_move_white p0)) k [] p0.
Proof.
  intros c b cfg threshold pn2on k2 dfuel2 p0 iters dfuel root s mv why Hc E.
  destruct (pn2_verdict_sound_gen gen_basis cfg _ threshold pn2on k2 dfuel2 p0 eq_refl (cinv_size c b p0 Hc) _ _ _ _ _ _ _ E) as [H _].
  destruct (H eq_refl) as [[n Hn] _]. exists n. apply (truth_equiv_cinv c b); assumption.
Qed.

Theorem pn2_disproven_attractor_cinv : forall c b cfg threshold pn2on k2 dfuel2 p0 iters dfuel root s mv why,
  cinv c b p0 -> (0 <= pc_maxdepth cfg)%Z ->
  prove_pn2 gen_basis (to_move_white p0) cfg threshold pn2on k2 dfuel2 iters dfuel p0 = (root, s, 2, mv, why) ->
  wn position (succs gen_basis) (terminal (to_move_white p0)) (attp (to_move_white p0)) (Z.to_nat (pc_maxdepth cfg)) p0 = false.
Proof.
  intros c b cfg threshold pn2on k2 dfuel2 p0 iters dfuel root s mv why Hc Hd E.
  destruct (pn2_verdict_sound_gen gen_basis cfg _ threshold pn2on k2 dfuel2 p0 eq_refl (cinv_size c b p0 Hc) _ _ _ _ _ _ _ E) as [_ H].
  specialize (H eq_refl). cbn [L length map] in H.
  destruct (wn _ _ _ _ (Z.to_nat (pc_maxdepth cfg)) p0) eqn:Ew; [|reflexivity].
  exfalso. apply H. split; [cbn; lia|]. cbn [Z.of_nat]. rewrite Z.sub_0_r. apply (truth_equiv_cinv c b); assumption.
Qed.

(* the entry point Pn2Run.pn2_run (Prover.Prove with the constants of /repo, PN-squared on or off) *)
Theorem pn2_run_proven_rules : forall c b iters dfuel k2 dfuel2 maxnodes preserve maxdepth pn2 (p : position) root s mv why,
  cinv c b p ->
  pn2_run iters dfuel k2 dfuel2 maxnodes preserve maxdepth pn2 p = (root, s, 1, mv, why) ->
  exists k, Wb position pos_equal (succs gen_basis) (terminal (to_move_white p)) (attp (to_move_white p)) k [] p.
Proof.
  intros c b iters dfuel k2 dfuel2 maxnodes preserve maxdepth pn2 p root s mv why Hc E. unfold pn2_run, pn2_run_at in E.
  eapply pn2_proven_rules_cinv; eassumption.
Qed.

Theorem pn2_run_disproven_attractor : forall c b iters dfuel k2 dfuel2 maxnodes preserve maxdepth pn2 (p : position) root s mv why,
  cinv c b p -> (0 <= maxdepth)%Z ->
  pn2_run iters dfuel k2 dfuel2 maxnodes preserve maxdepth pn2 p = (root, s, 2, mv, why) ->
  wn position (succs gen_basis) (terminal (to_move_white p)) (attp (to_move_white p)) (Z.to_nat (eff_maxdepth maxdepth)) p = false.
Proof.
  intros c b iters dfuel k2 dfuel2 maxnodes preserve maxdepth pn2 p root s mv why Hc Hd E. unfold pn2_run, pn2_run_at in E.
  apply (pn2_disproven_attractor_cinv c b _ _ _ _ _ p _ _ _ _ _ _ Hc) in E; [exact E|].
  cbn [pc_maxdepth]. unfold eff_maxdepth. destruct (maxdepth =? 0)%Z; lia.
Qed.

Theorem pn2_run_proven_rules_reachable :
  forall sz bwt stones caps ms iters dfuel k2 dfuel2 maxnodes preserve maxdepth pn2 (p : position) root s mv why,
  3 <= sz <= 8 -> 2 * (stones + caps) <= 64 -> replay (new_pos sz bwt stones caps) ms = Ok p ->
  pn2_run iters dfuel k2 dfuel2 maxnodes preserve maxdepth pn2 p = (root, s, 1, mv, why) ->
  exists k, Wb position pos_equal (succs gen_basis) (terminal (to_move_white p)) (attp (to_move_white p)) k [] p.
Proof. intros. eapply pn2_run_proven_rules; [|eassumption]. eapply reachable_cinv; eassumption. Qed.

Theorem pn2_run_disproven_attractor_reachable :
  forall sz bwt stones caps ms iters dfuel k2 dfuel2 maxnodes preserve maxdepth pn2 (p : position) root s mv why,
  3 <= sz <= 8 -> 2 * (stones + caps) <= 64 -> replay (new_pos sz bwt stones caps) ms = Ok p -> (0 <= maxdepth)%Z ->
  pn2_run iters dfuel k2 dfuel2 maxnodes preserve maxdepth pn2 p = (root, s, 2, mv, why) ->
  wn position (succs gen_basis) (terminal (to_move_white p)) (attp (to_move_white p)) (Z.to_nat (eff_maxdepth maxdepth)) p = false.
Proof. intros. eapply pn2_run_disproven_attractor; [|eassumption|eassumption]. eapply reachable_cinv; eassumption. Qed.
Print Assumptions pn2_run_proven_rules_reachable.
Print Assumptions pn2_run_disproven_attractor_reachable.
