(* Proofs for C18, part 3: computeInfluence / computeControl / scoreControl. *)
From Coq Require Import NArith ZArith List Bool Lia ZifyN ZifyBool ZifyNat.
Require Import Board Move GameOver Masks Eval EvalSpec EvalFacts1.
Import ListNotations.
Open Scope N_scope.
Open Scope Z_scope.

(* ---- computeInfluence / computeControl / scoreControl ---- *)
Lemma influence_hi0 c mine : hi0 64 (cMask c) -> Forall (hi0 64) (influence c mine).
Proof.
  intro Hm. unfold influence. apply fold_left_inv.
  - repeat constructor; apply hi0_0.
  - intros out b Hout _.
    set (g := andnot (grow c (cMask c) b) b).
    assert (Hg : hi0 64 g) by (apply hi0_andnot, hi0_grow, Hm).
    assert (I : forall l acc carry, Forall (hi0 64) l -> Forall (hi0 64) acc -> hi0 64 carry ->
               let r := fold_left (fun (st : list N * N) o => let '(acc, carry) := st in
                          if (carry =? 0)%N then (acc ++ [o], carry) else (acc ++ [N.lxor o carry], N.land o carry)) l (acc, carry) in
               Forall (hi0 64) (fst r) /\ hi0 64 (snd r)).
    { induction l as [|o l IH]; intros acc carry Hl Ha Hc; cbn [fold_left]. { now split. }
      inversion Hl; subst. destruct (carry =? 0)%N; apply IH; auto.
      - apply Forall_app; split; auto.
      - apply Forall_app; split; auto. constructor; [|constructor]. now apply hi0_lxor.
      - now apply hi0_land_l. }
    specialize (I out [] g Hout (Forall_nil _) Hg). cbv zeta in I.
    destruct (fold_left _ out ([], g)) as [out' carry]. cbn [fst snd] in I. destruct I as [I1 I2].
    destruct (carry =? 0)%N; [assumption|].
    apply Forall_rev in I1. destruct (rev out') as [|l r] eqn:R.
    + apply Forall_rev in I1. rewrite <- R in I1. rewrite rev_involutive in I1. assumption.
    + apply Forall_rev. inversion I1; subst. constructor; [|assumption]. now apply hi0_lor.
Qed.

Lemma nth_hi0 l i : Forall (hi0 64) l -> hi0 64 (nth i l 0%N).
Proof. revert i. induction l as [|x l IH]; intros [|i] F; cbn [nth]; try apply hi0_0; inversion F; subst; auto. Qed.

Lemma control_fold_hi0 (wi bi : list N) (l : list nat) : Forall (hi0 64) wi -> Forall (hi0 64) bi ->
  forall a : N * N, hi0 64 (fst a) /\ hi0 64 (snd a) ->
  hi0 64 (fst (fold_left (fun (acc : N * N) (i : nat) =>
        let '(wc, bc) := acc in
        let wb := andnot (nth i wi 0%N) (N.lor wc bc) in
        let bb := andnot (nth i bi 0%N) (N.lor wc bc) in
        (N.lor wc (andnot wb bb), N.lor bc (andnot bb wb))) l a)) /\ hi0 64 (snd (fold_left (fun (acc : N * N) (i : nat) =>
        let '(wc, bc) := acc in
        let wb := andnot (nth i wi 0%N) (N.lor wc bc) in
        let bb := andnot (nth i bi 0%N) (N.lor wc bc) in
        (N.lor wc (andnot wb bb), N.lor bc (andnot bb wb))) l a)).
Proof.
  intros Hw Hb. induction l as [|i l IH]; intros a Ha; cbn [fold_left]; [assumption|].
  apply IH. destruct a as [wc bc]. cbn [fst snd] in *. destruct Ha as [A B].
  split; apply hi0_lor; auto; apply hi0_andnot, hi0_andnot, nth_hi0; assumption.
Qed.

Lemma control_hi0 c p : hi0 64 (cMask c) -> hi0 64 (fst (compute_control c p)) /\ hi0 64 (snd (compute_control c p)).
Proof.
  intro Hm. unfold compute_control.
  pose proof (influence_hi0 c (andnot (White p) (N.lor (Caps p) (Standing p))) Hm) as Hw.
  pose proof (influence_hi0 c (andnot (Black p) (N.lor (Caps p) (Standing p))) Hm) as Hb.
  generalize dependent (influence c (andnot (White p) (N.lor (Caps p) (Standing p)))). intros wi Hw.
  generalize dependent (influence c (andnot (Black p) (N.lor (Caps p) (Standing p)))). intros bi Hb.
  pose proof (control_fold_hi0 wi bi [2; 1; 0]%nat Hw Hb (0%N, 0%N) (conj (hi0_0 64) (hi0_0 64))) as F.
  destruct (fold_left _ [2; 1; 0]%nat (0%N, 0%N)) as [wc bc]. cbn [fst snd] in *. destruct F as [A B].
  split; apply hi0_andnot, hi0_lor; auto; apply hi0_andnot, hi0_grow, Hm.
Qed.

Lemma score_control_bound c w p : hi0 64 (cMask c) -> hi0 64 (White p) -> hi0 64 (Black p) ->
  Z.abs (score_control c w p) <= 64 * (aw w EmptyControl + aw w FlatControl + aw w CenterControl).
Proof.
  intros Hm HW HB. unfold score_control.
  pose proof (aw_nonneg w EmptyControl). pose proof (aw_nonneg w FlatControl). pose proof (aw_nonneg w CenterControl).
  destruct ((wt w EmptyControl =? 0) && (wt w FlatControl =? 0)). { lia. }
  destruct (control_hi0 c p Hm) as [A B]. destruct (compute_control c p) as [wc bc]. cbn [fst snd] in *.
  set (empty := andnot (cMask c) _). set (flat := andnot (N.lor (White p) (Black p)) _).
  assert (He : hi0 64 empty) by (apply hi0_andnot, Hm).
  assert (Hf : hi0 64 flat) by (apply hi0_andnot, hi0_lor; assumption).
  pose proof (pc64 _ (hi0_land_r 64 wc empty He)). pose proof (pc64 _ (hi0_land_r 64 bc empty He)).
  pose proof (pc64 _ (hi0_land_r 64 wc flat Hf)). pose proof (pc64 _ (hi0_land_r 64 bc flat Hf)).
  pose proof (pc64 _ (hi0_andnot 64 wc (cEdge c) A)). pose proof (pc64 _ (hi0_andnot 64 bc (cEdge c) B)).
  pose proof (mulb (wt w EmptyControl) (pc (N.land wc empty) - pc (N.land bc empty)) 64 ltac:(lia)).
  pose proof (mulb (wt w FlatControl) (pc (N.land wc flat) - pc (N.land bc flat)) 64 ltac:(lia)).
  pose proof (mulb (wt w CenterControl) (pc (andnot wc (cEdge c)) - pc (andnot bc (cEdge c))) 64 ltac:(lia)).
  unfold aw in *. lia.
Qed.
