(* Codec/TpsCfg.v: tak.New / tak.FromSquares with an ARBITRARY tak.Config (game.go:22-41, 82-130).
   Tps.from_squares is the instance Config{Size: sz} (what ptn.ParseTPS passes): default piece counts, BlackWinsTies = false.
   symmetry.Symmetries passes p.Config(): the configuration of the position being transformed, with its own
   Pieces / Capstones / BlackWinsTies.  This file models that call; Tps.from_squares is proved to be its instance at the
   zero configuration (from_squares_zero) and at the default counts written out (from_squares_default).
   Config.Pieces / Config.Capstones are Go ints; the model takes them as N (a negative count is not modelled).
   tak.New: Pieces == 0 / Capstones == 0 select the defaults of the size (so "no capstones" cannot be configured on sizes
   whose default is not 0, and every position's Config() has Pieces <> 0); the reserves are bytes: byte(g.Pieces). *)
From Coq Require Import NArith ZArith List Bool Lia.
Require Import Board Move GameOver PtnMove Playtak Tps.
Import ListNotations.
Local Open Scope N_scope.

(* tak.New: `if g.Pieces == 0 { g.Pieces = defaultPieces[g.Size] }`, `if g.Capstones == 0 { g.Capstones = defaultCaps[g.Size] }` *)
Definition cfg_pieces (sz stones : N) : N := if stones =? 0 then nth (N.to_nat sz) default_pieces 0 else stones.
Definition cfg_caps (sz caps : N) : N := if caps =? 0 then nth (N.to_nat sz) default_caps 0 else caps.

Section T.
Variable basis : list N.

(* tak.FromSquares(tak.Config{Size: sz, Pieces: stones, Capstones: caps, BlackWinsTies: bwt}, board, mv), size known to be 3..8 *)
Definition from_squares_cfg (sz stones caps : N) (bwt : bool) (board : list (list (list pc))) (mv : Z) : position :=
  let n := N.to_nat sz in
  let cells := flat_map (fun row => row) board in                      (* y-major: index x + y*size *)
  let step (acc : N * N * N * N * N * N * N * N * list N * list N * N) (ic : nat * list pc) :=
    let '(w, b, s, c, ws, wc, bs, bc, hs, st, h) := acc in
    let '(i, sq) := ic in
    match sq with
    | [] => acc
    | P tb tk :: _ =>
      let bi := bit (N.of_nat i) in
      let w := if tb then w else N.lor w bi in
      let b := if tb then N.lor b bi else b in
      let c := if tk =? 3 then N.lor c bi else c in
      let s := if tk =? 2 then N.lor s bi else s in
      let '(ws, wc, bs, bc) :=
        fold_left (fun (r : N * N * N * N) (pp : pc) =>
          let '(ws, wc, bs, bc) := r in
          match pp with
          | P false 3 => (ws, u8 (wc + 255), bs, bc) | P true 3 => (ws, wc, bs, u8 (bc + 255))
          | P false _ => (u8 (ws + 255), wc, bs, bc) | P true _ => (ws, wc, u8 (bs + 255), bc)
          end) sq (ws, wc, bs, bc) in
      let stk := fold_left (fun (a : N * nat) (pp : pc) =>
                   let '(v, j) := a in
                   match pp with P true _ => (if (j =? 0)%nat then v else N.lor v (shl64 1 (N.of_nat (j - 1))), S j) | _ => (v, S j) end)
                 sq (0, 0%nat) in
      let hs := updN hs i (u8 (N.of_nat (length sq))) in
      let st := updN st i (fst stk) in
      (w, b, s, c, ws, wc, bs, bc, hs, st, N.lxor h (hash_at (hash_sq basis) hs st (N.of_nat i)))
    end in
  let dp := u8 (cfg_pieces sz stones) in let dc := u8 (cfg_caps sz caps) in         (* whiteStones: byte(g.Pieces), ... *)
  let init := (0, 0, 0, 0, dp, dc, dp, dc, repeat 0 (n * n), repeat 0 (n * n), fnvBasis) in
  let '(w, b, s, c, ws, wc, bs, bc, hs, st, h) := fold_left step (combine (seq 0 (n * n)) cells) init in
  {| size := sz; black_wins_ties := bwt; whiteStones := ws; whiteCaps := wc; blackStones := bs; blackCaps := bc;
     Move.move := mv; White := w; Black := b; Standing := s; Caps := c; Height := hs; Stacks := st; hash := h |}.

Lemma default_pieces_u8 n : u8 (nth n default_pieces 0) = nth n default_pieces 0.
Proof. do 9 (destruct n as [|n]; [reflexivity|]). destruct n; reflexivity. Qed.
Lemma default_caps_u8 n : u8 (nth n default_caps 0) = nth n default_caps 0.
Proof. do 9 (destruct n as [|n]; [reflexivity|]). destruct n; reflexivity. Qed.

Lemma cfg_pieces_zero sz : u8 (cfg_pieces sz 0) = nth (N.to_nat sz) default_pieces 0.
Proof. unfold cfg_pieces. rewrite N.eqb_refl. apply default_pieces_u8. Qed.
Lemma cfg_caps_zero sz : u8 (cfg_caps sz 0) = nth (N.to_nat sz) default_caps 0.
Proof. unfold cfg_caps. rewrite N.eqb_refl. apply default_caps_u8. Qed.
Lemma cfg_pieces_default sz : u8 (cfg_pieces sz (nth (N.to_nat sz) default_pieces 0)) = nth (N.to_nat sz) default_pieces 0.
Proof. unfold cfg_pieces. destruct (_ =? 0); apply default_pieces_u8. Qed.
Lemma cfg_caps_default sz : u8 (cfg_caps sz (nth (N.to_nat sz) default_caps 0)) = nth (N.to_nat sz) default_caps 0.
Proof. unfold cfg_caps. destruct (_ =? 0); apply default_caps_u8. Qed.

(* Tps.from_squares is FromSquares at tak.Config{Size: sz} ... *)
Lemma from_squares_zero sz board mv : from_squares basis sz board mv = from_squares_cfg sz 0 0 false board mv.
Proof. unfold from_squares_cfg. rewrite cfg_pieces_zero, cfg_caps_zero. reflexivity. Qed.

(* ... and at the default counts written out (the Config() of a position built by tak.New(Config{Size: sz})) *)
Lemma from_squares_default sz board mv :
  from_squares basis sz board mv =
  from_squares_cfg sz (nth (N.to_nat sz) default_pieces 0) (nth (N.to_nat sz) default_caps 0) false board mv.
Proof. unfold from_squares_cfg. rewrite cfg_pieces_default, cfg_caps_default. reflexivity. Qed.
End T.
