(* EvalTotal.v: the built-in evaluator never panics on a position whose game is not over (C04: "without crashing"; the premise of
   MctsFacts5.getmove_no_panic).  The only panics of ai/evaluate.go's evaluate are the index ws[Groups+w] / ws[Groups+h] in
   scoreGroups, where (w, h) = bitboard.Dimensions(group): Dimensions walks a column mask from the left edge rightwards by shifts
   of one bit; past the right edge the shifted mask re-enters the board on the left, one row lower, so a group that touches BOTH
   the left and the right edge is measured wider than the board - up to 64 wide, index Groups+64 of a 36-element array.  Such a
   group is a road, the game is over and evaluate takes the terminal branch.  For every other group w <= size and h <= size. *)
From Coq Require Import NArith ZArith Arith List Bool Lia ZifyN ZifyBool ZifyNat.
Require Import Board Flood Masks LowBit Conn Move GameOver Groups1 Groups2 Groups3 GameOverFacts1 GameOverFacts2 GameOverFacts4 Eval.
Import ListNotations.
Open Scope N_scope.

(* ---- the two loops of Dimensions ---- *)
Lemma count_run_le bits sh : forall fuel b n t0,
  N.land bits (N.shiftr b (N.of_nat t0 * sh)) = 0 -> (count_run fuel bits b sh n <= n + t0)%nat.
Proof.
  induction fuel as [|f IH]; intros b n t0 H; cbn [count_run]; [lia|].
  destruct (negb (b =? 0) && negb (N.land bits b =? 0)) eqn:E; [|lia].
  apply andb_true_iff in E. destruct E as [_ E]. apply negb_true_iff, N.eqb_neq in E.
  destruct t0 as [|t1]; [change (N.of_nat 0) with 0 in H; rewrite N.mul_0_l, N.shiftr_0_r in H; contradiction|].
  specialize (IH (N.shiftr b sh) (S n) t1). rewrite N.shiftr_shiftr in IH.
  replace (sh + N.of_nat t1 * sh) with (N.of_nat (S t1) * sh) in IH by lia. specialize (IH H). lia.
Qed.

Lemma skip_empty_some bits sh : forall fuel b j, (j < fuel)%nat ->
  N.land bits (N.shiftr b (N.of_nat j * sh)) <> 0 ->
  exists j0, (j0 <= j)%nat /\ skip_empty fuel bits b sh = Some (N.shiftr b (N.of_nat j0 * sh)) /\
             N.land bits (N.shiftr b (N.of_nat j0 * sh)) <> 0 /\
             forall i, (i < j0)%nat -> N.land bits (N.shiftr b (N.of_nat i * sh)) = 0.
Proof.
  induction fuel as [|f IH]; intros b j Hj H; [lia|]. cbn [skip_empty].
  destruct (N.land bits b =? 0) eqn:E.
  - apply N.eqb_eq in E. destruct j as [|j1]; [change (N.of_nat 0) with 0 in H; rewrite N.mul_0_l, N.shiftr_0_r in H; contradiction|].
    destruct (IH (N.shiftr b sh) j1 ltac:(lia)) as (j0 & L & S1 & S2 & S3).
    { rewrite N.shiftr_shiftr. replace (sh + N.of_nat j1 * sh) with (N.of_nat (S j1) * sh) by lia. exact H. }
    exists (S j0). rewrite N.shiftr_shiftr in S1, S2. replace (sh + N.of_nat j0 * sh) with (N.of_nat (S j0) * sh) in S1, S2 by lia.
    split; [lia|]. split; [exact S1|]. split; [exact S2|]. intros i Hi. destruct i as [|i1]; [change (N.of_nat 0) with 0; rewrite N.mul_0_l, N.shiftr_0_r; exact E|].
    specialize (S3 i1 ltac:(lia)). rewrite N.shiftr_shiftr in S3. replace (sh + N.of_nat i1 * sh) with (N.of_nat (S i1) * sh) in S3 by lia. exact S3.
  - apply N.eqb_neq in E. exists 0%nat. change (N.of_nat 0) with 0. rewrite N.mul_0_l, N.shiftr_0_r. split; [lia|]. split; [reflexivity|]. split; [exact E|]. intros i Hi; lia.
Qed.

Lemma land_sub_zero bits x y : N.land bits x = 0 -> N.land y x = y -> N.land bits y = 0.
Proof. intros H1 H2. rewrite <- H2. rewrite N.land_assoc, (N.land_comm bits y), <- N.land_assoc, H1. apply N.land_0_r. Qed.

Section Dim.
Variable s : N.
Hypothesis Hs : 3 <= s <= 8.
Let c := precompute s.
Ltac sizes := assert (s = 3 \/ s = 4 \/ s = 5 \/ s = 6 \/ s = 7 \/ s = 8) as Hcase by lia;
              destruct Hcase as [->|[->|[->|[->|[->| ->]]]]].

(* the board is the union of the s columns L>>j and of the s rows T>>(s*j) *)
Definition cols (n : nat) : N := fold_right (fun j acc => N.lor (N.shiftr (cL c) (N.of_nat j * 1)) acc) 0 (seq 0 n).
Definition rows (n : nat) : N := fold_right (fun j acc => N.lor (N.shiftr (cT c) (N.of_nat j * s)) acc) 0 (seq 0 n).
Lemma cols_mask : cols (N.to_nat s) = cMask c.
Proof. try unfold cols; try unfold rows; unfold c. sizes; vm_compute; reflexivity. Qed.
Lemma rows_mask : rows (N.to_nat s) = cMask c.
Proof. try unfold cols; try unfold rows; unfold c. sizes; vm_compute; reflexivity. Qed.
Lemma L_to_R : N.shiftr (cL c) (N.of_nat (N.to_nat s - 1) * 1) = cR c.
Proof. try unfold cols; try unfold rows; unfold c. sizes; vm_compute; reflexivity. Qed.
Lemma L_wrap : N.land (N.shiftr (cL c) (N.of_nat (N.to_nat s) * 1)) (cL c) = N.shiftr (cL c) (N.of_nat (N.to_nat s) * 1).
Proof. try unfold cols; try unfold rows; unfold c. sizes; vm_compute; reflexivity. Qed.
Lemma T_out : N.shiftr (cT c) (N.of_nat (N.to_nat s) * s) = 0.
Proof. try unfold cols; try unfold rows; unfold c. sizes; vm_compute; reflexivity. Qed.
Lemma size_c : Size c = s.
Proof. reflexivity. Qed.

Lemma hit_in_fold (f : nat -> N) bits : forall l, N.land bits (fold_right (fun j acc => N.lor (f j) acc) 0 l) <> 0 ->
  exists j, In j l /\ N.land bits (f j) <> 0.
Proof.
  induction l as [|j l IH]; cbn [fold_right]; intros H; [rewrite N.land_0_r in H; contradiction|].
  rewrite N.land_lor_distr_r in H. destruct (N.eq_dec (N.land bits (f j)) 0) as [E|E].
  - rewrite E, N.lor_0_l in H. destruct (IH H) as (k & K1 & K2). exists k. split; [right; exact K1|exact K2].
  - exists j. split; [left; reflexivity|exact E].
Qed.

Theorem dimensions_ok bits : bits <> 0 -> N.land bits (cMask c) = bits ->
  (N.land bits (cL c) = 0 \/ N.land bits (cR c) = 0) ->
  exists wd ht, dimensions c bits = Some (wd, ht) /\ (wd <= N.to_nat s)%nat /\ (ht <= N.to_nat s)%nat.
Proof.
  intros Hne Hm HLR. unfold dimensions. destruct (N.eqb_spec bits 0) as [E|_]; [contradiction|].
  assert (Hs' : (N.to_nat s < 65)%nat) by lia.
  (* columns *)
  assert (HC : N.land bits (cols (N.to_nat s)) <> 0) by (rewrite cols_mask, Hm; exact Hne).
  destruct (hit_in_fold (fun j => N.shiftr (cL c) (N.of_nat j * 1)) bits _ HC) as (j & Hj & Hhit). apply in_seq in Hj.
  destruct (skip_empty_some bits 1 65 (cL c) j ltac:(lia) Hhit) as (j0 & L0 & S1 & S2 & S3). rewrite S1.
  (* rows *)
  assert (HR : N.land bits (rows (N.to_nat s)) <> 0) by (rewrite rows_mask, Hm; exact Hne).
  destruct (hit_in_fold (fun j => N.shiftr (cT c) (N.of_nat j * s)) bits _ HR) as (k & Hk & Khit). apply in_seq in Hk.
  rewrite size_c.
  destruct (skip_empty_some bits s 65 (cT c) k ltac:(lia) Khit) as (k0 & L1 & R1 & R2 & R3). rewrite R1.
  eexists _, _. split; [reflexivity|]. split.
  - (* width *)
    destruct (N.eq_dec (N.land bits (cL c)) 0) as [EL|EL].
    + (* not on the left edge: the walk stops at the latest where the mask wraps *)
      pose proof (count_run_le bits 1 65 (N.shiftr (cL c) (N.of_nat j0 * 1)) 0 (N.to_nat s - j0)) as B.
      rewrite N.shiftr_shiftr in B.
      replace (N.of_nat j0 * 1 + N.of_nat (N.to_nat s - j0) * 1) with (N.of_nat (N.to_nat s) * 1) in B by lia.
      specialize (B (land_sub_zero bits (cL c) _ EL L_wrap)). lia.
    + (* on the left edge: the first column hit is the left edge itself, and the right edge is a miss *)
      assert (j0 = 0)%nat.
      { destruct j0 as [|j1]; [reflexivity|]. exfalso. specialize (S3 0%nat ltac:(lia)). change (N.of_nat 0) with 0 in S3. rewrite N.mul_0_l, N.shiftr_0_r in S3. contradiction. }
      subst j0. destruct HLR as [HL|HR']; [contradiction|].
      pose proof (count_run_le bits 1 65 (N.shiftr (cL c) (N.of_nat 0 * 1)) 0 (N.to_nat s - 1)) as B.
      rewrite N.shiftr_shiftr in B. replace (N.of_nat 0 * 1 + N.of_nat (N.to_nat s - 1) * 1) with (N.of_nat (N.to_nat s - 1) * 1) in B by lia.
      rewrite L_to_R in B. specialize (B HR'). lia.
  - (* height: the row mask leaves the board after s steps *)
    pose proof (count_run_le bits s 65 (N.shiftr (cT c) (N.of_nat k0 * s)) 0 (N.to_nat s - k0)) as B.
    rewrite N.shiftr_shiftr in B.
    replace (N.of_nat k0 * s + N.of_nat (N.to_nat s - k0) * s) with (N.of_nat (N.to_nat s) * s) in B by lia.
    rewrite T_out, N.land_0_r in B. specialize (B eq_refl). lia.
Qed.
End Dim.
Print Assumptions dimensions_ok.

(* ---- scoreGroups ---- *)
Definition group_ok (s : N) (g : N) : Prop :=
  let c := precompute s in g <> 0 /\ N.land g (cMask c) = g /\ (N.land g (cL c) = 0 \/ N.land g (cR c) = 0).

Lemma score_groups_total s w other : 3 <= s <= 8 -> forall gs, Forall (group_ok s) gs ->
  exists v, score_groups (precompute s) gs w other = Ok v.
Proof.
  intros Hs gs HG. unfold score_groups.
  match goal with |- context [fold_left ?f gs ?a0] => set (step := f) end.
  assert (F : forall l acc, Forall (group_ok s) l -> exists r, fold_left step l (Ok acc) = Ok r).
  { induction l as [|g l IH]; intros acc HF; cbn [fold_left]; [eauto|].
    inversion HF as [|? ? (G1 & G2 & G3) HF']; subst.
    destruct (dimensions_ok s Hs g G1 G2 G3) as (wd & ht & ED & Hw & Hh).
    destruct acc as [sc allg]. unfold step at 2. rewrite ED. unfold wt_idx, Groups, MaxFeature.
    destruct (Nat.ltb_spec (14 + wd) 36) as [_|C]; [|lia]. destruct (Nat.ltb_spec (14 + ht) 36) as [_|C]; [|lia].
    apply IH. exact HF'. }
  destruct (F gs (0%Z, 0) HG) as ([sc allg] & E). rewrite E.
  destruct (wt w GroupLiberties =? 0)%Z; eauto.
Qed.

(* ---- evaluate ---- *)
Lemma below_land_mask s g : 3 <= s <= 8 -> below (s * s) g -> N.land g (cMask (precompute s)) = g.
Proof.
  intros Hs Hb. apply N.bits_inj. intros i. rewrite N.land_spec. destruct (N.testbit g i) eqn:E; [|reflexivity].
  pose proof (Hb i E) as Hi. assert (i < 64) by nia.
  destruct (precompute_masks s i Hs ltac:(assumption)) as (_ & _ & _ & _ & M). rewrite M. cbn [andb]. apply N.ltb_lt. exact Hi.
Qed.

Lemma groups_ok s B gs : 3 <= s <= 8 -> below (s * s) B -> groups (precompute s) B = Some gs ->
  Forall (fun g => g <> 0 /\ N.land g (cMask (precompute s)) = g) gs.
Proof.
  intros Hs HB E. destruct (groups_spec s Hs B HB) as (gs' & E' & S1 & _). rewrite E in E'. inversion E'; subst gs'.
  apply Forall_forall. intros g Hg. destruct (S1 g Hg) as (a & Ha & Hbits & _). split.
  - intros Z. pose proof (proj2 (Hbits a) (conn_refl s B a Ha)) as T. rewrite Z, N.bits_0 in T. discriminate.
  - apply below_land_mask; [exact Hs|]. intros i Hi. apply HB. pose proof (proj1 (Hbits i) Hi) as R. unfold conn in R. exact (reach_in_B s B _ i R).
Qed.

Lemma no_span_ok s gs : existsb (spans (precompute s)) gs = false ->
  Forall (fun g => N.land g (cL (precompute s)) = 0 \/ N.land g (cR (precompute s)) = 0) gs.
Proof.
  intros H. apply Forall_forall. intros g Hg.
  assert (S : spans (precompute s) g = false).
  { destruct (spans (precompute s) g) eqn:E; [|reflexivity]. exfalso.
    assert (existsb (spans (precompute s)) gs = true) by (apply existsb_exists; exists g; split; assumption). congruence. }
  unfold spans in S. apply orb_false_iff in S. destruct S as [_ S]. apply andb_false_iff in S.
  destruct S as [S|S]; apply negb_false_iff, N.eqb_eq in S; [left|right]; exact S.
Qed.

Lemma Forall_and {A} (P Q : A -> Prop) l : Forall P l -> Forall Q l -> Forall (fun x => P x /\ Q x) l.
Proof. intros H1 H2. induction H1; inversion H2; subst; constructor; auto. Qed.

(* evaluate on a position whose game is not over, once both group scores are values (equation lemmas in the goal only: the
   kernel must never compare two unfolded copies of evaluate) *)
Lemma evaluate_live_ok w p wg bg x gw gb :
  analyze p = Some (wg, bg) -> game_over p = Some (false, x) ->
  score_groups (precompute (size p)) wg w (N.lor (Move.Black p) (Standing p)) = Ok gw ->
  score_groups (precompute (size p)) bg w (N.lor (White p) (Standing p)) = Ok gb ->
  exists v, evaluate w p = Ok v.
Proof. intros A G E1 E2. unfold evaluate. rewrite A, G, E1, E2. eauto. Qed.

Lemma evaluate_over_ok w p x : game_over p = Some (true, x) -> exists v, evaluate w p = Ok v.
Proof.
  intros G. assert (A : exists wg bg, analyze p = Some (wg, bg)).
  { revert G. unfold game_over. destruct (analyze p) as [[wg bg]|]; [eauto|discriminate]. }
  destruct A as (wg & bg & A). unfold evaluate. rewrite A, G. eauto.
Qed.

Lemma game_over_false_inv p x : game_over p = Some (false, x) ->
  exists wg bg, analyze p = Some (wg, bg) /\ has_road p wg bg = None.
Proof.
  unfold game_over. destruct (analyze p) as [[wg bg]|]; [|discriminate]. destruct (has_road p wg bg) eqn:ER; [discriminate|]. intros _. exists wg, bg. split; [reflexivity|exact ER].
Qed.

Lemma analyze_inv p wg bg : analyze p = Some (wg, bg) ->
  groups (precompute (size p)) (N.ldiff (White p) (Standing p)) = Some wg /\
  groups (precompute (size p)) (N.ldiff (Move.Black p) (Standing p)) = Some bg.
Proof.
  unfold analyze. destruct (groups _ (N.ldiff (White p) _)); [|discriminate]. destruct (groups _ (N.ldiff (Move.Black p) _)); [|discriminate].
  intros E. inversion E. split; reflexivity.
Qed.

Lemma has_road_none_inv p wg bg : has_road p wg bg = None ->
  existsb (spans (precompute (size p))) wg = false /\ existsb (spans (precompute (size p))) bg = false.
Proof.
  unfold has_road. destruct (existsb _ wg); destruct (existsb _ bg); cbn [andb]; try discriminate. split; reflexivity.
Qed.

(* THE THEOREM: on a position satisfying the invariant of C02 whose game is not over, evaluate returns a value, for every weight
   vector (it cannot panic and it cannot hang) *)
Theorem evaluate_total w p : inv p -> (exists x, game_over p = Some (false, x)) -> exists v, evaluate w p = Ok v.
Proof.
  intros I (x & EG). pose proof (inv_size p I) as Hs.
  destruct (game_over_false_inv p x EG) as (wg & bg & EA & ER).
  destruct (analyze_inv p wg bg EA) as (EW & EBk).
  destruct (has_road_none_inv p wg bg ER) as (SW & SB).
  assert (GW : Forall (group_ok (size p)) wg).
  { pose proof (Forall_and _ _ _ (groups_ok _ _ _ Hs (below_ldiff _ _ _ (inv_w p I)) EW) (no_span_ok _ _ SW)) as F.
    eapply Forall_impl; [|exact F]. intros g ((A & B) & C). unfold group_ok. auto. }
  assert (GB : Forall (group_ok (size p)) bg).
  { pose proof (Forall_and _ _ _ (groups_ok _ _ _ Hs (below_ldiff _ _ _ (inv_b p I)) EBk) (no_span_ok _ _ SB)) as F.
    eapply Forall_impl; [|exact F]. intros g ((A & B) & C). unfold group_ok. auto. }
  destruct (score_groups_total (size p) w (N.lor (Move.Black p) (Standing p)) Hs wg GW) as (gw & E1).
  destruct (score_groups_total (size p) w (N.lor (White p) (Standing p)) Hs bg GB) as (gb & E2).
  exact (evaluate_live_ok w p wg bg x gw gb EA EG E1 E2).
Qed.
Print Assumptions evaluate_total.

(* ... and on EVERY position of the invariant, finished or not (a finished game takes the terminal branch) *)
Theorem evaluate_never_panics w p : inv p -> exists v, evaluate w p = Ok v.
Proof.
  intros I. destruct (GameOverFacts4.game_over_iff p I) as (over & x & EG & _).
  destruct over.
  - exact (evaluate_over_ok w p x EG).
  - apply evaluate_total; [exact I|eauto].
Qed.
Print Assumptions evaluate_never_panics.
