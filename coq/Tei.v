(* Tei.v: code-shaped model of tei/server.go (Engine.Run, parsePosition, analyze) of the REPAIRED tree
   (fix commits f938f55 calcBudget/haveClock, 84e634c "TEI engine reports an error instead of crashing").

   The searcher (ai.MinimaxAI behind Engine.mm) is a parameter of the model: a state type [SS], the constructor
   [mk_searcher size] (= ai.NewMinimax(ConfigFactory(size))) and [search mm limit p] (= mm.Analyze(ctx, p), where [limit] is
   the timeout put on the context: None = none).  TeiInst.v instantiates it with the search model of Search.v.
   MinimaxAI.Analyze panics when the searcher was built for another size than the position's; that check is in the model
   ([analyze_mm]), so that "Run never panics" has content.

   Input is a list of bytes (N < 256).  [step] is one iteration of Run's loop on one line, [run] is Run on a list of
   lines, [run_bytes] is Run on a byte stream (a last line without "\n" is dropped, as bufio.ReadString + the EOF test do). *)
From Coq Require Import NArith ZArith List Bool Lia Ascii String.
Require Import Board Move GameOver PtnMove Playtak Tps TeiBudget.
Import ListNotations.
Local Open Scope char_scope.
Local Open Scope N_scope.

Notation res := Move.res.
Notation Ok := Move.Ok. Notation Err := Move.Err. Notation Panic := Move.Panic.

Fixpoint str (s : String.string) : list N := match s with String.EmptyString => [] | String.String c r => N_of_ascii c :: str r end.

(* ---- strings.TrimSpace / strings.Fields: unicode.IsSpace on UTF-8 input ----
   White space = '\t' '\n' '\v' '\f' '\r' ' ' U+0085 U+00A0 U+1680 U+2000..U+200A U+2028 U+2029 U+202F U+205F U+3000.
   The lead bytes C2 E1 E2 E3 are never continuation bytes, so Go's rune decoder is always aligned on them; every other
   byte (also an invalid or incomplete sequence, decoded as U+FFFD of width 1) belongs to a word. *)
Definition ascii_space (c : N) : bool := (c =? 9) || (c =? 10) || (c =? 11) || (c =? 12) || (c =? 13) || (c =? 32).
Definition space_len (s : list N) : nat :=
  match s with
  | c :: r =>
    if ascii_space c then 1%nat else
    if c =? 194 then (match r with d :: _ => if (d =? 133) || (d =? 160) then 2%nat else 0%nat | [] => 0%nat end) else
    if c =? 225 then (match r with 154 :: 128 :: _ => 3%nat | _ => 0%nat end) else
    if c =? 226 then (match r with
                      | 128 :: d :: _ => if ((128 <=? d) && (d <=? 138)) || (d =? 168) || (d =? 169) || (d =? 175) then 3%nat else 0%nat
                      | 129 :: 159 :: _ => 3%nat
                      | _ => 0%nat end) else
    if c =? 227 then (match r with 128 :: 128 :: _ => 3%nat | _ => 0%nat end) else 0%nat
  | [] => 0%nat
  end.

Definition flush (cur : list N) (k : list (list N)) : list (list N) := match cur with [] => k | _ => rev cur :: k end.
(* [skip] = bytes of the current space rune still to be dropped *)
Fixpoint fields_go (s : list N) (skip : nat) (cur : list N) : list (list N) :=
  match s with
  | [] => flush cur []
  | c :: r =>
    match skip with
    | S k => fields_go r k cur
    | O => match space_len s with
           | O => fields_go r O (c :: cur)
           | S k => flush cur (fields_go r k [])
           end
    end
  end.
Definition fields (s : list N) : list (list N) := fields_go s 0 [].

(* ---- strconv ---- *)
(* strconv.Atoi's value and error flag: syntax error -> 0, out of int64 -> clamped *)
Definition atoi_go (s : list N) : Z * bool :=
  match Playtak.atoi s with
  | Some z => (z, true)
  | None =>
    let '(neg, ds) := match s with
                      | c :: r => if c =? B "+" then (false, r) else if c =? B "-" then (true, r) else (false, s)
                      | [] => (false, []) end in
    match ds with
    | [] => (0%Z, false)
    | _ => match Playtak.digits ds 0%Z with
           | Some _ => ((if neg then - 2 ^ 63 else 2 ^ 63 - 1)%Z, false)       (* digits only, so the failure was the range *)
           | None => (0%Z, false)
           end
    end
  end.

Fixpoint digits_only (s : list N) (acc : N) : option N :=
  match s with [] => Some acc | d :: r => if in_range (B "0") (B "9") d then digits_only r (acc * 10 + (d - B "0")) else None end.
(* strconv.ParseUint(s, 10, 64) *)
Definition parse_uint (s : list N) : option N :=
  match s with [] => None | _ => match digits_only s 0 with Some v => if v <? 2 ^ 64 then Some v else None | None => None end end.

Record targs := { movetime : Z; wtime : Z; btime : Z; winc : Z; binc : Z }.      (* time.Duration: wrapped int64 ns *)
Definition targs0 := {| movetime := 0; wtime := 0; btime := 0; winc := 0; binc := 0 |}.
Definition s_movetime := str "movetime". Definition s_wtime := str "wtime". Definition s_btime := str "btime".
Definition s_winc := str "winc". Definition s_binc := str "binc".
Fixpoint parse_go (ws : list (list N)) (a : targs) : option targs :=
  match ws with
  | [] => Some a
  | [_] => None
  | opt :: arg :: r =>
    let known := bytes_eqb opt s_movetime || bytes_eqb opt s_wtime || bytes_eqb opt s_btime || bytes_eqb opt s_winc || bytes_eqb opt s_binc in
    if negb known then None else
    match parse_uint arg with
    | None => None
    | Some ms_ =>
      let d := wrap64 (1000000 * wrap64 (Z.of_N ms_)) in
      let a := if bytes_eqb opt s_movetime then {| movetime := d; wtime := wtime a; btime := btime a; winc := winc a; binc := binc a |}
               else if bytes_eqb opt s_wtime then {| movetime := movetime a; wtime := d; btime := btime a; winc := winc a; binc := binc a |}
               else if bytes_eqb opt s_btime then {| movetime := movetime a; wtime := wtime a; btime := d; winc := winc a; binc := binc a |}
               else if bytes_eqb opt s_winc then {| movetime := movetime a; wtime := wtime a; btime := btime a; winc := d; binc := binc a |}
               else {| movetime := movetime a; wtime := wtime a; btime := btime a; winc := winc a; binc := d |} in
      parse_go r a
    end
  end.

(* the timeout analyze puts on the context: the clock of the side to move *)
Definition go_limit (white_to_move : bool) (a : targs) : option Z :=
  let '(tm, inc) := if white_to_move then (wtime a, winc a) else (btime a, binc a) in
  if ((0 <? movetime a) || (0 <? tm))%Z then Some (calc_budget_fixed (movetime a) tm inc) else None.

Inductive status := Running | Quit | Failed | Crashed.       (* loop continues / Run returns nil / returns an error / panics *)

Section E.
Variable basis : list N.
Variable SS : Type.
Variable mk_searcher : Z -> SS.
Variable search : SS -> option Z -> position -> SS * (list rmove * Z * Z * Z).      (* pv, value, Stats.Depth, Stats.Visited *)

Record engine := { e_mm : option (Z * SS); e_pos : option position; e_size : Z }.   (* the Z beside the searcher: the size it was built for *)
Definition engine0 := {| e_mm := None; e_pos := None; e_size := 0 |}.              (* NewEngine *)

Definition tmove := move_prealloc (hash_sq basis) true.
Definition to_rmove (m : PtnMove.move) : rmove := {| Move.mX := PtnMove.mX m; Move.mY := PtnMove.mY m; Move.mT := PtnMove.mT m; Move.mS := PtnMove.mS m |}.
Definition of_rmove (m : rmove) : PtnMove.move := {| PtnMove.mX := Move.mX m; PtnMove.mY := Move.mY m; PtnMove.mT := Move.mT m; PtnMove.mS := Move.mS m |}.

(* tak.New(tak.Config{Size: size}) *)
Definition new_pos (sz : Z) : res position :=
  if ((sz <? 0) || (8 <? sz))%Z then Panic                       (* defaultPieces[size] *)
  else if (sz <? 3)%Z then Panic                                  (* alloc: panic("illegal size") *)
  else Ok (from_squares basis (Z.to_N sz) (repeat (repeat [] (Z.to_nat sz)) (Z.to_nat sz)) 0).

Fixpoint apply_moves (p : position) (ws : list (list N)) : res position :=
  match ws with
  | [] => Ok p
  | w :: r => match parse_move w with
              | PtnMove.Ok m => match tmove p (to_rmove m) with Ok q => apply_moves q r | Err => Err | Panic => Panic end
              | PtnMove.Err => Err
              | PtnMove.Panic => Panic
              end
  end.

Definition s_startpos := str "startpos". Definition s_tps := str "tps". Definition s_moves := str "moves".
(* the start position named by words[1..] and the words after it *)
Definition parse_start (size : Z) (w0 : list N) (rest : list (list N)) : res (position * list (list N)) :=
  if bytes_eqb w0 s_startpos then
    if ((size <? 3) || (8 <? size))%Z then Err                                                  (* repair 84e634c *)
    else match new_pos size with Ok p => Ok (p, rest) | Err => Err | Panic => Panic end
  else if bytes_eqb w0 s_tps then
    if (List.length (w0 :: rest) <? 4)%nat then Err else
    match parse_tps basis (nth 0 rest [] ++ [32] ++ nth 1 rest [] ++ [32] ++ nth 2 rest []) with
    | Ok p => if (Z.of_N (Move.size p) =? size)%Z then Ok (p, skipn 3 rest) else Err
    | Err => Err | Panic => Panic
    end
  else Err.

(* parsePosition(size, words); words = "position" :: ws *)
Definition parse_position (size : Z) (ws : list (list N)) : res position :=
  match ws with
  | [] => Err
  | w0 :: rest =>
    match parse_start size w0 rest with
    | Ok (p, more) =>
      match more with
      | [] => Ok p
      | m0 :: ms => if bytes_eqb m0 s_moves then apply_moves p ms else Err
      end
    | Err => Err | Panic => Panic
    end
  end.

(* MinimaxAI.Analyze: panic("Analyze: wrong size") *)
Definition analyze_mm (mm : Z * SS) (limit : option Z) (p : position) : res (SS * (list rmove * Z * Z * Z)) :=
  if (fst mm =? Z.of_N (Move.size p))%Z then Ok (search (snd mm) limit p) else Panic.

Definition fmt_move (m : rmove) : list N := format_move false (of_rmove m).
Definition info_line (pv : list rmove) (v d nodes : Z) : list N :=
  str "info depth " ++ fmt_int d ++ str " time T nodes " ++ fmt_int nodes ++ str " score cp " ++ fmt_int v ++ str " pv" ++
  flat_map (fun m => 32 :: fmt_move m) pv.
Definition bestmove_line (m : rmove) : list N := str "bestmove " ++ fmt_move m.

(* what one `go` did: the position and time limit handed to the searcher, and whether the searcher was built by this go *)
Record goinfo := { g_pos : position; g_limit : option Z; g_fresh : bool }.
Record goresult := { gr_eng : engine; gr_out : list (list N); gr_crashed : bool; gr_go : option goinfo }.

(* Engine.analyze; args = words[1..] *)
Definition do_go (e : engine) (args : list (list N)) : goresult :=
  match e_pos e with
  | None => {| gr_eng := e; gr_out := []; gr_crashed := false; gr_go := None |}                 (* "No position provided" *)
  | Some p =>
    let fresh := match e_mm e with Some _ => false | None => true end in
    let mm := match e_mm e with Some s => s | None => (e_size e, mk_searcher (e_size e)) end in
    let e1 := {| e_mm := Some mm; e_pos := e_pos e; e_size := e_size e |} in
    match parse_go args targs0 with
    | None => {| gr_eng := e1; gr_out := []; gr_crashed := false; gr_go := None |}
    | Some a =>
      let limit := go_limit (to_move_white p) a in
      match analyze_mm mm limit p with
      | Ok (s', (pv, v, d, nodes)) =>
        let e2 := {| e_mm := Some (fst mm, s'); e_pos := e_pos e; e_size := e_size e |} in
        let gi := Some {| g_pos := p; g_limit := limit; g_fresh := fresh |} in
        match pv with
        | [] => {| gr_eng := e2; gr_out := []; gr_crashed := false; gr_go := gi |}             (* repair 84e634c: error, logged *)
        | m :: _ => {| gr_eng := e2; gr_out := [info_line pv v d nodes; bestmove_line m]; gr_crashed := false; gr_go := gi |}
        end
      | _ => {| gr_eng := e1; gr_out := []; gr_crashed := true; gr_go := None |}
      end
    end
  end.

Definition s_tei := str "tei". Definition s_quit := str "quit". Definition s_teinewgame := str "teinewgame".
Definition s_position := str "position". Definition s_go := str "go". Definition s_stop := str "stop". Definition s_isready := str "isready".
Definition tei_banner : list (list N) := [str "id name Taktician"; str "id author Nelson Elhage"; str "teiok"].

Record stepresult := { sr_eng : engine; sr_out : list (list N); sr_status : status; sr_go : option goinfo }.
Definition sr (e : engine) (o : list (list N)) (s : status) : stepresult := {| sr_eng := e; sr_out := o; sr_status := s; sr_go := None |}.

(* one iteration of Run's loop, on one line (without its "\n") *)
Definition step (e : engine) (line : list N) : stepresult :=
  match fields line with
  | [] => sr e [] Running
  | w0 :: args =>
    if bytes_eqb w0 s_tei then sr e tei_banner Running
    else if bytes_eqb w0 s_quit then sr e [] Quit
    else if bytes_eqb w0 s_teinewgame then
      match args with
      | [] => sr {| e_mm := None; e_pos := None; e_size := 5 |} [] Running
      | a :: _ => let '(n, ok) := atoi_go a in
                  let e' := {| e_mm := None; e_pos := None; e_size := n |} in
                  if negb ok || (n <? 3)%Z || (8 <? n)%Z then sr e' [] Failed else sr e' [] Running
      end
    else if bytes_eqb w0 s_position then
      match parse_position (e_size e) args with
      | Ok p => sr {| e_mm := e_mm e; e_pos := Some p; e_size := e_size e |} [] Running
      | Err => sr {| e_mm := e_mm e; e_pos := None; e_size := e_size e |} [] Failed
      | Panic => sr e [] Crashed
      end
    else if bytes_eqb w0 s_go then
      let g := do_go e args in
      {| sr_eng := gr_eng g; sr_out := gr_out g; sr_status := if gr_crashed g then Crashed else Running; sr_go := gr_go g |}
    else if bytes_eqb w0 s_stop then sr e [] Running
    else if bytes_eqb w0 s_isready then sr e [str "readyok"] Running
    else sr e [] Failed
  end.

(* Run on the lines of a stream that then ends: (engine, output, how Run returned, the go's in order) *)
Fixpoint run (lines : list (list N)) (e : engine) : engine * list (list N) * status * list goinfo :=
  match lines with
  | [] => (e, [], Running, [])                                           (* EOF: Run returns nil *)
  | line :: rest =>
    let r := step e line in
    let gs := match sr_go r with Some g => [g] | None => [] end in
    match sr_status r with
    | Running => let '(e', o, s, gs') := run rest (sr_eng r) in (e', sr_out r ++ o, s, gs ++ gs')
    | s => (sr_eng r, sr_out r, s, gs)
    end
  end.

(* the complete "\n"-terminated lines of a byte stream *)
Fixpoint lines_go (s : list N) (cur : list N) : list (list N) :=
  match s with
  | [] => []                                                             (* unterminated rest: ReadString returns io.EOF *)
  | c :: r => if c =? 10 then rev cur :: lines_go r [] else lines_go r (c :: cur)
  end.
Definition lines_of (s : list N) : list (list N) := lines_go s [].
Definition run_bytes (s : list N) (e : engine) := run (lines_of s) e.
End E.

Arguments e_mm {SS}. Arguments e_pos {SS}. Arguments e_size {SS}.
Arguments sr_eng {SS}. Arguments sr_out {SS}. Arguments sr_status {SS}. Arguments sr_go {SS}.
Arguments gr_eng {SS}. Arguments gr_out {SS}. Arguments gr_crashed {SS}. Arguments gr_go {SS}.
