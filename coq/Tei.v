(* Proto/Tei.v (draft): tei/server.go Engine.Run over a list of input lines (ASCII), with the searcher of Search.v *)
From Coq Require Import NArith ZArith List Bool Lia Ascii String.
Require Import Board Move GameOver Eval PtnMove Playtak Tps PtnFile Search TeiBudget.
Import ListNotations.
Local Open Scope char_scope.
Local Open Scope N_scope.

Notation res := Move.res.
Notation Ok := Move.Ok. Notation Err := Move.Err. Notation Panic := Move.Panic.

Definition bs (l : list ascii) : list N := map N_of_ascii l.
Fixpoint str (s : String.string) : list N := match s with String.EmptyString => [] | String.String c r => N_of_ascii c :: str r end.

(* strings.Fields on ASCII input *)
Fixpoint fields_go (s : list N) (cur : list N) : list (list N) :=
  match s with
  | [] => match cur with [] => [] | _ => [rev cur] end
  | c :: r => if is_space c then (match cur with [] => fields_go r [] | _ => rev cur :: fields_go r [] end) else fields_go r (c :: cur)
  end.
Definition fields (s : list N) : list (list N) := fields_go s [].

Record engine := { e_mm : option sstate; e_pos : option position; e_size : Z }.
Inductive status := Running | Quit | Failed | Crashed.

Section E.
Variable basis : list N.
Variable mkcfg : Z -> config.                       (* ConfigFactory *)
Definition tmove := move_prealloc (hash_sq basis) false.

Definition new_pos (sz : Z) : res position := tak_new basis sz.

Fixpoint apply_moves (p : position) (ws : list (list N)) : res position :=
  match ws with
  | [] => Ok p
  | w :: r => match parse_move w with
              | PtnMove.Ok m => match tmove p (to_rmove m) with Ok q => apply_moves q r | Err => Err | Panic => Panic end
              | _ => Err
              end
  end.

Definition parse_position (size : Z) (ws : list (list N)) : res position :=
  match tl ws with
  | [] => Err
  | w0 :: rest =>
    let start : res (position * list (list N)) :=
      if bytes_eqb w0 (str "startpos"%string) then match new_pos size with Ok p => Ok (p, rest) | Err => Err | Panic => Panic end
      else if bytes_eqb w0 (str "tps"%string) then
        if (List.length (w0 :: rest) <? 4)%nat then Err else
        match parse_tps basis (nth 0 rest [] ++ [32] ++ nth 1 rest [] ++ [32] ++ nth 2 rest []) with
        | Ok p => if (Z.of_N (Move.size p) =? size)%Z then Ok (p, skipn 3 rest) else Err
        | Err => Err | Panic => Panic
        end
      else Err in
    match start with
    | Ok (p, more) =>
      match more with
      | [] => Ok p
      | m0 :: ms => if bytes_eqb m0 (str "moves"%string) then apply_moves p ms else Err
      end
    | Err => Err | Panic => Panic
    end
  end.

(* uint64 milliseconds -> time.Duration (int64 ns, wrapping) *)
Fixpoint digits_only (s : list N) (acc : N) : option N :=
  match s with [] => Some acc | d :: r => if in_range (B "0") (B "9") d then digits_only r (acc * 10 + (d - B "0")) else None end.
Definition parse_uint (s : list N) : option N :=
  match s with [] => None | _ => match digits_only s 0 with Some v => if v <? 2 ^ 64 then Some v else None | None => None end end.

Record targs := { movetime : Z; wtime : Z; btime : Z; winc : Z; binc : Z }.
Fixpoint parse_go (ws : list (list N)) (a : targs) : option targs :=
  match ws with
  | [] => Some a
  | [_] => None
  | opt :: arg :: r =>
    let known := bytes_eqb opt (str "movetime"%string) || bytes_eqb opt (str "wtime"%string) || bytes_eqb opt (str "btime"%string) ||
                 bytes_eqb opt (str "winc"%string) || bytes_eqb opt (str "binc"%string) in
    if negb known then None else
    match parse_uint arg with
    | None => None
    | Some ms_ =>
      let d := wrap64 (1000000 * wrap64 (Z.of_N ms_)) in
      let a := if bytes_eqb opt (str "movetime"%string) then {| movetime := d; wtime := wtime a; btime := btime a; winc := winc a; binc := binc a |}
               else if bytes_eqb opt (str "wtime"%string) then {| movetime := movetime a; wtime := d; btime := btime a; winc := winc a; binc := binc a |}
               else if bytes_eqb opt (str "btime"%string) then {| movetime := movetime a; wtime := wtime a; btime := d; winc := winc a; binc := binc a |}
               else if bytes_eqb opt (str "winc"%string) then {| movetime := movetime a; wtime := wtime a; btime := btime a; winc := d; binc := binc a |}
               else {| movetime := movetime a; wtime := wtime a; btime := btime a; winc := winc a; binc := d |} in
      parse_go r a
    end
  end.

Definition fmt_z (z : Z) : list N := fmt_int z.

(* one `go`: output lines, or nothing when the command is refused; Crashed when pv is empty *)
Definition do_go (e : engine) (ws : list (list N)) : engine * list (list N) * bool (* crashed *) :=
  match e_pos e with
  | None => (e, [], false)
  | Some p =>
    let cfg := mkcfg (e_size e) in
    let mm := match e_mm e with Some s => s | None => new_state 0 end in
    let e1 := {| e_mm := Some mm; e_pos := e_pos e; e_size := e_size e |} in
    match parse_go (tl ws) {| movetime := 0; wtime := 0; btime := 0; winc := 0; binc := 0 |} with
    | None => (e1, [], false)
    | Some _ =>
      (* budgets are assumed generous: the deadline never cuts the search (the generator guarantees it) *)
      let '(mm', (pv, v, d, stt, _)) := analyze_search basis cfg mm p in
      let info := str "info depth "%string ++ fmt_z d ++ str " time T nodes "%string ++ fmt_z (s_visited stt) ++ str " score cp "%string ++ fmt_z v ++ str " pv"%string ++
                  flat_map (fun m => 32 :: format_move false {| PtnMove.mX := Move.mX m; PtnMove.mY := Move.mY m; PtnMove.mT := Move.mT m; PtnMove.mS := Move.mS m |}) pv in
      match pv with
      | [] => ({| e_mm := Some mm'; e_pos := e_pos e; e_size := e_size e |}, [info], true)
      | m :: _ => ({| e_mm := Some mm'; e_pos := e_pos e; e_size := e_size e |},
                   [info; str "bestmove "%string ++ format_move false {| PtnMove.mX := Move.mX m; PtnMove.mY := Move.mY m; PtnMove.mT := Move.mT m; PtnMove.mS := Move.mS m |}], false)
      end
    end
  end.

Fixpoint run (lines : list (list N)) (e : engine) (out : list (list N)) : engine * list (list N) * status :=
  match lines with
  | [] => (e, out, Running)                                              (* EOF: Run returns nil *)
  | line :: rest =>
    match fields line with
    | [] => run rest e out
    | w0 :: args =>
      if bytes_eqb w0 (str "tei"%string) then run rest e (out ++ [str "id name Taktician"%string; str "id author Nelson Elhage"%string; str "teiok"%string])
      else if bytes_eqb w0 (str "quit"%string) then (e, out, Quit)
      else if bytes_eqb w0 (str "teinewgame"%string) then
        match args with
        | [] => run rest {| e_mm := None; e_pos := None; e_size := 5 |} out
        | a :: _ => match atoi a with
                    | Some n => if ((n <? 3) || (8 <? n))%Z then ({| e_mm := None; e_pos := None; e_size := n |}, out, Failed)
                                else run rest {| e_mm := None; e_pos := None; e_size := n |} out
                    | None => ({| e_mm := None; e_pos := None; e_size := 0 |}, out, Failed)
                    end
        end
      else if bytes_eqb w0 (str "position"%string) then
        match parse_position (e_size e) (w0 :: args) with
        | Ok p => run rest {| e_mm := e_mm e; e_pos := Some p; e_size := e_size e |} out
        | Err => (e, out, Failed)
        | Panic => (e, out, Crashed)
        end
      else if bytes_eqb w0 (str "go"%string) then
        let '(e', o, crashed) := do_go e (w0 :: args) in
        if crashed then (e', out ++ o, Crashed) else run rest e' (out ++ o)
      else if bytes_eqb w0 (str "stop"%string) then run rest e out
      else if bytes_eqb w0 (str "isready"%string) then run rest e (out ++ [str "readyok"%string])
      else (e, out, Failed)
    end
  end.
End E.
