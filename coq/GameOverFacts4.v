(* C02, part 4: GameOver, WinDetails and ResultFromGame compute the outcome the rules assign to the abstract position. *)
From Coq Require Import NArith ZArith Arith List Bool Lia ZifyN ZifyBool ZifyNat.
Require Import Board Stack Rules Move GameOver Refine RefinePlace RefinePlace2 RefinePlace3
               Slide1 Slide2 Slide3 Slide4 Slide5 Slide6 GameOverFacts1 GameOverFacts2 GameOverFacts3.
Import ListNotations.

(* ---- what the engine's three answers must be, as functions of the outcome the rules assign ---- *)
Definition gcol (c : colour) : gcolor := match c with Rules.White => GWhite | Rules.Black => GBlack end.
Definition outcome_over (o : outcome) : bool := match o with Undecided => false | _ => true end.
Definition outcome_winner (o : outcome) : gcolor := match o with Win c _ => gcol c | _ => GNone end.
Definition outcome_road (o : outcome) : bool := match o with Win _ r => r | _ => false end.
Definition outcome_text (o : outcome) : res result_text :=
  match o with
  | Undecided => Panic                          (* ResultFromGame panics "game is not over" *)
  | Draw => Ok RDraw                            (* "1/2-1/2" *)
  | Win Rules.White r => Ok (RWhite r)          (* "R-0" / "F-0" *)
  | Win Rules.Black r => Ok (RBlack r)          (* "0-R" / "0-F" *)
  end.
Definition outcome_details (P : apos) (o : outcome) : windetails :=
  {| wd_over := outcome_over o; wd_road := outcome_road o; wd_winner := outcome_winner o;
     wd_wflats := N.of_nat (flat_count P Rules.White); wd_bflats := N.of_nat (flat_count P Rules.Black) |}.

(* ---- the rules assign exactly one outcome ---- *)
Lemma Outcome_functional P o1 o2 : Outcome P o1 -> Outcome P o2 -> o1 = o2.
Proof.
  unfold Outcome. intros H1 H2.
  destruct H1 as [(A1 & B1 & ->)|[(A1 & B1 & ->)|[(A1 & B1 & ->)|(A1 & B1 & [(C1 & ->)|(C1 & ->)])]]];
  destruct H2 as [(A2 & B2 & ->)|[(A2 & B2 & ->)|[(A2 & B2 & ->)|(A2 & B2 & [(C2 & ->)|(C2 & ->)])]]];
  try reflexivity; try tauto; congruence.
Qed.

Lemma Outcome_total P : (Road P Rules.White \/ ~ Road P Rules.White) -> (Road P Rules.Black \/ ~ Road P Rules.Black) ->
  exists o, Outcome P o.
Proof.
  intros [W|W] [B|B]; unfold Outcome.
  - eexists; left; eauto.
  - eexists; right; left; eauto.
  - eexists; right; right; left; eauto.
  - destruct (board_full P || out_of_pieces P) eqn:E; eexists; right; right; right; (split; [exact W|split; [exact B|]]).
    + left; split; reflexivity.
    + right; split; reflexivity.
Qed.

(* ---- (e) flats ---- *)
Lemma flats_winner_correct p : inv p ->
  let o := flats_outcome (abs p) in
  flats_winner p = outcome_winner o /\ outcome_over o = true /\ outcome_road o = false.
Proof.
  intros I. unfold flats_winner, flats_outcome. rewrite (count_flats_correct p I).
  change (Rules.black_wins_ties (abs p)) with (Move.black_wins_ties p).
  set (w := flat_count (abs p) Rules.White). set (b := flat_count (abs p) Rules.Black). cbv zeta.
  destruct (Nat.ltb_spec b w) as [L1|L1].
  - replace (N.of_nat b <? N.of_nat w)%N with true by lia. auto.
  - replace (N.of_nat b <? N.of_nat w)%N with false by lia.
    destruct (Nat.ltb_spec w b) as [L2|L2].
    + replace (N.of_nat w <? N.of_nat b)%N with true by lia. auto.
    + replace (N.of_nat w <? N.of_nat b)%N with false by lia. destruct (Move.black_wins_ties p); auto.
Qed.

(* ---- the theorem ---- *)
Theorem game_over_correct p : inv p ->
  exists o,
    Outcome (abs p) o /\ (forall o', Outcome (abs p) o' -> o' = o) /\
    game_over p = Some (outcome_over o, outcome_winner o) /\
    win_details p = Some (outcome_details (abs p) o) /\
    result_from_game (outcome_details (abs p) o) = outcome_text o.
Proof.
  intros I.
  destruct (road_test p I Rules.White) as (wg & Ew & Hw). destruct (road_test p I Rules.Black) as (bg & Eb & Hb).
  change (road_bits p Rules.White) with (N.ldiff (White p) (Standing p)) in Ew.
  change (road_bits p Rules.Black) with (N.ldiff (Move.Black p) (Standing p)) in Eb.
  assert (EA : analyze p = Some (wg, bg)) by (unfold analyze; now rewrite Ew, Eb).
  assert (EC := continue_test p I). assert (EF := flats_winner_correct p I). assert (ECF := count_flats_correct p I).
  cbv zeta in EF. destruct EF as (EF1 & EF2 & EF3).
  assert (Hfun : forall o, Outcome (abs p) o -> Outcome (abs p) o /\ (forall o', Outcome (abs p) o' -> o' = o)).
  { intros o Ho. split; [exact Ho|]. intros o' Ho'. now apply (Outcome_functional (abs p)). }
  unfold win_details, game_over. rewrite EA. unfold has_road. rewrite ECF.
  destruct (existsb (spans (precompute (size p))) wg) eqn:RW; destruct (existsb (spans (precompute (size p))) bg) eqn:RB; cbn [andb].
  - (* both roads: the player who just moved *)
    exists (Win (flip (to_move (abs p))) true).
    assert (Ho : Outcome (abs p) (Win (flip (to_move (abs p))) true)) by (left; repeat split; [apply Hw|apply Hb]; reflexivity).
    destruct (Hfun _ Ho) as [H1 H2]. split; [exact H1|split; [exact H2|]].
    unfold to_move, to_move_white. change (ply (abs p)) with (move p).
    destruct (Z.even (move p)); repeat split; reflexivity.
  - exists (Win Rules.White true).
    assert (Ho : Outcome (abs p) (Win Rules.White true)).
    { right; left. split; [apply Hw; reflexivity|]. split; [|reflexivity]. intros R. apply Hb in R. congruence. }
    destruct (Hfun _ Ho) as [H1 H2]. repeat split; auto.
  - exists (Win Rules.Black true).
    assert (Ho : Outcome (abs p) (Win Rules.Black true)).
    { right; right; left. split; [intros R; apply Hw in R; congruence|]. split; [apply Hb; reflexivity|reflexivity]. }
    destruct (Hfun _ Ho) as [H1 H2]. repeat split; auto.
  - assert (NW : ~ Road (abs p) Rules.White) by (intros R; apply Hw in R; congruence).
    assert (NB : ~ Road (abs p) Rules.Black) by (intros R; apply Hb in R; congruence).
    rewrite EC. destruct (board_full (abs p) || out_of_pieces (abs p)) eqn:E; cbn [negb].
    + exists (flats_outcome (abs p)).
      assert (Ho : Outcome (abs p) (flats_outcome (abs p))).
      { right; right; right. split; [exact NW|]. split; [exact NB|]. left. split; [exact E|reflexivity]. }
      destruct (Hfun _ Ho) as [H1 H2]. split; [exact H1|split; [exact H2|]].
      rewrite EF1. unfold outcome_details. rewrite EF2, EF3. split; [reflexivity|]. split; [reflexivity|].
      unfold result_from_game; cbn [wd_over wd_winner wd_road negb].
      clear -EF2 EF3. revert EF2 EF3. generalize (flats_outcome (abs p)).
      intros [| |[|] r]; cbn [outcome_over outcome_road outcome_winner outcome_text gcol]; intros; try discriminate; subst; reflexivity.
    + exists Undecided.
      assert (Ho : Outcome (abs p) Undecided).
      { right; right; right. split; [exact NW|]. split; [exact NB|]. right. split; [exact E|reflexivity]. }
      destruct (Hfun _ Ho) as [H1 H2]. repeat split; auto.
Qed.
Print Assumptions game_over_correct.

(* ---- readable corollaries ---- *)
Corollary game_over_iff p : inv p ->
  exists over w, game_over p = Some (over, w) /\
    (over = true <-> Road (abs p) Rules.White \/ Road (abs p) Rules.Black \/ board_full (abs p) = true \/ out_of_pieces (abs p) = true) /\
    (over = false -> w = GNone).
Proof.
  intros I. destruct (game_over_correct p I) as (o & Ho & _ & Eg & _). exists (outcome_over o), (outcome_winner o).
  split; [exact Eg|]. unfold Outcome in Ho.
  destruct Ho as [(A & B & ->)|[(A & B & ->)|[(A & B & ->)|(A & B & [(C & ->)|(C & ->)])]]]; cbn [outcome_over outcome_winner].
  - split; [split; auto|discriminate].
  - split; [split; auto|discriminate].
  - split; [split; auto|discriminate].
  - destruct (flats_winner_correct p I) as (_ & -> & _). split; [|discriminate]. split; [intros _|reflexivity].
    apply orb_true_iff in C. tauto.
  - split; [|reflexivity]. split; [discriminate|]. apply orb_false_iff in C. destruct C as [C1 C2].
    intros [R|[R|[R|R]]]; try tauto; congruence.
Qed.

(* the winner named on a road is a colour that has a road; on a double road it is the player who just moved *)
Corollary road_winner p : inv p -> forall d, win_details p = Some d -> wd_road d = true ->
  exists c, wd_winner d = gcol c /\ wd_over d = true /\ Road (abs p) c /\ (Road (abs p) (flip c) -> c = flip (to_move (abs p))).
Proof.
  intros I d Ed Hr. destruct (game_over_correct p I) as (o & Ho & _ & _ & Ew & _). rewrite Ed in Ew. inversion Ew; subst d. clear Ew Ed.
  cbn [outcome_details wd_road wd_winner wd_over] in *. unfold Outcome in Ho.
  destruct Ho as [(A & B & ->)|[(A & B & ->)|[(A & B & ->)|(A & B & [(C & ->)|(C & ->)])]]]; cbn [outcome_road outcome_winner outcome_over] in *.
  - exists (flip (to_move (abs p))). repeat split; auto. destruct (to_move (abs p)); assumption.
  - exists Rules.White. repeat split; auto. intros R. contradiction.
  - exists Rules.Black. repeat split; auto. intros R. contradiction.
  - destruct (flats_winner_correct p I) as (_ & _ & E). congruence.
  - discriminate.
Qed.
Print Assumptions game_over_iff.
Print Assumptions road_winner.

(* read backwards: whatever WinDetails reports is the outcome the rules assign, with the rules' flat counts *)
Definition details_outcome (d : windetails) : outcome :=
  if wd_over d then
    match wd_winner d with GNone => Draw | GWhite => Win Rules.White (wd_road d) | GBlack => Win Rules.Black (wd_road d) end
  else Undecided.

Lemma details_outcome_inv P o : details_outcome (outcome_details P o) = o.
Proof. destruct o as [| |[|] r]; reflexivity. Qed.

Corollary win_details_sound p : inv p -> forall d, win_details p = Some d ->
  Outcome (abs p) (details_outcome d) /\
  wd_wflats d = N.of_nat (flat_count (abs p) Rules.White) /\ wd_bflats d = N.of_nat (flat_count (abs p) Rules.Black) /\
  game_over p = Some (wd_over d, wd_winner d) /\
  result_from_game d = outcome_text (details_outcome d).
Proof.
  intros I d Ed. destruct (game_over_correct p I) as (o & Ho & _ & Eg & Ew & Er). rewrite Ed in Ew. inversion Ew; subst d.
  rewrite details_outcome_inv. repeat split; assumption.
Qed.
Print Assumptions win_details_sound.
