(* Proofs about the Iterator / PositionAtMove model of PtnFile.v: the latch (iterator_stops) and
   position_at_move = the specification walk (position_at_move_spec). *)
From Coq Require Import NArith ZArith List Bool Lia.
Require Import Board Move GameOver PtnMove Playtak Tps PtnFile.
Import ListNotations.

Section It.
Variable basis : list N.
Notation next := (next basis).
Notation pmove := (pmove basis).

(* ---- the latch ---- *)
Lemma next_latched it : it_err it = true \/ it_over it = true -> next it = Ok (false, it).
Proof. intros H. unfold PtnFile.next. destruct (it_err it), (it_over it); try reflexivity. destruct H; discriminate. Qed.

Lemma next_false it it' : next it = Ok (false, it') -> it_err it' = true \/ it_over it' = true.
Proof.
  unfold PtnFile.next. destruct (it_err it || it_over it) eqn:L.
  - intros H; inversion H; subst. apply orb_true_iff in L. exact L.
  - unfold apply_pending. destruct (it_pending it) as [m|].
    + destruct (PtnFile.pmove basis (it_pos it) (to_rmove m)) as [q| |]; try discriminate.
      * destruct (game_over q) as [[[|] c]|]; try discriminate.
        destruct (scan (it_ops (applied it q)) (it_marker (applied it q))) as [[rest mk] [m'|]]; discriminate.
      * intros H; inversion H; subst. left; reflexivity.
    + destruct (scan (it_ops it) (it_marker it)) as [[rest mk] [m'|]]; discriminate.
Qed.

Theorem iterator_stops_fix it it' : next it = Ok (false, it') -> next it' = Ok (false, it').
Proof. intros H. apply next_latched. eapply next_false; eauto. Qed.

(* what sets the latches: an illegal pending move sets err (and Next is false); a pending move that ends the game sets over;
   running out of recorded moves sets over *)
Lemma next_illegal it m : it_err it = false -> it_over it = false -> it_pending it = Some m ->
  pmove (it_pos it) (to_rmove m) = Err -> next it = Ok (false, set_err it).
Proof. intros E O P M. unfold PtnFile.next, apply_pending. rewrite E, O, P. cbn [orb]. rewrite M. reflexivity. Qed.

Lemma next_game_over it m q c : it_err it = false -> it_over it = false -> it_pending it = Some m ->
  pmove (it_pos it) (to_rmove m) = Ok q -> game_over q = Some (true, c) -> next it = Ok (true, set_over (applied it q)).
Proof. intros E O P M G. unfold PtnFile.next, apply_pending. rewrite E, O, P. cbn [orb]. rewrite M, G. reflexivity. Qed.

Fixpoint next_n (k : nat) (it : iter) : res (bool * iter) :=
  match k with O => next it | S k' => match next it with Ok (_, it') => next_n k' it' | Err => Err | Panic => Panic end end.

Theorem iterator_stops it it' : next it = Ok (false, it') -> forall k, next_n k it' = Ok (false, it').
Proof. intros H k. apply iterator_stops_fix in H. induction k; cbn; [exact H|]. rewrite H. exact IHk. Qed.

(* ---- PositionAtMove = the specification walk ---- *)
Definition post (mv : Z) (r : res (position + iter)) : res position :=
  match r with
  | Ok (inl p) => Ok p
  | Ok (inr it) => if it_err it then Err else if (0 <? mv)%Z then Err else Ok (it_pos it)
  | Err => Err | Panic => Panic
  end.

Section W.
Variables (mv : Z) (white : bool).

(* one recorded move of the walk, from the position p under marker mk, followed by the rest of the record *)
Definition walk_move (m : PtnMove.move) (r : list op) (p : position) (mk : Z) : res position :=
  match pmove p (to_rmove m) with
  | Ok q => match game_over q with
            | Some (true, _) => finish mv mk white q
            | Some (false, _) => spec_walk basis r q mk mv white
            | None => Panic end
  | Err => Err | Panic => Panic
  end.

Lemma scan_some os : forall mk rest mk' m, scan os mk = (rest, mk', Some m) ->
  (length rest < length os)%nat /\
  forall p, spec_walk basis os p mk mv white = if hit mv mk' white p then Ok p else walk_move m rest p mk'.
Proof.
  induction os as [|o os IH]; intros mk rest mk' m H; cbn in H; [discriminate|].
  destruct o as [n|m0 md|c|r].
  - destruct (IH _ _ _ _ H) as [L W]. split; [cbn; lia|]. intros p. cbn. apply W.
  - inversion H; subst. split; [cbn; lia|]. intros p. reflexivity.
  - destruct (IH _ _ _ _ H) as [L W]. split; [cbn; lia|]. intros p. cbn. apply W.
  - destruct (IH _ _ _ _ H) as [L W]. split; [cbn; lia|]. intros p. cbn. apply W.
Qed.

Lemma scan_none os : forall mk rest mk', scan os mk = (rest, mk', None) ->
  forall p, spec_walk basis os p mk mv white = finish mv mk' white p.
Proof.
  induction os as [|o os IH]; intros mk rest mk' H p; cbn in H.
  - inversion H; subst. reflexivity.
  - destruct o as [n|m0 md|c|r]; try discriminate; cbn; eapply IH; eauto.
Qed.

Lemma pam_latched f it : it_err it = false -> it_over it = true ->
  post mv (pam_loop basis (S f) it mv white) = if (0 <? mv)%Z then Err else Ok (it_pos it).
Proof. intros E O. cbn [pam_loop]. rewrite next_latched by (right; exact O). cbn. rewrite E. reflexivity. Qed.

Lemma finish_eq f it : it_err it = false -> it_over it = true ->
  post mv (if hit mv (it_marker it) white (it_pos it) then Ok (inl (it_pos it)) else pam_loop basis (S f) it mv white)
  = finish mv (it_marker it) white (it_pos it).
Proof. intros E O. unfold finish. destruct (hit mv (it_marker it) white (it_pos it)); [reflexivity|]. apply pam_latched; assumption. Qed.

(* after the scanning half of Next *)
Lemma pam_scan : forall fuel,
  (forall it m, it_err it = false -> it_over it = false -> it_pending it = Some m -> (length (it_ops it) + 2 <= fuel)%nat ->
     post mv (pam_loop basis fuel it mv white) = walk_move m (it_ops it) (it_pos it) (it_marker it)).
Proof.
  induction fuel as [|f IH]; intros it m E O P F; [lia|].
  cbn [pam_loop]. unfold walk_move.
  destruct (pmove (it_pos it) (to_rmove m)) as [q| |] eqn:M.
  - destruct (game_over q) as [[[|] c]|] eqn:G.
    + rewrite (next_game_over it m q c E O P M G).
      destruct f as [|f']; [lia|].
      apply (finish_eq f' (set_over (applied it q))); [exact E|reflexivity].
    + unfold PtnFile.next, apply_pending. rewrite E, O, P. cbn [orb]. rewrite M, G.
      change (it_ops (applied it q)) with (it_ops it). change (it_marker (applied it q)) with (it_marker it).
      change (it_pos (applied it q)) with q.
      destruct (scan (it_ops it) (it_marker it)) as [[rest mk'] [m'|]] eqn:S.
      * destruct (scan_some _ _ _ _ _ S) as [L W]. rewrite W. cbn [it_marker it_pos].
        destruct (hit mv mk' white q); [reflexivity|]. cbn [post].
        rewrite IH with (m := m'); try reflexivity. cbn [it_ops]. lia.
      * rewrite (scan_none _ _ _ _ S).
        destruct f as [|f']; [lia|].
        apply (finish_eq f' {| it_ops := rest; it_pos := q; it_marker := mk'; it_pending := None; it_over := true; it_err := false |}); reflexivity.
    + unfold PtnFile.next, apply_pending. rewrite E, O, P. cbn [orb]. rewrite M, G. reflexivity.
  - rewrite (next_illegal it m E O P M). reflexivity.
  - unfold PtnFile.next, apply_pending. rewrite E, O, P. cbn [orb]. rewrite M. reflexivity.
Qed.

Lemma pam_start g p0 :
  post mv (pam_loop basis (S (S (length (ops g)))) (iterator g p0) mv white) = spec_walk basis (ops g) p0 0 mv white.
Proof.
  remember (S (length (ops g))) as f eqn:Hf.
  cbn [pam_loop]. unfold PtnFile.next, apply_pending. cbn [iterator it_err it_over it_pending orb it_ops it_marker it_pos].
  destruct (scan (ops g) 0) as [[rest mk'] [m'|]] eqn:S.
  - destruct (scan_some _ _ _ _ _ S) as [L W]. rewrite W. cbn [it_marker it_pos].
    destruct (hit mv mk' white p0); [reflexivity|]. cbn [post].
    rewrite pam_scan with (m := m'); try reflexivity. cbn [it_ops]. lia.
  - rewrite (scan_none _ _ _ _ S).
    subst f. apply (finish_eq (length (ops g)) {| it_ops := rest; it_pos := p0; it_marker := mk'; it_pending := None; it_over := true; it_err := false |}); reflexivity.
Qed.
End W.

Theorem position_at_move_spec g mv color : position_at_move basis g mv color = spec_position_at basis g mv color.
Proof.
  unfold position_at_move, spec_position_at.
  assert (K : forall w, match initial_position basis g with
            | Ok p0 => match pam_loop basis (S (S (length (ops g)))) (iterator g p0) mv w with
                       | Ok (inl p) => Ok p
                       | Ok (inr it) => if it_err it then Err else if (0 <? mv)%Z then Err else Ok (it_pos it)
                       | Err => Err | Panic => Panic end
            | Err => Err | Panic => Panic end =
          match initial_position basis g with
          | Ok p0 => spec_walk basis (ops g) p0 0 mv w | Err => Err | Panic => Panic end).
  { intros w. destruct (initial_position basis g) as [p0| |]; [|reflexivity|reflexivity].
    rewrite <- (pam_start mv w g p0). reflexivity. }
  destruct color as [w|]; cbv beta iota.
  - rewrite K. destruct (mv =? 0)%Z; reflexivity.
  - destruct (mv =? 0)%Z; cbn [negb]; [|reflexivity]. apply K.
Qed.
End It.
