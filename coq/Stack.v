From Coq Require Import NArith Arith List Lia Bool ZifyN ZifyBool ZifyNat.
Import ListNotations.
Open Scope N_scope.

(* bits k x = [bit 0; ...; bit (k-1)] *)
Definition bits (k : nat) (x : N) : list bool := map (fun i => N.testbit x (N.of_nat i)) (seq 0 k).

Lemma bits_length k x : length (bits k x) = k.
Proof. unfold bits. now rewrite map_length, seq_length. Qed.

Lemma nth_bits k x i d : (i < k)%nat -> nth i (bits k x) d = N.testbit x (N.of_nat i).
Proof.
  intros H. unfold bits.
  rewrite nth_indep with (d' := (fun i => N.testbit x (N.of_nat i)) 0%nat) by (rewrite map_length, seq_length; lia).
  rewrite (map_nth (fun i => N.testbit x (N.of_nat i))), seq_nth by lia. reflexivity.
Qed.

Lemma nth_skipn {A} : forall n (l : list A) i d, nth i (skipn n l) d = nth (n + i) l d.
Proof. induction n as [|n IH]; intros [|x l] i d; simpl; auto. destruct i; reflexivity. Qed.

Lemma list_ext {A} (l1 l2 : list A) d : length l1 = length l2 ->
  (forall i, (i < length l1)%nat -> nth i l1 d = nth i l2 d) -> l1 = l2.
Proof. intros. eapply nth_ext; eauto. Qed.

(* the carried stack: S<<1 | top *)
Definition b2n (b : bool) : N := if b then 1 else 0.

Lemma carry_bits h s top :
  bits (S h) (N.lor (N.shiftl s 1) (b2n top)) = top :: bits h s.
Proof.
  apply (list_ext _ _ false); [rewrite bits_length; cbn [length]; now rewrite bits_length|].
  intros i Hi. rewrite bits_length in Hi. rewrite nth_bits by lia.
  rewrite N.lor_spec. destruct i as [|i]; cbn [nth].
  - rewrite N.shiftl_spec_low by lia. destruct top; reflexivity.
  - rewrite nth_bits by lia. rewrite N.shiftl_spec_high' by lia.
    replace (N.of_nat (S i) - 1) with (N.of_nat i) by lia.
    assert (Ht : N.testbit (b2n top) (N.of_nat (S i)) = false).
    { destruct top; cbn [b2n]; [|apply N.bits_0]. apply N.bits_above_log2. cbn. lia. }
    rewrite Ht. apply orb_false_r.
Qed.

(* shifting right drops from the top *)
Lemma shiftr_bits k ct x : bits k (N.shiftr x (N.of_nat ct)) = skipn ct (bits (ct + k) x).
Proof.
  apply (list_ext _ _ false); [rewrite skipn_length, !bits_length; lia|].
  intros i Hi. rewrite bits_length in Hi. rewrite nth_bits by lia.
  rewrite nth_skipn, nth_bits by lia. rewrite N.shiftr_spec'. f_equal. lia.
Qed.

(* the drop: c pieces (c>=1) taken from the bottom of the remaining carry ct, placed on a destination
   whose full colour list (top first) is bits hd dfull where dfull = (Sd<<1|topd), or empty when hd = 0 *)
Definition drop_mask (stack : N) (ct c : nat) : N :=
  N.land (N.shiftr stack (N.of_nat (ct - (c - 1)))) (N.ones (N.of_nat (c - 1))).

Lemma drop_bits stack ct c hd dfull : (1 <= c <= ct)%nat ->
  bits (c - 1 + hd) (N.lor (N.shiftl dfull (N.of_nat (c - 1))) (drop_mask stack ct c))
  = skipn (ct - c + 1) (bits ct stack) ++ bits hd dfull.
Proof.
  intros Hc.
  apply (list_ext _ _ false).
  { rewrite app_length, skipn_length, !bits_length. lia. }
  intros i Hi. rewrite bits_length in Hi. rewrite nth_bits by lia.
  unfold drop_mask. rewrite N.lor_spec, N.land_spec, N.shiftr_spec'.
  destruct (Nat.ltb_spec i (c - 1)) as [Hlt|Hge].
  - rewrite N.shiftl_spec_low by lia. rewrite N.ones_spec_low by lia. rewrite andb_true_r. simpl.
    rewrite app_nth1 by (rewrite skipn_length, bits_length; lia).
    rewrite nth_skipn, nth_bits by lia. f_equal. lia.
  - rewrite N.ones_spec_high by lia. rewrite andb_false_r, orb_false_r.
    rewrite N.shiftl_spec_high' by lia.
    rewrite app_nth2 by (rewrite skipn_length, bits_length; lia).
    rewrite skipn_length, bits_length, nth_bits by lia. f_equal. lia.
Qed.
Print Assumptions drop_bits.
