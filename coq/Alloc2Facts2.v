(* C09, refined model, part 2: MovePreallocated in place = the value-level move.
   If the destination's Height/Stacks headers are valid slices of two different arrays that hold a copy of the
   source's Height/Stacks (what alloc and copyPosition establish), then the cell-by-cell transcription
   `move_in_place` fails exactly when `Alloc.amv` (= Move.move_prealloc, or Pass) fails, and otherwise leaves in the
   destination's arrays exactly the Height/Stacks of the successor value and returns its scalars; it writes no
   array other than the destination's two. *)
From Coq Require Import NArith ZArith List Bool Lia Arith.
Require Import Board Move GameOver Alloc AllocFacts Alloc2 Alloc2Facts.
Import ListNotations.

Lemma idx_ok_lt {A} (l : list A) i a : idx l i = Ok a -> (N.to_nat i < length l)%nat.
Proof.
  unfold idx. destruct (i <? N.of_nat (length l))%N eqn:E; [|discriminate]. intros _. apply N.ltb_lt in E. lia.
Qed.

Section Sim.
Variable hsq : N -> N -> N -> N.
Variables nhh nsh : sref.
Hypothesis Hne : r_arr nhh <> r_arr nsh.

Definition reads (arrs : heap) (hs st : list N) : Prop :=
  valid arrs nhh /\ valid arrs nsh /\ read_ref arrs nhh = hs /\ read_ref arrs nsh = st.
Definition dst (a : nat) : Prop := a = r_arr nhh \/ a = r_arr nsh.

Lemma wr_h_reads arrs hs st i vh : reads arrs hs st -> (i < length hs)%nat ->
  reads (wr arrs nhh i vh) (updN hs i vh) st /\ keeps arrs (wr arrs nhh i vh) dst /\ length (wr arrs nhh i vh) = length arrs.
Proof.
  intros (V1 & V2 & E1 & E2) Hi.
  assert (Hi' : (i < r_len nhh)%nat) by (rewrite <- (read_ref_length _ _ V1), E1; exact Hi).
  destruct (wr_spec arrs nhh i vh V1 Hi') as (K & L & R).
  split; [|split; [|exact L]].
  - split; [eapply keeps_valid; eassumption|]. split; [eapply keeps_valid; eassumption|].
    split; [rewrite R, E1, updN_set_nth; reflexivity|].
    rewrite (keeps_read _ _ _ _ K V2) by (intro E; apply Hne; exact E). exact E2.
  - eapply keeps_weaken; [exact K|]. intros x _ <-. left. reflexivity.
Qed.

Lemma wr_s_reads arrs hs st i vs : reads arrs hs st -> (i < length st)%nat ->
  reads (wr arrs nsh i vs) hs (updN st i vs) /\ keeps arrs (wr arrs nsh i vs) dst /\ length (wr arrs nsh i vs) = length arrs.
Proof.
  intros (V1 & V2 & E1 & E2) Hi.
  assert (Hi' : (i < r_len nsh)%nat) by (rewrite <- (read_ref_length _ _ V2), E2; exact Hi).
  destruct (wr_spec arrs nsh i vs V2 Hi') as (K & L & R).
  split; [|split; [|exact L]].
  - split; [eapply keeps_valid; eassumption|]. split; [eapply keeps_valid; eassumption|].
    split; [|rewrite R, E2, updN_set_nth; reflexivity].
    rewrite (keeps_read _ _ _ _ K V1) by (intro E; apply Hne; symmetry; exact E). exact E1.
  - eapply keeps_weaken; [exact K|]. intros x _ <-. right. reflexivity.
Qed.

Lemma wr2_reads arrs hs st i vh vs : reads arrs hs st -> (i < length hs)%nat -> (i < length st)%nat ->
  reads (wr (wr arrs nsh i vs) nhh i vh) (updN hs i vh) (updN st i vs) /\
  keeps arrs (wr (wr arrs nsh i vs) nhh i vh) dst /\ length (wr (wr arrs nsh i vs) nhh i vh) = length arrs.
Proof.
  intros R Hh Hs. destruct (wr_s_reads arrs hs st i vs R Hs) as (R1 & K1 & L1).
  destruct (wr_h_reads _ _ _ i vh R1 Hh) as (R2 & K2 & L2).
  split; [exact R2|]. split; [eapply keeps_trans; eassumption|lia].
Qed.

Definition sc_of (b : bstate) : bsc := {| cw := bw b; cb := bb b; cs := bs b; cc := bc b; chs := bh b |}.

(* the outcome of the in-place version against the outcome of the value version *)
Definition sim_b (arrs arrs' : heap) (r2 : res bsc) (r1 : res bstate) : Prop :=
  keeps arrs arrs' dst /\ length arrs' = length arrs /\
  match r1 with
  | Ok b' => r2 = Ok (sc_of b') /\ reads arrs' (bhs b') (bst b')
  | Err => r2 = Err
  | Panic => r2 = Panic
  end.

Lemma sim_b_fail arrs r2 r1 : match r1 with Ok _ => False | Err => r2 = Err | Panic => r2 = Panic end -> sim_b arrs arrs r2 r1.
Proof. intro H. split; [apply keeps_refl|]. split; [reflexivity|]. destruct r1; [contradiction|exact H|exact H]. Qed.

Lemma drop_at2_sim topk stack ct cN i arrs b : reads arrs (bhs b) (bst b) ->
  sim_b arrs (fst (drop_at2 hsq topk stack ct cN i nhh nsh arrs (sc_of b)))
             (snd (drop_at2 hsq topk stack ct cN i nhh nsh arrs (sc_of b)))
             (drop_at hsq topk stack ct cN i b).
Proof.
  intros R. pose proof R as (V1 & V2 & E1 & E2).
  unfold drop_at2, drop_at, rbind, bind. cbn [sc_of cw cb cs cc chs].
  destruct (if has (bc b) i then Err else
            if has (bs b) i then (if negb (ct =? 1)%N || negb (match topk with KCap => true | _ => false end) then Err else Ok (clrb (bs b) i))
            else Ok (bs b)) as [s| |]; cbn [fst snd]; try (apply sim_b_fail; reflexivity).
  rewrite (rd_idx _ _ _ V1), (rd_idx _ _ _ V2), E1, E2.
  destruct (idx (bhs b) i) as [hi| |] eqn:Ehi; cbn [fst snd]; try (apply sim_b_fail; reflexivity).
  destruct (idx (bst b) i) as [sti| |] eqn:Esti; cbn [fst snd]; try (apply sim_b_fail; reflexivity).
  apply idx_ok_lt in Ehi. apply idx_ok_lt in Esti.
  match goal with |- context [wr (wr arrs nsh _ ?x) nhh _ ?y] =>
    destruct (wr2_reads arrs (bhs b) (bst b) (N.to_nat i) y x R Ehi Esti) as (R2 & K2 & L2) end.
  pose proof R2 as (_ & _ & F1 & F2). rewrite F1, F2.
  destruct (if (ct - cN =? 0)%N then match topk with KCap => (setb (bc b) i, s) | KStanding => (bc b, setb s i) | _ => (bc b, s) end
            else (bc b, s)) as [c s']. cbn [fst snd].
  split; [exact K2|]. split; [exact L2|]. cbn [bhs bst sc_of bw bb bs bc bh]. split; [reflexivity|exact R2].
Qed.

Lemma sim_b_step arrs arrs1 arrs2 r2 r1 : keeps arrs arrs1 dst -> length arrs1 = length arrs -> sim_b arrs1 arrs2 r2 r1 -> sim_b arrs arrs2 r2 r1.
Proof.
  intros K L (K' & L' & H). split; [eapply keeps_trans; eassumption|]. split; [lia|exact H].
Qed.

Lemma drops2_sim p topk stack dx dy ds : forall x y ct arrs b, reads arrs (bhs b) (bst b) ->
  sim_b arrs (fst (drops2 hsq p topk stack dx dy x y ct ds nhh nsh arrs (sc_of b)))
             (snd (drops2 hsq p topk stack dx dy x y ct ds nhh nsh arrs (sc_of b)))
             (drops hsq p topk stack dx dy x y ct ds b).
Proof.
  induction ds as [|cN rest IH]; intros x y ct arrs b R; cbn [drops2 drops].
  - cbn [fst snd]. split; [apply keeps_refl|]. split; [reflexivity|]. split; [reflexivity|exact R].
  - destruct (negb (in_board p (wrap8 (x + dx)) (wrap8 (y + dy)))); cbn [fst snd]; [apply sim_b_fail; reflexivity|].
    destruct ((cN <? 1)%N || (ct <? cN)%N); cbn [fst snd]; [apply sim_b_fail; reflexivity|].
    pose proof (drop_at2_sim topk stack ct cN (sq_index p (wrap8 (x + dx)) (wrap8 (y + dy))) arrs b R) as H.
    destruct (drop_at2 hsq topk stack ct cN (sq_index p (wrap8 (x + dx)) (wrap8 (y + dy))) nhh nsh arrs (sc_of b)) as [arrs1 r2].
    cbn [fst snd] in H. destruct H as (K & L & H). unfold bind.
    destruct (drop_at hsq topk stack ct cN (sq_index p (wrap8 (x + dx)) (wrap8 (y + dy))) b) as [b'| |].
    + destruct H as [-> R1]. eapply sim_b_step; [exact K|exact L|]. apply IH. exact R1.
    + subst r2. cbn [fst snd]. split; [exact K|]. split; [exact L|reflexivity].
    + subst r2. cbn [fst snd]. split; [exact K|]. split; [exact L|reflexivity].
Qed.

(* ---- the whole move ---- *)
Definition sim_m (z : N) (arrs arrs' : heap) (r2 : res position) (r1 : res position) : Prop :=
  keeps arrs arrs' dst /\ length arrs' = length arrs /\
  match r1 with
  | Ok q => exists sc', r2 = Ok sc' /\ reads arrs' (Height q) (Stacks q) /\ with_hs sc' (Height q) (Stacks q) = q /\ size q = z
  | Err => r2 = Err
  | Panic => r2 = Panic
  end.

Lemma sim_m_fail z arrs r2 r1 : match r1 with Ok _ => False | Err => r2 = Err | Panic => r2 = Panic end -> sim_m z arrs arrs r2 r1.
Proof. intro H. split; [apply keeps_refl|]. split; [reflexivity|]. destruct r1; [contradiction|exact H|exact H]. Qed.

Lemma mip_sim arrs v phh psh m :
  valid arrs phh -> valid arrs psh -> read_ref arrs phh = Height v -> read_ref arrs psh = Stacks v ->
  reads arrs (Height v) (Stacks v) ->
  sim_m (size v) arrs (fst (move_in_place hsq arrs v phh psh nhh nsh m)) (snd (move_in_place hsq arrs v phh psh nhh nsh m)) (amv hsq v m).
Proof.
  intros Vp Vq Ep Eq R. pose proof R as (V1 & V2 & E1 & E2).
  unfold move_in_place, amv. destruct (mT m =? 1)%N eqn:Epass.
  - cbn [fst snd]. split; [apply keeps_refl|]. split; [reflexivity|].
    eexists. split; [reflexivity|]. cbn [Height Stacks]. split; [exact R|split; reflexivity].
  - unfold move_prealloc, rbind, bind. rewrite ?Epass. cbn [andb negb].
    destruct ((mX m <? 0)%Z || (Z.of_N (size v) <=? mX m)%Z || (mY m <? 0)%Z || (Z.of_N (size v) <=? mY m)%Z);
      cbn [andb fst snd]; [apply sim_m_fail; reflexivity|].
    destruct (match mT m with
              | 1 => Err
              | 2 => Ok (inl KFlat) | 3 => Ok (inl KStanding) | 4 => Ok (inl KCap)
              | 5 => Ok (inr (-1, 0)%Z) | 6 => Ok (inr (1, 0)%Z) | 7 => Ok (inr (0, 1)%Z) | 8 => Ok (inr (0, -1)%Z)
              | _ => Err
              end)%N as [kd| |]; cbn [fst snd]; try (apply sim_m_fail; reflexivity).
    destruct (if (move v <? 2)%Z then match kd with inl KFlat => Ok tt | _ => Err end else Ok tt) as [[]| |];
      cbn [fst snd]; try (apply sim_m_fail; reflexivity).
    destruct kd as [k|[dx dy]].
    + (* placement *)
      destruct (has (N.lor (White v) (Black v)) (sq_index v (mX m) (mY m))); cbn [fst snd]; [apply sim_m_fail; reflexivity|].
      destruct (match k with
                | KCap => if to_move_white v then (whiteCaps v, fun (q : position) (v0 : N) => (whiteStones q, v0, blackStones q, blackCaps q))
                          else (blackCaps v, fun q v0 => (whiteStones q, whiteCaps q, blackStones q, v0))
                | _ => if (if (move v <? 2)%Z then negb (to_move_white v) else to_move_white v)
                       then (whiteStones v, fun q v0 => (v0, whiteCaps q, blackStones q, blackCaps q))
                       else (blackStones v, fun q v0 => (whiteStones q, whiteCaps q, v0, blackCaps q))
                end) as [stones upd].
      destruct (stones <=? 0)%N; cbn [fst snd]; [apply sim_m_fail; reflexivity|].
      destruct (upd v (u8 (stones + 255))) as [[[ws wc] bs0] bc0].
      rewrite (rd_idx _ _ _ V1), E1.
      destruct (idx (Height v) (sq_index v (mX m) (mY m))) as [hi| |] eqn:Ehi; cbn [fst snd]; try (apply sim_m_fail; reflexivity).
      apply idx_ok_lt in Ehi.
      destruct (wr_h_reads arrs (Height v) (Stacks v) (N.to_nat (sq_index v (mX m) (mY m))) (u8 (hi + 1)) R Ehi) as (R2 & K2 & L2).
      split; [exact K2|]. split; [exact L2|].
      eexists. split; [reflexivity|]. cbn [Height Stacks]. split; [exact R2|split; reflexivity].
    + (* slide *)
      destruct (existsb (N.eqb 0) (nibbles 8 (mS m))); cbn [fst snd]; [apply sim_m_fail; reflexivity|].
      destruct ((size v <? fold_right N.add 0 (nibbles 8 (mS m)))%N || (fold_right N.add 0 (nibbles 8 (mS m)) <? 1)%N);
        cbn [fst snd]; [apply sim_m_fail; reflexivity|].
      rewrite (rd_idx _ _ _ Vp), Ep.
      destruct (idx (Height v) (sq_index v (mX m) (mY m))) as [hi| |] eqn:Ehi; cbn [fst snd]; try (apply sim_m_fail; reflexivity).
      destruct (hi <? fold_right N.add 0 (nibbles 8 (mS m)))%N; cbn [fst snd]; [apply sim_m_fail; reflexivity|].
      destruct (to_move_white v && negb (has (White v) (sq_index v (mX m) (mY m)))); cbn [fst snd]; [apply sim_m_fail; reflexivity|].
      destruct (negb (to_move_white v) && negb (has (Black v) (sq_index v (mX m) (mY m)))); cbn [fst snd]; [apply sim_m_fail; reflexivity|].
      destruct (top_at v (mX m) (mY m)) as [tcol tkind].
      rewrite (rd_idx _ _ _ Vq), Eq.
      destruct (idx (Stacks v) (sq_index v (mX m) (mY m))) as [sti| |] eqn:Esti; cbn [fst snd]; try (apply sim_m_fail; reflexivity).
      rewrite (rd_idx _ _ _ V1), (rd_idx _ _ _ V2), E1, E2, Ehi, Esti.
      apply idx_ok_lt in Ehi. apply idx_ok_lt in Esti.
      match goal with |- context [wr (wr arrs nsh _ ?x) nhh _ ?y] =>
        destruct (wr2_reads arrs (Height v) (Stacks v) (N.to_nat (sq_index v (mX m) (mY m))) y x R Ehi Esti) as (R2 & K2 & L2) end.
      pose proof R2 as (_ & _ & F1 & F2). rewrite F1, F2.
      destruct (if (hi =? fold_right N.add 0 (nibbles 8 (mS m)))%N
                then (clrb (White v) (sq_index v (mX m) (mY m)), clrb (Black v) (sq_index v (mX m) (mY m)))
                else if (N.land (N.lor (shl64 sti 1) (match tcol with Some true => 1 | _ => 0 end)) (bit (fold_right N.add 0 (nibbles 8 (mS m)))) =? 0)%N
                     then (setb (White v) (sq_index v (mX m) (mY m)), clrb (Black v) (sq_index v (mX m) (mY m)))
                     else (clrb (White v) (sq_index v (mX m) (mY m)), setb (Black v) (sq_index v (mX m) (mY m)))) as [w b].
      match goal with |- context [drops hsq v ?tk ?stk ?dx ?dy ?x ?y ?ct ?ds ?b0] =>
        pose proof (drops2_sim v tk stk dx dy ds x y ct _ b0 R2) as H; unfold sc_of in H at 1 2; cbn [bw bb bs bc bh] in H end.
      match type of H with sim_b _ (fst ?t) _ _ => set (T := t) in * end. destruct T as [arrs3 r2].
      cbn [fst snd] in H. destruct H as (K3 & L3 & H).
      match type of H with match ?d with _ => _ end => destruct d as [r| |] end.
      * destruct H as [-> R3]. cbn [fst snd]. split; [eapply keeps_trans; eassumption|]. split; [lia|].
        eexists. split; [reflexivity|]. cbn [Height Stacks sc_of cw cb cs cc chs]. split; [exact R3|split; reflexivity].
      * subst r2. cbn [fst snd]. split; [eapply keeps_trans; eassumption|]. split; [lia|reflexivity].
      * subst r2. cbn [fst snd]. split; [eapply keeps_trans; eassumption|]. split; [lia|reflexivity].
Qed.
End Sim.
