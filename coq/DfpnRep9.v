(* Non-vacuity of DfpnMove.dfpn_proven_move: on the cyclic game of DfpnRep4 an actual run returns `proven` with a move of
   type <> 0, and the theorem turns it into "a generated legal move after which White still has a forced win". *)
From Coq Require Import NArith ZArith List Bool Lia.
Require Import Board Move GameOver Eval Search AndOr Pn PnFacts Dfpn DfpnFacts DfpnRep3 DfpnRep4 DfpnMove.
Require Import Generated.Consts.
Import ListNotations.
Open Scope N_scope.

Example dfpn_proven_move_cyclic :
  (let '(_, e, _) := prove gen_basis true 1000 1000 16 root11 in result_of true root11 e = 1 /\ mT (d_pv e) <> 0) /\
  (let '(_, e, _) := prove gen_basis true 1000 1000 16 root11 in
   exists q, In (d_pv e) (all_moves root11) /\ dmv gen_basis root11 (d_pv e) = Ok q /\ W gen_basis true q).
Proof.
  assert (Hrun : let '(_, e, _) := prove gen_basis true 1000 1000 16 root11 in result_of true root11 e = 1 /\ mT (d_pv e) <> 0)
    by (vm_compute; split; [reflexivity|discriminate]).
  split; [exact Hrun|].
  destruct (prove gen_basis true 1000 1000 16 root11) as [[s e] w] eqn:E. destruct Hrun as [Hr Hne].
  apply (dfpn_proven_move gen_basis true (SpL reach11h)) with (lfuel := 1000%nat) (dfuel := 1000%nat) (entries := 16%nat) (s := s) (w := w);
    try assumption.
  - apply SpL_step. exact c_step.
  - apply SpL_small. exact c_small.
  - apply SpL_hash. exact c_hash.
  - apply SpL_nonzero. exact c_nonzero.
  - apply SpL_moves. exact c_moves.
  - apply SpL_threats_att. exact c_threats_att.
  - exact root11_in.
Qed.
