(* SearchTableEx2.v: non-vacuity of the one-game forms (SearchTable6.v) on the example of SearchTableEx.v: the touched set (the tree of
   depth 3 below rootw) is a game_set of the 3x3 game with 10 stones a side - its only hash hypothesis "equal Position.Hash implies
   Position.Equal" holds by computation - and the game theorems apply to the three calls. *)
From Coq Require Import NArith ZArith List Bool Lia.
Require Import Board Move GameOver Eval EvalSpec Refine Alloc Preserve1 Reach1 PreserveEx Search NegamaxSpec SearchGen SearchExact SearchInst SearchC CancelEx.
Require Import SearchLegal2 SearchNeg2 SearchNeg3 SearchNeg5 SearchTable1 SearchTable3 SearchTable4 SearchTable5 SearchTable6 SearchTable7 SearchTable8 SearchTableEx.
Require Import Generated.Consts.
Import ListNotations.
Open Scope Z_scope.

Lemma rootw_in_game : in_game 3 false 10 0 rootw.
Proof. exists msw. rewrite <- start3_new. exact replay_msw. Qed.

Lemma game_ex : game_set 3 false 10 0 Uex.
Proof. apply game_levels; [lia|lia|lia|exact rootw_in_game|exact coll_free_ex]. Qed.

Lemma askg_rootw : ask_game cfg3t Uex rootw.
Proof. destruct ask_rootw as (_ & _ & A & B & C & D). unfold ask_game. auto. Qed.
Lemma askg_rootb : ask_game cfg2t Uex rootb.
Proof. destruct ask_rootb as (_ & _ & A & B & C & D). unfold ask_game. auto. Qed.

Example game_theorems_apply :
  game_set 3 false 10 0 Uex /\ ask_game cfg3t Uex rootw /\ ask_game cfg2t Uex rootb /\
  verdict_ok gen_basis rootw (r_value (snd run2)) (r_depth (snd run2)) /\
  verdict_ok gen_basis rootb (r_value (snd run3)) (r_depth (snd run3)).
Proof.
  destruct precise3 as (P3 & P2 & B3 & B2). destruct runs_obs as (_ & (V2 & D2 & _) & (V3 & D3 & _) & _).
  assert (S3 : (3 <= 3 <= 8)%N) by lia. assert (S10 : (0 < 10)%N) by lia. assert (S64 : (2 * (10 + 0) <= 64)%N) by lia.
  assert (E1 : analyze_cancel gen_basis cfg3t 30 (new_state 64) rootw = (fst run1, snd run1))
    by (unfold run1, run_analyze; destruct (analyze_cancel gen_basis cfg3t 30 (new_state 64) rootw); reflexivity).
  assert (E2 : analyze_cancel gen_basis cfg3t 0 (fst run1) rootw =
               (fst run2, (r_pv (snd run2), r_value (snd run2), r_depth (snd run2), r_acc (snd run2), r_canceled (snd run2)))).
  { unfold run2, run_analyze. destruct (analyze_cancel gen_basis cfg3t 0 (fst run1) rootw) as [s [[[[pv v] d] acc] c]]. reflexivity. }
  assert (E3 : analyze_cancel gen_basis cfg2t 0 (fst run2) rootb =
               (fst run3, (r_pv (snd run3), r_value (snd run3), r_depth (snd run3), r_acc (snd run3), r_canceled (snd run3)))).
  { unfold run3, run_analyze. destruct (analyze_cancel gen_basis cfg2t 0 (fst run2) rootb) as [s [[[[pv v] d] acc] c]]. reflexivity. }
  pose proof (engg_new Uex 64) as G0.
  pose proof (engg_call Uex _ cfg3t 30 rootw _ _ G0 P3 B3 askg_rootw E1) as G1.
  pose proof (engg_call Uex _ cfg3t 0 rootw _ _ G1 P3 B3 askg_rootw E2) as G2.
  assert (P0 : 0 < 3) by lia. assert (P1 : 0 < 2) by lia.
  split; [exact game_ex|]. split; [exact askg_rootw|]. split; [exact askg_rootb|]. split.
  - refine (analyze_table_verdict_game 3 false 10 0 S3 S10 S64 Uex game_ex (fst run1) cfg3t 0 rootw (fst run2) (r_pv (snd run2)) (r_value (snd run2))
              (r_depth (snd run2)) (r_acc (snd run2)) (r_canceled (snd run2)) G1 P3 B3 askg_rootw E2 _). rewrite D2. exact P0.
  - refine (analyze_table_verdict_game 3 false 10 0 S3 S10 S64 Uex game_ex (fst run2) cfg2t 0 rootb (fst run3) (r_pv (snd run3)) (r_value (snd run3))
              (r_depth (snd run3)) (r_acc (snd run3)) (r_canceled (snd run3)) G2 P2 B2 askg_rootb E3 _). rewrite D3. exact P1.
Qed.

(* ---- soundness for a configuration that is NOT precise: slide reduction and multi-cut switched on, no null move (SearchTable7/8) ---- *)
Definition cfgR := mk_cfg 3 false true false true 0.
Definition runR1 := run_analyze cfgR 25 (new_state 64) rootw.
Definition runR2 := run_analyze cfgR 0 (fst runR1) rootw.

Lemma asks_rootw : ask_s cfgR Uex rootw.
Proof. destruct ask_rootw as (A & B & C & D & _ & F). unfold ask_s. split; [exact A|]. split; [exact B|]. split; [exact C|]. split; [exact D|exact F]. Qed.

Lemma runsR_obs : r_value (snd runR1) = 660 /\ r_canceled (snd runR1) = true /\ r_value (snd runR2) = 805307244 /\ r_depth (snd runR2) = 3.
Proof. vm_compute. repeat split. Qed.

Example sound_theorem_applies :
  c_nonull cfgR = true /\ c_noreduce cfgR = false /\ c_multicut cfgR = true /\ ask_s cfgR Uex rootw /\
  sound_verdict gen_basis rootw (r_value (snd runR2)) /\ WinThreshold < r_value (snd runR2) /\ (exists n, W gen_basis n rootw).
Proof.
  destruct runsR_obs as (_ & _ & V2 & _).
  assert (BE : builtin_eval cfgR) by (right; reflexivity).
  assert (E1 : analyze_cancel gen_basis cfgR 25 (new_state 64) rootw = (fst runR1, snd runR1))
    by (unfold runR1, run_analyze; destruct (analyze_cancel gen_basis cfgR 25 (new_state 64) rootw); reflexivity).
  assert (E2 : analyze_cancel gen_basis cfgR 0 (fst runR1) rootw =
               (fst runR2, (r_pv (snd runR2), r_value (snd runR2), r_depth (snd runR2), r_acc (snd runR2), r_canceled (snd runR2)))).
  { unfold runR2, run_analyze. destruct (analyze_cancel gen_basis cfgR 0 (fst runR1) rootw) as [s [[[[pv v] d] acc] c]]. reflexivity. }
  pose proof (engsi_call Uex _ cfgR 25 rootw _ _ (engsi_new Uex 64) eq_refl BE asks_rootw E1) as G1.
  assert (SV : sound_verdict gen_basis rootw (r_value (snd runR2))).
  { exact (analyze_sound_any_inst Uex touch_ex (fst runR1) cfgR 0 rootw (fst runR2) (r_pv (snd runR2)) (r_value (snd runR2)) (r_depth (snd runR2))
             (r_acc (snd runR2)) (r_canceled (snd runR2)) G1 eq_refl BE asks_rootw E2). }
  assert (WT2 : WinThreshold < r_value (snd runR2)) by (rewrite V2; vm_compute; reflexivity).
  split; [reflexivity|]. split; [reflexivity|]. split; [reflexivity|]. split; [exact asks_rootw|].
  split; [exact SV|]. split; [exact WT2|]. apply SV. exact WT2.
Qed.
