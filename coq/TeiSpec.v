(* TeiSpec.v: what a TEI command history DECLARES, read backwards from the most recent command and without any engine
   state - the specification side of property C17 - and the vocabulary of its theorems (definitions only; proofs in TeiFacts.v).

   The engine of Tei.v threads {searcher, position, size} forwards through the commands.  The specification instead looks at the
   history: the size in force is the argument of the most recent `teinewgame`; the position in force is the one declared by the
   most recent `position` command, unless a `teinewgame` came after it (then there is none); a `position` command declares the
   start position it names (standard position of the size in force, or the TPS) with exactly the listed moves applied. *)
From Coq Require Import NArith ZArith List Bool String.
Require Import Board Move GameOver PtnMove Playtak Tps TeiBudget Tei.
Import ListNotations.
Open Scope N_scope.

(* ---- which command a line is ---- *)
Inductive cmd := CEmpty | CTei | CQuit | CNew (args : list (list N)) | CPos (args : list (list N)) | CGo (args : list (list N)) | CStop | CReady | CUnknown.
Definition classify (line : list N) : cmd :=
  match fields line with
  | [] => CEmpty
  | w0 :: args =>
    if bytes_eqb w0 s_tei then CTei else if bytes_eqb w0 s_quit then CQuit
    else if bytes_eqb w0 s_teinewgame then CNew args else if bytes_eqb w0 s_position then CPos args
    else if bytes_eqb w0 s_go then CGo args else if bytes_eqb w0 s_stop then CStop
    else if bytes_eqb w0 s_isready then CReady else CUnknown
  end.

Section S.
Variable basis : list N.

(* histories are lists of lines, most recent first *)
Fixpoint spec_size (hist : list (list N)) : Z :=
  match hist with
  | [] => 0%Z                                                     (* NewEngine: no size configured *)
  | l :: older =>
    match fields l with
    | w0 :: args => if bytes_eqb w0 s_teinewgame then (match args with [] => 5%Z | a :: _ => fst (atoi_go a) end) else spec_size older
    | [] => spec_size older
    end
  end.

Fixpoint spec_position (hist : list (list N)) : option position :=
  match hist with
  | [] => None
  | l :: older =>
    match fields l with
    | w0 :: args =>
      if bytes_eqb w0 s_teinewgame then None
      else if bytes_eqb w0 s_position then (match parse_position basis (spec_size older) args with Move.Ok p => Some p | _ => None end)
      else spec_position older
    | [] => spec_position older
    end
  end.

(* a position whose game is not over; a move the position-level move model accepts *)
Definition live (p : position) : Prop := exists w, game_over p = Some (false, w).
Definition legal (p : position) (m : rmove) : Prop := exists q, tmove basis p m = Move.Ok q.

Definition is_bestmove (l : list N) : bool := bytes_eqb (firstn 8 l) (str "bestmove"%string).

Section Eng.
Variable SS : Type.
Variable mk_searcher : Z -> SS.
Variable search : SS -> option Z -> position -> SS * (list rmove * Z * Z * Z).

(* the searcher answers every live position with a non-empty PV whose first move is legal (property C04) *)
Definition searcher_ok : Prop :=
  forall s lim p, live p -> exists m rest v d n s', search s lim p = (s', (m :: rest, v, d, n)) /\ legal p m.

Notation engine := (engine SS).
Notation step := (step basis SS mk_searcher search).

(* Run gets through the lines [pre] (none of them ends Run) and is then in state e' *)
Fixpoint exec (e : engine) (pre : list (list N)) : option engine :=
  match pre with
  | [] => Some e
  | l :: r => let s := step e l in match sr_status s with Running => exec (sr_eng s) r | _ => None end
  end.

(* sizes agree: the position and the searcher belong to the configured size *)
Definition wf_engine (e : engine) : Prop :=
  (forall p, e_pos e = Some p -> Z.of_N (Move.size p) = e_size e) /\
  (forall mm, e_mm e = Some mm -> fst mm = e_size e).

(* the engine state is what the history declares *)
Definition agrees (hist : list (list N)) (e : engine) : Prop :=
  e_pos e = spec_position hist /\ e_size e = spec_size hist.
End Eng.
End S.
