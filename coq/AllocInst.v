(* Instantiation of the ownership model (Alloc.v) with the hash constants regenerated from /repo, and the
   functions the C09 driver extracts. *)
From Coq Require Import NArith ZArith List Bool.
Require Import Board Move GameOver Refine Alloc.
Import ListNotations.

Definition a_step := step Refine.hsq true.                (* the repaired Clone *)
Definition a_step_pinned := step Refine.hsq false.        (* Clone = alloc only, as on the pinned tree *)
Definition a_pure_step := pure_step Refine.hsq.
Definition a_amv := amv Refine.hsq.
(* the legal move set: the generated moves that MovePreallocated accepts *)
Definition a_legal (p : position) : list rmove :=
  filter (fun m => match a_amv p m with Ok _ => true | _ => false end) (all_moves p).

(* Position.Hash(): GameOver.hash_of, with the reduction mod 2^64 done by masking instead of by division (the
   extracted binary division dominated the driver's run time); equal to hash_of by a_hash_eq *)
(* the constant factor goes first: binary multiplication adds once per set bit of its FIRST argument (fnvPrime has 7) *)
Definition fmul64 (a b : N) : N := N.land (b * a) (N.ones 64).
Definition fhash8 (h b : N) : N := fmul64 (N.lxor h b) fnvPrime.
Definition fhash64 (basis w : N) : N :=
  let h := basis in
  let h := fmul64 (N.lxor h (N.land w 255)) fnvPrime in
  let h := fmul64 (N.lxor h (N.land (N.shiftr w 8) 255)) fnvPrime in
  let h := fmul64 (N.lxor h (N.land (N.shiftr w 16) 255)) fnvPrime in
  fmul64 (N.lxor h (N.shiftr w 24)) fnvPrime.
Definition a_hash (p : position) : N :=
  let h := hash p in
  let h := fhash64 h (White p) in let h := fhash64 h (Black p) in
  let h := fhash64 h (Standing p) in let h := fhash64 h (Caps p) in
  fhash8 h (if to_move_white p then 128 else 64)%N.

Lemma fmul64_eq a b : fmul64 a b = mul64 a b.
Proof. unfold fmul64, mul64. rewrite N.mul_comm. apply N.land_ones. Qed.
Lemma fhash64_eq b w : fhash64 b w = hash64 b w.
Proof. unfold fhash64, hash64. rewrite !fmul64_eq. reflexivity. Qed.
Lemma a_hash_eq p : a_hash p = hash_of p.
Proof. unfold a_hash, hash_of, fhash8, hash8. rewrite !fhash64_eq, fmul64_eq. reflexivity. Qed.
