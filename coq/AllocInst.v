(* Instantiation of the ownership model (Alloc.v) with the hash constants regenerated from /repo, and the
   functions the C09 driver extracts. *)
From Coq Require Import NArith ZArith List Bool.
Require Import Board Move GameOver Refine Alloc.
Import ListNotations.

Definition a_step := step Refine.hsq true.                (* the repaired Clone *)
Definition a_step_pinned := step Refine.hsq false.        (* Clone = alloc only, as on the pinned tree *)
Definition a_pure_step := pure_step Refine.hsq.
Definition a_amv := amv Refine.hsq.
(* the legal move set: the generated moves that MovePreallocated accepts *)
Definition a_legal (p : position) : list rmove :=
  filter (fun m => match a_amv p m with Ok _ => true | _ => false end) (all_moves p).
Definition a_hash (p : position) : N := hash_of p.
