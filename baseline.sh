#!/bin/bash
# Runs the repository's own test suite (guard off: no overlay, no build tags) without touching /repo:
# a copy of go.mod/go.sum is used as -modfile so that `-mod=mod` cannot rewrite /repo/go.mod.
export GOFLAGS=-mod=mod GOPROXY=off GOSUMDB=off GOTOOLCHAIN=local
REPO=${VERIF_REPO:-/repo}
T=$(mktemp -d /var/tmp/verif-baseline.XXXXXX)
cp $REPO/go.mod $T/go.mod; cp $REPO/go.sum $T/go.sum
cd $REPO && go test -modfile=$T/go.mod -vet=off -count=1 -timeout 25m "$@" ./...
rc=$?
rm -rf $T
exit $rc
