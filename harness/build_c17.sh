#!/bin/bash
# Builds build/tei.test: the test binary of package tei of the repository (${VERIF_REPO:-/repo}) with the in-package driver
# overlay/tei_driver_test.go.txt added by -overlay (nothing is written into the repository; go.mod is used through a copy).
# Run by `runimpl C17` (harness/cmd/runimpl/c17.go).
set -e
cd "$(dirname "$0")"
H=$(pwd)
REPO=$(readlink -f "${VERIF_REPO:-/repo}")
B=$(cd .. && pwd)/build
mkdir -p "$B/c17"
export GOFLAGS=-mod=mod GOPROXY=off GOSUMDB=off GOTOOLCHAIN=local
cp "$REPO/go.mod" "$B/c17/go.mod"
cp "$REPO/go.sum" "$B/c17/go.sum"
cat > "$B/c17/overlay.json" <<EOF
{"Replace": {
 "$REPO/tei/zz_verif_driver_test.go": "$H/overlay/tei_driver_test.go.txt",
 "$REPO/tei/server_test.go": "",
 "$REPO/tak/zz_verif_export.go": "$H/overlay/tak__export.go.txt",
 "$REPO/ai/zz_verif_export.go": "$H/overlay/ai__export.go.txt"
}}
EOF
# rebuild only when an input changed (the go build cache makes the rebuild itself cheap)
cd "$REPO"
go test -c -o "$B/tei.test" -modfile="$B/c17/go.mod" -overlay "$B/c17/overlay.json" -vet=off ./tei
