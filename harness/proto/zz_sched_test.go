package bot

import (
	"context"
	"fmt"
	"math/rand"
	"os"
	"strings"
	"sync"
	"testing"
	"time"

	"github.com/nelhage/taktician/playtak"
	"github.com/nelhage/taktician/tak"
)

type sClient struct {
	mu    sync.Mutex
	recv  chan string
	sent  []string
	atSel chan struct{}
}

func (c *sClient) Recv() <-chan string {
	select {
	case c.atSel <- struct{}{}:
	default:
	}
	return c.recv
}
func (c *sClient) SendCommand(w ...string) {
	c.mu.Lock()
	c.sent = append(c.sent, strings.Join(w, " "))
	c.mu.Unlock()
}
func (c *sClient) nsent() int { c.mu.Lock(); defer c.mu.Unlock(); return len(c.sent) }

type sGate struct {
	ply     int
	answer  tak.Move
	release chan struct{}
	closed  bool
}

func (g *sGate) open() {
	if !g.closed {
		g.closed = true
		close(g.release)
	}
}

type sBot struct {
	g    *Game
	newG chan *sGate
}

func firstLegal(p *tak.Position) tak.Move {
	for _, m := range p.AllMoves(nil) {
		if _, e := p.Move(m); e == nil {
			return m
		}
	}
	return tak.Move{}
}
func (b *sBot) NewGame(g *Game)                   { b.g = g }
func (b *sBot) GameOver()                         {}
func (b *sBot) AcceptUndo() bool                  { return true }
func (b *sBot) HandleChat(string, string, string) {}
func (b *sBot) HandleTell(string, string)         {}
func (b *sBot) GetMove(ctx context.Context, p *tak.Position, mine, theirs time.Duration) tak.Move {
	gt := &sGate{ply: p.MoveNumber(), answer: firstLegal(p), release: make(chan struct{})}
	b.newG <- gt
	<-gt.release
	return gt.answer
}

func mvs(m tak.Move) string { return fmt.Sprintf("%d:%d:%d:%d", m.X, m.Y, m.Type, m.Slides) }

func runSchedule(seed int64, out *strings.Builder) {
	r := rand.New(rand.NewSource(seed))
	size := 3 + r.Intn(2)
	botWhite := r.Intn(2) == 0
	color := "white"
	if !botWhite {
		color = "black"
	}
	c := &sClient{recv: make(chan string), atSel: make(chan struct{}, 1000)}
	b := &sBot{newG: make(chan *sGate, 1000)}
	done := make(chan struct{})
	go func() {
		PlayGame(c, b, fmt.Sprintf("Game Start 7 %d A vs B %s 600", size, color))
		close(done)
	}()
	var pending []*sGate
	collect := func(wait time.Duration) {
		t := time.After(wait)
		for {
			select {
			case g := <-b.newG:
				pending = append(pending, g)
			case <-t:
				return
			}
		}
	}
	waitSel := func(d time.Duration) bool {
		select {
		case <-c.atSel:
			return true
		case <-done:
			return false
		case <-time.After(d):
			return true
		}
	}
	drainSel := func() {
		for {
			select {
			case <-c.atSel:
			default:
				return
			}
		}
	}
	waitSel(500 * time.Millisecond)
	server := []*tak.Position{tak.New(tak.Config{Size: size})}
	var events []string
	seen := 0
	absorb := func() bool { // bot's new sends -> server history
		c.mu.Lock()
		defer c.mu.Unlock()
		for ; seen < len(c.sent); seen++ {
			s := c.sent[seen]
			if !strings.HasPrefix(s, "Game#7 ") {
				continue
			}
			body := strings.TrimPrefix(s, "Game#7 ")
			if body == "RequestUndo" {
				continue
			}
			m, e := playtak.ParseServer(body)
			cur := server[len(server)-1]
			if e != nil {
				events = append(events, "NOK parse")
				return false
			}
			if (cur.ToMove() == tak.White) != botWhite {
				events = append(events, "NOK turn "+mvs(m))
				return false
			}
			n, e := cur.Move(m)
			if e != nil {
				events = append(events, "NOK illegal "+mvs(m))
				return false
			}
			server = append(server, n)
		}
		return true
	}
	sendLine := func(l string) bool {
		drainSel()
		select {
		case c.recv <- l:
		case <-done:
			return false
		case <-time.After(2 * time.Second):
			return false
		}
		return waitSel(300 * time.Millisecond)
	}
	nEvents := 4 + r.Intn(10)
	undoAcked := false
	var lastL time.Time
	for k := 0; k < nEvents; k++ {
		// the grace timer is real: if it may be about to fire, let it fire now and say so
		if !lastL.IsZero() && time.Since(lastL) > 250*time.Millisecond {
			if d := 650*time.Millisecond - time.Since(lastL); d > 0 {
				time.Sleep(d)
			}
			events = append(events, "G")
			lastL = time.Time{}
			drainSel()
			collect(20 * time.Millisecond)
		}
		cur := server[len(server)-1]
		over, _ := cur.GameOver()
		oppTurn := (cur.ToMove() == tak.White) != botWhite
		choice := r.Intn(10)
		switch {
		case choice < 4 && !over && (oppTurn || k < 3):
			// a server move line (opponent's move, or a replayed move of either colour early on)
			m := firstLegal(cur)
			legal := []tak.Move{}
			for _, x := range cur.AllMoves(nil) {
				if _, e := cur.Move(x); e == nil {
					legal = append(legal, x)
				}
			}
			m = legal[r.Intn(len(legal))]
			n, _ := cur.Move(m)
			server = append(server, n)
			events = append(events, "L "+mvs(m))
			if !sendLine("Game#7 " + playtak.FormatServer(m)) {
				goto end
			}
			lastL = time.Now()
		case choice < 7:
			// release every pending thinker, oldest first; then any that appears
			collect(30 * time.Millisecond)
			any := false
			for rounds := 0; rounds < 6; rounds++ {
				if len(pending) == 0 {
					break
				}
				for _, g := range pending {
					g.open()
					events = append(events, fmt.Sprintf("A %s %d", mvs(g.answer), g.ply))
					any = true
					// let the loop act on this answer before the next thinker is released
					waitSel(40 * time.Millisecond)
					if !absorb() {
						goto end
					}
				}
				pending = nil
				collect(40 * time.Millisecond)
			}
			if !any {
				events = append(events, "A none")
			}
			waitSel(60 * time.Millisecond)
			drainSel()
		case choice == 7:
			events = append(events, "G")
			if lastL.IsZero() {
				time.Sleep(20 * time.Millisecond)
			} else if d := 650*time.Millisecond - time.Since(lastL); d > 0 {
				time.Sleep(d)
			}
			lastL = time.Time{}
			drainSel()
		case choice == 8:
			events = append(events, "T")
			if !sendLine("Game#7 Time 500 500") {
				goto end
			}
		default:
			if r.Intn(2) == 0 {
				events = append(events, "U")
				if !sendLine("Game#7 RequestUndo") {
					goto end
				}
				undoAcked = true
			} else if undoAcked && len(server) > 1 {
				events = append(events, "X")
				server = server[:len(server)-1]
				undoAcked = false
				if !sendLine("Game#7 Undo") {
					goto end
				}
			} else {
				events = append(events, "C")
				if !sendLine("Shout <x> hello") {
					goto end
				}
			}
		}
		if !absorb() {
			break
		}
	}
end:
	absorb()
	// finish
	go func() {
		for g := range b.newG {
			close(g.release)
		}
	}()
	for _, g := range pending {
		g.open()
	}
	select {
	case c.recv <- "Game#7 Over 0-0":
	case <-done:
	case <-time.After(time.Second):
	}
	select {
	case <-done:
	case <-time.After(2 * time.Second):
	}
	c.mu.Lock()
	var sentMoves []string
	for _, s := range c.sent {
		sentMoves = append(sentMoves, strings.ReplaceAll(strings.TrimPrefix(s, "Game#7 "), " ", "_"))
	}
	c.mu.Unlock()
	fmt.Fprintf(out, "SCHED %d %d %v | %s | %s | %d\n", seed, size, botWhite, strings.Join(events, " ; "), strings.Join(sentMoves, ","), len(b.g.Moves))
}

func TestVerifSchedules(t *testing.T) {
	var wg sync.WaitGroup
	outs := make([]strings.Builder, 160)
	sem := make(chan struct{}, 32)
	for i := range outs {
		wg.Add(1)
		sem <- struct{}{}
		go func(i int) {
			defer wg.Done()
			defer func() { <-sem }()
			runSchedule(int64(1000+i), &outs[i])
		}(i)
	}
	wg.Wait()
	f, _ := os.Create("/tmp/scratch/botsched/sched.txt")
	defer f.Close()
	for i := range outs {
		f.WriteString(outs[i].String())
	}
}
