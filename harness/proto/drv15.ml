open Model15
let n_of_i64 (v : int64) : n =
  if v = 0L then N0 else begin
    let rec top k = if k < 0 then -1 else if Int64.logand (Int64.shift_right_logical v k) 1L = 1L then k else top (k-1) in
    let t = top 63 in
    let p = ref XH in
    for k = t-1 downto 0 do
      if Int64.logand (Int64.shift_right_logical v k) 1L = 1L then p := XI !p else p := XO !p
    done; Npos !p end
let rec i64_of_pos = function XH -> 1L | XO p -> Int64.shift_left (i64_of_pos p) 1 | XI p -> Int64.logor (Int64.shift_left (i64_of_pos p) 1) 1L
let i64_of_n = function N0 -> 0L | Npos p -> i64_of_pos p
let n_of_string s = n_of_i64 (Int64.of_string ("0u" ^ s))
let z_of_int i = if i = 0 then Z0 else if i > 0 then (match n_of_i64 (Int64.of_int i) with Npos p -> Zpos p | N0 -> Z0)
                 else (match n_of_i64 (Int64.of_int (-i)) with Npos p -> Zneg p | N0 -> Z0)
let int_of_z = function Z0 -> 0 | Zpos p -> Int64.to_int (i64_of_pos p) | Zneg p -> - (Int64.to_int (i64_of_pos p))
let parse_move w = match String.split_on_char ':' w with
  | [x; y; t; sl] -> { mX = z_of_int (int_of_string x); mY = z_of_int (int_of_string y); mT = n_of_string t; mS = n_of_string sl }
  | _ -> failwith ("bad move " ^ w)
let rec nat_to_int = function O -> 0 | S n -> 1 + nat_to_int n
(* playtak wire spelling of a move, as the bot sends it, with spaces turned into underscores *)
let wire (m : rmove) =
  let sq x y = Printf.sprintf "%c%c" (Char.chr (65 + x)) (Char.chr (49 + y)) in
  let x = int_of_z m.mX and y = int_of_z m.mY and t = Int64.to_int (i64_of_n m.mT) in
  if t = 2 then "P_" ^ sq x y else if t = 3 then "P_" ^ sq x y ^ "_W" else if t = 4 then "P_" ^ sq x y ^ "_C" else begin
    let rec nibs v = if v = 0 then [] else (v land 15) :: nibs (v lsr 4) in
    let ds = nibs (Int64.to_int (i64_of_n m.mS)) in
    let l = List.length ds in
    let (ex, ey) = if t = 5 then (x - l, y) else if t = 6 then (x + l, y) else if t = 7 then (x, y + l) else (x, y - l) in
    "M_" ^ sq x y ^ "_" ^ sq ex ey ^ String.concat "" (List.map (fun d -> "_" ^ string_of_int d) ds) end
let () =
  let fixed = Array.length Sys.argv > 1 && Sys.argv.(1) = "fixed" in
  let n = ref 0 and bad = ref 0 and stale = ref 0 in
  (try while true do
    let line = input_line stdin in
    incr n;
    match String.split_on_char '|' line with
    | [hd; evs; sent; nm] ->
      let (sz, white) = match String.split_on_char ' ' (String.trim hd) with
        | [_; _; sz; w] -> (n_of_string sz, w = "true") | _ -> failwith "hd" in
      let events = List.filter (fun s -> s <> "") (List.map String.trim (String.split_on_char ';' evs)) in
      let st = ref (bot_init sz white) in
      let feed e = st := bot_step sz white fixed !st e in
      let stop = ref false in
      List.iter (fun e ->
        if not !stop then
        match String.split_on_char ' ' e with
        | ["L"; m] -> feed (Line (LMove (parse_move m)))
        | ["A"; "none"] -> ()
        | ["A"; m; ply] ->
          (* the answer of a thinker that was started on position number `ply`; it reaches the loop only if that is the
             position the current invocation was spawned on and that invocation has not been answered yet *)
          if int_of_z (!st).spawned_on.move = int_of_string ply then feed (Answer (parse_move m))
        | ["G"] -> feed Grace | ["T"] -> feed (Line LTime) | ["U"] -> feed (Line LReqUndo) | ["X"] -> feed (Line LUndo) | ["C"] -> feed (Line LOther)
        | "NOK" :: _ -> stop := true
        | _ -> failwith ("bad event " ^ e)) events;
      feed (Line LOver);
      let st = !st in
      let sent_model = List.rev_map (fun o -> wire o.s_move) st.out in
      (* interleave is not recoverable from the state; compare the move sends and the number of RequestUndo acks *)
      let sent_go = List.filter (fun s -> s <> "") (String.split_on_char ',' (String.trim sent)) in
      let go_moves = List.filter (fun s -> s <> "RequestUndo") sent_go in
      let go_acks = List.length (List.filter (fun s -> s = "RequestUndo") sent_go) in
      let ok = go_moves = sent_model && go_acks = nat_to_int st.undo_acks && int_of_string (String.trim nm) = List.length st.moves in
      List.iter (fun o -> if o.s_for != o.s_pos && o.s_for <> o.s_pos then incr stale) st.out;
      if not ok then begin incr bad;
        if !bad <= 6 then Printf.printf "MISMATCH %s\n events: %s\n go sent: %s (moves recorded %s)\n model:   %s acks=%d moves=%d\n" (String.trim hd) (String.trim evs)
          (String.trim sent) (String.trim nm) (String.concat "," sent_model) (nat_to_int st.undo_acks) (List.length st.moves) end
    | _ -> failwith "bad line"
  done with End_of_file -> ());
  Printf.printf "schedules %d mismatches %d; sends whose answer was computed for another position (model): %d\n" !n !bad !stale
