package main

import (
	"bufio"
	"context"
	"fmt"
	"math/rand"
	"os"
	"strings"

	"sync/atomic"
	"github.com/nelhage/taktician/ai"
	"github.com/nelhage/taktician/bitboard"
	"github.com/nelhage/taktician/tak"
)

func enc(p *tak.Position) string {
	ws, wc, bs, bc := tak.VerifReserves(p)
	var hs, st []string
	for i := range p.Height {
		hs = append(hs, fmt.Sprint(p.Height[i]))
		st = append(st, fmt.Sprint(p.Stacks[i]))
	}
	return fmt.Sprintf("%d %d %d %d %d %d %d %d %d %d %s %s %d", p.Size(), ws, wc, bs, bc, p.MoveNumber(),
		p.White, p.Black, p.Standing, p.Caps, strings.Join(hs, ","), strings.Join(st, ","), tak.VerifRawHash(p))
}
func u64s(l [64]uint64) string {
	var s []string
	for _, x := range l {
		s = append(s, fmt.Sprint(x))
	}
	return strings.Join(s, ",")
}
func mvs(ms []tak.Move) string {
	var s []string
	for _, m := range ms {
		s = append(s, fmt.Sprintf("%d:%d:%d:%d", m.X, m.Y, m.Type, m.Slides))
	}
	return strings.Join(s, ",")
}

func main() {
	r := rand.New(rand.NewSource(9))
	w := bufio.NewWriter(os.Stdout)
	defer w.Flush()
	fmt.Fprintf(w, "BASIS %s\n", u64s(tak.VerifBasis()))
	for size := 3; size <= 8; size++ {
		var s []string
		for _, v := range ai.DefaultWeights[size] {
			s = append(s, fmt.Sprint(v))
		}
		fmt.Fprintf(w, "WEIGHTS %d %s\n", size, strings.Join(s, ","))
	}
	n := 0
	for g := 0; g < 60; g++ {
		size := 3 + r.Intn(3)
		p := tak.New(tak.Config{Size: size})
		plies := 2 + r.Intn(14)
		ok := true
		for ply := 0; ply < plies; ply++ {
			if over, _ := p.GameOver(); over {
				ok = false
				break
			}
			var legal []tak.Move
			for _, m := range p.AllMoves(nil) {
				if _, e := p.Move(m); e == nil {
					legal = append(legal, m)
				}
			}
			m := legal[r.Intn(len(legal))]
			if r.Intn(2) == 0 {
				for k := 0; k < 8; k++ {
					if m2 := legal[r.Intn(len(legal))]; m2.IsSlide() {
						m = m2
						break
					}
				}
			}
			p, _ = p.Move(m)
		}
		if !ok {
			continue
		}
		for k := 0; k < 4; k++ {
			depth := 1 + r.Intn(4)
			if size == 5 && depth > 3 {
				depth = 3
			}
			evk := r.Intn(2)
			cfg := ai.MinimaxConfig{Size: size, Depth: depth, Seed: 1, NoSort: true,
				NoNullMove: r.Intn(2) == 0, NoReduceSlides: r.Intn(2) == 0, MultiCut: r.Intn(3) == 0}
			switch r.Intn(3) {
			case 0:
				cfg.TableMem = -1
			case 1:
				cfg.TableMem = int64(32 * (1 + r.Intn(40)))
			case 2:
				cfg.TableMem = 1 << 16
			}
			var base ai.EvaluationFunc
			if evk == 1 {
				base = ai.EvaluateWinner
			} else {
				base = ai.MakeEvaluator(size, nil)
			}
			var eng *ai.MinimaxAI
			ctx, cancel := context.WithCancel(context.Background())
			cancelAt := 1 + r.Intn(3000)
			if r.Intn(4) == 0 {
				cancelAt = 1 + r.Intn(40)
			}
			cnt := 0
			cfg.Evaluate = func(c *bitboard.Constants, q *tak.Position) int64 {
				cnt++
				if cnt == cancelAt {
					cancel()
					f := ai.VerifCancelFlag(eng)
					for atomic.LoadInt32(f) == 0 {
					}
				}
				return base(c, q)
			}
			eng = ai.NewMinimax(cfg)
			pv, v, st := eng.Analyze(ctx, p)
			cancel()
			b2i := func(b bool) int {
				if b {
					return 1
				}
				return 0
			}
			fmt.Fprintf(w, "A %s ; %d %d %d %d %d %d %d | %s %d %d %d %d %d %d %d %d %d %d %d %d %d %d %d %d %d %d %d %d\n", enc(p),
				depth, evk, b2i(cfg.NoNullMove), b2i(cfg.NoReduceSlides), b2i(cfg.MultiCut), ai.VerifTableLen(eng), cancelAt,
				mvs(pv), v, st.Depth, b2i(st.Canceled), st.Evaluated, st.Visited, st.Scout, st.Terminal, st.TTHits, st.TTShortcut, st.ReSearch,
				st.CutNodes, st.Cut0, st.Cut1, st.CutSearch, st.AllNodes, st.NullSearch, st.NullCut, st.ReducedSlides, st.MCSearch, st.MCCut)
			n++
		}
	}
	fmt.Fprintln(os.Stderr, "cases", n)
}
