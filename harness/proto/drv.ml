open Model
(* Int64 (unsigned) <-> N *)
let n_of_i64 (v : int64) : n =
  if v = 0L then N0 else begin
    (* build positive from most significant bit down *)
    let rec top k = if k < 0 then -1 else if Int64.logand (Int64.shift_right_logical v k) 1L = 1L then k else top (k-1) in
    let t = top 63 in
    let p = ref XH in
    for k = t-1 downto 0 do
      if Int64.logand (Int64.shift_right_logical v k) 1L = 1L then p := XI !p else p := XO !p
    done; Npos !p end
let rec i64_of_pos = function XH -> 1L | XO p -> Int64.shift_left (i64_of_pos p) 1 | XI p -> Int64.logor (Int64.shift_left (i64_of_pos p) 1) 1L
let i64_of_n = function N0 -> 0L | Npos p -> i64_of_pos p
let n_of_string s = n_of_i64 (Int64.of_string ("0u" ^ s))
let string_of_n x = Printf.sprintf "%Lu" (i64_of_n x)
let z_of_int i = if i = 0 then Z0 else if i > 0 then (match n_of_i64 (Int64.of_int i) with Npos p -> Zpos p | N0 -> Z0)
                 else (match n_of_i64 (Int64.of_int (-i)) with Npos p -> Zneg p | N0 -> Z0)
let int_of_z = function Z0 -> 0 | Zpos p -> Int64.to_int (i64_of_pos p) | Zneg p -> - (Int64.to_int (i64_of_pos p))
let nlist s = List.map n_of_string (String.split_on_char ',' s)
let parse_pos ws =
  match ws with
  | [sz; a; b; c; d; mv; w; bl; st; cp; hs; ss] ->
    { size = n_of_string sz; black_wins_ties = false; whiteStones = n_of_string a; whiteCaps = n_of_string b;
      blackStones = n_of_string c; blackCaps = n_of_string d; move = z_of_int (int_of_string mv);
      white = n_of_string w; black = n_of_string bl; standing = n_of_string st; caps = n_of_string cp;
      height = nlist hs; stacks = nlist ss; hash = N0 }
  | _ -> failwith "bad pos"
let enc p =
  String.concat " " [string_of_n p.size; string_of_n p.whiteStones; string_of_n p.whiteCaps; string_of_n p.blackStones;
    string_of_n p.blackCaps; string_of_int (int_of_z p.move); string_of_n p.white; string_of_n p.black;
    string_of_n p.standing; string_of_n p.caps; String.concat "," (List.map string_of_n p.height);
    String.concat "," (List.map string_of_n p.stacks)]
let () =
  let fixed = Array.length Sys.argv > 1 && Sys.argv.(1) = "fixed" in
  let n = ref 0 and bad = ref 0 in
  (try while true do
    let line = input_line stdin in
    incr n;
    match String.split_on_char '|' line with
    | [ps; ms; rs] ->
      let p = parse_pos (String.split_on_char ' ' (String.trim ps)) in
      let m = match String.split_on_char ' ' (String.trim ms) with
        | [x; y; t; s] -> { mX = z_of_int (int_of_string x); mY = z_of_int (int_of_string y); mT = n_of_string t; mS = n_of_string s }
        | _ -> failwith "bad move" in
      let r = if fixed then mv_fixed p m else mv_pinned p m in
      let out = match r with Ok q -> "OK " ^ enc q | Err -> "ERR" | Panic -> "PANIC" in
      if out <> String.trim rs then begin
        incr bad;
        if !bad <= 5 then Printf.printf "MISMATCH line %d\n  go:    %s\n  model: %s\n  input: %s | %s\n" !n (String.trim rs) out (String.trim ps) (String.trim ms)
      end
    | _ -> failwith "bad line"
  done with End_of_file -> ());
  Printf.printf "cases %d mismatches %d\n" !n !bad
