#!/bin/bash
# Builds build/bot.test: the in-package schedule driver of the C07 check
# (harness/overlay/bot_sched_test.go.txt) compiled into the test binary of playtak/bot of the
# repository's working tree.  Nothing is written into the repository: the driver and the accessor
# files of harness/overlay are added with -overlay; go.mod/go.sum are used through copies (-modfile).
# Repository = ${VERIF_REPO:-/repo}; output directory = ../build relative to this script.
set -e
cd "$(dirname "$0")"
H=$(pwd)
REPO=${VERIF_REPO:-/repo}
B=${VERIF_C07_BUILD:-$(cd .. && pwd)/build}
mkdir -p $B/c07
export GOFLAGS= GOPROXY=off GOSUMDB=off GOTOOLCHAIN=local CARGO_NET_OFFLINE=true
cp $REPO/go.mod $B/c07/go.mod
cp $REPO/go.sum $B/c07/go.sum
{
 echo '{"Replace": {'
 for f in overlay/*.go.txt; do
   b=$(basename $f .go.txt)
   case "$b" in *_test) continue;; esac
   pkg=${b%%__*}; name=${b#*__}
   pkgpath=$(echo $pkg | sed 's/--/\//g')
   printf ' "%s/%s/zz_verif_%s.go": "%s/%s",\n' "$REPO" "$pkgpath" "$name" "$H" "$f"
 done
 printf ' "%s/playtak/bot/zz_verif_sched_test.go": "%s/overlay/bot_sched_test.go.txt"\n' "$REPO" "$H"
 echo '}}'
} > $B/c07/overlay.json
cd $REPO
go test -c -o $B/c07/bot.test.$$ -modfile=$B/c07/go.mod -overlay $B/c07/overlay.json -vet=off ./playtak/bot
mv -f $B/c07/bot.test.$$ $B/bot.test
