#!/bin/bash
# C16, supporting evidence only: builds build/c16race with the Go race detector (go build -race) from the repository's working tree
# (VERIF_REPO or /repo) and runs it.  Prints the driver's output; exit status 66 = the race detector reported a data race.
cd "$(dirname "$0")"
export GOFLAGS=-mod=mod GOPROXY=off GOSUMDB=off GOTOOLCHAIN=local CGO_ENABLED=1
mkdir -p ../build
(
 flock 9
 [ -f ../build/overlay.json ] || bash build.sh C16 >/dev/null 2>&1
 go build -race -overlay ../build/overlay.json -o ../build/c16race ./cmd/c16race
) 9>../build/.lock || { echo "RACE-BUILD-FAILED"; exit 2; }
../build/c16race "${1:-1}" "${2:-40}"
