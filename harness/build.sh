#!/bin/bash
# Build the Go side of the harness from /repo's current working tree (never writes into /repo).
set -e
cd "$(dirname "$0")"
export GOFLAGS=-mod=mod GOPROXY=off GOSUMDB=off GOTOOLCHAIN=local CARGO_NET_OFFLINE=true
mkdir -p ../build
cp /repo/go.sum ./go.sum
H=$(pwd)
cat > ../build/overlay.json <<EOT
{"Replace": {
 "/repo/tak/zz_verif_export.go": "$H/overlay/tak_export.go.txt",
 "/repo/ai/zz_verif_export.go": "$H/overlay/ai_export.go.txt"
}}
EOT
go build -overlay ../build/overlay.json -o ../build/runimpl ./cmd/runimpl
go build -overlay ../build/overlay.json -o ../build/genconsts ./cmd/genconsts
