#!/bin/bash
# Build the Go side of the harness from the repository's current working tree (never writes into it).
# The repository is /repo unless VERIF_REPO names another checkout (used by ./mutcheck only).
set -e
cd "$(dirname "$0")"
export GOFLAGS=-mod=mod GOPROXY=off GOSUMDB=off GOTOOLCHAIN=local CARGO_NET_OFFLINE=true
REPO=${VERIF_REPO:-/repo}
mkdir -p ../build
cp $REPO/go.sum ./go.sum
grep -q "=> $REPO\$" go.mod || go mod edit -replace github.com/nelhage/taktician=$REPO
H=$(pwd)
{
 echo '{"Replace": {'
 first=1
 # overlay/<pkgpath with / replaced by __>__<name>.go.txt  ->  $REPO/<pkgpath>/zz_verif_<name>.go
 for f in overlay/*.go.txt; do
   b=$(basename $f .go.txt)
   case "$b" in *_test) continue;; esac     # in-package test drivers are built by their own scripts
   pkg=${b%%__*}; name=${b#*__}
   pkgpath=$(echo $pkg | sed 's/--/\//g')
   [ $first = 1 ] || echo ','
   first=0
   printf ' "%s/%s/zz_verif_%s.go": "%s/%s"' "$REPO" "$pkgpath" "$name" "$H" "$f"
 done
 echo
 echo '}}'
} > ../build/overlay.json
go build -overlay ../build/overlay.json -o ../build/runimpl ./cmd/runimpl
go build -overlay ../build/overlay.json -o ../build/genconsts ./cmd/genconsts
