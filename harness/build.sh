#!/bin/bash
# Build the Go side of the harness from the repository's current working tree (never writes into it).
#   harness/build.sh [Cnn ...]     builds build/runimpl-Cnn for the named properties (default: all) + build/genconsts
# Each property is its own binary: cmd/runimpl/cNN.go + every shared file of cmd/runimpl (those not
# named cNN.go) + the cMM.go files named on a line `// verif:needs cMM ...` in cNN.go.  A half-written
# driver of one property therefore cannot break the build of another.
# The repository is /repo unless VERIF_REPO names another checkout (used by ./mutcheck only).
cd "$(dirname "$0")"
export GOFLAGS=-mod=mod GOPROXY=off GOSUMDB=off GOTOOLCHAIN=local CARGO_NET_OFFLINE=true
REPO=${VERIF_REPO:-/repo}
mkdir -p ../build
cp $REPO/go.sum ./go.sum
grep -q "=> $REPO\$" go.mod || go mod edit -replace github.com/nelhage/taktician=$REPO
H=$(pwd)
{
 echo '{"Replace": {'
 first=1
 # overlay/<pkgpath with / written as -->__<name>.go.txt  ->  $REPO/<pkgpath>/zz_verif_<name>.go
 for f in overlay/*.go.txt; do
   b=$(basename $f .go.txt)
   case "$b" in *_test) continue;; esac     # in-package test drivers are built by their own scripts
   pkg=${b%%__*}; name=${b#*__}
   pkgpath=$(echo $pkg | sed 's/--/\//g')
   [ $first = 1 ] || echo ','
   first=0
   printf ' "%s/%s/zz_verif_%s.go": "%s/%s"' "$REPO" "$pkgpath" "$name" "$H" "$f"
 done
 echo
 echo '}}'
} > ../build/overlay.json
rc=0
go build -overlay ../build/overlay.json -o ../build/genconsts ./cmd/genconsts || rc=1
shared=$(ls cmd/runimpl/*.go | grep -v '/c[0-9][0-9]\.go$' | grep -v '_test\.go$')
props="$@"
[ -n "$props" ] || props=$(ls cmd/runimpl/c[0-9][0-9].go | sed 's#.*/c\([0-9][0-9]\)\.go#C\1#')
for P in $props; do
  n=$(echo $P | tr A-Z a-z)
  f=cmd/runimpl/$n.go
  [ -f $f ] || { echo "no $f" >&2; rc=1; continue; }
  # transitive closure of the `// verif:needs` lines (c14 needs c10, which needs c17)
  needs=""; todo=$(grep -h '^// verif:needs' $f | sed 's#// verif:needs##')
  while [ -n "$todo" ]; do
    nxt=""
    for d in $todo; do
      case " $needs $n " in *" $d "*) continue;; esac
      needs="$needs $d"
      [ -f cmd/runimpl/$d.go ] && nxt="$nxt $(grep -h '^// verif:needs' cmd/runimpl/$d.go | sed 's#// verif:needs##')"
    done
    todo=$nxt
  done
  extra=""
  for d in $needs; do extra="$extra cmd/runimpl/$d.go"; done
  # optional accessor families: `// verif:tags t1,t2` in cNN.go; when the tagged build fails (an accessor no longer fits
  # the repository's code) the driver is built without the tags and the family records itself as unavailable
  tags=$(grep -h '^// verif:tags' $f | sed 's#// verif:tags##' | tr -d ' ')
  # go build ignores build constraints of files named on the command line: select the shared files by their first line
  # (`//go:build tag` / `//go:build !tag`) ourselves
  pick() { # $1 = active tag ('' for none)
    for s in $shared; do
      l=$(head -1 $s)
      case "$l" in
        "//go:build !"*) t=${l#//go:build !}; [ "$t" = "$1" ] || echo $s;;
        "//go:build "*) t=${l#//go:build }; [ "$t" = "$1" ] && echo $s;;
        *) echo $s;;
      esac
    done
  }
  built=0
  if [ -n "$tags" ]; then
    if go build -tags "$tags" -overlay ../build/overlay.json -o ../build/runimpl-$(echo $P | tr a-z A-Z) $(pick "$tags") $f $extra 2> ../build/runimpl-$P.tags.log; then built=1; else
      echo "note: runimpl-$P does not build with tags $tags (see build/runimpl-$P.tags.log); building without" >&2
    fi
  fi
  shared_sel=$(pick "")
  if [ $built = 1 ]; then :; elif ! go build -overlay ../build/overlay.json -o ../build/runimpl-$(echo $P | tr a-z A-Z) $shared_sel $f $extra; then
    echo "build of runimpl-$P failed" >&2
    rm -f ../build/runimpl-$(echo $P | tr a-z A-Z)
    rc=1
  fi
done
cat > ../build/runimpl <<'EOT'
#!/bin/bash
# dispatcher: runimpl <Cnn> <tier> <seed> [args]  ->  runimpl-<CNN>
P=$(echo "$1" | tr a-z A-Z)
exec "$(dirname "$0")/runimpl-$P" "$@"
EOT
chmod +x ../build/runimpl
exit $rc
