module verifharness

go 1.18

require github.com/nelhage/taktician v0.0.0

replace github.com/nelhage/taktician => /repo
