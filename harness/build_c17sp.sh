#!/bin/bash
# Builds build/selfplay.test: the test binary of cmd/internal/selfplay of the repository (${VERIF_REPO:-/repo}) with the in-package
# driver overlay/selfplay_driver_test.go.txt added by -overlay (nothing is written into the repository).  Run by `runimpl C17`.
set -e
cd "$(dirname "$0")"
H=$(pwd)
REPO=$(readlink -f "${VERIF_REPO:-/repo}")
B=$(cd .. && pwd)/build
mkdir -p "$B/c17sp"
export GOFLAGS=-mod=mod GOPROXY=off GOSUMDB=off GOTOOLCHAIN=local
cp "$REPO/go.mod" "$B/c17sp/go.mod"
cp "$REPO/go.sum" "$B/c17sp/go.sum"
cat > "$B/c17sp/overlay.json" <<EOT
{"Replace": {
 "$REPO/cmd/internal/selfplay/zz_verif_driver_test.go": "$H/overlay/selfplay_driver_test.go.txt"
}}
EOT
cd "$REPO"
go test -c -o "$B/selfplay.test" -modfile="$B/c17sp/go.mod" -overlay "$B/c17sp/overlay.json" -vet=off ./cmd/internal/selfplay
