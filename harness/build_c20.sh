#!/bin/bash
# Builds build/fpa.test: the in-package driver of the C20 check (harness/overlay/fpa_enum_test.go.txt)
# compiled into the test binary of cmd/internal/playtak of the repository's working tree.
# Nothing is written into the repository: the driver, a copy of the rules oracle (package clause
# rewritten) and the accessor files of harness/overlay are added with -overlay; go.mod/go.sum are
# used through copies (-modfile).  Repository = ${VERIF_REPO:-/repo}.
set -e
cd "$(dirname "$0")"
H=$(pwd)
REPO=$(readlink -f "${VERIF_REPO:-/repo}")
B=${VERIF_C20_BUILD:-$(cd .. && pwd)/build}
mkdir -p $B/c20
export GOFLAGS=-mod=mod GOPROXY=off GOSUMDB=off GOTOOLCHAIN=local CARGO_NET_OFFLINE=true
cp $REPO/go.mod $B/c20/go.mod
cp $REPO/go.sum $B/c20/go.sum
sed 's/^package main$/package playtak/' cmd/runimpl/oracle_rules.go > $B/c20/oracle_rules.go
{
 echo '{"Replace": {'
 for f in overlay/*.go.txt; do
   b=$(basename $f .go.txt)
   case "$b" in *_test) continue;; esac
   pkg=${b%%__*}; name=${b#*__}
   pkgpath=$(echo $pkg | sed 's/--/\//g')
   printf ' "%s/%s/zz_verif_%s.go": "%s/%s",\n' "$REPO" "$pkgpath" "$name" "$H" "$f"
 done
 printf ' "%s/cmd/internal/playtak/zz_verif_oracle_test.go": "%s/c20/oracle_rules.go",\n' "$REPO" "$B"
 printf ' "%s/cmd/internal/playtak/zz_verif_fpa_enum_test.go": "%s/overlay/fpa_enum_test.go.txt"\n' "$REPO" "$H"
 echo '}}'
} > $B/c20/overlay.json
cd $REPO
go test -c -o $B/fpa.test -modfile=$B/c20/go.mod -overlay $B/c20/overlay.json -vet=off ./cmd/internal/playtak
