package main

import (
	"fmt"
	"io"
	"sort"
	"strings"

	"github.com/nelhage/taktician/ai"
)

func genAI(w io.Writer) {
	fmt.Fprintf(w, "Definition gen_WinBase : Z := %d%%Z.\nDefinition gen_ForcedWin : Z := %d%%Z.\n", int64(ai.WinBase), int64(ai.ForcedWin))
	fmt.Fprintf(w, "Definition gen_MaxFeature : nat := %d.\n", int(ai.MaxFeature))
	var rows []string
	for _, ws := range ai.DefaultWeights {
		rows = append(rows, zlist(ws[:]))
	}
	fmt.Fprintf(w, "Definition gen_DefaultWeights : list (list Z) :=\n  [%s].\n", strings.Join(rows, ";\n   "))
	var names []string
	for f := ai.Feature(0); f < ai.MaxFeature; f++ {
		names = append(names, fmt.Sprintf("%d=%s", int(f), f.String()))
	}
	fmt.Fprintf(w, "(* features: %s *)\n", strings.Join(names, " "))
	// the name table of ai/json.go as its init() built it (name bytes, index), in sorted name order, and
	// Feature(i).String() for i < MaxFeature (what MarshalJSON writes)
	bytesOf := func(s string) string {
		b := make([]string, len(s))
		for i := 0; i < len(s); i++ {
			b[i] = fmt.Sprint(s[i])
		}
		return "[" + strings.Join(b, "; ") + "]"
	}
	tbl := ai.VerifFeatureNames()
	var keys []string
	for k := range tbl {
		keys = append(keys, k)
	}
	sort.Strings(keys)
	var ents []string
	for _, k := range keys {
		ents = append(ents, fmt.Sprintf("(%s, %d) (* %s *)", bytesOf(k), tbl[k], strings.ReplaceAll(k, "*)", "* )")))
	}
	fmt.Fprintf(w, "Definition gen_featureNames : list (list N * N) :=\n  [%s]%%N.\n", strings.Join(ents, ";\n   "))
	var strs []string
	for f := ai.Feature(0); f < ai.MaxFeature; f++ {
		strs = append(strs, bytesOf(f.String()))
	}
	fmt.Fprintf(w, "Definition gen_featureStrings : list (list N) :=\n  [%s]%%N.\n", strings.Join(strs, ";\n   "))
}
