package main

import (
	"fmt"
	"io"
	"strings"

	"github.com/nelhage/taktician/ai"
)

func genAI(w io.Writer) {
	fmt.Fprintf(w, "Definition gen_WinBase : Z := %d%%Z.\nDefinition gen_ForcedWin : Z := %d%%Z.\n", int64(ai.WinBase), int64(ai.ForcedWin))
	fmt.Fprintf(w, "Definition gen_MaxFeature : nat := %d.\n", int(ai.MaxFeature))
	var rows []string
	for _, ws := range ai.DefaultWeights {
		rows = append(rows, zlist(ws[:]))
	}
	fmt.Fprintf(w, "Definition gen_DefaultWeights : list (list Z) :=\n  [%s].\n", strings.Join(rows, ";\n   "))
	var names []string
	for f := ai.Feature(0); f < ai.MaxFeature; f++ {
		names = append(names, fmt.Sprintf("%d=%s", int(f), f.String()))
	}
	fmt.Fprintf(w, "(* features: %s *)\n", strings.Join(names, " "))
}
