// runimpl: runs the taktician implementation (built from /repo's working tree) on generated
// cases and prints one line per case.  Each property registers one sub-command in its own file.
//
// Line protocol (stdout):
//
//	#STAT <key> <int>                      distribution counters for the evidence file
//	CASE <input> | <L1 observables> [| <L2 representation>]
//	ORACLE-FAIL <class> | <input> | <what the implementation did> | <what the property demands>
//	SAMPLE <text>                          a few human-readable cases for the evidence file
package main

import (
	"bufio"
	"fmt"
	"math/rand"
	"os"
	"sort"
	"strconv"
	"strings"

	"github.com/nelhage/taktician/tak"
)

type ctx struct {
	w     *bufio.Writer
	r     *rand.Rand
	tier  string
	seed  int64
	stats map[string]int64
	scale int // 1 quick, ~30 thorough (each property scales its own counts)
	args  []string
}

var registry = map[string]func(c *ctx){}

func register(name string, f func(c *ctx)) { registry[name] = f }

func (c *ctx) stat(k string, n int64) { c.stats[k] += n }
func (c *ctx) printf(f string, a ...interface{}) {
	fmt.Fprintf(c.w, f, a...)
}
func (c *ctx) quick() bool { return c.tier != "thorough" }

func main() {
	if len(os.Args) < 4 {
		fmt.Fprintln(os.Stderr, "usage: runimpl <property> <quick|thorough|replay> <seed> [args]")
		os.Exit(2)
	}
	f, ok := registry[strings.ToUpper(os.Args[1])]
	if !ok {
		fmt.Fprintln(os.Stderr, "unknown property", os.Args[1])
		os.Exit(2)
	}
	seed, _ := strconv.ParseInt(os.Args[3], 10, 64)
	w := bufio.NewWriterSize(os.Stdout, 1<<20)
	c := &ctx{w: w, r: rand.New(rand.NewSource(seed)), tier: os.Args[2], seed: seed, stats: map[string]int64{}, scale: 1, args: os.Args[4:]}
	if c.tier == "thorough" {
		c.scale = 20
	}
	f(c)
	keys := make([]string, 0, len(c.stats))
	for k := range c.stats {
		keys = append(keys, k)
	}
	sort.Strings(keys)
	for _, k := range keys {
		fmt.Fprintf(w, "#STAT %s %d\n", k, c.stats[k])
	}
	w.Flush()
}

// ---------- encodings shared with ocaml/common.ml ----------

func b2i(b bool) int {
	if b {
		return 1
	}
	return 0
}

// enc: the whole bit-level position: size bwt ws wc bs bc move W B S C heights stacks rawhash
func enc(p *tak.Position) string {
	ws, wc, bs, bc := tak.VerifReserves(p)
	hs := make([]string, len(p.Height))
	st := make([]string, len(p.Stacks))
	for i := range p.Height {
		hs[i] = strconv.Itoa(int(p.Height[i]))
		st[i] = strconv.FormatUint(p.Stacks[i], 10)
	}
	return fmt.Sprintf("%d %d %d %d %d %d %d %d %d %d %d %s %s %d", p.Size(), b2i(p.Config().BlackWinsTies), ws, wc, bs, bc, p.MoveNumber(),
		p.White, p.Black, p.Standing, p.Caps, strings.Join(hs, ","), strings.Join(st, ","), tak.VerifRawHash(p))
}

// encAbs: the L1 view of a position: every square's pieces top first, reserves, ply.
// Squares are read through the public accessor At(x,y), index x + y*size.
func encAbs(p *tak.Position) string {
	ws, wc, bs, bc := tak.VerifReserves(p)
	n := p.Size()
	sq := make([]string, 0, n*n)
	for y := 0; y < n; y++ {
		for x := 0; x < n; x++ {
			sq = append(sq, encSquare(p.At(x, y)))
		}
	}
	return fmt.Sprintf("%d %d %d %d %d %d %s", n, ws, wc, bs, bc, p.MoveNumber(), strings.Join(sq, ","))
}

func encSquare(s tak.Square) string {
	if len(s) == 0 {
		return "-"
	}
	var b strings.Builder
	for _, pc := range s {
		c := byte('w')
		if pc.Color() == tak.Black {
			c = 'b'
		}
		switch pc.Kind() {
		case tak.Standing:
			c -= 32 // W / B = standing
			b.WriteByte(c)
			b.WriteByte('s')
			continue
		case tak.Capstone:
			c -= 32
			b.WriteByte(c)
			b.WriteByte('c')
			continue
		}
		b.WriteByte(c)
	}
	return b.String()
}

func encMove(m tak.Move) string {
	return fmt.Sprintf("%d:%d:%d:%d", m.X, m.Y, uint8(m.Type), uint32(m.Slides))
}
func encMoves(ms []tak.Move) string {
	s := make([]string, len(ms))
	for i, m := range ms {
		s[i] = encMove(m)
	}
	if len(s) == 0 {
		return "-"
	}
	return strings.Join(s, ",")
}

func colorStr(c tak.Color) string {
	switch c {
	case tak.White:
		return "W"
	case tak.Black:
		return "B"
	}
	return "N"
}

// safely: run f, mapping a panic to ok=false.
func safely(f func()) (panicked bool, msg string) {
	defer func() {
		if e := recover(); e != nil {
			panicked = true
			msg = fmt.Sprint(e)
		}
	}()
	f()
	return false, ""
}

// ---------- position generators ----------

func legalMoves(p *tak.Position) []tak.Move {
	var out []tak.Move
	for _, m := range p.AllMoves(nil) {
		if _, e := p.Move(m); e == nil {
			out = append(out, m)
		}
	}
	return out
}

// policy-biased random choice among legal moves
func pickMove(r *rand.Rand, p *tak.Position, legal []tak.Move, policy int) tak.Move {
	m := legal[r.Intn(len(legal))]
	want := func(m tak.Move) bool { return true }
	switch policy {
	case 1: // stack building: prefer slides
		want = func(m tak.Move) bool { return m.IsSlide() }
	case 2: // walls and capstones
		want = func(m tak.Move) bool {
			return m.Type == tak.PlaceStanding || m.Type == tak.PlaceCapstone || m.IsSlide()
		}
	case 3: // edge hugging
		n := int8(p.Size())
		want = func(m tak.Move) bool { return m.X == 0 || m.Y == 0 || m.X == n-1 || m.Y == n-1 }
	case 4: // reserve draining / road racing: flats
		want = func(m tak.Move) bool { return m.Type == tak.PlaceFlat }
	case 5: // long multi-drop slides
		want = func(m tak.Move) bool { return m.IsSlide() && m.Slides.Len() >= 2 }
	}
	for k := 0; k < 6; k++ {
		if want(m) {
			break
		}
		m = legal[r.Intn(len(legal))]
	}
	return m
}

// randomGame plays up to `plies` random legal moves from New(cfg); returns every position met
// (including the start) and the moves.  Stops at game over unless past is true (then it keeps
// playing from finished positions, which the engine permits).
func randomGame(r *rand.Rand, cfg tak.Config, plies int, policy int, past bool) ([]*tak.Position, []tak.Move) {
	p := tak.New(cfg)
	ps := []*tak.Position{p}
	var ms []tak.Move
	for k := 0; k < plies; k++ {
		if over, _ := p.GameOver(); over && !past {
			break
		}
		legal := legalMoves(p)
		if len(legal) == 0 {
			break
		}
		pol := policy
		if pol < 0 {
			pol = r.Intn(6)
		}
		m := pickMove(r, p, legal, pol)
		q, err := p.Move(m)
		if err != nil {
			break
		}
		p = q
		ps = append(ps, p)
		ms = append(ms, m)
	}
	return ps, ms
}

func randCfg(r *rand.Rand, size int) tak.Config {
	cfg := tak.Config{Size: size, BlackWinsTies: r.Intn(4) == 0}
	if r.Intn(5) == 0 {
		cfg.Pieces = 1 + r.Intn(60)
		cfg.Capstones = r.Intn(4)
		if cfg.Capstones == 0 {
			cfg.Capstones = 0 // default
		}
	}
	return cfg
}

// constructedBoard builds a random well-formed board (only flats below the top) through
// FromSquares.  maxH bounds the stack heights (<= 64).  The ply is random >= 0 (>= 2 mostly).
func constructedBoard(r *rand.Rand, size int, maxH int, fill float64) (*tak.Position, [][]tak.Square, int) {
	board := make([][]tak.Square, size)
	for y := range board {
		board[y] = make([]tak.Square, size)
		for x := range board[y] {
			if r.Float64() > fill {
				continue
			}
			h := 1
			if r.Intn(3) == 0 {
				h = 1 + r.Intn(maxH)
			}
			sq := make(tak.Square, h)
			col := tak.White
			if r.Intn(2) == 0 {
				col = tak.Black
			}
			kind := tak.Flat
			switch r.Intn(6) {
			case 0:
				kind = tak.Standing
			case 1:
				kind = tak.Capstone
			}
			sq[0] = tak.MakePiece(col, kind)
			for j := 1; j < h; j++ {
				c := tak.White
				if r.Intn(2) == 0 {
					c = tak.Black
				}
				sq[j] = tak.MakePiece(c, tak.Flat)
			}
			board[y][x] = sq
		}
	}
	move := 2 + r.Intn(60)
	if r.Intn(12) == 0 {
		move = r.Intn(2)
	}
	cfg := tak.Config{Size: size, BlackWinsTies: r.Intn(4) == 0}
	fitReserves(r, &cfg, board)
	p, err := tak.FromSquares(cfg, board, move)
	if err != nil {
		panic(err)
	}
	return p, board, move
}

// fitReserves chooses piece and capstone counts so that the board does not use more pieces than a
// player has (a board that does is not a well-formed position: the byte reserves would wrap).
// Sometimes the counts are exact, so that a player has nothing left.
func fitReserves(r *rand.Rand, cfg *tak.Config, board [][]tak.Square) {
	var stones, caps [2]int
	for _, row := range board {
		for _, sq := range row {
			for _, pc := range sq {
				i := 0
				if pc.Color() == tak.Black {
					i = 1
				}
				if pc.Kind() == tak.Capstone {
					caps[i]++
				} else {
					stones[i]++
				}
			}
		}
	}
	ms, mc := stones[0], caps[0]
	if stones[1] > ms {
		ms = stones[1]
	}
	if caps[1] > mc {
		mc = caps[1]
	}
	extraS, extraC := r.Intn(12), r.Intn(2)
	if r.Intn(6) == 0 {
		extraS, extraC = 0, 0
	}
	cfg.Pieces = ms + extraS
	cfg.Capstones = mc + extraC
	if cfg.Pieces == 0 { // 0 means "default" to tak.New
		cfg.Pieces = 1
	}
	if cfg.Pieces > 255 {
		cfg.Pieces = 255
	}
	if cfg.Capstones == 0 && r.Intn(2) == 0 {
		cfg.Capstones = 1
	}
}

func boardOf(p *tak.Position) [][]tak.Square {
	n := p.Size()
	b := make([][]tak.Square, n)
	for y := 0; y < n; y++ {
		b[y] = make([]tak.Square, n)
		for x := 0; x < n; x++ {
			b[y][x] = p.At(x, y)
		}
	}
	return b
}
