package main

// verif:needs c18
// verif:tags verif_solve

// C19: a reported immediate road threat for the side to move is a real winning move.
// CASE <enc position> | <wp wt bp bt of ai.CountThreats>
// Direct oracle: when the counts of the side to move are positive (ply >= 2, game not over), a one-ply search with the
// implementation (AllMoves + Move + GameOver/WinDetails) AND with the independent rules oracle (rulesMove + DFS road
// search) must each find a legal move after which the mover has a road.  Class `phantom-threat`.

import (
	"fmt"
	"math/rand"
	"os"
	"strings"

	"github.com/nelhage/taktician/ai"
	"github.com/nelhage/taktician/bitboard"
	"github.com/nelhage/taktician/tak"
)

func init() { register("C19", runC19) }

// implRoadWin: one-ply search with the implementation
func implRoadWin(p *tak.Position) (bool, tak.Move) {
	me := p.ToMove()
	for _, m := range p.AllMoves(nil) {
		q, err := p.Move(m)
		if err != nil {
			continue
		}
		if over, w := q.GameOver(); over && w == me && q.WinDetails().Reason == tak.RoadWin {
			return true, m
		}
	}
	return false, tak.Move{}
}

// compositions of k into at most d positive parts, as Slides words (first drop in the low nibble)
func slideWords(k, d int) []tak.Slides {
	var out []tak.Slides
	var rec func(rem, parts int, word uint32, shift uint)
	rec = func(rem, parts int, word uint32, shift uint) {
		if rem == 0 {
			out = append(out, tak.Slides(word))
			return
		}
		if parts == d {
			return
		}
		for first := 1; first <= rem; first++ {
			rec(rem-first, parts+1, word|uint32(first)<<shift, shift+4)
		}
	}
	rec(k, 0, 0, 0)
	return out
}

// rulesRoadWin: one-ply search with the rules oracle, its own move enumeration (placements, then one-piece one-step
// slides, then every slide), never consulting the implementation's move generator.
func rulesRoadWin(a *aboard) (bool, tak.Move) {
	me := a.toMove()
	try := func(m tak.Move) bool {
		b := a.rulesMove(m)
		return b != nil && b.hasRoad(me)
	}
	n := a.n
	for y := 0; y < n; y++ {
		for x := 0; x < n; x++ {
			if len(a.sq[y][x]) != 0 {
				continue
			}
			for _, t := range []tak.MoveType{tak.PlaceFlat, tak.PlaceCapstone} { // a standing stone never completes a road
				m := tak.Move{X: int8(x), Y: int8(y), Type: t}
				if try(m) {
					return true, m
				}
			}
		}
	}
	dirs := []tak.MoveType{tak.SlideLeft, tak.SlideRight, tak.SlideUp, tak.SlideDown}
	for y := 0; y < n; y++ {
		for x := 0; x < n; x++ {
			if len(a.sq[y][x]) == 0 || a.sq[y][x][0].Color() != me {
				continue
			}
			for _, t := range dirs {
				m := tak.Move{X: int8(x), Y: int8(y), Type: t, Slides: 1}
				if try(m) {
					return true, m
				}
			}
		}
	}
	for y := 0; y < n; y++ {
		for x := 0; x < n; x++ {
			h := len(a.sq[y][x])
			if h == 0 || a.sq[y][x][0].Color() != me {
				continue
			}
			if h > n {
				h = n
			}
			for k := 1; k <= h; k++ {
				for _, w := range slideWords(k, n-1) {
					for _, t := range dirs {
						m := tak.Move{X: int8(x), Y: int8(y), Type: t, Slides: w}
						if try(m) {
							return true, m
						}
					}
				}
			}
		}
	}
	return false, tak.Move{}
}

// emitC19 returns true when the mover's counts are positive
func emitC19(c *ctx, p *tak.Position, kind string, emit bool) bool {
	cs := bitboard.Precompute(uint(p.Size()))
	var wp, wt, bp, bt int
	l1 := "PANIC"
	pk, _ := safely(func() {
		wp, wt, bp, bt = ai.CountThreats(&cs, p)
		l1 = fmt.Sprintf("%d %d %d %d", wp, wt, bp, bt)
	})
	mine := wp + wt
	if p.ToMove() == tak.Black {
		mine = bp + bt
	}
	if emit || mine > 0 {
		c.printf("CASE %s | %s\n", enc(p), l1)
		c.stat("cases", 1)
		c.stat("kind_"+kind, 1)
		c.stat(fmt.Sprintf("size%d", p.Size()), 1)
	}
	c.stat("positions_judged", 1)
	if pk {
		c.printf("ORACLE-FAIL count-threats-panic | %s | panic | four counts\n", enc(p))
		return false
	}
	a := absOf(p)
	if over, _, _ := a.outcome(); over {
		c.stat("skipped_game_over", 1)
		return mine > 0
	}
	if p.MoveNumber() < 2 {
		c.stat("skipped_opening", 1)
		return mine > 0
	}
	if mine == 0 {
		c.stat("mover_no_threat_reported", 1)
		if c.r.Intn(16) == 0 { // completeness is not claimed; recorded for the distribution only
			if ok, _ := rulesRoadWin(a); ok {
				c.stat("unreported_road_win_in_sample", 1)
			}
			c.stat("no_threat_sampled_for_completeness", 1)
		}
		return false
	}
	c.stat("mover_threat_reported", 1)
	if (p.ToMove() == tak.White && wp > 0) || (p.ToMove() == tak.Black && bp > 0) {
		c.stat("mover_threat_by_placement", 1)
	} else {
		c.stat("mover_threat_by_slide_only", 1)
	}
	okI, mI := implRoadWin(p)
	okR, mR := rulesRoadWin(a)
	if !okI || !okR {
		in := enc(p)
		if c19Hist != "" {
			in += " ;; after " + c19Hist
		}
		c.printf("ORACLE-FAIL phantom-threat | %s | CountThreats=%s, one-ply road win by implementation search: %v, by rules oracle: %v | a legal move of the side to move that completes its road\n",
			in, l1, okI, okR)
	} else if c.stats["samples"] < 4 {
		c.stats["samples"]++
		c.printf("SAMPLE %s | counts %s | winning move (impl search) %s, (rules oracle) %s\n", encAbs(p), l1, encMove(mI), encMove(mR))
	}
	return true
}

// ---------- constructed families ----------

// threatBoard: one colour (the mover, usually) has road material arranged around a gap; the surroundings of the gap are
// what the property names: walls and capstones next to / in the gap, own flats that would have to leave the road,
// pinned groups (own flats covered by the opponent), exhausted flat reserves.
func threatBoard(r *rand.Rand, n int) (evBoard, tak.Color, bool, string) {
	b := evNew(n)
	me := evCol(r)
	op := me.Flip()
	horizontal := r.Intn(2) == 0
	set := func(x, y int, sq tak.Square) {
		if !horizontal {
			x, y = y, x
		}
		if x >= 0 && y >= 0 && x < n && y < n {
			b[y][x] = sq
		}
	}
	get := func(x, y int) tak.Square {
		if !horizontal {
			x, y = y, x
		}
		if x >= 0 && y >= 0 && x < n && y < n {
			return b[y][x]
		}
		return nil
	}
	// tall: a stack higher than the carry limit - own flat on top, about n enemy stones directly below, own or mixed stones
	// deeper: whatever is carried away, an enemy stone stays on top of the origin
	tall := func(c tak.Color) tak.Square {
		k := n - 1 + r.Intn(3)
		deep := 1 + r.Intn(3)
		sq := tak.Square{tak.MakePiece(c, tak.Flat)}
		for i := 0; i < k; i++ {
			sq = append(sq, tak.MakePiece(c.Flip(), tak.Flat))
		}
		for i := 0; i < deep; i++ {
			dc := c
			if r.Intn(3) == 0 {
				dc = c.Flip()
			}
			sq = append(sq, tak.MakePiece(dc, tak.Flat))
		}
		return sq
	}
	tallLinks := r.Intn(6) == 0
	flat := func(c tak.Color) tak.Square {
		if tallLinks && r.Intn(3) == 0 {
			return tall(c)
		}
		return evStack(r, c, tak.Flat, 1+r.Intn(3)/2, 0)
	}
	row := r.Intn(n)
	gap := r.Intn(n)
	fam := ""
	switch r.Intn(6) {
	case 0: // a straight line with one gap (edge gap when gap is 0 or n-1: single group; otherwise a two-group junction)
		for x := 0; x < n; x++ {
			if x != gap {
				set(x, row, flat(me))
			}
		}
		fam = "line_gap"
	case 1: // line with a gap, the line bends around so that both parts are larger groups
		for x := 0; x < n; x++ {
			if x != gap {
				set(x, row, flat(me))
				if r.Intn(3) == 0 {
					set(x, row+1-2*r.Intn(2), flat(me))
				}
			}
		}
		fam = "bent_line_gap"
	case 2: // the gap is occupied: wall, capstone or flat of either colour (threat by placement impossible)
		for x := 0; x < n; x++ {
			if x != gap {
				set(x, row, flat(me))
			}
		}
		k := []tak.Kind{tak.Flat, tak.Flat, tak.Flat, tak.Standing, tak.Capstone}[r.Intn(5)]
		gc := op
		if r.Intn(4) == 0 {
			gc = me
		}
		set(gap, row, evStack(r, gc, k, 1+r.Intn(3), 0))
		if r.Intn(2) == 0 { // a free single of the mover next to the occupied gap: a threat by slide only
			set(gap, row+1-2*r.Intn(2), evStack(r, me, tak.Flat, 1+r.Intn(2), 2))
		}
		fam = "gap_occupied"
	case 3: // only singles next to the gap that belong to the road itself: nothing may move in without breaking it
		for x := 0; x < n; x++ {
			if x != gap {
				set(x, row, evStack(r, me, tak.Flat, 1, 0))
			}
		}
		fam = "must_leave_road"
	case 4: // two-square gap: no immediate win by placement; a tall stack nearby may bridge it
		for x := 0; x < n; x++ {
			if x != gap && x != gap+1 {
				set(x, row, flat(me))
			}
		}
		set(gap, row+1-2*r.Intn(2), evStack(r, me, []tak.Kind{tak.Flat, tak.Capstone}[r.Intn(2)], 2+r.Intn(3), 1))
		fam = "double_gap"
	default: // an L-shaped junction: two groups meeting at a corner square
		for x := 0; x < gap; x++ {
			set(x, row, flat(me))
		}
		for x := gap + 1; x < n; x++ {
			set(x, row+1, flat(me))
		}
		set(gap, row+1, flat(me))
		if row+1 >= n {
			for x := gap + 1; x < n; x++ {
				set(x, row-1, flat(me))
			}
			set(gap, row-1, flat(me))
		}
		fam = "corner_junction"
	}
	// decoration around the gap
	for _, d := range [][2]int{{0, 1}, {0, -1}, {1, 0}, {-1, 0}, {1, 1}, {-1, -1}} {
		x, y := gap+d[0], row+d[1]
		if get(x, y) != nil || r.Intn(2) == 0 {
			continue
		}
		switch r.Intn(8) {
		case 7:
			set(x, y, tall(me)) // own flat on a stack taller than the carry limit with enemy stones right below it
		case 0:
			set(x, y, evStack(r, me, tak.Flat, 1, 0)) // a free single that can slide in
		case 1:
			set(x, y, evStack(r, me, tak.Standing, 1+r.Intn(2), 0)) // own wall: cannot complete a road
		case 2:
			set(x, y, evStack(r, me, tak.Capstone, 1+r.Intn(3), 0)) // own capstone: not counted as a slider, but wins
		case 3:
			set(x, y, evStack(r, op, tak.Flat, 1, 0))
		case 4:
			set(x, y, evStack(r, op, []tak.Kind{tak.Standing, tak.Capstone}[r.Intn(2)], 1, 0))
		case 5:
			set(x, y, evStack(r, me, tak.Flat, 2+r.Intn(4), 2)) // own flat on enemy captives: sliding it uncovers the enemy
		default:
			set(x, y, evStack(r, op, tak.Flat, 2+r.Intn(3), 2)) // enemy flat pinning own pieces
		}
	}
	// an enemy line so that uncovering / double roads occur
	if r.Intn(4) == 0 {
		orow := (row + 2 + r.Intn(n-2)) % n
		for x := 0; x < n; x++ {
			if get(x, orow) == nil && r.Intn(8) != 0 {
				set(x, orow, flat(op))
			}
		}
	}
	for k := r.Intn(n); k > 0; k-- {
		x, y := r.Intn(n), r.Intn(n)
		if b[y][x] == nil {
			b[y][x] = evStack(r, evCol(r), []tak.Kind{tak.Flat, tak.Flat, tak.Standing, tak.Capstone}[r.Intn(4)], 1+r.Intn(2), 0)
		}
	}
	exact := r.Intn(4) == 0 // exhausted flat reserves (capstones possibly left)
	return b, me, exact, fam
}

// smallBoards: every board of the size with exactly k single pieces (6 piece types), white to move; the colour-swapped
// twin is covered by black to move on the same board.
func smallBoards(n, k int, f func(b evBoard)) {
	types := []tak.Piece{
		tak.MakePiece(tak.White, tak.Flat), tak.MakePiece(tak.White, tak.Standing), tak.MakePiece(tak.White, tak.Capstone),
		tak.MakePiece(tak.Black, tak.Flat), tak.MakePiece(tak.Black, tak.Standing), tak.MakePiece(tak.Black, tak.Capstone)}
	b := evNew(n)
	var rec func(start, left int)
	rec = func(start, left int) {
		if left == 0 {
			f(b)
			return
		}
		for i := start; i <= n*n-left; i++ {
			for _, t := range types {
				b[i/n][i%n] = tak.Square{t}
				rec(i+1, left-1)
			}
			b[i/n][i%n] = nil
		}
	}
	rec(0, k)
}

func smallPos(b evBoard, move int) *tak.Position {
	_, cp := evCount(b)
	mc := cp[0]
	if cp[1] > mc {
		mc = cp[1]
	}
	cfg := tak.Config{Size: len(b), Pieces: 10, Capstones: mc + 1}
	p, err := tak.FromSquares(cfg, b, move)
	if err != nil {
		panic(err)
	}
	return p
}

func runC19(c *ctx) {
	if c.tier == "replay" {
		replayC19(c)
		return
	}
	r := c.r
	// reachable positions: road-racing and mixed policies
	for g := 0; g < 200*c.scale; g++ {
		size := 3 + g%6
		cfg := randCfg(r, size)
		if r.Intn(5) == 0 { // few flats, some capstones: flat reserves run out
			cfg.Pieces = 3 + r.Intn(8)
			cfg.Capstones = 1 + r.Intn(3)
		}
		pol := []int{4, 4, 3, -1, 0, 2}[r.Intn(6)]
		ps, _ := randomGame(r, cfg, 30+r.Intn(120), pol, false)
		for i, p := range ps {
			if i < 2 {
				continue
			}
			emitC19(c, p, "playout", i >= len(ps)-3 || r.Intn(3) == 0)
		}
	}
	// constructed: threats with everything the property names around the gap
	for k := 0; k < 9000*c.scale; k++ {
		size := 3 + k%6
		b, me, exact, fam := threatBoard(r, size)
		move := 2 + 2*r.Intn(20)
		if me == tak.Black {
			move++
		}
		if r.Intn(6) == 0 { // the other side to move: its counts must then be sound instead
			move++
		}
		emitC19(c, evPos(r, b, move, exact, r.Intn(4) == 0), fam, true)
	}
	// constructed: the extreme and random boards of C18
	for k := 0; k < 3000*c.scale; k++ {
		size := 3 + k%6
		b, fam := extremeBoard(r, size, 3+(k/6)%3)
		emitC19(c, evPos(r, b, 2+r.Intn(60), r.Intn(5) == 0, false), fam, true)
	}
	for k := 0; k < 6000*c.scale; k++ {
		size := 3 + k%6
		_, bd, mv := constructedBoard(r, size, 1+r.Intn(6), 0.2+0.7*r.Float64())
		if mv < 2 {
			continue
		}
		emitC19(c, evPos(r, evBoard(bd), mv, r.Intn(6) == 0, r.Intn(4) == 0), "constructed", true)
	}
	// many road groups: one colour has MORE groups of at least two squares than the board is wide (the per-position group
	// storage is 2*size words shared by the two colours), the other a near-road (a row or column of flats with one hole) -
	// either side to move: the holder of the near-road must get its threat, the other side must not be credited with it
	for k := 0; k < 150*c.scale; k++ {
		size := 5 + k%4
		b := evNew(size)
		near := []tak.Color{tak.White, tak.Black}[r.Intn(2)]
		many := near.Flip()
		if r.Intn(5) == 0 {
			many = near
		}
		line := r.Intn(size)
		hole := r.Intn(size)
		vertical := r.Intn(2) == 0
		cell := func(i int) (int, int) {
			if vertical {
				return line, i
			}
			return i, line
		}
		for i := 0; i < size; i++ {
			if i != hole {
				x, y := cell(i)
				b[y][x] = tak.Square{tak.MakePiece(near, tak.Flat)}
			}
		}
		occ := func(x, y int) bool { return x >= 0 && y >= 0 && x < size && y < size && len(b[y][x]) > 0 }
		hx, hy := cell(hole)
		nearHole := func(x, y int) bool { return (x-hx)*(x-hx)+(y-hy)*(y-hy) <= 1 }
		touches := func(x, y int, col tak.Color) bool {
			for _, d := range [][2]int{{1, 0}, {-1, 0}, {0, 1}, {0, -1}} {
				if occ(x+d[0], y+d[1]) && b[y+d[1]][x+d[0]][0].Color() == col {
					return true
				}
			}
			return false
		}
		groups := 0
		for tries := 0; tries < 600 && groups < size+1+r.Intn(3); tries++ {
			x, y := r.Intn(size), r.Intn(size)
			x2, y2 := x+1, y
			if r.Intn(2) == 0 {
				x2, y2 = x, y+1
			}
			if x2 >= size || y2 >= size || occ(x, y) || occ(x2, y2) || nearHole(x, y) || nearHole(x2, y2) || touches(x, y, many) || touches(x2, y2, many) {
				continue
			}
			b[y][x] = tak.Square{tak.MakePiece(many, tak.Flat)}
			b[y2][x2] = tak.Square{tak.MakePiece(many, tak.Flat)}
			groups++
		}
		c.stat("many_groups_boards", 1)
		if groups > size {
			c.stat("many_groups_boards_over_size", 1)
		}
		for _, mover := range []tak.Color{tak.White, tak.Black} {
			move := 2 + 2*r.Intn(20)
			if mover == tak.Black {
				move++
			}
			emitC19(c, evPos(r, b.clone(), move, false, r.Intn(4) == 0), "many-groups", true)
		}
	}
	// CALL HISTORIES on the same objects, as the search makes them: a null move (Pass) from the position into a scratch
	// buffer, further moves from the same position into the same buffer, moves from the children into a second buffer -
	// and only then the detector is asked about the ORIGINAL position, which none of this may have changed
	for k := 0; k < 400*c.scale; k++ {
		size := 3 + k%6
		var p *tak.Position
		if k%2 == 0 {
			b, me, exact, _ := threatBoard(r, size)
			move := 2 + 2*r.Intn(20)
			if me == tak.Black {
				move++
			}
			p = evPos(r, b, move, exact, false)
		} else {
			ps, _ := randomGame(r, randCfg(r, size), 6+r.Intn(40), []int{4, 3, -1}[r.Intn(3)], false)
			p = ps[len(ps)-1]
		}
		if over, _ := p.GameOver(); over || p.MoveNumber() < 2 {
			continue
		}
		legal := legalMoves(p)
		steps := 1 + r.Intn(4)
		var hist []string // "<move from p into buffer 1>[/<move from that child into buffer 2>]"
		probe := p.Clone()
		for i := 0; i < steps; i++ {
			var m tak.Move
			if i == 0 || r.Intn(3) == 0 {
				m = tak.Move{Type: tak.Pass}
			} else if len(legal) > 0 {
				m = legal[r.Intn(len(legal))]
			} else {
				continue
			}
			child, err := probe.Move(m)
			if err != nil {
				continue
			}
			h := encMove(m)
			if l2 := legalMoves(child); len(l2) > 0 && r.Intn(2) == 0 {
				h += "/" + encMove(l2[r.Intn(len(l2))])
			}
			hist = append(hist, h)
		}
		c19History(p, hist)
		c19Hist = strings.Join(hist, ",")
		emitC19(c, p, "after-null-move-history", true)
		c19Hist = ""
	}
	// exhaustive small boards
	maxk3, maxk4 := 2, 1
	if !c.quick() {
		maxk3, maxk4 = 4, 4
	}
	for k := 0; k <= maxk3; k++ {
		smallBoards(3, k, func(b evBoard) {
			for mv := 2; mv <= 3; mv++ {
				emitC19(c, smallPos(b, mv), fmt.Sprintf("all_3x3_%dpieces", k), true)
			}
		})
	}
	for k := 0; k <= maxk4; k++ {
		smallBoards(4, k, func(b evBoard) {
			for mv := 2; mv <= 3; mv++ {
				// with 4 pieces there are 2.4 million boards: every one is judged by the oracle, the model is compared on
				// those with a reported threat and on a sample of the others
				emitC19(c, smallPos(b, mv), fmt.Sprintf("all_4x4_%dpieces", k), k < 4 || r.Intn(16) == 0)
			}
		})
	}
	// the detector as the depth-first solver holds it: one solver instance, runs of related positions (c19_solve.go)
	c19SolverFamily(c)
}

// c19Hist: the calls made on the position's objects before the judged call (history family); part of the failing input
var c19Hist string

// c19History plays the recorded calls: every entry moves from p into scratch buffer 1 and optionally from that child
// into scratch buffer 2 (MovePreallocated, as the search does with its per-ply buffers)
func c19History(p *tak.Position, hist []string) {
	s1, s2 := tak.Alloc(p.Size()), tak.Alloc(p.Size())
	for _, h := range hist {
		f := strings.Split(h, "/")
		child, err := p.MovePreallocated(decodeMove(f[0]), s1)
		if err != nil {
			continue
		}
		if len(f) > 1 {
			child.MovePreallocated(decodeMove(f[1]), s2)
		}
	}
}

func replayC19(c *ctx) {
	if len(c.args) < 1 {
		fmt.Fprintln(os.Stderr, "replay file missing")
		os.Exit(2)
	}
	inp, err := evReplayInput(c.args[0])
	if err != nil {
		fmt.Fprintln(os.Stderr, err)
		os.Exit(2)
	}
	if c19SolverReplay(c, inp) {
		return
	}
	hist := ""
	if i := strings.Index(inp, " ;; after "); i >= 0 {
		hist, inp = inp[i+len(" ;; after "):], inp[:i]
	}
	p, err := evDecode(inp)
	if err != nil {
		fmt.Fprintln(os.Stderr, err)
		os.Exit(2)
	}
	if hist != "" {
		c19History(p, strings.Split(hist, ","))
		c19Hist = hist
	}
	emitC19(c, p, "replay", true)
}

var _ = rand.Intn
