package main

// C01: Move succeeds iff legal, and yields the exact successor.
// CASE <enc position> ; <move> | <class> [<abs successor>] | <bit-level successor>

import (
	"fmt"
	"math/rand"
	"runtime"
	"strings"
	"sync"

	"github.com/nelhage/taktician/tak"
)

func init() { register("C01", runC01) }

func malformedMove(r *rand.Rand, p *tak.Position) tak.Move {
	n := int8(p.Size())
	coord := func() int8 {
		switch r.Intn(6) {
		case 0:
			return int8(r.Intn(256) - 128)
		case 1:
			return -1
		case 2:
			return n
		case 3:
			return n + int8(r.Intn(3))
		}
		return int8(r.Intn(int(n)))
	}
	var m tak.Move
	m.X, m.Y = coord(), coord()
	switch r.Intn(8) {
	case 0:
		m.Type = tak.MoveType(r.Intn(256))
	case 1:
		m.Type = tak.MoveType(9 + r.Intn(8))
	case 2:
		m.Type = 0
	default:
		m.Type = tak.MoveType(2 + r.Intn(7))
	}
	if m.Type == tak.Pass { // Pass is outside the claim
		m.Type = tak.PlaceFlat
	}
	switch r.Intn(6) {
	case 0:
		m.Slides = tak.Slides(r.Uint32())
	case 1:
		m.Slides = tak.Slides(r.Intn(1 << 12))
	case 2: // zero nibble inside
		m.Slides = tak.Slides(1 + r.Intn(8) + (1+r.Intn(8))<<8)
	case 3:
		m.Slides = 0
	default:
		k := 1 + r.Intn(3)
		for i := 0; i < k; i++ {
			m.Slides = m.Slides.Prepend(1 + r.Intn(4))
		}
	}
	return m
}

type c01result struct {
	class string
	next  *tak.Position
}

func applyMove(p *tak.Position, m tak.Move) c01result {
	return applyMoveInto(p, m, nil)
}

// applyMoveInto: MovePreallocated into the caller's buffer (nil = fresh storage)
func applyMoveInto(p *tak.Position, m tak.Move, buf *tak.Position) c01result {
	var res c01result
	panicked, _ := safely(func() {
		q, err := p.MovePreallocated(m, buf)
		if err != nil {
			res.class = "ERR"
		} else {
			res.class = "OK"
			res.next = q
		}
	})
	if panicked {
		res = c01result{class: "PANIC"}
	}
	return res
}

// c01Oracle compares the implementation's behaviour with the rules oracle.  Returns "" or
// a failure class.
func c01Oracle(p *tak.Position, m tak.Move, res c01result) (string, string) {
	return c01OracleAbs(absOf(p), m, res)
}

func c01OracleAbs(a *aboard, m tak.Move, res c01result) (string, string) {
	want := a.rulesMove(m)
	if want != nil && want.maxHeight() > 64 {
		return "", "" // outside the documented 64-piece representation limit
	}
	offboard := !a.on(int(m.X), int(m.Y))
	switch res.class {
	case "PANIC":
		if offboard {
			return "offboard-panic", "error expected, implementation panicked"
		}
		return "panic", "implementation panicked"
	case "ERR":
		if want != nil {
			return "legal-rejected", "rules allow the move: " + fmt.Sprint(encAbsBoard(want))
		}
	case "OK":
		if want == nil {
			if offboard {
				return "offboard-accepted", "rules reject the move (origin off the board)"
			}
			return "illegal-accepted", "rules reject the move"
		}
		if !absOf(res.next).equalBoard(want) {
			return "wrong-successor", "rules successor: " + encAbsBoard(want)
		}
	}
	return "", ""
}

func encAbsBoard(a *aboard) string {
	s := fmt.Sprintf("%d %d %d %d %d %d ", a.n, a.ws, a.wc, a.bs, a.bc, a.ply)
	for y := 0; y < a.n; y++ {
		for x := 0; x < a.n; x++ {
			if x+y > 0 {
				s += ","
			}
			s += encSquare(a.sq[y][x])
		}
	}
	return s
}

func emitC01(c *ctx, p *tak.Position, m tak.Move) {
	emitC01Into(c, p, m, nil)
}

func emitC01Into(c *ctx, p *tak.Position, m tak.Move, buf *tak.Position) c01result {
	before := enc(p)
	a0 := absOf(p)
	res := applyMoveInto(p, m, buf)
	if buf != nil {
		c.stat("cases_into_reused_buffer", 1)
		if enc(p) != before || !absOf(p).equalBoard(a0) {
			c.printf("ORACLE-FAIL source-changed | %s ; %s | source position differs after the call | applying a move never changes the source\n", before, encMove(m))
		}
	}
	c.stat("cases", 1)
	c.stat("class_"+res.class, 1)
	if m.IsSlide() && m.Type <= tak.SlideDown {
		c.stat("moves_slide", 1)
	} else if m.Type >= tak.PlaceFlat && m.Type <= tak.PlaceCapstone {
		c.stat("moves_place", 1)
	} else {
		c.stat("moves_badtype", 1)
	}
	l1, l2 := res.class, "-"
	if res.next != nil {
		l1 += " " + encAbs(res.next)
		l2 = enc(res.next)
	}
	c.printf("CASE %s ; %s | %s | %s\n", before, encMove(m), l1, l2)
	if cls, why := c01OracleAbs(a0, m, res); cls != "" {
		c.printf("ORACLE-FAIL %s | %s ; %s | %s | %s\n", cls, before, encMove(m), l1, why)
	} else if len(c01Seen) < 6000 && (res.class == "OK" || len(c01Seen)%3 == 0) {
		c01Seen = append(c01Seen, c01Rec{p, m, l1})
	}
	return res
}

// c01Seen: (position, move) pairs of this run whose sequential result the rules oracle accepted, with that result
type c01Rec struct {
	p  *tak.Position
	m  tak.Move
	l1 string
}

var c01Seen []c01Rec

// c01Concurrent: Position.Move from several goroutines at once, on positions of different board sizes, each into fresh storage
// (several games served by one process); every caller must get what the sequential caller got.
func c01Concurrent(c *ctx, rounds int) {
	if len(c01Seen) == 0 {
		return
	}
	old := runtime.GOMAXPROCS(0)
	if old < 4 {
		runtime.GOMAXPROCS(4)
		defer runtime.GOMAXPROCS(old)
	}
	const workers = 6
	var mu sync.Mutex
	var bad []string
	var calls int64
	var wg sync.WaitGroup
	for w := 0; w < workers; w++ {
		wg.Add(1)
		go func(w int) {
			defer wg.Done()
			n := 0
			for k := 0; k < rounds; k++ {
				rec := c01Seen[(w*7919+k*31+k*k)%len(c01Seen)]
				res := applyMove(rec.p, rec.m)
				l1 := res.class
				if res.next != nil {
					l1 += " " + encAbs(res.next)
				}
				n++
				if l1 != rec.l1 {
					mu.Lock()
					bad = append(bad, fmt.Sprintf("ORACLE-FAIL concurrent-result-differs | %s ; %s ;; called while %d other goroutines apply moves to positions of sizes 3..8 | %s | the sequential (rules-conforming) result %s",
						enc(rec.p), encMove(rec.m), workers-1, l1, rec.l1))
					mu.Unlock()
					break
				}
			}
			mu.Lock()
			calls += int64(n)
			mu.Unlock()
		}(w)
	}
	wg.Wait()
	c.stat("concurrent_calls", calls)
	for i, b := range bad {
		if i < 3 {
			c.printf("%s\n", b)
		}
	}
}

// c01Dfs: the search pattern: one buffer per ply, every pseudo-legal move of a node tried into the same buffer
// (rejected attempts included), the parent buffer overwritten by the next sibling; every result judged as usual.
func c01Dfs(c *ctx, root *tak.Position, depth, budget int) {
	size := root.Size()
	bufs := make([]*tak.Position, depth)
	for i := range bufs {
		bufs[i] = tak.Alloc(size)
	}
	var rec func(p *tak.Position, d int)
	rec = func(p *tak.Position, d int) {
		if d == depth || budget <= 0 {
			return
		}
		moves := p.AllMoves(nil)
		for k := 0; k < 2; k++ {
			moves = append(moves, malformedMove(c.r, p))
		}
		c.r.Shuffle(len(moves), func(i, j int) { moves[i], moves[j] = moves[j], moves[i] })
		if len(moves) > 14 {
			moves = moves[:14]
		}
		for _, m := range moves {
			if budget <= 0 {
				return
			}
			budget--
			res := emitC01Into(c, p, m, bufs[d])
			if res.next != nil && c.r.Intn(2) == 0 {
				rec(res.next, d+1)
			}
		}
	}
	rec(root, 0)
}

func c01Position(c *ctx, p *tak.Position, every int, nbad int) {
	r := c.r
	c.stat(fmt.Sprintf("positions_size%d", p.Size()), 1)
	maxh := 0
	for _, h := range p.Height {
		if int(h) > maxh {
			maxh = int(h)
		}
	}
	switch {
	case maxh >= 9:
		c.stat("positions_maxheight_ge9", 1)
	case maxh >= 3:
		c.stat("positions_maxheight_3to8", 1)
	default:
		c.stat("positions_maxheight_le2", 1)
	}
	all := p.AllMoves(nil)
	for i, m := range all {
		if every <= 1 || i%every == r.Intn(every) {
			emitC01(c, p, m)
		}
	}
	for k := 0; k < nbad; k++ {
		emitC01(c, p, malformedMove(r, p))
	}
	// slides from every owned stack with carries around the limits
	n := p.Size()
	for k := 0; k < nbad/2; k++ {
		x, y := r.Intn(n), r.Intn(n)
		m := tak.Move{X: int8(x), Y: int8(y), Type: tak.MoveType(5 + r.Intn(4))}
		kk := 1 + r.Intn(4)
		for i := 0; i < kk; i++ {
			m.Slides = m.Slides.Prepend(1 + r.Intn(3))
		}
		emitC01(c, p, m)
	}
}

func runC01(c *ctx) {
	if c.tier == "replay" {
		rf := readReplay(c)
		in := rf.Input
		conc := strings.Contains(in, " ;; ")
		if i := strings.Index(in, " ;; "); i >= 0 {
			in = in[:i]
		}
		parts := strings.Split(in, ";")
		p, err := decodeEnc(parts[0])
		if err != nil || len(parts) < 2 {
			fmt.Println("bad replay input")
			return
		}
		emitC01(c, p, decodeMove(strings.TrimSpace(parts[1])))
		if conc { // a failure of the concurrent family: the pair again next to positions of every size
			for s := 3; s <= 8; s++ {
				q, _, _ := constructedBoard(c.r, s, 8, 0.5)
				c01Position(c, q, 3, 2)
			}
			c01Concurrent(c, 20000)
		}
		return
	}
	r := c.r
	games := 40 * c.scale
	for g := 0; g < games; g++ {
		size := 3 + g%6
		cfg := randCfg(r, size)
		ps, _ := randomGame(r, cfg, 10+r.Intn(60), -1, r.Intn(8) == 0)
		for _, p := range ps {
			if r.Intn(3) == 0 {
				c01Position(c, p, 4, 8)
			}
		}
	}
	// the two OPENING plies: slides and every placement kind tried at ply 0 and ply 1 of real games (the stone on the board at
	// ply 1 is the mover's own colour: a slide of it is illegal only because of the opening rule), and on constructed boards whose
	// ply counter is 0 or 1 although stones are on the board
	for size := 3; size <= 8; size++ {
		p0 := tak.New(tak.Config{Size: size})
		for k := 0; k < 3*c.scale; k++ {
			x, y := r.Intn(size), r.Intn(size)
			p1, err := p0.Move(tak.Move{X: int8(x), Y: int8(y), Type: tak.PlaceFlat})
			if err != nil {
				continue
			}
			for _, p := range []*tak.Position{p0, p1} {
				for _, t := range []tak.MoveType{tak.SlideLeft, tak.SlideRight, tak.SlideUp, tak.SlideDown} {
					emitC01(c, p, tak.Move{X: int8(x), Y: int8(y), Type: t, Slides: tak.MkSlides(1)})
				}
				for _, t := range []tak.MoveType{tak.PlaceFlat, tak.PlaceStanding, tak.PlaceCapstone} {
					emitC01(c, p, tak.Move{X: int8(r.Intn(size)), Y: int8(r.Intn(size)), Type: t})
					emitC01(c, p, tak.Move{X: int8(x), Y: int8(y), Type: t})
				}
			}
		}
		for k := 0; k < 4*c.scale; k++ {
			_, board, _ := constructedBoard(r, size, 4, 0.3+0.4*r.Float64())
			cfg := tak.Config{Size: size}
			fitReserves(r, &cfg, board)
			q, err := tak.FromSquares(cfg, board, r.Intn(2))
			if err != nil {
				continue
			}
			c01Position(c, q, 2, 6)
		}
	}
	// search-like walks through reused per-ply buffers (stack-heavy middle games)
	for g := 0; g < 30*c.scale; g++ {
		size := 3 + g%6
		ps, _ := randomGame(r, tak.Config{Size: size}, 8+r.Intn(30), []int{1, 5, -1}[r.Intn(3)], false)
		c01Dfs(c, ps[len(ps)-1], 3, 250)
	}
	boards := 150 * c.scale
	for b := 0; b < boards; b++ {
		size := 3 + b%6
		maxH := []int{4, 8, 12, 30, 56}[r.Intn(5)]
		p, _, _ := constructedBoard(r, size, maxH, 0.2+0.7*r.Float64())
		c01Position(c, p, 3, 10)
	}
	// the dense off-board grid on a few positions: every int8 coordinate pair near the board
	for k := 0; k < 3*c.scale; k++ {
		size := 3 + r.Intn(6)
		ps, _ := randomGame(r, tak.Config{Size: size}, 6+r.Intn(10), -1, false)
		p := ps[len(ps)-1]
		for x := -3; x <= size+2; x++ {
			for y := -3; y <= size+2; y++ {
				for _, t := range []tak.MoveType{tak.PlaceFlat, tak.PlaceStanding, tak.SlideLeft, tak.SlideRight, tak.SlideUp, tak.SlideDown} {
					m := tak.Move{X: int8(x), Y: int8(y), Type: t}
					if m.IsSlide() {
						m.Slides = tak.MkSlides(1)
					}
					emitC01(c, p, m)
				}
			}
		}
	}
	c01Concurrent(c, 3000*c.scale)
}
