package main

// C12: PTN game files render/parse losslessly and replay to the right position
// (and the PTN-file entry point of C13: ptnFileOutcome).
//
// CASE <kind> ; <generated structure or -> ; <hex text> ; <queries n:c ...>
//    | rok=<1|-> ; P <parsed structure>|ERR|PANIC ; R <md5 of re-rendered text>|- ; I <OK abs|ERR|PANIC> ; Y <replay outcome> ; Q <res> ; Q <res> ...
// kind G: text = [BOM] Render(generated game); kind T: mutated / raw text (no structure).
// Structures: tags=<hexname>:<hexvalue>,... ops=N<n>,M<x:y:t:s>/<hexmods>,C<hex>,R<hex>,...

import (
	"bytes"
	"crypto/md5"
	"encoding/hex"
	"encoding/json"
	"fmt"
	"math/rand"
	"os"
	"strconv"
	"strings"

	"github.com/nelhage/taktician/ptn"
	"github.com/nelhage/taktician/tak"
)

func init() { register("C12", runC12) }

// ---------- the generated game (independent of package ptn's types) ----------

type c12Op struct {
	kind byte // 'N' move number, 'M' move, 'C' comment, 'R' result
	n    int
	m    tak.Move
	s    string // modifiers / comment / result
}

type c12Game struct {
	tags     []ptn.Tag
	ops      []c12Op
	bom      bool
	start    *aboard // the start position the tags describe (nil when startErr)
	startErr bool    // the tags do not describe a start position: every replay request must fail
	note     string
	endPos   *tak.Position // the implementation's position after the legal part (generator use only)
	tail     int           // 0: the record is exactly the legal part
	ended    bool
}

type c12Query struct {
	n int
	c tak.Color
}

func (g *c12Game) toPTN() *ptn.PTN {
	p := &ptn.PTN{Tags: append([]ptn.Tag(nil), g.tags...)}
	for _, o := range g.ops {
		switch o.kind {
		case 'N':
			p.Ops = append(p.Ops, &ptn.MoveNumber{Number: o.n})
		case 'M':
			p.Ops = append(p.Ops, &ptn.Move{Move: o.m, Modifiers: o.s})
		case 'C':
			p.Ops = append(p.Ops, &ptn.Comment{Comment: o.s})
		case 'R':
			p.Ops = append(p.Ops, &ptn.Result{Result: o.s})
		}
	}
	return p
}

func c12OpsOf(p *ptn.PTN) []c12Op {
	var out []c12Op
	for _, op := range p.Ops {
		switch o := op.(type) {
		case *ptn.MoveNumber:
			out = append(out, c12Op{kind: 'N', n: o.Number})
		case *ptn.Move:
			out = append(out, c12Op{kind: 'M', m: o.Move, s: o.Modifiers})
		case *ptn.Comment:
			out = append(out, c12Op{kind: 'C', s: o.Comment})
		case *ptn.Result:
			out = append(out, c12Op{kind: 'R', s: o.Result})
		default:
			out = append(out, c12Op{kind: '?'})
		}
	}
	return out
}

func c12EncStruct(tags []ptn.Tag, ops []c12Op) string {
	var b strings.Builder
	b.WriteString("tags=")
	for i, t := range tags {
		if i > 0 {
			b.WriteByte(',')
		}
		b.WriteString(hex.EncodeToString([]byte(t.Name)))
		b.WriteByte(':')
		b.WriteString(hex.EncodeToString([]byte(t.Value)))
	}
	b.WriteString(" ops=")
	for i, o := range ops {
		if i > 0 {
			b.WriteByte(',')
		}
		switch o.kind {
		case 'N':
			b.WriteString("N" + strconv.Itoa(o.n))
		case 'M':
			b.WriteString("M" + encMove(o.m) + "/" + hex.EncodeToString([]byte(o.s)))
		default:
			b.WriteByte(o.kind)
			b.WriteString(hex.EncodeToString([]byte(o.s)))
		}
	}
	return b.String()
}

func c12SameStruct(tags []ptn.Tag, ops []c12Op, tags2 []ptn.Tag, ops2 []c12Op) bool {
	return c12EncStruct(tags, ops) == c12EncStruct(tags2, ops2)
}

// ---------- running the implementation ----------

type c12Obs struct {
	parse    string // OK / ERR / PANIC
	parsed   *ptn.PTN
	pstruct  string
	rerender string
	init     string
	replay   string
	q        []string
	panicMsg string
}

func c12PosRes(f func() (*tak.Position, error)) (string, string) {
	var out string
	panicked, msg := safely(func() {
		p, err := f()
		if err != nil {
			out = "ERR"
		} else if p == nil {
			out = "NIL"
		} else {
			out = "OK " + encAbs(p)
		}
	})
	if panicked {
		return "PANIC", msg
	}
	return out, ""
}

// c12Overwritten: set when a position handed out by the iterator changed after the iterator moved on (reported as a failure of its own class)
var c12Overwritten string

// c12Replay: for it.Next() {} over the Iterator; "OK <n> <final position>" / "ERR init" / "ERR replay <n>" / "PANIC"
func c12Replay(p *ptn.PTN) (string, string) {
	var out string
	panicked, msg := safely(func() {
		if _, err := p.InitialPosition(); err != nil {
			out = "ERR init"
			return
		}
		it := p.Iterator()
		n := 0
		// every position the iterator reports is kept and looked at again after the walk: a reported position is the start
		// position with exactly the moves up to there applied, also after the iterator has moved on
		var held []*tak.Position
		var snap []string
		for it.Next() {
			n++
			if n > len(p.Ops)+5 {
				out = "HANG"
				return
			}
			if q := it.Position(); q != nil && len(held) < 400 {
				held = append(held, q)
				snap = append(snap, encAbs(q))
			}
		}
		for i, q := range held {
			if encAbs(q) != snap[i] {
				c12Overwritten = fmt.Sprintf("the position reported at step %d (%s) reads %s after the walk", i+1, snap[i], encAbs(q))
				out = fmt.Sprintf("OVERWRITTEN %d", i+1)
				return
			}
		}
		if it.Err() != nil {
			out = fmt.Sprintf("ERR replay %d", n)
			return
		}
		out = fmt.Sprintf("OK %d %s", n, encAbs(it.Position()))
	})
	if panicked {
		return "PANIC", msg
	}
	return out, ""
}

func c12Run(text []byte, qs []c12Query) c12Obs {
	var o c12Obs
	panicked, msg := safely(func() {
		p, err := ptn.ParsePTN(bytes.NewReader(text))
		if err != nil {
			o.parse = "ERR"
			return
		}
		o.parse = "OK"
		o.parsed = p
	})
	if panicked {
		o.parse = "PANIC"
		o.panicMsg = "ParsePTN: " + msg
	}
	if o.parsed == nil {
		o.rerender, o.init, o.replay = "-", "-", "-"
		for range qs {
			o.q = append(o.q, "-")
		}
		return o
	}
	p := o.parsed
	o.pstruct = c12EncStruct(p.Tags, c12OpsOf(p))
	if pk, m := safely(func() { s := md5.Sum([]byte(p.Render())); o.rerender = hex.EncodeToString(s[:]) }); pk {
		o.rerender = "PANIC"
		o.panicMsg = "Render: " + m
	}
	var m string
	if o.init, m = c12PosRes(p.InitialPosition); m != "" {
		o.panicMsg = "InitialPosition: " + m
	}
	if o.replay, m = c12Replay(p); m != "" {
		o.panicMsg = "Iterator: " + m
	}
	for _, q := range qs {
		r, m := c12PosRes(func() (*tak.Position, error) { return p.PositionAtMove(q.n, q.c) })
		if m != "" {
			o.panicMsg = "PositionAtMove: " + m
		}
		o.q = append(o.q, r)
	}
	return o
}

// ptnFileOutcome: the PTN-file entry point of C13: ParsePTN + InitialPosition + full replay through the Iterator.
// "OK <number of Next()==true> <final position>" / "ERR parse" / "ERR init" / "ERR replay <n>" / "PANIC <msg>"
func ptnFileOutcome(data []byte) string {
	var p *ptn.PTN
	var perr error
	if panicked, msg := safely(func() { p, perr = ptn.ParsePTN(bytes.NewReader(data)) }); panicked {
		return "PANIC ParsePTN: " + msg
	}
	if perr != nil {
		return "ERR parse"
	}
	out, msg := c12Replay(p)
	if out == "PANIC" {
		return "PANIC " + msg
	}
	return out
}

func (o *c12Obs) l1(rok string) string {
	ps := o.parse
	if o.parse == "OK" {
		ps = o.pstruct
	}
	parts := []string{"rok=" + rok, "P " + ps, "R " + o.rerender, "I " + o.init, "Y " + o.replay}
	for _, q := range o.q {
		parts = append(parts, "Q "+q)
	}
	return strings.Join(parts, " ; ")
}

func (o *c12Obs) anyPanic() bool {
	if o.parse == "PANIC" || o.rerender == "PANIC" || o.init == "PANIC" || o.replay == "PANIC" || o.replay == "HANG" {
		return true
	}
	for _, q := range o.q {
		if q == "PANIC" {
			return true
		}
	}
	return false
}

// ---------- the direct oracle (written from the property text) ----------

// Well-formed games, for which "render then parse" must give the game back: tag names without space and ']', tag values
// without ']' and '"', comments without '}', modifiers over ?!', results in the result notation, moves that are
// placements / slides of the notation's shape on the 8x8 grid.
func c12IsResult(s string) bool {
	i := strings.IndexByte(s, '-')
	if i < 0 {
		return false
	}
	side := func(t string) bool { return t == "F" || t == "R" || t == "1/2" || t == "1" || t == "0" }
	return side(s[:i]) && side(s[i+1:])
}

func c12MoveShape(m tak.Move) bool {
	if m.X < 0 || m.X > 7 || m.Y < 0 || m.Y > 7 {
		return false
	}
	switch m.Type {
	case tak.PlaceFlat, tak.PlaceStanding, tak.PlaceCapstone:
		return m.Slides == 0
	case tak.SlideLeft, tak.SlideRight, tak.SlideUp, tak.SlideDown:
		sum, k := 0, 0
		for s := uint32(m.Slides); s != 0; s >>= 4 {
			d := int(s & 15)
			if d < 1 || d > 8 {
				return false
			}
			sum += d
			k++
		}
		return k >= 1 && sum <= 8
	}
	return false
}

func (g *c12Game) wellFormed() bool {
	for _, t := range g.tags {
		if strings.ContainsAny(t.Name, " ]") || strings.ContainsAny(t.Value, "]\"") {
			return false
		}
	}
	for _, o := range g.ops {
		switch o.kind {
		case 'M':
			if !c12MoveShape(o.m) || strings.Trim(o.s, "?!'") != "" {
				return false
			}
		case 'C':
			if strings.Contains(o.s, "}") {
				return false
			}
		case 'R':
			if !c12IsResult(o.s) {
				return false
			}
		}
	}
	return true
}

// specPositionAt: the position "at move n, colour c" by a naive walk over the record (rules oracle for the moves,
// depth-first road search for the game end).  ok=false: the property demands an error.
func specPositionAt(start *aboard, ops []c12Op, n int, c tak.Color) (*aboard, bool) {
	pos, marker := start, 0
	hit := func() bool { return n > 0 && marker == n && pos.toMove() == c }
	for _, o := range ops {
		switch o.kind {
		case 'N':
			marker = o.n
		case 'M':
			if hit() { // it is c's turn under marker n: exactly the moves before it have been applied
				return pos, true
			}
			next := pos.rulesMove(o.m)
			if next == nil { // illegal move in the file
				return nil, false
			}
			pos = next
			if over, _, _ := pos.outcome(); over { // replay stops when the game ends
				if hit() || n == 0 {
					return pos, true
				}
				return nil, false
			}
		}
	}
	if hit() || n == 0 {
		return pos, true
	}
	return nil, false // beyond the recorded game
}

// the L1 text of a rules-oracle board, in the format of encAbs
func c12EncAboard(a *aboard) string {
	sq := make([]string, 0, a.n*a.n)
	for y := 0; y < a.n; y++ {
		for x := 0; x < a.n; x++ {
			sq = append(sq, encSquare(a.sq[y][x]))
		}
	}
	return fmt.Sprintf("%d %d %d %d %d %d %s", a.n, a.ws, a.wc, a.bs, a.bc, a.ply, strings.Join(sq, ","))
}

var c12DefaultReserves = map[int][2]int{3: {10, 0}, 4: {15, 0}, 5: {21, 1}, 6: {30, 1}, 7: {40, 2}, 8: {50, 2}}

func c12EmptyBoard(n int) *aboard {
	r := c12DefaultReserves[n]
	a := &aboard{n: n, ws: r[0], wc: r[1], bs: r[0], bc: r[1]}
	a.sq = make([][]tak.Square, n)
	for y := range a.sq {
		a.sq[y] = make([]tak.Square, n)
	}
	return a
}

func c12Oracle(c *ctx, g *c12Game, input string, o *c12Obs, qs []c12Query) {
	fail := func(class, did, want string) {
		c.printf("ORACLE-FAIL %s | %s | %s | %s\n", class, input, did, want)
		c.stat("oracle_fail", 1)
	}
	if o.anyPanic() {
		fail("ptn-panic", "panic: "+o.panicMsg, "a value or an error")
	}
	if c12Overwritten != "" {
		fail("iterator-position-overwritten", c12Overwritten, "a position reported by the iterator keeps showing the moves that preceded it")
		c12Overwritten = ""
		return
	}
	wf := g.wellFormed()
	if !wf {
		c.stat("games_not_wellformed", 1)
		return // no round-trip claim; the model comparison still covers the case
	}
	if o.parse != "OK" {
		fail("roundtrip-differs", "ParsePTN(Render(g)) failed", "the generated game "+c12EncStruct(g.tags, g.ops))
		return
	}
	if !c12SameStruct(g.tags, g.ops, o.parsed.Tags, c12OpsOf(o.parsed)) {
		fail("roundtrip-differs", "parsed "+o.pstruct, "the generated game "+c12EncStruct(g.tags, g.ops))
		return
	}
	for i, q := range qs {
		if q.n < 0 {
			continue // the property says nothing about negative move numbers
		}
		got := o.q[i]
		var want string
		switch {
		case g.startErr:
			want = "ERR"
		case q.c == tak.NoColor && q.n != 0:
			want = "ERR"
		default:
			if a, ok := specPositionAt(g.start, g.ops, q.n, q.c); ok {
				want = "OK " + c12EncAboard(a)
			} else {
				want = "ERR"
			}
		}
		if got == want {
			continue
		}
		qd := fmt.Sprintf("PositionAtMove(%d,%s)", q.n, colorStr(q.c))
		if want == "ERR" {
			fail("missing-error", qd+" = "+got, "an error")
		} else {
			fail("position-at-move-wrong", qd+" = "+got, want)
		}
		return
	}
	// the Iterator: replay stops at the game end / reports the illegal move
	if !g.startErr {
		want := c12SpecReplay(g.start, g.ops)
		got := o.replay
		if strings.HasPrefix(got, "OK ") { // drop the count of Next() calls: not part of the property
			f := strings.SplitN(got, " ", 3)
			got = "OK " + f[2]
		} else if strings.HasPrefix(got, "ERR replay") {
			got = "ERR"
		}
		if got != want {
			cls := "position-at-move-wrong"
			if want == "ERR" {
				cls = "missing-error"
			}
			fail(cls, "full replay = "+o.replay, want)
		}
	} else if o.init != "ERR" {
		fail("missing-error", "InitialPosition = "+o.init, "an error")
	}
}

func c12SpecReplay(start *aboard, ops []c12Op) string {
	a, ok := specPositionAt(start, ops, 0, tak.White)
	if !ok {
		return "ERR"
	}
	return "OK " + c12EncAboard(a)
}

// ---------- call histories on one *ptn.PTN object ----------
// H cases: parse the text once, ask queries1 on the object, then extend the SAME object (AddMoves or appended ops: legal
// continuation moves, move-number markers, comments), then ask queries2 on it.  PositionAtMove is specified as a function of
// the record, so the answers after the extension must be those of the extended record: they are compared with the naive walk
// over the extended op list, with a freshly parsed copy of Render(), and (L1) with the model evaluated on the extended list.
// CASE H ; <structure> ; <hex text> ; <queries1> ; <A|O> ops=<extension> ; <queries2>
//    | <as for G> ; X <structure after the extension> ; R2 <md5 of its rendering> ; Y2 <replay> ; Q <res> ...

func c12AddMovesOps(ms []tak.Move) []c12Op { // what AddMoves is documented to append
	var out []c12Op
	for i, m := range ms {
		if i%2 == 0 {
			out = append(out, c12Op{kind: 'N', n: i/2 + 1})
		}
		out = append(out, c12Op{kind: 'M', m: m})
	}
	return out
}

func c12EmitHistory(c *ctx, sample bool) {
	r := c.r
	var g *c12Game
	for try := 0; try < 30; try++ {
		g = c12GenGame(c)
		if !g.startErr && g.tail == 0 && g.wellFormed() && g.endPos != nil {
			break
		}
		g = nil
	}
	if g == nil {
		return
	}
	// the continuation: legal moves from the end of the record (when the game is over there, the engine still accepts moves:
	// the replay must then stop before them)
	var cont []tak.Move
	cur := g.endPos
	for k := 0; k < 1+r.Intn(6); k++ {
		if over, _ := cur.GameOver(); over && len(cont) > 0 {
			break
		}
		legal := legalMoves(cur)
		if len(legal) == 0 {
			break
		}
		m := legal[r.Intn(len(legal))]
		q, err := cur.Move(m)
		if err != nil {
			break
		}
		cont = append(cont, m)
		cur = q
	}
	if len(cont) == 0 {
		return
	}
	mode := "A"
	var ext []c12Op
	if r.Intn(2) == 0 {
		ext = c12AddMovesOps(cont)
	} else {
		mode = "O"
		ply := g.endPos.MoveNumber()
		for i, m := range cont {
			switch r.Intn(3) {
			case 0:
				ext = append(ext, c12Op{kind: 'N', n: (ply+i)/2 + 1})
			case 1:
				if (ply+i)%2 == 0 || i == 0 {
					ext = append(ext, c12Op{kind: 'N', n: (ply+i)/2 + 1})
				}
			}
			if r.Intn(6) == 0 {
				ext = append(ext, c12Op{kind: 'C', s: "later"})
			}
			ext = append(ext, c12Op{kind: 'M', m: m})
		}
		if r.Intn(3) == 0 {
			ext = append(ext, c12Op{kind: 'N', n: (ply+len(cont))/2 + 1})
		}
	}
	text := []byte(g.toPTN().Render())
	if g.bom {
		text = append([]byte("\xef\xbb\xbf"), text...)
	}
	allOps := append(append([]c12Op(nil), g.ops...), ext...)
	// queries1 exhaust the record (final position, beyond the game, the last marker); queries2 look into the extension
	q1 := c12Queries(r, g.ops, 4)
	q1 = append([]c12Query{{0, tak.White}}, q1...)
	if r.Intn(4) == 0 {
		q1 = q1[1:] // sometimes without the explicit move-0 request
	}
	q2 := c12Queries(r, ext, 6)
	q2 = append([]c12Query{{0, tak.White}, {0, tak.Black}}, q2...)
	q2 = append(q2, c12Queries(r, allOps, 4)...)
	c12RunHistory(c, g, mode, ext, text, q1, q2, sample)
}

func c12RunHistory(c *ctx, g *c12Game, mode string, ext []c12Op, text []byte, q1, q2 []c12Query, sample bool) {
	allOps := append(append([]c12Op(nil), g.ops...), ext...)
	var cont []tak.Move
	for _, o := range ext {
		if o.kind == 'M' {
			cont = append(cont, o.m)
		}
	}
	var o1, o2, o3 c12Obs
	var p *ptn.PTN
	if pk, _ := safely(func() { p, _ = ptn.ParsePTN(bytes.NewReader(text)) }); pk || p == nil {
		return
	}
	o1 = c12Run(text, nil) // structure / rendering / replay of the record as parsed (a separate object)
	ask := func(p *ptn.PTN, qs []c12Query, o *c12Obs) {
		for _, q := range qs {
			res, m := c12PosRes(func() (*tak.Position, error) { return p.PositionAtMove(q.n, q.c) })
			if m != "" {
				o.panicMsg = "PositionAtMove: " + m
			}
			o.q = append(o.q, res)
		}
	}
	ask(p, q1, &o1)
	// the extension, on the same object
	safely(func() {
		if mode == "A" {
			p.AddMoves(cont)
		} else {
			p.Ops = append(p.Ops, (&c12Game{ops: ext}).toPTN().Ops...)
		}
	})
	o2.parse, o2.parsed = "OK", p
	o2.pstruct = c12EncStruct(p.Tags, c12OpsOf(p))
	rendered := ""
	if pk, m := safely(func() { rendered = p.Render(); s := md5.Sum([]byte(rendered)); o2.rerender = hex.EncodeToString(s[:]) }); pk {
		o2.rerender, o2.panicMsg = "PANIC", "Render: "+m
	}
	ask(p, q2, &o2)
	var m string
	if o2.replay, m = c12Replay(p); m != "" {
		o2.panicMsg = "Iterator: " + m
	}
	o2.init = "-"
	// a freshly parsed copy of the rendering of the extended object
	var fresh *ptn.PTN
	safely(func() { fresh, _ = ptn.ParsePTN(strings.NewReader(rendered)) })
	if fresh != nil {
		ask(fresh, q2, &o3)
	}

	input := fmt.Sprintf("H ; %s ; %s ; %s ; %s %s ; %s", c12EncStruct(g.tags, g.ops), hex.EncodeToString(text), c12QueryStr(q1),
		mode, strings.Fields(c12EncStruct(nil, ext))[1], c12QueryStr(q2))
	parts := []string{o1.l1("1"), "X " + o2.pstruct, "R2 " + o2.rerender, "Y2 " + o2.replay}
	for _, q := range o2.q {
		parts = append(parts, "Q "+q)
	}
	c.stat("cases", 1)
	c.stat("cases_history", 1)
	c.stat("cases_history_mode"+mode, 1)
	c.stat("queries", int64(len(q1)+len(q2)))
	c.printf("CASE %s | %s\n", input, strings.Join(parts, " ; "))
	if sample {
		c.printf("SAMPLE history: %q, asked %s, then %s %s, asked %s\n", string(text), c12QueryStr(q1), mode, c12EncStruct(nil, ext), c12QueryStr(q2))
	}
	fail := func(class, did, want string) {
		c.printf("ORACLE-FAIL %s | %s | %s | %s\n", class, input, did, want)
		c.stat("oracle_fail", 1)
	}
	if o1.anyPanic() || o2.anyPanic() || o3.anyPanic() {
		fail("ptn-panic", "panic: "+o1.panicMsg+o2.panicMsg+o3.panicMsg, "a value or an error")
		return
	}
	c12Oracle(c, g, input, &o1, q1) // the first round, as for any game
	if !c12SameStruct(g.tags, allOps, p.Tags, c12OpsOf(p)) {
		fail("history-dependent-answer", "after the extension the object holds "+o2.pstruct, "the record extended by "+c12EncStruct(nil, ext))
		return
	}
	for i, q := range q2 {
		if q.n < 0 {
			continue
		}
		want := "ERR"
		if !(q.c == tak.NoColor && q.n != 0) {
			if a, ok := specPositionAt(g.start, allOps, q.n, q.c); ok {
				want = "OK " + c12EncAboard(a)
			}
		}
		qd := fmt.Sprintf("after %s and the extension, PositionAtMove(%d,%s)", c12QueryStr(q1), q.n, colorStr(q.c))
		if o2.q[i] != want {
			fail("history-dependent-answer", qd+" = "+o2.q[i], want+" (the position of the extended record)")
			return
		}
		if fresh != nil && o3.q[i] != o2.q[i] {
			fail("history-dependent-answer", qd+" = "+o2.q[i], "the answer of a freshly parsed copy of Render(): "+o3.q[i])
			return
		}
	}
	if want := c12SpecReplay(g.start, allOps); true {
		got := o2.replay
		if strings.HasPrefix(got, "OK ") {
			got = "OK " + strings.SplitN(got, " ", 3)[2]
		} else if strings.HasPrefix(got, "ERR replay") {
			got = "ERR"
		}
		if got != want {
			fail("history-dependent-answer", "full replay after the extension = "+o2.replay, want)
		}
	}
}

// ---------- generators ----------

var c12CommentAlphabet = []string{"a", "b", " ", " ", "\n", "\t", "{", "[", "]", "\"", "1.", "a1", "R-0", "\x85", "\xa0", "\xc3\xa9", "?", "!", ".", "-", "\xef\xbb\xbf", "'"}

func c12RandText(r *rand.Rand, alphabet []string, maxLen int) string {
	n := r.Intn(maxLen + 1)
	var b strings.Builder
	for i := 0; i < n; i++ {
		b.WriteString(alphabet[r.Intn(len(alphabet))])
	}
	return b.String()
}

var c12Results = []string{"R-0", "0-R", "F-0", "0-F", "1-0", "0-1", "1/2-1/2", "1/2-0", "F-R", "0-0", "1-1/2"}

func c12ResultFor(a *aboard) string {
	over, w, road := a.outcome()
	if !over {
		return c12Results[0]
	}
	k := "F"
	if road {
		k = "R"
	}
	switch w {
	case tak.White:
		return k + "-0"
	case tak.Black:
		return "0-" + k
	}
	return "1/2-1/2"
}

func c12IllegalMove(r *rand.Rand, a *aboard) (tak.Move, bool) {
	for try := 0; try < 30; try++ {
		var m tak.Move
		lim := a.n
		if r.Intn(4) == 0 {
			lim = 8 // squares the notation has but the board does not
		}
		m.X, m.Y = int8(r.Intn(lim)), int8(r.Intn(lim))
		if r.Intn(2) == 0 {
			m.Type = tak.MoveType(2 + r.Intn(3))
		} else {
			m.Type = tak.MoveType(5 + r.Intn(4))
			k := 1 + r.Intn(3)
			sum := 0
			var ds []int
			for i := 0; i < k && sum < 8; i++ {
				d := 1 + r.Intn(3)
				if sum+d > 8 {
					d = 8 - sum
				}
				ds = append(ds, d)
				sum += d
			}
			m.Slides = tak.MkSlides(ds...)
		}
		if a.rulesMove(m) == nil {
			return m, true
		}
	}
	return tak.Move{}, false
}

// c12Game: one generated game.
func c12GenGame(c *ctx) *c12Game {
	r := c.r
	g := &c12Game{}
	size := 3 + r.Intn(6)
	if r.Intn(3) == 0 {
		size = 3 + r.Intn(2) // small boards finish: game-over paths
	}
	cfg := tak.Config{Size: size}
	p := tak.New(cfg)
	useTPS := r.Intn(4) == 0
	if useTPS {
		ps, _ := randomGame(r, cfg, 1+r.Intn(4*size), -1, false)
		p = ps[len(ps)-1]
		if over, _ := p.GameOver(); over && len(ps) > 1 {
			p = ps[len(ps)-2]
		}
		if p.MoveNumber() == 0 {
			useTPS = false
		}
	}
	g.start = absOf(p)
	c.stat(fmt.Sprintf("games_size%d", size), 1)
	if useTPS {
		c.stat("games_tps_start", 1)
	}

	// ---- tags ----
	sizeTag := ptn.Tag{Name: "Size", Value: strconv.Itoa(size)}
	tpsTag := ptn.Tag{Name: "TPS", Value: ptn.FormatTPS(p)}
	valAlpha := []string{"a", "Z", " ", "9", ".", "-", "\xc3\xa9", "\x85", "[", "{", "}", "\n"}
	if r.Intn(30) == 0 {
		valAlpha = append(valAlpha, "\"", "]")
	}
	extra := func() ptn.Tag {
		names := []string{"Player1", "Player2", "Date", "Result", "Event", "Clock", "", "Site\n", "x[y", "a\"b"}
		return ptn.Tag{Name: names[r.Intn(len(names))], Value: c12RandText(r, valAlpha, 8)}
	}
	for r.Intn(3) == 0 {
		g.tags = append(g.tags, extra())
	}
	std := func() { // the tags that describe the start position, in either order
		if useTPS && r.Intn(2) == 0 {
			g.tags = append(g.tags, tpsTag, sizeTag)
		} else if useTPS {
			g.tags = append(g.tags, sizeTag, tpsTag)
		} else {
			g.tags = append(g.tags, sizeTag)
		}
	}
	switch k := r.Intn(40); {
	case k == 0: // no Size tag at all
		if useTPS {
			g.tags = append(g.tags, tpsTag)
		}
		g.startErr, g.note = true, "no-size"
	case k == 1: // out-of-range or malformed size
		bad := []string{"2", "9", "0", "-1", "16", "100", "1000000000000", "99999999999999999999", "five", "", "5x5", " 5", "5 "}
		sizeTag.Value = bad[r.Intn(len(bad))]
		std()
		g.startErr, g.note = true, "bad-size "+sizeTag.Value
	case k == 2 && useTPS: // TPS of another size
		sizeTag.Value = strconv.Itoa(3 + (size-3+1+r.Intn(5))%6)
		std()
		g.startErr, g.note = true, "size-mismatch"
	case k == 3: // malformed TPS
		bad := []string{"x3/x3/x3", "x3/x3/x3 1", "x3/x3/x3 3 1", "x3/x3/x3 1 one", "x3/x3 1 1", "x3/x3/x2 1 1", "x3/x3/x3/x3 1 1", "x3/x3/3,x2 1 1", "x3/x3/1S1,x2 1 1", "garbage", "x9/x9/x9/x9/x9/x9/x9/x9/x9 1 1", "x2/x2 1 1", "x3/x3/x3  1 1", "x3/x3/x,,x 1 1", "x3/x3/S,x2 1 1", "x3/x3/x2,C 1 1", "x3/x3/,x3 1 1"}
		useTPS = true
		tpsTag.Value = bad[r.Intn(len(bad))]
		sizeTag.Value = "3"
		std()
		g.startErr, g.note = true, "bad-tps"
	case k == 4: // two Size tags: the first one counts
		std()
		g.tags = append(g.tags, ptn.Tag{Name: "Size", Value: strconv.Itoa(3 + r.Intn(6))})
	default:
		std()
	}
	for r.Intn(3) == 0 {
		g.tags = append(g.tags, extra())
	}
	if g.startErr {
		g.start = nil
		c.stat("games_start_error", 1)
	}

	// ---- moves ----
	plies := r.Intn(2 + 3*size)
	if r.Intn(3) == 0 {
		plies = 200 // to the end of the game
	}
	pol := r.Intn(6)
	if size <= 4 && r.Intn(2) == 0 {
		pol = 4 // flats: fills the board / exhausts the reserves
	}
	var moves []tak.Move
	cur := p
	a := absOf(p)
	ended := false
	for k := 0; k < plies; k++ {
		if over, _ := cur.GameOver(); over {
			ended = true
			break
		}
		legal := legalMoves(cur)
		if len(legal) == 0 {
			break
		}
		m := pickMove(r, cur, legal, pol)
		q, err := cur.Move(m)
		if err != nil {
			break
		}
		if na := a.rulesMove(m); na != nil && na.maxHeight() <= 60 {
			a = na
		} else {
			break
		}
		cur = q
		moves = append(moves, m)
	}
	if over, _ := cur.GameOver(); over {
		ended = true
	}
	nLegal := len(moves)
	tail := 0 // what follows the legal part
	switch r.Intn(6) {
	case 0: // an illegal move (and more moves after it)
		if m, ok := c12IllegalMove(r, a); ok {
			moves = append(moves, m)
			tail = 1
			c.stat("games_illegal_move", 1)
			if r.Intn(2) == 0 {
				for _, mm := range legalMoves(cur) {
					if r.Intn(4) == 0 && len(moves) < nLegal+4 {
						moves = append(moves, mm)
					}
				}
			}
		}
	case 1: // the record goes on after the end of the game
		if ended {
			for _, mm := range legalMoves(cur) {
				if r.Intn(3) == 0 && len(moves) < nLegal+4 {
					moves = append(moves, mm)
					tail = 2
				}
			}
			if tail == 2 {
				c.stat("games_moves_after_end", 1)
			}
		}
	}
	if ended {
		c.stat("games_played_to_end", 1)
	}
	switch {
	case len(moves) == 0:
		c.stat("games_len_0", 1)
	case len(moves) <= 8:
		c.stat("games_len_1to8", 1)
	case len(moves) <= 24:
		c.stat("games_len_9to24", 1)
	default:
		c.stat("games_len_25plus", 1)
	}

	g.endPos, g.tail, g.ended = cur, tail, ended
	c12BuildOps(c, g, moves, p.MoveNumber(), ended && tail == 0, a)
	return g
}

// c12BuildOps: the op list of a game record around the given moves: numbering mode, comments, annotations, results, BOM.
// ply = the ply of the start position; a = the position after the legal part (for the result string).
func c12BuildOps(c *ctx, g *c12Game, moves []tak.Move, ply int, endedClean bool, a *aboard) {
	r := c.r
	// ---- ops: numbering, comments, annotations, results ----
	mode := r.Intn(8)
	c.stat(fmt.Sprintf("games_numbering_mode%d", mode), 1)
	comment := func(prob int) {
		for r.Intn(prob) == 0 {
			alpha := c12CommentAlphabet
			if r.Intn(40) == 0 {
				alpha = append(append([]string(nil), alpha...), "}")
			}
			g.ops = append(g.ops, c12Op{kind: 'C', s: c12RandText(r, alpha, 10)})
			c.stat("ops_comment", 1)
		}
	}
	result := func(prob int) {
		if r.Intn(prob) == 0 {
			s := c12Results[r.Intn(len(c12Results))]
			if r.Intn(60) == 0 {
				s = []string{"R-", "2-0", "-", "1/2", "R-0.", "draw"}[r.Intn(6)] // not results: parsed as something else or an error
			}
			g.ops = append(g.ops, c12Op{kind: 'R', s: s})
			c.stat("ops_result", 1)
		}
	}
	comment(6)
	drift := 0
	for i, m := range moves {
		num := (ply+i)/2 + 1
		white := (ply+i)%2 == 0
		switch mode {
		case 0, 1, 2: // standard: a number before each white move (and before the first move)
			if white || i == 0 {
				g.ops = append(g.ops, c12Op{kind: 'N', n: num})
			}
		case 3: // numbers before every move
			g.ops = append(g.ops, c12Op{kind: 'N', n: num})
		case 4: // no numbers (or a single one somewhere)
			if i == len(moves)/2 && r.Intn(2) == 0 {
				g.ops = append(g.ops, c12Op{kind: 'N', n: 1 + r.Intn(4)})
			}
		case 5: // odd numbers at odd places
			if r.Intn(2) == 0 {
				g.ops = append(g.ops, c12Op{kind: 'N', n: r.Intn(9) - 1})
			}
			if r.Intn(8) == 0 {
				g.ops = append(g.ops, c12Op{kind: 'N', n: []int{1 << 40, -7, 0, 255, 256}[r.Intn(5)]})
			}
		case 6: // drifting: repeated and skipped numbers
			if white || i == 0 {
				if r.Intn(4) == 0 {
					drift += r.Intn(3) - 1
				}
				g.ops = append(g.ops, c12Op{kind: 'N', n: num + drift})
			}
		case 7: // numbering restarts at 1 (as if from a TPS position)
			if white || i == 0 {
				g.ops = append(g.ops, c12Op{kind: 'N', n: i/2 + 1})
			}
		}
		comment(12)
		mods := ""
		if r.Intn(4) == 0 {
			alpha := []string{"?", "!", "'", "!!", "?!"}
			if r.Intn(50) == 0 {
				alpha = append(alpha, "*")
			}
			mods = c12RandText(r, alpha, 2)
		}
		g.ops = append(g.ops, c12Op{kind: 'M', m: m, s: mods})
		c.stat("ops_move", 1)
		comment(10)
		result(60) // results before the end
	}
	if r.Intn(5) == 0 { // trailing move number
		g.ops = append(g.ops, c12Op{kind: 'N', n: (ply+len(moves))/2 + 1 + r.Intn(2)})
	}
	if endedClean && r.Intn(4) != 0 {
		g.ops = append(g.ops, c12Op{kind: 'R', s: c12ResultFor(a)})
	} else {
		result(4)
	}
	comment(8)
	g.bom = r.Intn(3) == 0
	if g.bom {
		c.stat("games_bom", 1)
	}
}

// c12GenEndgame: a record that starts from a TPS tag describing a populated, nearly finished board with a LOW move counter, ends
// within a few plies of the file (road, full board or exhausted reserves) and goes on with further moves after the end.
func c12GenEndgame(c *ctx, size int) *c12Game {
	r := c.r
	g := &c12Game{note: "endgame-from-tps"}
	cfg := tak.Config{Size: size}
	var ps []*tak.Position
	var ms []tak.Move
	for try := 0; try < 20; try++ {
		pol := []int{4, 4, 0, 3, 2}[r.Intn(5)]
		ps, ms = randomGame(r, cfg, 400, pol, false)
		if over, _ := ps[len(ps)-1].GameOver(); over && len(ms) >= 3 {
			break
		}
	}
	n := len(ms)
	k := 1 + r.Intn(2*size)
	if r.Intn(2) == 0 {
		k = 1 + r.Intn(3)
	}
	if k > n-2 {
		k = n - 2
	}
	if k < 1 {
		k = 1
	}
	// variant "move counter 1": under the opening rule the mover places a flat of the OTHER colour, so give the move to the
	// other side: the final flat placement of the real game then produces the same final board and ends the game at ply 0 / 1
	openingVariant := n >= 1 && ms[n-1].Type == tak.PlaceFlat && r.Intn(3) == 0
	if openingVariant {
		k = 1
	}
	j := n - k // the file starts at ps[j]; ms[j:] lead to the end of the game
	start := ps[j]
	// the TPS of ps[j] with a small move number
	f := strings.Fields(ptn.FormatTPS(start))
	mvn := 2 + r.Intn(2)
	turn, _ := strconv.Atoi(f[1])
	if openingVariant {
		mvn = 1
		turn = 3 - turn
		f[1] = strconv.Itoa(turn)
	} else if r.Intn(8) == 0 {
		mvn = 1 // opening rule on a populated board: the continuation is mostly illegal now
	}
	f[2] = strconv.Itoa(mvn)
	g.start = absOf(start)
	g.start.ply = 2*(mvn-1) + (turn - 1)
	tps := ptn.Tag{Name: "TPS", Value: strings.Join(f, " ")}
	sz := ptn.Tag{Name: "Size", Value: strconv.Itoa(size)}
	if r.Intn(2) == 0 {
		g.tags = []ptn.Tag{sz, tps}
	} else {
		g.tags = []ptn.Tag{tps, sz}
	}
	// the winning continuation, judged by the rules oracle from the re-numbered start (with ply < 2 the opening rule applies,
	// so a move may have become illegal: then the record contains an illegal move, which is a case of its own)
	a := g.start
	var moves []tak.Move
	ended, illegal := false, false
	for _, m := range ms[j:] {
		moves = append(moves, m)
		na := a.rulesMove(m)
		if na == nil {
			illegal = true
			break
		}
		a = na
		if over, _, _ := a.outcome(); over {
			ended = true
			break
		}
	}
	// further moves after the end (legal on the final position as far as the engine is concerned)
	after := 0
	if ended {
		legal := legalMoves(ps[n])
		for t := 0; t < 1+r.Intn(4) && len(legal) > 0; t++ {
			moves = append(moves, legal[r.Intn(len(legal))])
			after++
		}
		if r.Intn(3) == 0 { // and a whole further "game" of moves from other positions
			for t := 0; t < 2+r.Intn(6); t++ {
				moves = append(moves, ms[r.Intn(len(ms))])
				after++
			}
		}
	}
	c.stat(fmt.Sprintf("endgames_size%d", size), 1)
	c.stat(fmt.Sprintf("endgames_startply%d", g.start.ply), 1)
	if ended {
		c.stat("endgames_ended_in_file", 1)
		c.stat(fmt.Sprintf("endgames_end_after_%02d_plies", len(moves)-after), 1)
	}
	if illegal {
		c.stat("endgames_illegal_under_opening_rule", 1)
	}
	if after > 0 {
		c.stat("endgames_moves_after_end", 1)
	}
	startPly := g.start.ply
	if r.Intn(12) == 0 { // the Size tag contradicts the TPS board: no start position, every request is an error
		for i := range g.tags {
			if g.tags[i].Name == "Size" {
				g.tags[i].Value = strconv.Itoa(3 + (size-3+1+r.Intn(5))%6)
			}
		}
		g.startErr, g.start, g.note = true, nil, "endgame-size-mismatch"
		c.stat("endgames_size_mismatch", 1)
	}
	c12BuildOps(c, g, moves, startPly, false, a)
	return g
}

func c12Queries(r *rand.Rand, ops []c12Op, limit int) []c12Query {
	seen := map[int]bool{0: true}
	ns := []int{0}
	add := func(n int) {
		if !seen[n] {
			seen[n] = true
			ns = append(ns, n)
		}
	}
	maxN := 0
	for _, o := range ops {
		if o.kind == 'N' {
			add(o.n)
			if o.n > maxN && o.n < 1000 {
				maxN = o.n
			}
		}
	}
	for n := 1; n <= maxN+2 && n < 40; n++ {
		add(n)
	}
	var qs []c12Query
	for _, n := range ns {
		qs = append(qs, c12Query{n, tak.White}, c12Query{n, tak.Black})
	}
	if len(qs) > limit {
		r.Shuffle(len(qs), func(i, j int) { qs[i], qs[j] = qs[j], qs[i] })
		qs = qs[:limit]
	}
	qs = append(qs, c12Query{0, tak.NoColor}, c12Query{1 + r.Intn(maxN+1), tak.NoColor})
	if r.Intn(4) == 0 {
		qs = append(qs, c12Query{-1 - r.Intn(3), tak.Color(tak.White)})
	}
	return qs
}

func c12QueryStr(qs []c12Query) string {
	s := make([]string, len(qs))
	for i, q := range qs {
		s[i] = fmt.Sprintf("%d:%s", q.n, colorStr(q.c))
	}
	return strings.Join(s, " ")
}

func c12ParseQueries(s string) []c12Query {
	var qs []c12Query
	for _, w := range strings.Fields(s) {
		f := strings.Split(w, ":")
		n, _ := strconv.Atoi(f[0])
		col := tak.NoColor
		switch f[1] {
		case "W":
			col = tak.White
		case "B":
			col = tak.Black
		}
		qs = append(qs, c12Query{n, col})
	}
	return qs
}

func c12EmitGame(c *ctx, g *c12Game, sample bool) {
	text := []byte(g.toPTN().Render())
	if g.bom {
		text = append([]byte("\xef\xbb\xbf"), text...)
	}
	qs := c12Queries(c.r, g.ops, 16+8*b2i(!c.quick()))
	o := c12Run(text, qs)
	input := fmt.Sprintf("G ; %s ; %s ; %s", c12EncStruct(g.tags, g.ops), hex.EncodeToString(text), c12QueryStr(qs))
	c.stat("cases", 1)
	c.stat("cases_generated_games", 1)
	c.stat("queries", int64(len(qs)))
	c.stat("parse_"+o.parse, 1)
	for _, q := range o.q {
		c.stat("query_"+strings.SplitN(q, " ", 2)[0], 1)
	}
	c.stat("replay_"+strings.SplitN(o.replay, " ", 2)[0], 1)
	c.printf("CASE %s | %s\n", input, o.l1("1"))
	c12Oracle(c, g, input, &o, qs)
	if sample {
		c.printf("SAMPLE %q note=%q -> parse %s, replay %s, %d queries\n", string(text), g.note, o.parse, strings.SplitN(o.replay, " ", 3)[0], len(qs))
	}
}

// raw / mutated text: L1 comparison with the model and "never panics"; where the mutation's effect is known by
// construction the outcome is demanded too.
func c12EmitText(c *ctx, text []byte, kind string, mustFail bool, qs []c12Query) {
	o := c12Run(text, qs)
	input := fmt.Sprintf("T ; - ; %s ; %s", hex.EncodeToString(text), c12QueryStr(qs))
	c.stat("cases", 1)
	c.stat("cases_text_"+kind, 1)
	c.stat("parse_"+o.parse, 1)
	c.printf("CASE %s | %s\n", input, o.l1("-"))
	if o.anyPanic() {
		cls := "ptn-panic"
		if kind == "cut-comment" && o.parse == "PANIC" {
			cls = "ptn-unterminated-comment"
		} else if kind == "size-tag" && o.parse == "OK" {
			cls = "ptn-size-tag"
		}
		c.printf("ORACLE-FAIL %s | %s | panic: %s | a value or an error\n", cls, input, o.panicMsg)
		c.stat("oracle_fail", 1)
	} else if mustFail && kind == "cut-comment" && o.parse != "ERR" {
		c.printf("ORACLE-FAIL ptn-unterminated-comment | %s | parsed %s | an error: the file ends inside a comment\n", input, o.pstruct)
		c.stat("oracle_fail", 1)
	} else if mustFail && kind == "size-tag" && !(o.init == "ERR" && strings.HasPrefix(o.replay, "ERR")) {
		c.printf("ORACLE-FAIL ptn-size-tag | %s | InitialPosition %s, replay %s | an error: no board of that size\n", input, o.init, o.replay)
		c.stat("oracle_fail", 1)
	}
}

func c12Mutations(c *ctx, g *c12Game) {
	r := c.r
	p := g.toPTN()
	text := []byte(p.Render())
	qs := []c12Query{{0, tak.White}, {1, tak.White}, {1, tak.Black}, {2, tak.Black}}
	// cut the text inside a comment: the file ends in an unterminated comment
	tagPart := len((&ptn.PTN{Tags: p.Tags}).Render()) - 1 // the ops are rendered from here on
	if i := bytes.LastIndexByte(text, '{'); i >= tagPart && g.wellFormed() {
		j := bytes.IndexByte(text[i:], '}')
		if j > 0 {
			cut := i + 1 + r.Intn(j)
			c12EmitText(c, append([]byte(nil), text[:cut]...), "cut-comment", true, qs)
		}
	}
	if len(text) > 4 {
		switch r.Intn(4) {
		case 0: // truncate anywhere
			c12EmitText(c, append([]byte(nil), text[:r.Intn(len(text))]...), "truncated", false, qs)
		case 1: // overwrite a few bytes
			t := append([]byte(nil), text...)
			junk := []byte("{}[]\" .-?!'*1aSC<>+/x\x85\xa0\xef\xbb\xbf\x00\n")
			for k := 0; k < 1+r.Intn(3); k++ {
				t[r.Intn(len(t))] = junk[r.Intn(len(junk))]
			}
			c12EmitText(c, t, "bytes-overwritten", false, qs)
		case 2: // delete a slice
			i := r.Intn(len(text))
			j := i + r.Intn(len(text)-i)
			c12EmitText(c, append(append([]byte(nil), text[:i]...), text[j:]...), "slice-deleted", false, qs)
		case 3: // duplicate a slice
			i := r.Intn(len(text))
			j := i + r.Intn(len(text)-i)
			t := append(append(append([]byte(nil), text[:j]...), text[i:j]...), text[j:]...)
			c12EmitText(c, t, "slice-duplicated", false, qs)
		}
	}
}

var c12Fixed = []string{
	"", " ", "\xef\xbb\xbf", "\xef\xbb", "\xef\xbb\xbf\n", "[", "[Size", "[Size \"5\"", "[Size]", "[Size \"5\"]", "[Size \"5\"]\n\n1. a1 a5 2. b1",
	"{", "{}", "{a", "1. {", "[Size \"5\"]\n1. a1 {", "[Size \"5\"]\n1. a1 {x", "}", ".", "1.", "1. a1", "-.", "+1.", "99999999999999999999.",
	"[Size \"9\"]\n1. a1", "[Size \"2\"]\n1. a1", "[Size \"0\"]", "[Size \"-3\"]", "[Size \"3\"]\n1. a1 a3 2. a2 b3 3. a3", "R-0", "1/2-1/2", "F-", "a1?", "a1*", "a1?!'", "??",
	"[Size \"3\"][TPS \"x3/x3/x3 1 1\"] 1. a1", "[Size \"3\"]\n[TPS \"x3/x3/x3 1 1\"]\n\n1. a1 b1", "[Size \"3\"]\n[TPS \"2,x2/x3/1,x2 1 2\"]\n\n2. b1 b2 3. c1",
	"[Size \"3\"]\n[TPS \"x3/x3/x3 1\"]\n", "[Size \"4\"]\n[TPS \"x3/x3/x3 1 1\"]\n", "[Size \"3\"]\n[TPS \"x3/x3/x,,x 1 1\"]\n\n1. a1", "[Size \"3\"]\n[TPS \"x3/x3/S,x2 1 1\"]\n\n1. a1", "[Size \"3\"]\n[TPS \"x3/C,x2/x3 2 1\"]\n\n1. a1", "[Size \"5\"]\n\n1. a1 a1", "[Size \"5\"]\n\n1. a1 b1 2. a2 2. a3 a4",
	"[Size \"3\"]\n\n1. a1 b1 2. a2 b2 3. a3 b3 4. c1", "\x85[Size \"5\"]\xa01. a1", "[a b] [c d]x", "[Size \"5\"] {[Size \"6\"]} 1. a1",
}

func runC12(c *ctx) {
	if c.tier == "replay" && len(c.args) > 0 {
		c12ReplayFile(c, c.args[0])
		return
	}
	qs := []c12Query{{0, tak.White}, {1, tak.White}, {1, tak.Black}, {2, tak.White}, {0, tak.NoColor}, {1, tak.NoColor}}
	for _, s := range c12Fixed {
		c12EmitText(c, []byte(s), "fixed", false, qs)
	}
	for _, v := range []string{"9", "2", "0", "-1", "12", "255", "256", "4294967299"} {
		c12EmitText(c, []byte("[Size \""+v+"\"]\n\n1. a1 b1\n"), "size-tag", true, qs)
	}
	games := 450
	if !c.quick() {
		games = 12000
	}
	for i := 0; i < games; i++ {
		g := c12GenGame(c)
		c12EmitGame(c, g, i < 3)
		if i%3 == 0 {
			c12Mutations(c, g)
		}
		if i%3 == 2 { // call histories on one object: queries, extension, queries
			c12EmitHistory(c, i < 9)
		}
		if i%3 == 1 { // directed: TPS start with a low move counter, game over within the file, moves after the end
			c12EmitGame(c, c12GenEndgame(c, 3+(i/3)%6), i < 6)
		}
	}
	// random byte strings over the PTN alphabet
	alpha := []string{"[", "]", "\"", "{", "}", " ", "\n", ".", "1", "2", "a", "b", "c", "Size", "TPS", "x3/x3/x3 1 1", "R-0", "-", "+", "<", ">", "?", "!", "'", "S", "C", "F", "/", "\x85", "\xa0", "\xef\xbb\xbf", "3", "5"}
	for i := 0; i < 300*(1+4*b2i(!c.quick())); i++ {
		c12EmitText(c, []byte(c12RandText(c.r, alpha, 24)), "random", false, qs[:4])
	}
}

func c12DecodeStruct(s string) (*c12Game, bool) {
	g := &c12Game{}
	f := strings.Fields(s)
	if len(f) != 2 || !strings.HasPrefix(f[0], "tags=") || !strings.HasPrefix(f[1], "ops=") {
		return nil, false
	}
	unhex := func(h string) string { b, _ := hex.DecodeString(h); return string(b) }
	if t := f[0][5:]; t != "" {
		for _, kv := range strings.Split(t, ",") {
			p := strings.SplitN(kv, ":", 2)
			g.tags = append(g.tags, ptn.Tag{Name: unhex(p[0]), Value: unhex(p[1])})
		}
	}
	if t := f[1][4:]; t != "" {
		for _, w := range strings.Split(t, ",") {
			switch w[0] {
			case 'N':
				n, _ := strconv.Atoi(w[1:])
				g.ops = append(g.ops, c12Op{kind: 'N', n: n})
			case 'M':
				p := strings.SplitN(w[1:], "/", 2)
				q := strings.Split(p[0], ":")
				x, _ := strconv.Atoi(q[0])
				y, _ := strconv.Atoi(q[1])
				t, _ := strconv.Atoi(q[2])
				sl, _ := strconv.ParseUint(q[3], 10, 32)
				g.ops = append(g.ops, c12Op{kind: 'M', m: tak.Move{X: int8(x), Y: int8(y), Type: tak.MoveType(t), Slides: tak.Slides(sl)}, s: unhex(p[1])})
			default:
				g.ops = append(g.ops, c12Op{kind: w[0], s: unhex(w[1:])})
			}
		}
	}
	// the start position the tags describe (replay only: the TPS tag is read with ptn.ParseTPS here)
	size, tps, haveSize := "", "", false
	for _, t := range g.tags {
		if t.Name == "Size" && !haveSize {
			size, haveSize = t.Value, true
		}
	}
	for _, t := range g.tags {
		if t.Name == "TPS" {
			tps = t.Value
			break
		}
	}
	n, err := strconv.Atoi(size)
	switch {
	case err != nil || n < 3 || n > 8:
		g.startErr = true
	case tps == "":
		g.start = c12EmptyBoard(n)
	default:
		p, err := ptn.ParseTPS(tps)
		if err != nil || p.Size() != n {
			g.startErr = true
		} else {
			g.start = absOf(p)
		}
	}
	return g, true
}

func c12ReplayFile(c *ctx, path string) {
	data, err := os.ReadFile(path)
	var rec struct {
		Input string `json:"input"`
	}
	if err != nil || json.Unmarshal(data, &rec) != nil {
		fmt.Fprintln(c.w, "cannot read replay file", path)
		return
	}
	in := rec.Input
	f := strings.Split(in, " ; ")
	if len(f) < 4 {
		fmt.Fprintln(c.w, "bad replay input")
		return
	}
	text, _ := hex.DecodeString(strings.TrimSpace(f[2]))
	qs := c12ParseQueries(f[3])
	if strings.TrimSpace(f[0]) == "H" && len(f) >= 6 {
		g, ok := c12DecodeStruct(strings.TrimSpace(f[1]))
		e := strings.Fields(f[4])
		if ok && len(e) == 2 && !g.startErr {
			if x, ok2 := c12DecodeStruct("tags= " + e[1]); ok2 {
				c12RunHistory(c, g, e[0], x.ops, text, qs, c12ParseQueries(f[5]), true)
				return
			}
		}
		fmt.Fprintln(c.w, "bad history replay input")
		return
	}
	o := c12Run(text, qs)
	c.printf("SAMPLE text %q\n", string(text))
	for i, q := range qs {
		c.printf("SAMPLE PositionAtMove(%d,%s) = %s\n", q.n, colorStr(q.c), o.q[i])
	}
	if g, ok := c12DecodeStruct(strings.TrimSpace(f[1])); ok && strings.TrimSpace(f[0]) == "G" {
		c.printf("CASE %s | %s\n", in, o.l1("1"))
		c12Oracle(c, g, in, &o, qs)
		return
	}
	c.printf("CASE %s | %s\n", in, o.l1("-"))
	if o.anyPanic() {
		c.printf("ORACLE-FAIL ptn-panic | %s | panic: %s | a value or an error\n", in, o.panicMsg)
	}
}
