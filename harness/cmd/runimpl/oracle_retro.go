package main

// Retrograde oracle for C06: exact solution of the game graph reachable from a start position.
//
// Written from the property text, not from the prove package: it never looks at proof numbers,
// trees or tables.  It uses the rules engine (tak.Position.AllMoves / Move / GameOver) only to
// enumerate the game graph; the rules engine itself is the subject of C01-C03.
//
// Truth.  "The attacker can force a win against every defence, where a draw or a threefold
// repetition counts against the attacker" is, by theorem truth_equiv (coq/AndOr.v), the same as
// membership in the history-free attractor: the least set A with
//     finished position won by the attacker              in A
//     attacker to move, some successor in A              in A
//     defender to move, not finished, all successors in A (and at least one)  in A.
// dist[v] is the least n such that v is won within n plies (wn n v of AndOr.v), -1 outside A; it
// also decides the depth-limited claim (MaxDepth = d: a reported 'disproven' only says "no win
// within d plies").

import (
	"github.com/nelhage/taktician/tak"
)

type retroGraph struct {
	cfg     tak.Config
	index   map[string]int32
	succOff []int32 // CSR: successors of v are succ[succOff[v]:succOff[v+1]]
	succ    []int32
	term    []int8     // 0 not finished, 1 White won, 2 Black won, 3 draw
	white   []bool     // White to move
	dist    [2][]int32 // [0]: attacker White, [1]: attacker Black
	edges   int
	// ends[a][v]: against attacker a the defender can force the game to END without an attacker win (a lost
	// or drawn finished position).  Positions with dist < 0 and !ends are the cyclic region: neither side can
	// force the end, the attacker can only shuffle - there the repetition rule decides what a solver says.
	ends     [2][]bool
	sample   []*tak.Position // every sampleEvery-th unfinished position in breadth-first order (0: none)
	finished []*tak.Position // likewise for finished positions
}

// retroKey identifies a position of the game graph: board contents and side to move.  (Reserves
// are determined by the board and the configuration; whether the opening rule still applies is
// determined by the number of pieces on the board.)
func retroKey(p *tak.Position) string {
	n := p.Size() * p.Size()
	nb := (n + 7) / 8
	b := make([]byte, 0, 4*nb+2*n+1)
	for _, w := range [4]uint64{p.White, p.Black, p.Standing, p.Caps} {
		for k := 0; k < nb; k++ {
			b = append(b, byte(w>>(8*uint(k))))
		}
	}
	for i := 0; i < n; i++ {
		h := p.Height[i]
		b = append(b, h)
		if h >= 2 {
			s := p.Stacks[i]
			for k := 0; k < (int(h)-1+7)/8; k++ {
				b = append(b, byte(s>>(8*uint(k))))
			}
		}
	}
	if p.ToMove() == tak.White {
		b = append(b, 'w')
	} else {
		b = append(b, 'b')
	}
	return string(b)
}

func termCode(p *tak.Position) int8 {
	over, who := p.GameOver()
	if !over {
		return 0
	}
	switch who {
	case tak.White:
		return 1
	case tak.Black:
		return 2
	}
	return 3
}

// buildRetro enumerates everything reachable from root (breadth first) and solves it for both
// attackers.  Returns nil when the graph has more than maxNodes positions.
func buildRetro(root *tak.Position, maxNodes int, sampleEvery int) *retroGraph {
	g := &retroGraph{cfg: root.Config(), index: map[string]int32{}}
	queue := []*tak.Position{root}
	g.index[retroKey(root)] = 0
	g.term = append(g.term, termCode(root))
	g.white = append(g.white, root.ToMove() == tak.White)
	var buf [256]tak.Move
	for head := 0; head < len(queue); head++ {
		p := queue[head]
		queue[head] = nil
		g.succOff = append(g.succOff, int32(len(g.succ)))
		if g.term[head] != 0 {
			if sampleEvery > 0 && head%sampleEvery == 0 {
				g.finished = append(g.finished, p)
			}
			continue
		}
		if sampleEvery > 0 && head%sampleEvery == 0 {
			g.sample = append(g.sample, p)
		}
		for _, m := range p.AllMoves(buf[:0]) {
			q, err := p.Move(m)
			if err != nil {
				continue
			}
			k := retroKey(q)
			id, ok := g.index[k]
			if !ok {
				id = int32(len(g.term))
				if int(id) >= maxNodes {
					return nil
				}
				g.index[k] = id
				g.term = append(g.term, termCode(q))
				g.white = append(g.white, q.ToMove() == tak.White)
				queue = append(queue, q)
			}
			g.succ = append(g.succ, id)
		}
	}
	g.succOff = append(g.succOff, int32(len(g.succ)))
	g.edges = len(g.succ)
	g.solve(0)
	g.solve(1)
	return g
}

// solve computes dist for attacker a (0 White, 1 Black) in rounds: round k settles exactly the
// positions whose least winning bound is k.
func (g *retroGraph) solve(a int) {
	n := len(g.term)
	d := make([]int32, n)
	var open []int32
	for v := 0; v < n; v++ {
		d[v] = -1
		switch {
		case g.term[v] == int8(a+1):
			d[v] = 0
		case g.term[v] == 0:
			open = append(open, int32(v))
		}
	}
	attWhite := a == 0
	for k := int32(1); ; k++ {
		var rest, solved []int32
		for _, v := range open {
			ss := g.succ[g.succOff[v]:g.succOff[v+1]]
			win := false
			if g.white[v] == attWhite { // attacker to move: some successor already won
				for _, s := range ss {
					if d[s] >= 0 {
						win = true
						break
					}
				}
			} else { // defender to move: every successor already won, and there is one
				win = len(ss) > 0
				for _, s := range ss {
					if d[s] < 0 {
						win = false
						break
					}
				}
			}
			if win {
				solved = append(solved, v)
			} else {
				rest = append(rest, v)
			}
		}
		if len(solved) == 0 {
			break
		}
		for _, v := range solved { // only now: a round never builds on its own results
			d[v] = k
		}
		open = rest
	}
	g.dist[a] = d

	e := make([]bool, n)
	open = open[:0]
	for v := 0; v < n; v++ {
		switch {
		case g.term[v] != 0 && g.term[v] != int8(a+1):
			e[v] = true
		case g.term[v] == 0:
			open = append(open, int32(v))
		}
	}
	for {
		var rest, solved []int32
		for _, v := range open {
			ss := g.succ[g.succOff[v]:g.succOff[v+1]]
			ok := false
			if g.white[v] != attWhite { // defender to move: some successor already forced
				for _, s := range ss {
					if e[s] {
						ok = true
						break
					}
				}
			} else {
				ok = len(ss) > 0
				for _, s := range ss {
					if !e[s] {
						ok = false
						break
					}
				}
			}
			if ok {
				solved = append(solved, v)
			} else {
				rest = append(rest, v)
			}
		}
		if len(solved) == 0 {
			break
		}
		for _, v := range solved {
			e[v] = true
		}
		open = rest
	}
	g.ends[a] = e
}

// lookup returns the node of p, or -1 when p is not part of the graph.
func (g *retroGraph) lookup(p *tak.Position) int32 {
	if id, ok := g.index[retroKey(p)]; ok {
		return id
	}
	return -1
}

func attIndex(c tak.Color) int {
	if c == tak.White {
		return 0
	}
	return 1
}

// wins: the attacker has a forced win from p (history-free attractor); within: least bound or -1.
func (g *retroGraph) wins(p *tak.Position, attacker tak.Color) (bool, int32, bool) {
	v := g.lookup(p)
	if v < 0 {
		return false, -1, false
	}
	d := g.dist[attIndex(attacker)][v]
	return d >= 0, d, true
}

// ---------- bounded exhaustive search (one-sided oracle for positions too large to solve) ----------

// forcedWin: `who` can force a finished position won by `who` within depth plies from p
// (no repetition can occur on a shortest forced win, so none is tracked).  budget counts visited
// positions; when it runs out the answer is (false, false).
func forcedWin(p *tak.Position, who tak.Color, depth int, budget *int) (win bool, complete bool) {
	*budget--
	if *budget < 0 {
		return false, false
	}
	if over, w := p.GameOver(); over {
		return w == who, true
	}
	if depth == 0 {
		return false, true
	}
	var buf [256]tak.Move
	moves := p.AllMoves(buf[:0])
	if p.ToMove() == who {
		complete = true
		for _, m := range moves {
			q, err := p.Move(m)
			if err != nil {
				continue
			}
			w, c := forcedWin(q, who, depth-1, budget)
			if w {
				return true, true
			}
			if !c {
				complete = false
			}
		}
		return false, complete
	}
	any := false
	for _, m := range moves {
		q, err := p.Move(m)
		if err != nil {
			continue
		}
		any = true
		w, c := forcedWin(q, who, depth-1, budget)
		if !w {
			return false, c
		}
	}
	return any, true
}

// cyclicRoots walks the graph again from root and returns the positions of the cyclic region (for either
// attacker) and, after them, positions up to two moves before it; at most max of each kind.
func (g *retroGraph) cyclicRoots(root *tak.Position, max int) (cyclic, near []*tak.Position) {
	n := len(g.term)
	mark := make([]int8, n) // 1 cyclic, 2 one move before, 3 two moves before
	any := false
	for v := 0; v < n; v++ {
		if g.term[v] == 0 && ((g.dist[0][v] < 0 && !g.ends[0][v]) || (g.dist[1][v] < 0 && !g.ends[1][v])) {
			mark[v] = 1
			any = true
		}
	}
	if !any {
		return nil, nil
	}
	for level := int8(2); level <= 3; level++ {
		for v := 0; v < n; v++ {
			if mark[v] != 0 {
				continue
			}
			for _, s := range g.succ[g.succOff[v]:g.succOff[v+1]] {
				if mark[s] == level-1 {
					mark[v] = level
					break
				}
			}
		}
	}
	seen := make([]bool, n)
	seen[0] = true
	queue := []*tak.Position{root}
	ids := []int32{0}
	var buf [256]tak.Move
	for head := 0; head < len(queue); head++ {
		p, v := queue[head], ids[head]
		queue[head] = nil
		switch {
		case mark[v] == 1 && len(cyclic) < max:
			cyclic = append(cyclic, p)
		case mark[v] > 1 && len(near) < max:
			near = append(near, p)
		}
		if g.term[v] != 0 {
			continue
		}
		for _, m := range p.AllMoves(buf[:0]) {
			q, err := p.Move(m)
			if err != nil {
				continue
			}
			id := g.lookup(q)
			if id < 0 || seen[id] {
				continue
			}
			seen[id] = true
			queue = append(queue, q)
			ids = append(ids, id)
		}
	}
	return cyclic, near
}
