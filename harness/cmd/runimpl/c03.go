package main

// C03: AllMoves lists every legal move exactly once, none off the board; every non-pass move the
// engine accepts is generated.
// CASE <enc position> | <sorted AllMoves list> <dup count> | <AllMoves in generation order>

import (
	"fmt"
	"sort"
	"strings"

	"github.com/nelhage/taktician/tak"
)

func init() { register("C03", runC03) }

func moveKey(m tak.Move) string {
	if m.IsSlide() {
		return fmt.Sprintf("%d:%d:%d:%d", m.X, m.Y, uint8(m.Type), uint32(m.Slides))
	}
	return fmt.Sprintf("%d:%d:%d:0", m.X, m.Y, uint8(m.Type)) // Move.Equal ignores Slides of non-slides
}

// naiveLegal: the legal move set by the rules oracle: all placements x squares, all slide shapes
// (carry 1..size, every composition, every direction) x squares, filtered by rulesMove.
func naiveLegal(a *aboard) map[string]bool {
	out := map[string]bool{}
	n := a.n
	for x := 0; x < n; x++ {
		for y := 0; y < n; y++ {
			for t := tak.PlaceFlat; t <= tak.PlaceCapstone; t++ {
				m := tak.Move{X: int8(x), Y: int8(y), Type: t}
				if a.rulesMove(m) != nil {
					out[moveKey(m)] = true
				}
			}
			if len(a.sq[y][x]) == 0 {
				continue
			}
			for k := 1; k <= n; k++ {
				for _, s := range compositions(k, n) {
					for t := tak.SlideLeft; t <= tak.SlideDown; t++ {
						m := tak.Move{X: int8(x), Y: int8(y), Type: t, Slides: s}
						if a.rulesMove(m) != nil {
							out[moveKey(m)] = true
						}
					}
				}
			}
		}
	}
	return out
}

func emitC03(c *ctx, p *tak.Position, kind string) {
	all := p.AllMoves(nil)
	keys := make([]string, len(all))
	seen := map[string]int{}
	dups := 0
	for i, m := range all {
		keys[i] = moveKey(m)
		seen[keys[i]]++
		if seen[keys[i]] == 2 {
			dups++
		}
	}
	sorted := append([]string(nil), keys...)
	sort.Strings(sorted)
	l1 := "-"
	if len(sorted) > 0 {
		l1 = strings.Join(sorted, ",")
	}
	c.printf("CASE %s | %s %d | %s\n", enc(p), l1, dups, encMoves(all))
	c.stat("cases", 1)
	c.stat("kind_"+kind, 1)
	c.stat(fmt.Sprintf("size%d", p.Size()), 1)
	c.stat("moves_generated", int64(len(all)))
	fail := func(cls, did, want string) {
		c.printf("ORACLE-FAIL %s | %s | %s | %s\n", cls, enc(p), did, want)
	}
	if dups > 0 {
		fail("duplicate-move", fmt.Sprintf("%d moves listed twice", dups), "no move twice")
	}
	n := int8(p.Size())
	a := absOf(p)
	generatedLegal := map[string]bool{}
	for _, m := range all {
		dx, dy := int8(0), int8(0)
		ex, ey := m.X, m.Y
		if m.IsSlide() {
			l := int8(m.Slides.Len())
			switch m.Type {
			case tak.SlideLeft:
				dx = -1
			case tak.SlideRight:
				dx = 1
			case tak.SlideUp:
				dy = 1
			case tak.SlideDown:
				dy = -1
			}
			ex, ey = m.X+dx*l, m.Y+dy*l
		}
		if m.X < 0 || m.X >= n || m.Y < 0 || m.Y >= n || ex < 0 || ex >= n || ey < 0 || ey >= n {
			fail("off-board-move", encMove(m), "every generated move starts and ends on the board")
			break
		}
		if a.rulesMove(m) != nil {
			generatedLegal[moveKey(m)] = true
		}
	}
	// completeness against the rules oracle
	want := naiveLegal(a)
	c.stat("moves_legal", int64(len(want)))
	for k := range want {
		if !generatedLegal[k] {
			fail("legal-move-missing", "not generated: "+k, "every legal move is generated")
			break
		}
	}
	// every non-pass move the engine accepts is generated (checked over the oracle's candidate set plus
	// the implementation's own accepted moves among a dense raw grid)
	for x := int8(-1); x <= n; x++ {
		for y := int8(-1); y <= n; y++ {
			for t := tak.PlaceFlat; t <= tak.SlideDown; t++ {
				var shapes []tak.Slides
				if t >= tak.SlideLeft {
					// malformed drop lists everywhere (no drop at all, zero drops inside, oversized drops, eight nibbles) ...
					shapes = []tak.Slides{tak.MkSlides(1), tak.MkSlides(2), tak.MkSlides(1, 1), tak.MkSlides(2, 1), tak.MkSlides(1, 2),
						0, 0x10, 0x100, 0x101, 0x1000, 0x1001, 0x9, 0xF, 0x11111111, 0xFFFFFFFF, 0x80000000}
					// ... and every composition of every carry on occupied squares
					if x >= 0 && y >= 0 && x < n && y < n && len(p.At(int(x), int(y))) > 0 {
						for k := 1; k <= int(n); k++ {
							shapes = append(shapes, compositions(k, int(n))...)
						}
					}
				} else {
					shapes = []tak.Slides{0}
				}
				for _, s := range shapes {
					m := tak.Move{X: x, Y: y, Type: t, Slides: s}
					ok := false
					safely(func() { _, err := p.Move(m); ok = err == nil })
					if ok && seen[moveKey(m)] == 0 {
						fail("accepted-not-generated", encMove(m), "every accepted non-pass move is generated")
						return
					}
				}
			}
		}
	}
}

func runC03(c *ctx) {
	// a new game from a Config copied out of an existing game of another size (Position.Config() carries the
	// private fields along)
	if c.tier != "replay" {
		for k := 0; k < 12*c.scale; k++ {
			other := tak.New(tak.Config{Size: 3 + c.r.Intn(6)})
			cfg := other.Config()
			cfg.Size = 3 + c.r.Intn(6)
			cfg.Pieces, cfg.Capstones = 0, 0
			ps, _ := randomGame(c.r, cfg, 4+c.r.Intn(30), -1, false)
			for i, p := range ps {
				if i < 3 || i == len(ps)-1 || c.r.Intn(5) == 0 {
					emitC03(c, p, "copied-config")
				}
			}
		}
	}
	if c.tier == "replay" {
		if p, err := decodeEnc(readReplay(c).Input); err == nil {
			emitC03(c, p, "replay")
		}
		return
	}
	r := c.r
	for g := 0; g < 30*c.scale; g++ {
		size := 3 + g%6
		cfg := randCfg(r, size)
		if r.Intn(4) == 0 { // drain the stone reserve while keeping capstones
			cfg.Pieces = 3 + r.Intn(8)
			cfg.Capstones = 1 + r.Intn(2)
		}
		ps, _ := randomGame(r, cfg, 10+r.Intn(80), -1, r.Intn(8) == 0)
		for i, p := range ps {
			if i < 4 || i >= len(ps)-2 || r.Intn(6) == 0 {
				emitC03(c, p, "playout")
			}
		}
	}
	for b := 0; b < 120*c.scale; b++ {
		size := 3 + b%6
		maxH := []int{3, 8, 12, 20}[r.Intn(4)]
		p, _, _ := constructedBoard(r, size, maxH, 0.2+0.6*r.Float64())
		emitC03(c, p, "constructed")
	}
}
