package main

// C03: AllMoves lists every legal move exactly once, none off the board; every non-pass move the
// engine accepts is generated.
// CASE <enc position> | <sorted AllMoves list> <dup count> | <AllMoves in generation order>

import (
	"fmt"
	"runtime"
	"sort"
	"strings"
	"sync"

	"github.com/nelhage/taktician/tak"
)

func init() { register("C03", runC03) }

func moveKey(m tak.Move) string {
	if m.IsSlide() {
		return fmt.Sprintf("%d:%d:%d:%d", m.X, m.Y, uint8(m.Type), uint32(m.Slides))
	}
	return fmt.Sprintf("%d:%d:%d:0", m.X, m.Y, uint8(m.Type)) // Move.Equal ignores Slides of non-slides
}

// naiveLegal: the legal move set by the rules oracle: all placements x squares, all slide shapes
// (carry 1..size, every composition, every direction) x squares, filtered by rulesMove.
func naiveLegal(a *aboard) map[string]bool {
	out := map[string]bool{}
	n := a.n
	for x := 0; x < n; x++ {
		for y := 0; y < n; y++ {
			for t := tak.PlaceFlat; t <= tak.PlaceCapstone; t++ {
				m := tak.Move{X: int8(x), Y: int8(y), Type: t}
				if a.rulesMove(m) != nil {
					out[moveKey(m)] = true
				}
			}
			if len(a.sq[y][x]) == 0 {
				continue
			}
			for k := 1; k <= n; k++ {
				for _, s := range compositions(k, n) {
					for t := tak.SlideLeft; t <= tak.SlideDown; t++ {
						m := tak.Move{X: int8(x), Y: int8(y), Type: t, Slides: s}
						if a.rulesMove(m) != nil {
							out[moveKey(m)] = true
						}
					}
				}
			}
		}
	}
	return out
}

// c03Seen: the positions of this run with the oracle's legal move set, for the concurrent family
type c03Rec struct {
	p    *tak.Position
	want map[string]bool
}

var c03Seen []c03Rec

// judgeListC03 applies the property's own criteria to a generated list: no move twice, every move starts and ends on the
// board, every legal move (the rules oracle's set) present.  Returns "" or "<class> | <what>".
func judgeListC03(p *tak.Position, all []tak.Move, want map[string]bool) string {
	n := int8(p.Size())
	seen := map[string]int{}
	for _, m := range all {
		k := moveKey(m)
		seen[k]++
		if seen[k] == 2 {
			return "duplicate-move | " + encMove(m) + " listed twice"
		}
		ex, ey := m.X, m.Y
		if m.IsSlide() {
			l := int8(m.Slides.Len())
			switch m.Type {
			case tak.SlideLeft:
				ex -= l
			case tak.SlideRight:
				ex += l
			case tak.SlideUp:
				ey += l
			case tak.SlideDown:
				ey -= l
			}
		}
		if m.X < 0 || m.X >= n || m.Y < 0 || m.Y >= n || ex < 0 || ex >= n || ey < 0 || ey >= n {
			return "off-board-move | " + encMove(m)
		}
	}
	for k := range want {
		if seen[k] == 0 {
			return "legal-move-missing | not generated: " + k
		}
	}
	return ""
}

// c03Concurrent: AllMoves is called from several goroutines at once on positions of DIFFERENT board sizes (what a server
// analysing several games, or selfplay with mixed sizes, does); every list obtained that way is judged by the same criteria.
func c03Concurrent(c *ctx, rounds int) {
	if len(c03Seen) == 0 {
		return
	}
	old := runtime.GOMAXPROCS(0)
	if old < 4 {
		runtime.GOMAXPROCS(4)
		defer runtime.GOMAXPROCS(old)
	}
	const workers = 6
	type bad struct {
		rec  c03Rec
		what string
	}
	var mu sync.Mutex
	var bads []bad
	var calls int64
	var wg sync.WaitGroup
	for w := 0; w < workers; w++ {
		wg.Add(1)
		go func(w int) {
			defer wg.Done()
			n := 0
			for k := 0; k < rounds; k++ {
				rec := c03Seen[(w*7919+k*31+k*k)%len(c03Seen)] // mixed sizes per worker, deterministic choice
				var all []tak.Move
				panicked, msg := safely(func() { all = rec.p.AllMoves(nil) })
				what := ""
				if panicked {
					what = "panic | " + msg
				} else {
					what = judgeListC03(rec.p, all, rec.want)
				}
				n++
				if what != "" {
					mu.Lock()
					bads = append(bads, bad{rec, what})
					mu.Unlock()
					break
				}
			}
			mu.Lock()
			calls += int64(n)
			mu.Unlock()
		}(w)
	}
	wg.Wait()
	c.stat("concurrent_calls", calls)
	for i, b := range bads {
		if i >= 3 {
			break
		}
		f := strings.SplitN(b.what, " | ", 2)
		c.printf("ORACLE-FAIL concurrent-%s | %s ;; called while %d other goroutines call AllMoves on positions of sizes 3..8 | %s | the same list as in a sequential call: complete, duplicate-free, on the board\n",
			f[0], enc(b.rec.p), workers-1, f[1])
	}
}

func emitC03(c *ctx, p *tak.Position, kind string) {
	all := p.AllMoves(nil)
	keys := make([]string, len(all))
	seen := map[string]int{}
	dups := 0
	for i, m := range all {
		keys[i] = moveKey(m)
		seen[keys[i]]++
		if seen[keys[i]] == 2 {
			dups++
		}
	}
	sorted := append([]string(nil), keys...)
	sort.Strings(sorted)
	l1 := "-"
	if len(sorted) > 0 {
		l1 = strings.Join(sorted, ",")
	}
	c.printf("CASE %s | %s %d | %s\n", enc(p), l1, dups, encMoves(all))
	c.stat("cases", 1)
	c.stat("kind_"+kind, 1)
	c.stat(fmt.Sprintf("size%d", p.Size()), 1)
	c.stat("moves_generated", int64(len(all)))
	fail := func(cls, did, want string) {
		c.printf("ORACLE-FAIL %s | %s | %s | %s\n", cls, enc(p), did, want)
	}
	if dups > 0 {
		fail("duplicate-move", fmt.Sprintf("%d moves listed twice", dups), "no move twice")
	}
	n := int8(p.Size())
	a := absOf(p)
	generatedLegal := map[string]bool{}
	for _, m := range all {
		dx, dy := int8(0), int8(0)
		ex, ey := m.X, m.Y
		if m.IsSlide() {
			l := int8(m.Slides.Len())
			switch m.Type {
			case tak.SlideLeft:
				dx = -1
			case tak.SlideRight:
				dx = 1
			case tak.SlideUp:
				dy = 1
			case tak.SlideDown:
				dy = -1
			}
			ex, ey = m.X+dx*l, m.Y+dy*l
		}
		if m.X < 0 || m.X >= n || m.Y < 0 || m.Y >= n || ex < 0 || ex >= n || ey < 0 || ey >= n {
			fail("off-board-move", encMove(m), "every generated move starts and ends on the board")
			break
		}
		if a.rulesMove(m) != nil {
			generatedLegal[moveKey(m)] = true
		}
	}
	// completeness against the rules oracle
	want := naiveLegal(a)
	c03Seen = append(c03Seen, c03Rec{p, want})
	c.stat("moves_legal", int64(len(want)))
	for k := range want {
		if !generatedLegal[k] {
			fail("legal-move-missing", "not generated: "+k, "every legal move is generated")
			break
		}
	}
	// every non-pass move the engine accepts is generated (checked over the oracle's candidate set plus
	// the implementation's own accepted moves among a dense raw grid)
	for x := int8(-1); x <= n; x++ {
		for y := int8(-1); y <= n; y++ {
			for t := tak.PlaceFlat; t <= tak.SlideDown; t++ {
				var shapes []tak.Slides
				if t >= tak.SlideLeft {
					// malformed drop lists everywhere (no drop at all, zero drops inside, oversized drops, eight nibbles) ...
					shapes = []tak.Slides{tak.MkSlides(1), tak.MkSlides(2), tak.MkSlides(1, 1), tak.MkSlides(2, 1), tak.MkSlides(1, 2),
						0, 0x10, 0x100, 0x101, 0x1000, 0x1001, 0x9, 0xF, 0x11111111, 0xFFFFFFFF, 0x80000000}
					// ... and every composition of every carry on occupied squares
					if x >= 0 && y >= 0 && x < n && y < n && len(p.At(int(x), int(y))) > 0 {
						for k := 1; k <= int(n); k++ {
							shapes = append(shapes, compositions(k, int(n))...)
						}
					}
				} else {
					shapes = []tak.Slides{0}
				}
				for _, s := range shapes {
					m := tak.Move{X: x, Y: y, Type: t, Slides: s}
					ok := false
					safely(func() { _, err := p.Move(m); ok = err == nil })
					if ok && seen[moveKey(m)] == 0 {
						fail("accepted-not-generated", encMove(m), "every accepted non-pass move is generated")
						return
					}
				}
			}
		}
	}
}

func runC03(c *ctx) {
	// a new game from a Config copied out of an existing game of another size (Position.Config() carries the
	// private fields along)
	if c.tier != "replay" {
		for k := 0; k < 12*c.scale; k++ {
			other := tak.New(tak.Config{Size: 3 + c.r.Intn(6)})
			cfg := other.Config()
			cfg.Size = 3 + c.r.Intn(6)
			cfg.Pieces, cfg.Capstones = 0, 0
			ps, _ := randomGame(c.r, cfg, 4+c.r.Intn(30), -1, false)
			for i, p := range ps {
				if i < 3 || i == len(ps)-1 || c.r.Intn(5) == 0 {
					emitC03(c, p, "copied-config")
				}
			}
		}
	}
	if c.tier == "replay" {
		in := readReplay(c).Input
		conc := strings.Contains(in, " ;; ")
		if i := strings.Index(in, " ;; "); i >= 0 {
			in = in[:i]
		}
		if p, err := decodeEnc(in); err == nil {
			emitC03(c, p, "replay")
			if conc { // a failure of the concurrent family: the position again, next to boards of the other sizes
				for s := 3; s <= 8; s++ {
					q, _, _ := constructedBoard(c.r, s, 8, 0.5)
					c03Seen = append(c03Seen, c03Rec{q, naiveLegal(absOf(q))})
				}
				c03Concurrent(c, 4000)
			}
		}
		return
	}
	r := c.r
	for g := 0; g < 30*c.scale; g++ {
		size := 3 + g%6
		cfg := randCfg(r, size)
		if r.Intn(4) == 0 { // drain the stone reserve while keeping capstones
			cfg.Pieces = 3 + r.Intn(8)
			cfg.Capstones = 1 + r.Intn(2)
		}
		ps, _ := randomGame(r, cfg, 10+r.Intn(80), -1, r.Intn(8) == 0)
		for i, p := range ps {
			if i < 4 || i >= len(ps)-2 || r.Intn(6) == 0 {
				emitC03(c, p, "playout")
			}
		}
	}
	for b := 0; b < 120*c.scale; b++ {
		size := 3 + b%6
		maxH := []int{3, 8, 12, 20}[r.Intn(4)]
		p, _, _ := constructedBoard(r, size, maxH, 0.2+0.6*r.Float64())
		emitC03(c, p, "constructed")
	}
	c03Concurrent(c, 1500*c.scale)
}
