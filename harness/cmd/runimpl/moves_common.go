package main

// helpers about move shapes shared by several properties

import "github.com/nelhage/taktician/tak"

// every composition of k into positive parts with at most maxLen parts, packed like tak.Slides
func compositions(k, maxLen int) []tak.Slides {
	var out []tak.Slides
	var rec func(rem int, parts []int)
	rec = func(rem int, parts []int) {
		if rem == 0 {
			out = append(out, tak.MkSlides(parts...))
			return
		}
		if len(parts) == maxLen {
			return
		}
		for d := 1; d <= rem; d++ {
			rec(rem-d, append(append([]int(nil), parts...), d))
		}
	}
	rec(k, nil)
	return out
}
