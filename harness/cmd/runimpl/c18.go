package main

// C18: heuristic scores never enter the range reserved for decided games.
// CASE <enc position> ; <weights: D | 36 comma separated int64> | <evaluate> <EvaluateWinner> | <wp wt bp bt of CountThreats>
// CASE weights <size> ; - | <36 comma separated int64>     (the live ai.DefaultWeights, compared with coq/Generated/Consts.v)
// CASE thresholds ; - | <WinThreshold> <MaxEval> <WinBase> <ForcedWin>
//
// ORACLE-FAIL classes: heuristic-in-decided-range, terminal-score-wrong, evaluator-panic, evaluator-history-dependent (a used
// evaluator instance disagrees with a fresh one), finished-line-undecided-value / decided-value-unfinished-line (Analyze).
//
// The helpers with the prefix `ev` (board construction, decoding of the wire format) are shared with c19.go.

import (
	"context"
	"encoding/json"
	"fmt"
	"math/rand"
	"os"
	"strconv"
	"strings"

	"github.com/nelhage/taktician/ai"
	"github.com/nelhage/taktician/bitboard"
	"github.com/nelhage/taktician/tak"
)

func init() { register("C18", runC18) }

// ---------- shared board toolkit ----------

type evBoard [][]tak.Square // [y][x], top first

func evNew(n int) evBoard {
	b := make(evBoard, n)
	for y := range b {
		b[y] = make([]tak.Square, n)
	}
	return b
}

func (b evBoard) clone() evBoard {
	c := make(evBoard, len(b))
	for y := range b {
		c[y] = make([]tak.Square, len(b[y]))
		for x := range b[y] {
			c[y][x] = append(tak.Square(nil), b[y][x]...)
		}
	}
	return c
}

func evCol(r *rand.Rand) tak.Color {
	if r.Intn(2) == 0 {
		return tak.White
	}
	return tak.Black
}

// evStack: a top piece over h-1 flat captives; mode 0 random colours, 1 all of the top's colour, 2 all of the other colour
func evStack(r *rand.Rand, col tak.Color, kind tak.Kind, h int, mode int) tak.Square {
	sq := make(tak.Square, h)
	sq[0] = tak.MakePiece(col, kind)
	for j := 1; j < h; j++ {
		c := evCol(r)
		switch mode {
		case 1:
			c = col
		case 2:
			c = col.Flip()
		}
		sq[j] = tak.MakePiece(c, tak.Flat)
	}
	return sq
}

// evCount: stones and capstones used per colour (index 0 white, 1 black)
func evCount(b evBoard) (stones, caps [2]int) {
	for _, row := range b {
		for _, sq := range row {
			for _, pc := range sq {
				i := 0
				if pc.Color() == tak.Black {
					i = 1
				}
				if pc.Kind() == tak.Capstone {
					caps[i]++
				} else {
					stones[i]++
				}
			}
		}
	}
	return
}

// evTrim removes captives (then whole squares) until no colour uses more than 230 stones / 20 capstones,
// so that the byte reserves of the constructed position do not wrap (GameOver adds stones and capstones
// in a byte: a configuration with Pieces+Capstones > 255 is outside the representable domain).
func evTrim(b evBoard) {
	for {
		st, cp := evCount(b)
		if st[0] <= 230 && st[1] <= 230 && cp[0] <= 20 && cp[1] <= 20 {
			return
		}
		done := false
		for y := range b {
			for x := range b[y] {
				if len(b[y][x]) > 1 && !done && (st[0] > 230 || st[1] > 230) {
					b[y][x] = b[y][x][:1+(len(b[y][x])-1)/2]
					done = true
				}
			}
		}
		if !done {
			for y := range b {
				for x := range b[y] {
					if len(b[y][x]) > 0 && !done && (b[y][x][0].Kind() == tak.Capstone || (cp[0] <= 20 && cp[1] <= 20)) {
						b[y][x] = nil
						done = true
					}
				}
			}
		}
	}
}

// evPos: a position from a board.  exact: reserves exactly used up for the colour with the most pieces;
// otherwise some spare pieces.  move = ply number.
func evPos(r *rand.Rand, b evBoard, move int, exact bool, bwt bool) *tak.Position {
	evTrim(b)
	st, cp := evCount(b)
	ms, mc := st[0], cp[0]
	if st[1] > ms {
		ms = st[1]
	}
	if cp[1] > mc {
		mc = cp[1]
	}
	cfg := tak.Config{Size: len(b), BlackWinsTies: bwt}
	if exact {
		cfg.Pieces, cfg.Capstones = ms, mc
	} else {
		cfg.Pieces, cfg.Capstones = ms+1+r.Intn(20), mc+r.Intn(3)
	}
	if cfg.Capstones == 0 { // 0 selects the default count
		cfg.Capstones = 1
	}
	if cfg.Pieces+cfg.Capstones > 255 {
		cfg.Pieces = 255 - cfg.Capstones
	}
	if cfg.Pieces == 0 {
		cfg.Pieces = 1
	}
	if cfg.Capstones == 0 { // 0 selects the default count
		cfg.Capstones = 1
	}
	p, err := tak.FromSquares(cfg, b, move)
	if err != nil {
		panic(err)
	}
	return p
}

// evDecode: the wire format of enc() back into a position (reserves and ply set through the overlay accessor).
func evDecode(s string) (*tak.Position, error) {
	f := strings.Fields(s)
	if len(f) != 14 {
		return nil, fmt.Errorf("bad position %q", s)
	}
	iv := func(k int) uint64 { v, _ := strconv.ParseUint(f[k], 10, 64); return v }
	n := int(iv(0))
	mv, _ := strconv.Atoi(f[6])
	W, B, S, C := iv(7), iv(8), iv(9), iv(10)
	hs := strings.Split(f[11], ",")
	ss := strings.Split(f[12], ",")
	if n < 3 || n > 8 || len(hs) != n*n || len(ss) != n*n {
		return nil, fmt.Errorf("bad position %q", s)
	}
	b := evNew(n)
	for i := 0; i < n*n; i++ {
		h, _ := strconv.Atoi(hs[i])
		st, _ := strconv.ParseUint(ss[i], 10, 64)
		bit := uint64(1) << uint(i)
		if (W|B)&bit == 0 || h == 0 {
			continue
		}
		col := tak.White
		if B&bit != 0 {
			col = tak.Black
		}
		kind := tak.Flat
		if S&bit != 0 {
			kind = tak.Standing
		} else if C&bit != 0 {
			kind = tak.Capstone
		}
		sq := make(tak.Square, h)
		sq[0] = tak.MakePiece(col, kind)
		for j := 1; j < h; j++ {
			c := tak.White
			if j-1 < 64 && st&(1<<uint(j-1)) != 0 {
				c = tak.Black
			}
			sq[j] = tak.MakePiece(c, tak.Flat)
		}
		b[i/n][i%n] = sq
	}
	cfg := tak.Config{Size: n, Pieces: 255, Capstones: 255, BlackWinsTies: iv(1) == 1}
	p, err := tak.FromSquares(cfg, b, mv)
	if err != nil {
		return nil, err
	}
	tak.VerifSetRaw(p, byte(iv(2)), byte(iv(3)), byte(iv(4)), byte(iv(5)), mv)
	return p, nil
}

// evReplayInput reads the "input" field of a replay file
func evReplayInput(path string) (string, error) {
	raw, err := os.ReadFile(path)
	if err != nil {
		return "", err
	}
	var d struct {
		Input string `json:"input"`
	}
	if err := json.Unmarshal(raw, &d); err != nil {
		return "", err
	}
	return d.Input, nil
}

// ---------- evaluation of one case ----------

func evWeightsStr(w *ai.Weights) string {
	s := make([]string, len(w))
	for i, v := range w {
		s[i] = strconv.FormatInt(v, 10)
	}
	return strings.Join(s, ",")
}

func abs64(v int64) int64 {
	if v < 0 {
		return -v
	}
	return v
}

// c18Oracle: the property, read off the rules oracle's outcome (DFS road search, flat count), not off GameOver().
// name = which evaluator.  Returns class, demand ("" = fine).
func c18Oracle(a *aboard, v int64) (string, string) {
	over, win, _ := a.outcome()
	if !over {
		if abs64(v) >= ai.WinThreshold {
			return "heuristic-in-decided-range", fmt.Sprintf("game not over: |v| < %d", int64(ai.WinThreshold))
		}
		return "", ""
	}
	switch {
	case win == tak.NoColor:
		if v != 0 {
			return "terminal-score-wrong", "draw: 0"
		}
	case win == a.toMove():
		if v <= ai.WinThreshold {
			return "terminal-score-wrong", fmt.Sprintf("won by the side to move: v > %d", int64(ai.WinThreshold))
		}
	default:
		if v >= -ai.WinThreshold {
			return "terminal-score-wrong", fmt.Sprintf("lost by the side to move: v < -%d", int64(ai.WinThreshold))
		}
	}
	return "", ""
}

// c18Eval runs the two evaluators; a panic is reported as the string PANIC.
func c18Eval(p *tak.Position, w *ai.Weights) (v, ew int64, vs, ews string) {
	c := bitboard.Precompute(uint(p.Size()))
	vs, ews = "PANIC", "PANIC"
	if pk, _ := safely(func() { v = ai.MakeEvaluator(p.Size(), w)(&c, p) }); !pk {
		vs = strconv.FormatInt(v, 10)
	}
	if pk, _ := safely(func() { ew = ai.EvaluateWinner(&c, p) }); !pk {
		ews = strconv.FormatInt(ew, 10)
	}
	return
}

func emitC18(c *ctx, p *tak.Position, w *ai.Weights, kind string) int64 {
	v, ew, vs, ews := c18Eval(p, w)
	cs := bitboard.Precompute(uint(p.Size()))
	l2 := "PANIC"
	safely(func() {
		wp, wt, bp, bt := ai.CountThreats(&cs, p)
		l2 = fmt.Sprintf("%d %d %d %d", wp, wt, bp, bt)
	})
	ws := "D"
	if w != nil {
		ws = evWeightsStr(w)
	}
	inp := enc(p) + " ; " + ws
	c.printf("CASE %s | %s %s | %s\n", inp, vs, ews, l2)
	c.stat("cases", 1)
	c.stat("kind_"+kind, 1)
	c.stat(fmt.Sprintf("size%d", p.Size()), 1)
	a := absOf(p)
	over, win, road := a.outcome()
	switch {
	case !over:
		c.stat("outcome_not_over", 1)
	case win == tak.NoColor:
		c.stat("outcome_draw", 1)
	case road:
		c.stat("outcome_road_win", 1)
	default:
		c.stat("outcome_flat_win", 1)
	}
	mh := 0
	for _, h := range p.Height {
		if int(h) > mh {
			mh = int(h)
		}
	}
	switch {
	case mh >= 32:
		c.stat("maxheight_ge32", 1)
	case mh >= 9:
		c.stat("maxheight_9to31", 1)
	case mh >= 3:
		c.stat("maxheight_3to8", 1)
	default:
		c.stat("maxheight_le2", 1)
	}
	switch {
	case p.MoveNumber() >= 300:
		c.stat("ply_ge300", 1)
	case p.MoveNumber() >= 100:
		c.stat("ply_100to299", 1)
	default:
		c.stat("ply_lt100", 1)
	}
	if w != nil {
		return v // the property speaks of the built-in weight sets only
	}
	if !over {
		av := abs64(v)
		switch {
		case av >= 1<<24:
			c.stat("absv_ge2^24", 1)
		case av >= ai.ForcedWin:
			c.stat("absv_forcedwin_to_2^24", 1)
		case av >= 10000:
			c.stat("absv_10k_to_forcedwin", 1)
		default:
			c.stat("absv_lt10k", 1)
		}
		if int64(c.stats["max_abs_heuristic"]) < av {
			c.stats["max_abs_heuristic"] = av
		}
	}
	if vs == "PANIC" || ews == "PANIC" {
		c.printf("ORACLE-FAIL evaluator-panic | %s | %s %s | a number\n", inp, vs, ews)
		return v
	}
	if cls, want := c18Oracle(a, v); cls != "" {
		c.printf("ORACLE-FAIL %s | %s | evaluate=%d | %s\n", cls, inp, v, want)
	}
	if cls, want := c18Oracle(a, ew); cls != "" {
		c.printf("ORACLE-FAIL %s | %s | EvaluateWinner=%d | %s\n", cls, inp, ew, want)
	}
	return v
}

// ---------- generators ----------

// randWeights: small random weight vectors (model tie only; exercises the branches that the built-in zeros switch off)
func randWeights(r *rand.Rand) *ai.Weights {
	var w ai.Weights
	for i := range w {
		switch r.Intn(5) {
		case 0:
			w[i] = 0
		case 1:
			w[i] = int64(r.Intn(7) - 3)
		default:
			w[i] = int64(r.Intn(1001) - 500)
		}
	}
	return &w
}

// extremeBoard: the families named by the property
func extremeBoard(r *rand.Rand, n int, family int) (evBoard, string) {
	b := evNew(n)
	each := func(f func(x, y int)) {
		for y := 0; y < n; y++ {
			for x := 0; x < n; x++ {
				f(x, y)
			}
		}
	}
	switch family {
	case 0: // full board of flats, one colour dominating (no road: broken by a few walls / enemy flats per row)
		dom := evCol(r)
		each(func(x, y int) {
			col := dom
			if (x+2*y)%n == r.Intn(n) || r.Intn(7) == 0 {
				col = dom.Flip()
			}
			b[y][x] = evStack(r, col, tak.Flat, 1, 0)
		})
		return b, "full_flats"
	case 1: // maximal captives: tall stacks everywhere, captives of one colour
		dom := evCol(r)
		mode := 1 + r.Intn(2)
		each(func(x, y int) {
			if r.Intn(8) == 0 {
				return
			}
			k := tak.Flat
			switch r.Intn(8) {
			case 0:
				k = tak.Standing
			case 1:
				k = tak.Capstone
			}
			col := dom
			if r.Intn(4) == 0 {
				col = dom.Flip()
			}
			b[y][x] = evStack(r, col, k, 1+r.Intn(2*n), mode)
		})
		return b, "tall_everywhere"
	case 2: // a few stacks at the representation limit (64) and singles around them
		each(func(x, y int) {
			if r.Intn(3) != 0 {
				b[y][x] = evStack(r, evCol(r), tak.Flat, 1, 0)
			}
		})
		for k := 0; k < 1+r.Intn(6); k++ {
			kind := []tak.Kind{tak.Flat, tak.Standing, tak.Capstone}[r.Intn(3)]
			b[r.Intn(n)][r.Intn(n)] = evStack(r, evCol(r), kind, 40+r.Intn(25), r.Intn(3))
		}
		return b, "stacks_at_limit"
	case 3: // many groups and threats: short bars of one colour from the edges, gaps in between
		col := evCol(r)
		for y := 0; y < n; y++ {
			if r.Intn(3) == 0 {
				continue
			}
			gap := r.Intn(n)
			for x := 0; x < n; x++ {
				if x != gap {
					b[y][x] = evStack(r, col, tak.Flat, 1+r.Intn(2), 0)
				} else if r.Intn(3) == 0 {
					b[y][x] = evStack(r, col.Flip(), []tak.Kind{tak.Flat, tak.Standing, tak.Capstone}[r.Intn(3)], 1, 0)
				}
			}
			if y+1 < n && r.Intn(2) == 0 { // separate the rows so that the bars stay distinct groups
				y++
				for x := 0; x < n; x++ {
					if r.Intn(3) == 0 {
						b[y][x] = evStack(r, col.Flip(), tak.Flat, 1, 0)
					}
				}
			}
		}
		return b, "many_threats"
	case 4: // many capstones and walls (custom configuration)
		each(func(x, y int) {
			switch r.Intn(4) {
			case 0:
				b[y][x] = evStack(r, evCol(r), tak.Capstone, 1+r.Intn(n), 0)
			case 1:
				b[y][x] = evStack(r, evCol(r), tak.Standing, 1+r.Intn(3), 0)
			case 2:
				b[y][x] = evStack(r, evCol(r), tak.Flat, 1+r.Intn(3), 0)
			}
		})
		return b, "many_caps_walls"
	default: // checkerboard of pairs: many small groups
		each(func(x, y int) {
			if (x/2+y)%2 == 0 {
				b[y][x] = evStack(r, tak.White, tak.Flat, 1, 0)
			} else if r.Intn(4) != 0 {
				b[y][x] = evStack(r, tak.Black, tak.Flat, 1, 0)
			}
		})
		return b, "many_groups"
	}
}

// finishedBoard: a road (possibly for both colours), a full board, or exhausted reserves
func finishedBoard(r *rand.Rand, n int) (evBoard, bool, string) {
	b := evNew(n)
	switch r.Intn(4) {
	case 0, 1: // road: a staircase from one edge to the other
		col := evCol(r)
		x, y := 0, r.Intn(n)
		horizontal := r.Intn(2) == 0
		if !horizontal {
			x, y = y, 0
		}
		for {
			k := tak.Flat
			if r.Intn(6) == 0 {
				k = tak.Capstone
			}
			b[y][x] = evStack(r, col, k, 1+r.Intn(3), 0)
			if (horizontal && x == n-1) || (!horizontal && y == n-1) {
				break
			}
			if horizontal {
				if r.Intn(3) == 0 && y+1 < n && len(b[y+1][x]) == 0 {
					y++
				} else {
					x++
				}
			} else {
				if r.Intn(3) == 0 && x+1 < n && len(b[y][x+1]) == 0 {
					x++
				} else {
					y++
				}
			}
		}
		for k := r.Intn(2 * n); k > 0; k-- {
			xx, yy := r.Intn(n), r.Intn(n)
			if len(b[yy][xx]) == 0 {
				b[yy][xx] = evStack(r, evCol(r), []tak.Kind{tak.Flat, tak.Flat, tak.Standing}[r.Intn(3)], 1+r.Intn(2), 0)
			}
		}
		return b, false, "finished_road"
	case 2: // full board, no road intended (walls sprinkled), flat count decides
		for y := 0; y < n; y++ {
			for x := 0; x < n; x++ {
				k := tak.Flat
				if (x+y)%2 == 0 && r.Intn(2) == 0 {
					k = tak.Standing
				}
				b[y][x] = evStack(r, evCol(r), k, 1+r.Intn(2), 0)
			}
		}
		return b, false, "finished_full"
	default: // reserves exactly exhausted
		for k := 2 + r.Intn(n*n-2); k > 0; k-- {
			b[r.Intn(n)][r.Intn(n)] = evStack(r, evCol(r), []tak.Kind{tak.Flat, tak.Flat, tak.Standing}[r.Intn(3)], 1+r.Intn(3), 0)
		}
		return b, true, "finished_exhausted"
	}
}

// ---------- hill climbing on the real evaluator ----------

// mutateBoard changes one square (keeping only flats below the top, heights <= 64)
func mutateBoard(r *rand.Rand, b evBoard) {
	n := len(b)
	x, y := r.Intn(n), r.Intn(n)
	sq := b[y][x]
	kinds := []tak.Kind{tak.Flat, tak.Flat, tak.Standing, tak.Capstone}
	switch op := r.Intn(8); {
	case len(sq) == 0 || op == 0:
		b[y][x] = evStack(r, evCol(r), kinds[r.Intn(4)], 1, 0)
	case op == 1:
		b[y][x] = nil
	case op == 2: // retop
		sq[0] = tak.MakePiece(evCol(r), kinds[r.Intn(4)])
	case op <= 5 && len(sq) < 64: // add captives
		col := evCol(r)
		for k := 1 + r.Intn(8); k > 0 && len(sq) < 64; k-- {
			sq = append(sq, tak.MakePiece(col, tak.Flat))
		}
		b[y][x] = sq
	case op == 6 && len(sq) > 1: // recolour a captive
		j := 1 + r.Intn(len(sq)-1)
		sq[j] = tak.MakePiece(sq[j].Color().Flip(), tak.Flat)
	default:
		if len(sq) > 1 {
			b[y][x] = sq[:len(sq)-1]
		}
	}
}

func hillClimb(c *ctx, n int, steps int) {
	r := c.r
	cfgOf := func(b evBoard) (tak.Config, bool) {
		st, cp := evCount(b)
		for i := 0; i < 2; i++ {
			if st[i] > 213 || cp[i] > 40 {
				return tak.Config{}, false
			}
		}
		return tak.Config{Size: n, Pieces: 214, Capstones: 41}, true // 214+41 = 255: the byte sum in GameOver cannot wrap
	}
	score := func(b evBoard, move int) (int64, *tak.Position, bool) {
		cfg, ok := cfgOf(b)
		if !ok {
			return 0, nil, false
		}
		p, err := tak.FromSquares(cfg, b, move)
		if err != nil {
			return 0, nil, false
		}
		if over, _, _ := absOf(p).outcome(); over {
			return 0, nil, false
		}
		v, _, vs, _ := c18Eval(p, nil)
		if vs == "PANIC" {
			return 0, p, false
		}
		return abs64(v), p, true
	}
	b, _ := extremeBoard(r, n, r.Intn(6))
	evTrim(b)
	move := 2 + r.Intn(2)
	best, bestP, ok := score(b, move)
	for tries := 0; !ok && tries < 50; tries++ {
		b, _ = extremeBoard(r, n, r.Intn(6))
		evTrim(b)
		best, bestP, ok = score(b, move)
	}
	if !ok {
		return
	}
	for s := 0; s < steps; s++ {
		nb := b.clone()
		for k := 1 + r.Intn(2); k > 0; k-- {
			mutateBoard(r, nb)
		}
		v, p, ok := score(nb, move)
		if ok && v >= best {
			if v > best {
				c.stat("hill_improvements", 1)
			}
			b, best, bestP = nb, v, p
		}
	}
	c.stat("hill_runs", 1)
	key := fmt.Sprintf("hill_max_abs_size%d", n)
	if c.stats[key] < best {
		c.stats[key] = best
	}
	emitC18(c, bestP, nil, "hillclimb_best") // the oracle judges it, the model is compared on it
}

// ---------- driver ----------

func runC18(c *ctx) {
	if c.tier == "replay" {
		replayC18(c)
		return
	}
	r := c.r
	for size := 3; size <= 8; size++ {
		c.printf("CASE weights %d ; - | %s\n", size, evWeightsStr(&ai.DefaultWeights[size]))
	}
	c.printf("CASE thresholds ; - | %d %d %d %d\n", int64(ai.WinThreshold), int64(ai.MaxEval), int64(ai.WinBase), int64(ai.ForcedWin))
	pickW := func() *ai.Weights {
		if r.Intn(8) == 0 {
			return randWeights(r)
		}
		return nil
	}
	// reachable positions, long games
	for g := 0; g < 240*c.scale; g++ {
		size := 3 + g%6
		cfg := randCfg(r, size)
		if r.Intn(4) == 0 {
			cfg.Pieces = 20 + r.Intn(200)
			cfg.Capstones = r.Intn(6)
		}
		pol := []int{-1, 1, 5, 2, 4, 3}[r.Intn(6)]
		plies := 40 + r.Intn(160)
		if g%4 == 0 {
			plies = 300 + r.Intn(400)
			pol = []int{1, 5, 2}[r.Intn(3)]
		}
		ps, _ := randomGame(r, cfg, plies, pol, r.Intn(10) == 0)
		for i, p := range ps {
			if i >= len(ps)-2 || r.Intn(5) == 0 {
				emitC18(c, p, pickW(), "playout")
			}
		}
	}
	// constructed extreme-material boards
	for k := 0; k < 9000*c.scale; k++ {
		size := 3 + k%6
		b, fam := extremeBoard(r, size, (k/6)%6)
		move := 2 + r.Intn(600)
		p := evPos(r, b, move, r.Intn(5) == 0, r.Intn(4) == 0)
		emitC18(c, p, pickW(), fam)
	}
	// random constructed boards with tall stacks
	for k := 0; k < 7200*c.scale; k++ {
		size := 3 + k%6
		// the board of the shared generator, rebuilt with reserves that fit the byte fields (a board with more than 255
		// stones of one colour, or Pieces+Capstones > 255, is not a position of the representable domain)
		_, bd, mv := constructedBoard(r, size, 1+r.Intn(30), 0.3+0.7*r.Float64())
		p := evPos(r, evBoard(bd), mv, r.Intn(6) == 0, r.Intn(4) == 0)
		emitC18(c, p, pickW(), "constructed")
	}
	// finished games
	for k := 0; k < 7200*c.scale; k++ {
		size := 3 + k%6
		b, exact, fam := finishedBoard(r, size)
		p := evPos(r, b, 2+r.Intn(800), exact, r.Intn(3) == 0)
		emitC18(c, p, pickW(), fam)
	}
	// one evaluator instance over positions that share their top bitboards
	runHistory(c)
	// hill climbing towards the threshold
	for size := 3; size <= 8; size++ {
		for k := 0; k < 4*c.scale; k++ {
			hillClimb(c, size, 3000)
		}
	}
}

func replayC18(c *ctx) {
	if len(c.args) < 1 {
		fmt.Fprintln(os.Stderr, "replay file missing")
		os.Exit(2)
	}
	inp, err := evReplayInput(c.args[0])
	if err != nil {
		fmt.Fprintln(os.Stderr, err)
		os.Exit(2)
	}
	parts := strings.SplitN(inp, ";", 2)
	p, err := evDecode(parts[0])
	if err != nil {
		fmt.Fprintln(os.Stderr, err)
		os.Exit(2)
	}
	if len(parts) == 2 && strings.HasPrefix(strings.TrimSpace(parts[1]), "depth") { // an Analyze case
		var depth int
		var table int64
		fmt.Sscanf(strings.TrimSpace(parts[1]), "depth %d table %d", &depth, &table)
		analyzeCorollary(c, p, depth, table)
		searchWithSharedEvaluator(c, p, depth, table)
		return
	}
	if i := strings.Index(inp, "; history"); i >= 0 { // one evaluator instance: the history first, then the position
		h := newHist(c, p.Size())
		for _, e := range strings.Split(inp[i+len("; history"):], "/") {
			if q, err := evDecode(strings.TrimSpace(e)); err == nil && q.Size() == p.Size() {
				h.eval(q, "replay_history")
			}
		}
		h.eval(p, "replay")
		return
	}
	var w *ai.Weights
	if len(parts) == 2 && strings.TrimSpace(parts[1]) != "D" {
		var ww ai.Weights
		for i, s := range strings.Split(strings.TrimSpace(parts[1]), ",") {
			if i < len(ww) {
				ww[i], _ = strconv.ParseInt(s, 10, 64)
			}
		}
		w = &ww
	}
	emitC18(c, p, w, "replay")
}

// ---------- HISTORY family: one evaluator instance, positions with identical top bitboards ----------
//
// The evaluation must be a function of the position.  An evaluator value (the closure returned by ai.MakeEvaluator, and
// the one inside a MinimaxAI) is used for many positions in a row; positions that agree on White/Black/Standing/Caps may
// still differ in reserves, buried stones, side to move and therefore in game-over status.  Every value obtained from the
// SHARED instance is judged by the range oracle, compared with a FRESH instance on the same position (class
// `evaluator-history-dependent`) and printed as a CASE, so that the extracted model (a pure function) is compared too.

type histEvaluator struct {
	c      *ctx
	size   int
	shared ai.EvaluationFunc
	mm     *ai.MinimaxAI
	cs     bitboard.Constants
	emit   int      // CASE lines still to print for this instance
	prev   []string // the positions this instance evaluated before (the last few), for the replay file
}

func newHist(c *ctx, size int) *histEvaluator {
	return &histEvaluator{c: c, size: size, shared: ai.MakeEvaluator(size, nil),
		mm: ai.NewMinimax(ai.MinimaxConfig{Size: size, Depth: 1, TableMem: -1}), cs: bitboard.Precompute(uint(size)), emit: 1 << 30}
}

// judge one value of the shared instance
func (h *histEvaluator) judge(p *tak.Position, v int64, who string, kind string) {
	c := h.c
	fresh := ai.MakeEvaluator(h.size, nil)(&h.cs, p)
	inp := enc(p) + " ; D"
	c.stat("history_evaluations", 1)
	if h.emit > 0 {
		h.emit--
		ew := ai.EvaluateWinner(&h.cs, p)
		wp, wt, bp, bt := ai.CountThreats(&h.cs, p)
		c.printf("CASE %s | %d %d | %d %d %d %d\n", inp, v, ew, wp, wt, bp, bt)
		c.stat("cases", 1)
		c.stat("kind_"+kind, 1)
		c.stat(fmt.Sprintf("size%d", p.Size()), 1)
	}
	hist := inp + " ; history " + strings.Join(h.prev, " / ")
	if v != fresh {
		c.printf("ORACLE-FAIL evaluator-history-dependent | %s | %s instance used before on the history positions: %d, fresh instance: %d | the evaluation is a function of the position\n",
			hist, who, v, fresh)
	}
	if cls, want := c18Oracle(absOf(p), v); cls != "" {
		c.printf("ORACLE-FAIL %s | %s | %s (used instance) evaluate=%d | %s\n", cls, hist, who, v, want)
	}
	if e := enc(p); len(h.prev) == 0 || h.prev[len(h.prev)-1] != e {
		h.prev = append(h.prev, e)
		if len(h.prev) > 4 {
			h.prev = h.prev[1:]
		}
	}
}

func (h *histEvaluator) eval(p *tak.Position, kind string) {
	h.judge(p, h.shared(&h.cs, p), "MakeEvaluator", kind)
	h.judge(p, h.mm.Evaluate(p), "MinimaxAI.Evaluate", kind)
}

// sameTops: variants of one board that agree on the four top bitboards
func sameTopsVariants(r *rand.Rand, b evBoard, move int) []*tak.Position {
	var out []*tak.Position
	mk := func(bd evBoard, mv int) *tak.Position {
		cfg := tak.Config{Size: len(bd), Pieces: 200, Capstones: 30}
		p, err := tak.FromSquares(cfg, bd, mv)
		if err != nil {
			panic(err)
		}
		return p
	}
	st, cp := evCount(b)
	if st[0] > 150 || st[1] > 150 || cp[0] > 20 || cp[1] > 20 {
		return nil
	}
	set := func(p *tak.Position, ws, wc, bs, bc int) *tak.Position {
		tak.VerifSetRaw(p, byte(ws), byte(wc), byte(bs), byte(bc), p.MoveNumber())
		return p
	}
	spare := func() int { return 1 + r.Intn(30) }
	out = append(out, set(mk(b, move), spare(), r.Intn(2), spare(), r.Intn(2))) // both have pieces
	out = append(out, set(mk(b, move), 0, 0, spare(), r.Intn(2)))               // White out of pieces: over
	out = append(out, set(mk(b, move), spare(), r.Intn(2), 0, 0))               // Black out of pieces: over
	out = append(out, set(mk(b, move), 0, 1, spare(), 0))                       // no flats but a capstone: not over
	out = append(out, set(mk(b, move+1), spare(), 1, spare(), 1))               // other side to move
	out = append(out, set(mk(b, move+1), 0, 0, 0, 0))
	// other buried stones under the same tops
	b2 := b.clone()
	for y := range b2 {
		for x := range b2[y] {
			if len(b2[y][x]) == 0 {
				continue
			}
			switch r.Intn(3) {
			case 0:
				for k := r.Intn(4); k > 0 && len(b2[y][x]) < 12; k-- {
					b2[y][x] = append(b2[y][x], tak.MakePiece(evCol(r), tak.Flat))
				}
			case 1:
				for j := 1; j < len(b2[y][x]); j++ {
					b2[y][x][j] = tak.MakePiece(b2[y][x][j].Color().Flip(), tak.Flat)
				}
			}
		}
	}
	if s2, _ := evCount(b2); s2[0] <= 150 && s2[1] <= 150 {
		out = append(out, set(mk(b2, move), spare(), 1, spare(), 1))
		out = append(out, set(mk(b2, move), 0, 0, spare(), 1))
	}
	r.Shuffle(len(out), func(i, j int) { out[i], out[j] = out[j], out[i] })
	return out
}

// naturalPair: a parent in which the mover has exactly one flat stone and no capstone, an empty square e and an adjacent
// own stack (own flat on an own flat).  Placing the last stone on e ends the game; sliding the top of the stack onto e
// gives the same four top bitboards with the game still on.
func naturalPair(r *rand.Rand, n int) (parent, placed, slid *tak.Position, ok bool) {
	b := evNew(n)
	move := 2 + r.Intn(40)
	me := tak.White
	if move%2 == 1 {
		me = tak.Black
	}
	ex, ey := r.Intn(n), r.Intn(n)
	dirs := [][3]int{{1, 0, int(tak.SlideLeft)}, {-1, 0, int(tak.SlideRight)}, {0, 1, int(tak.SlideDown)}, {0, -1, int(tak.SlideUp)}}
	d := dirs[r.Intn(4)]
	ax, ay := ex+d[0], ey+d[1] // the stack; it slides towards e
	if ax < 0 || ay < 0 || ax >= n || ay >= n {
		return nil, nil, nil, false
	}
	for y := 0; y < n; y++ {
		for x := 0; x < n; x++ {
			if (x == ex && y == ey) || r.Intn(5) < 2 {
				continue
			}
			k := []tak.Kind{tak.Flat, tak.Flat, tak.Flat, tak.Standing, tak.Capstone}[r.Intn(5)]
			b[y][x] = evStack(r, evCol(r), k, 1+r.Intn(3)/2, 0)
		}
	}
	// one more empty square, so that the board is not full afterwards
	fx, fy := r.Intn(n), r.Intn(n)
	if (fx != ax || fy != ay) && (fx != ex || fy != ey) {
		b[fy][fx] = nil
	}
	b[ay][ax] = evStack(r, me, tak.Flat, 2+r.Intn(3), 1)
	cfg := tak.Config{Size: n, Pieces: 200, Capstones: 30}
	p, err := tak.FromSquares(cfg, b, move)
	if err != nil {
		return nil, nil, nil, false
	}
	ws, wc, bs, bc := 1+r.Intn(20), r.Intn(2), 1+r.Intn(20), r.Intn(2)
	if me == tak.White {
		ws, wc = 1, 0
	} else {
		bs, bc = 1, 0
	}
	tak.VerifSetRaw(p, byte(ws), byte(wc), byte(bs), byte(bc), move)
	if over, _, _ := absOf(p).outcome(); over {
		return nil, nil, nil, false
	}
	q1, e1 := p.Move(tak.Move{X: int8(ex), Y: int8(ey), Type: tak.PlaceFlat})
	q2, e2 := p.Move(tak.Move{X: int8(ax), Y: int8(ay), Type: tak.MoveType(d[2]), Slides: 1})
	if e1 != nil || e2 != nil {
		return nil, nil, nil, false
	}
	return p, q1, q2, true
}

// searchWithSharedEvaluator: a real search whose leaf evaluator is ONE instance of the built-in evaluator; every leaf
// value is judged as it is produced (range oracle, fresh instance), a few leaves are printed as CASEs.
func searchWithSharedEvaluator(c *ctx, p *tak.Position, depth int, table int64) {
	h := newHist(c, p.Size())
	h.emit = 6
	cfg := ai.MinimaxConfig{Size: p.Size(), Depth: depth, Seed: 1, TableMem: table,
		Evaluate: func(cs *bitboard.Constants, q *tak.Position) int64 {
			v := h.shared(cs, q)
			h.judge(q, v, "MakeEvaluator inside Analyze", "history_search_leaf")
			return v
		}}
	m := ai.NewMinimax(cfg)
	m.Analyze(context.Background(), p)
	c.stat("history_searches", 1)
}

// analyzeCorollary: the C18 corollary on a default MinimaxAI (its own evaluator instance).  The line reported by
// Analyze is replayed; if it ends in a finished, decided game the reported value must lie beyond the threshold, and a
// value beyond the threshold must come with a finished game at the end of the reported line.
func analyzeCorollary(c *ctx, p *tak.Position, depth int, table int64) {
	m := ai.NewMinimax(ai.MinimaxConfig{Size: p.Size(), Depth: depth, Seed: 1, TableMem: table})
	pv, v, _ := m.Analyze(context.Background(), p)
	c.stat("history_analyze", 1)
	// the engine's own static evaluation AFTER it has searched the position (and the positions of the reported line): still a
	// function of the position alone, whatever the search has stored about it
	{
		cs := bitboard.Precompute(uint(p.Size()))
		q := p
		for k := 0; k <= len(pv) && k <= 2; k++ {
			got := m.Evaluate(q)
			fresh := ai.MakeEvaluator(p.Size(), nil)(&cs, q)
			c.stat("history_static_after_search", 1)
			if got != fresh {
				c.printf("ORACLE-FAIL evaluator-history-dependent | %s ; D ; history analyze depth %d table %d of %s | MinimaxAI.Evaluate after the search: %d, fresh evaluator: %d | the evaluation is a function of the position\n",
					enc(q), depth, table, enc(p), got, fresh)
				break
			}
			if k < len(pv) {
				n, err := q.Move(pv[k])
				if err != nil {
					break
				}
				q = n
			}
		}
	}
	q := p
	finished := false
	var win tak.Color
	for _, mv := range pv {
		n, err := q.Move(mv)
		if err != nil {
			return // legality of the line is C04's subject
		}
		q = n
		if over, w, _ := absOf(q).outcome(); over {
			finished, win = true, w
			break
		}
	}
	inp := fmt.Sprintf("%s ; depth %d table %d", enc(p), depth, table)
	switch {
	case finished && win != tak.NoColor && abs64(v) <= ai.WinThreshold:
		c.stat("history_analyze_finished_line", 1)
		c.printf("ORACLE-FAIL finished-line-undecided-value | %s | Analyze value %d, reported line %s ends in a game won by %s | |v| > %d\n",
			inp, v, encMoves(pv), colorStr(win), int64(ai.WinThreshold))
	case finished:
		c.stat("history_analyze_finished_line", 1)
	case abs64(v) > ai.WinThreshold && table < 0 && len(pv) >= 1:
		c.printf("ORACLE-FAIL decided-value-unfinished-line | %s | Analyze value %d, reported line %s ends in an unfinished game | a finished game on the line\n",
			inp, v, encMoves(pv))
	}
}

func runHistory(c *ctx) {
	r := c.r
	// constructed: same tops, different reserves / buried stones / side to move
	for k := 0; k < 150*c.scale; k++ {
		size := 3 + k%6
		var b evBoard
		if k%3 == 0 {
			b, _ = extremeBoard(r, size, r.Intn(6))
		} else {
			_, bd, _ := constructedBoard(r, size, 1+r.Intn(5), 0.2+0.7*r.Float64())
			b = evBoard(bd)
		}
		vs := sameTopsVariants(r, b, 2+r.Intn(60))
		if vs == nil {
			continue
		}
		h := newHist(c, size)
		for round := 0; round < 2; round++ { // twice: every position is also seen after all the others
			for _, p := range vs {
				h.eval(p, "history_same_tops")
			}
		}
		c.stat("history_sequences", 1)
	}
	// the natural pair, both orders, and searches from the parent
	for k := 0; k < 240*c.scale; k++ {
		size := 3 + k%4
		p, placed, slid, ok := naturalPair(r, size)
		if !ok {
			c.stat("history_pair_rejected", 1)
			continue
		}
		if placed.White == slid.White && placed.Black == slid.Black && placed.Standing == slid.Standing && placed.Caps == slid.Caps {
			c.stat("history_pair_identical_tops", 1)
		}
		o1, _, _ := absOf(placed).outcome()
		o2, _, _ := absOf(slid).outcome()
		if o1 != o2 {
			c.stat("history_pair_over_differs", 1)
		}
		seqs := [][]*tak.Position{{slid, placed, slid}, {placed, slid, placed}, {p, slid, placed}}
		for _, sq := range seqs {
			h := newHist(c, size)
			for _, q := range sq {
				h.eval(q, "history_natural_pair")
			}
		}
		table := int64(-1)
		if k%2 == 0 {
			table = 1 << 16
		}
		searchWithSharedEvaluator(c, p, 1, table)
		analyzeCorollary(c, p, 1, table)
		if size <= 5 {
			searchWithSharedEvaluator(c, p, 2, table)
			analyzeCorollary(c, p, 2, table)
		}
	}
}
