package main

// Shared by C05 (precise search = negamax; verdicts with a table) and C16 (cancellation only truncates):
//   - srchEngine: a MinimaxAI whose evaluation function counts leaf evaluations and cancels the context inside the
//     k-th one (then spins until the engine's cancel flag reads 1, so that the cancellation lands at a known point);
//   - the independent oracles: exhaustive negamax, best first moves, forced-result solver;
//   - position generators for search cases and a deterministic parallel case runner.

import (
	"context"
	"fmt"
	"math/rand"
	"os"
	"runtime"
	"sort"
	"strings"
	"sync"
	"sync/atomic"

	"github.com/nelhage/taktician/ai"
	"github.com/nelhage/taktician/bitboard"
	"github.com/nelhage/taktician/ptn"
	"github.com/nelhage/taktician/tak"
)

// ---------- configurations ----------

type srchCfg struct {
	size, depth                        int
	evk                                int // 0 default evaluator, 1 EvaluateWinner
	nosort, nonull, noreduce, multicut bool
	dedup                              bool
	tableMem                           int64 // -1 none, 0 default (100 MB), else bytes
}

func (sc srchCfg) precise() bool { return sc.nonull && sc.noreduce && !sc.multicut }

func (sc srchCfg) baseEval() ai.EvaluationFunc {
	if sc.evk == 1 {
		return ai.EvaluateWinner
	}
	return ai.MakeEvaluator(sc.size, nil)
}

func (sc srchCfg) String() string {
	return fmt.Sprintf("size=%d depth=%d eval=%s nosort=%v nonull=%v noreduce=%v multicut=%v dedup=%v tablemem=%d",
		sc.size, sc.depth, []string{"default", "winner"}[sc.evk], sc.nosort, sc.nonull, sc.noreduce, sc.multicut, sc.dedup, sc.tableMem)
}

// srchEngine wraps one MinimaxAI (one "engine" with its table, history and response maps).
type srchEngine struct {
	sc       srchCfg
	ai       *ai.MinimaxAI
	cnt      int // leaf evaluations since the start of the current Analyze
	cancelAt int // 0 = never
	cancel   context.CancelFunc
	digest   uint64 // the table as it was when the context was cancelled
	flipped  bool
}

func newSrchEngine(sc srchCfg) *srchEngine {
	e := &srchEngine{sc: sc}
	base := sc.baseEval()
	cfg := ai.MinimaxConfig{Size: sc.size, Depth: sc.depth, Seed: 1, TableMem: sc.tableMem,
		NoSort: sc.nosort, NoNullMove: sc.nonull, NoReduceSlides: sc.noreduce, MultiCut: sc.multicut, DedupSymmetry: sc.dedup}
	if sc.precise() {
		cfg.NoExtendForces = true // MakePrecise sets it (the option is not consulted by the search)
	}
	cfg.Evaluate = func(c *bitboard.Constants, q *tak.Position) int64 {
		e.cnt++
		if e.cnt == e.cancelAt {
			e.digest, e.flipped = ai.VerifTableDigest(e.ai), true
			e.cancel()
			f := ai.VerifCancelFlag(e.ai)
			for atomic.LoadInt32(f) == 0 {
				runtime.Gosched() // let the engine's watcher goroutine store the flag
			}
		}
		return base(c, q)
	}
	e.ai = ai.NewMinimax(cfg)
	return e
}

func (e *srchEngine) tableLen() int { return ai.VerifTableLen(e.ai) }

type srchResult struct {
	pv    []tak.Move
	v     int64
	st    ai.Stats
	evals int
	// the table changed after the cancel flag was set (ttPut must refuse every write from then on)
	tableWrittenAfterCancel bool
}

// analyze runs Analyze with the context cancelled inside the k-th leaf evaluation (k = 0: never).
func (e *srchEngine) analyze(p *tak.Position, k int) srchResult {
	ctx, cancel := context.WithCancel(context.Background())
	e.cnt, e.cancelAt, e.cancel, e.flipped = 0, k, cancel, false
	pv, v, st := e.ai.Analyze(ctx, p)
	cancel()
	e.cancelAt = 0
	altered := e.flipped && ai.VerifTableDigest(e.ai) != e.digest
	return srchResult{pv: append([]tak.Move(nil), pv...), v: v, st: st, evals: e.cnt, tableWrittenAfterCancel: altered}
}

func (e *srchEngine) analyzeAll(p *tak.Position) ([][]tak.Move, int64, ai.Stats) {
	ctx, cancel := context.WithCancel(context.Background())
	e.cnt, e.cancelAt, e.cancel = 0, 0, cancel
	pvs, v, st := e.ai.AnalyzeAll(ctx, p)
	cancel()
	out := make([][]tak.Move, len(pvs))
	for i := range pvs {
		out[i] = append([]tak.Move(nil), pvs[i]...)
	}
	return out, v, st
}

// analyzeAllCancel runs AnalyzeAll with the context cancelled inside the k-th leaf evaluation of the whole call (k = 0: never); the
// count includes the leaf evaluations of the second pass, so a k beyond Analyze's own leaves flips the flag during the second pass.
func (e *srchEngine) analyzeAllCancel(p *tak.Position, k int) ([][]tak.Move, int64, ai.Stats) {
	ctx, cancel := context.WithCancel(context.Background())
	e.cnt, e.cancelAt, e.cancel, e.flipped = 0, k, cancel, false
	pvs, v, st := e.ai.AnalyzeAll(ctx, p)
	cancel()
	e.cancelAt = 0
	out := make([][]tak.Move, len(pvs))
	for i := range pvs {
		out[i] = append([]tak.Move(nil), pvs[i]...)
	}
	return out, v, st
}

// wire format of a configuration, as read by ocaml/drv_c05.ml: size depth evk nosort nonull noreduce multicut tablelen dedup
func (e *srchEngine) encCfg() string {
	sc := e.sc
	return fmt.Sprintf("%d %d %d %d %d %d %d %d %d", sc.size, sc.depth, sc.evk, b2i(sc.nosort), b2i(sc.nonull), b2i(sc.noreduce), b2i(sc.multicut), e.tableLen(), b2i(sc.dedup))
}

// the model has no sort permutation and walks its table as a list (symmetry de-duplication is modelled: coq/SearchDedup.v)
func (e *srchEngine) modelComparable() bool {
	return e.sc.nosort && e.tableLen() <= 4096
}

func srchL1(r srchResult) string {
	return fmt.Sprintf("%s %d %d %d", encMoves(r.pv), r.v, r.st.Depth, b2i(r.st.Canceled))
}

func srchL2(r srchResult) string {
	st := r.st
	return fmt.Sprintf("%d %d %d %d %d %d %d %d %d %d %d %d %d %d %d %d %d", st.Evaluated, st.Visited, st.Scout, st.Terminal, st.TTHits, st.TTShortcut,
		st.ReSearch, st.CutNodes, st.Cut0, st.Cut1, st.CutSearch, st.AllNodes, st.NullSearch, st.NullCut, st.ReducedSlides, st.MCSearch, st.MCCut)
}

func srchSamePV(a, b []tak.Move) bool {
	if len(a) != len(b) {
		return false
	}
	for i := range a {
		if a[i] != b[i] {
			return false
		}
	}
	return true
}

// ---------- oracles (written from the definitions; no pruning heuristics, no engine code) ----------

type srchOracle struct {
	eval ai.EvaluationFunc
	c    bitboard.Constants
	memo map[string]int8
}

func newSrchOracle(sc srchCfg) *srchOracle {
	return &srchOracle{eval: sc.baseEval(), c: bitboard.Precompute(uint(sc.size)), memo: map[string]int8{}}
}

// negamax: the exhaustive depth-limited negamax value under the engine's evaluation function.
func (o *srchOracle) negamax(p *tak.Position, d int) int64 {
	if over, _ := p.GameOver(); over || d <= 0 {
		return o.eval(&o.c, p)
	}
	best := int64(0)
	first := true
	for _, m := range p.AllMoves(nil) {
		q, err := p.Move(m)
		if err != nil {
			continue
		}
		v := -o.negamax(q, d-1)
		if first || v > best {
			best, first = v, false
		}
	}
	if first { // no legal move: cannot happen in Tak before the game is over
		return o.eval(&o.c, p)
	}
	return best
}

// childValues: every legal first move with the negamax value it leads to.
func (o *srchOracle) childValues(p *tak.Position, d int) ([]tak.Move, []int64) {
	var ms []tak.Move
	var vs []int64
	for _, m := range p.AllMoves(nil) {
		q, err := p.Move(m)
		if err != nil {
			continue
		}
		ms = append(ms, m)
		vs = append(vs, -o.negamax(q, d-1))
	}
	return ms, vs
}

// sign: +1 if the side to move can force a win within n plies, -1 if it cannot avoid a loss within n plies, else 0.
// (= the sign of negamax with the winner-only evaluation; implemented with early exit and a memo keyed on the position text.)
func (o *srchOracle) sign(p *tak.Position, n int) int8 {
	if over, w := p.GameOver(); over {
		switch w {
		case tak.NoColor:
			return 0
		case p.ToMove():
			return 1
		}
		return -1
	}
	if n <= 0 {
		return 0
	}
	key := fmt.Sprintf("%s/%d/%d", srchKey(p), p.MoveNumber(), n)
	if v, ok := o.memo[key]; ok {
		return v
	}
	best := int8(-1)
	for _, m := range p.AllMoves(nil) {
		q, err := p.Move(m)
		if err != nil {
			continue
		}
		v := -o.sign(q, n-1)
		if v > best {
			best = v
			if best == 1 {
				break
			}
		}
	}
	o.memo[key] = best
	return best
}

// srchKey identifies a position completely (board, reserves through the board + config, side to move).
func srchKey(p *tak.Position) string {
	ws, wc, bs, bc := tak.VerifReserves(p)
	return fmt.Sprintf("%s %d %d %d %d", ptn.FormatTPS(p), ws, wc, bs, bc)
}

func srchVerdict(v int64) int8 {
	switch {
	case v > ai.WinThreshold:
		return 1
	case v < -ai.WinThreshold:
		return -1
	}
	return 0
}

func srchVerdictName(s int8) string {
	return []string{"forced loss", "no forced result", "forced win"}[s+1]
}

// srchCheckVerdict: the table clause of C05 for one answered call.  truth = orc.sign(p, reported depth).
//   - a forced result that exists within the reported depth must be reported;
//   - a reported result must be real: table entries of earlier iterations and earlier searches may carry it from lines that are
//     deeper than the reported depth, so the solver looks up to 2*depth + priorDepth plies ahead (as far as is feasible).
func srchCheckVerdict(o *srchOut, orc *srchOracle, class, where string, p *tak.Position, rr srchResult, truth int8, priorDepth int) {
	d := rr.st.Depth
	got := srchVerdict(rr.v)
	if truth != 0 && got != truth {
		o.printf("ORACLE-FAIL %s | %s | value %d (%s) at depth %d pv %s | exhaustive search: %s within %d plies", class, where, rr.v, srchVerdictName(got), d, encMoves(rr.pv), srchVerdictName(truth), d)
		return
	}
	if truth == 0 && got != 0 {
		bound := 2*d + priorDepth
		limit := d + 3
		if p.Size() >= 4 {
			limit = d + 2
		}
		if limit > bound {
			limit = bound
		}
		real := int8(0)
		for nn := d + 1; nn <= limit && real == 0; nn++ {
			real = orc.sign(p, nn)
		}
		switch {
		case real == got:
			o.stat("verdict_confirmed_deeper", 1)
		case real == -got:
			o.printf("ORACLE-FAIL %s | %s | value %d (%s) at depth %d pv %s | exhaustive search finds the opposite forced result", class, where, rr.v, srchVerdictName(got), d, encMoves(rr.pv))
		case limit == bound:
			o.printf("ORACLE-FAIL %s | %s | value %d (%s) at depth %d pv %s | no forced result exists within %d plies (all the engine ever searched)", class, where, rr.v, srchVerdictName(got), d, encMoves(rr.pv), bound)
		default:
			o.stat("verdict_unconfirmed_beyond_oracle_depth", 1)
		}
	}
}

// ---------- generators ----------

// srchGame: a random game on a small board, mostly road-racing so that forced results are near.
func srchGame(r *rand.Rand, size int) []*tak.Position {
	cfg := tak.Config{Size: size, BlackWinsTies: r.Intn(6) == 0}
	if r.Intn(3) == 0 { // reduced reserves: flat wins by exhaustion come within reach
		cfg.Pieces = 3 + r.Intn(size*2)
		cfg.Capstones = r.Intn(2)
	}
	policy := []int{4, 4, -1, 0, 1, 3}[r.Intn(6)]
	ps, _ := randomGame(r, cfg, 4+r.Intn(8*size), policy, false)
	return ps
}

// srchPick: a live position of the game, biased towards the last few plies before the end.
func srchPick(r *rand.Rand, ps []*tak.Position) int {
	last := len(ps) - 1
	if over, _ := ps[last].GameOver(); over {
		last--
	}
	if last < 0 {
		return -1
	}
	i := last - r.Intn(4)
	if r.Intn(4) == 0 {
		i = r.Intn(last + 1)
	}
	if i < 0 {
		i = 0
	}
	return i
}

// ---------- deterministic parallel case runner ----------

type srchOut struct {
	lines []string
	stats map[string]int64
}

func (o *srchOut) printf(f string, a ...interface{}) {
	o.lines = append(o.lines, strings.TrimRight(fmt.Sprintf(f, a...), "\n"))
}
func (o *srchOut) stat(k string, n int64) { o.stats[k] += n }

// srchRun evaluates f(id, r_id, out) for id in [0,n) on 14 workers; every case has its own PRNG derived from
// (seed, salt, id), and the output is printed in id order, so the result does not depend on scheduling.
// only >= 0 restricts the run to one id (replay).
func srchRun(c *ctx, salt int64, n int, only int, f func(id int, r *rand.Rand, o *srchOut)) {
	outs := make([]*srchOut, n)
	var wg sync.WaitGroup
	next := int64(-1)
	for w := 0; w < 14; w++ {
		wg.Add(1)
		go func() {
			defer wg.Done()
			for {
				id := int(atomic.AddInt64(&next, 1))
				if id >= n {
					return
				}
				if only >= 0 && id != only {
					continue
				}
				o := &srchOut{stats: map[string]int64{}}
				r := rand.New(rand.NewSource(c.seed*1000003 + salt*7919 + int64(id)))
				f(id, r, o)
				outs[id] = o
			}
		}()
	}
	wg.Wait()
	for _, o := range outs {
		if o == nil {
			continue
		}
		for _, l := range o.lines {
			c.printf("%s\n", l)
		}
		keys := make([]string, 0, len(o.stats))
		for k := range o.stats {
			keys = append(keys, k)
		}
		sort.Strings(keys)
		for _, k := range keys {
			c.stat(k, o.stats[k])
		}
	}
}

// srchReplayID reads the case id out of a replay file's input field ("id=<tier>:<n> ...").
func srchReplayID(c *ctx) (tier string, id int) {
	if len(c.args) == 0 {
		return "", -1
	}
	raw, err := os.ReadFile(c.args[0])
	if err != nil {
		return "", -1
	}
	data := string(raw)
	i := strings.Index(data, "id=")
	if i < 0 {
		return "", -1
	}
	var n int
	rest := data[i+3:]
	j := strings.IndexByte(rest, ':')
	if j < 0 {
		return "", -1
	}
	fmt.Sscanf(rest[j+1:], "%d", &n)
	return rest[:j], n
}
