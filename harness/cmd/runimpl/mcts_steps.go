//go:build verif_c04

package main

// MCTS at the level of single search iterations (model correspondence for property C04, coq/Mcts.v).
// Called at the end of runC04; emits CASE lines whose input starts with "MCTS ;".
//
// One case = one position x one configuration x one scripted random source:
//   (B) the REAL MonteCarloAI.GetMove runs with Debug=5 (one log line per completed iteration) on a recording source; when
//       the wanted number of iterations has been logged, a hook in the policy / evaluator sleeps until the deadline has passed,
//       so the number of loop passes is known exactly (= the model's fuel) although the loop is bounded by the wall clock;
//   (A) the same number of passes is then run statement by statement through the overlay (harness/overlay/ai--mcts__steps.go.txt:
//       real descend / populate / rollout / update) on a second player with an identical source; the tree is dumped after every
//       pass, and sort.Sort(bySims) is applied to a copy of the root's children (the model's sort oracle).
//   (A) and (B) must have drawn the same random values and reported the same rollout values (class mcts-steps-diverge).
//
//   CASE MCTS ; <position> ; <place_win> ; <corners> ; <C> ; <MaxRollout> ; <EvalThreshold> ; <fuel> ; <Int31 stream> ; <sort oracle>
//        | move=<returned move or PANIC> verdict=<OK|ERR|PANIC|-> children=<root's children in order>
//        | <path>/<val>/<fnv64 of the tree dump> per pass ... ; final=<tree dump>
// The direct oracle also judges the move of (B): legal by the independent rules oracle and by Position.Move.

import (
	"bytes"
	"context"
	"fmt"
	"hash/fnv"
	"log"
	"math/rand"
	"os"
	"runtime"
	"strconv"
	"strings"
	"sync"
	"time"

	"github.com/nelhage/taktician/ai/mcts"
	"github.com/nelhage/taktician/tak"
)

// ---------- the recording source ----------

// mctsSrc: math/rand's own generator, with every `hi`-th-or-so value replaced by the largest Int31 (exercises the rejection
// loop of Int31n and the mask branch with all bits set) and every `lo`-th-or-so by 0; records Int31() = int32(Int63() >> 32).
type mctsSrc struct {
	inner  rand.Source
	hi, lo int64
	drawn  []int32
}

func (s *mctsSrc) Seed(int64) {}
func (s *mctsSrc) Int63() int64 {
	v := s.inner.Int63()
	k := (v >> 8) & 0xffff
	switch {
	case s.hi > 0 && k%s.hi == 0:
		v |= 0x7fffffff << 32
	case s.lo > 0 && k%s.lo == 1:
		v &= 0xffffffff
	}
	s.drawn = append(s.drawn, int32(v>>32))
	return v
}

// ---------- log lines of the goroutine that runs GetMove ----------

type mctsLogHook struct {
	evals []string // "evaluate: [...] = v p=n" lines
}

var mctsLogHooks sync.Map // goroutine id -> *mctsLogHook

func mctsGoid() int64 {
	var b [64]byte
	n := runtime.Stack(b[:], false)
	f := strings.Fields(string(b[:n]))
	if len(f) < 2 {
		return -1
	}
	id, _ := strconv.ParseInt(f[1], 10, 64)
	return id
}

type mctsLogWriter struct{}

func (mctsLogWriter) Write(p []byte) (int, error) {
	if i := bytes.Index(p, []byte("evaluate: ")); i >= 0 {
		if h, ok := mctsLogHooks.Load(mctsGoid()); ok {
			hk := h.(*mctsLogHook)
			hk.evals = append(hk.evals, strings.TrimSpace(string(p[i:])))
		}
	}
	return len(p), nil
}

// ---------- one case ----------

type mctsCase struct {
	p        *tak.Position
	kind     string
	placeWin bool
	corners  bool
	c        float64
	maxRoll  int
	evalThr  int64
	want     int // iterations wanted (0 with limit 0: no iteration at all)
	seed     int64
	hi, lo   int64
}

func (k mctsCase) cfg(debug int, limit time.Duration) mcts.MCTSConfig {
	pol := "uniform"
	if k.placeWin {
		pol = "place_win"
	}
	return mcts.MCTSConfig{Size: k.p.Size(), Debug: debug, Limit: limit, Seed: 1 + k.seed, C: k.c, MaxRollout: k.maxRoll,
		EvalThreshold: k.evalThr, Policy: pol, ForceCorners: k.corners}
}

func (k mctsCase) src() *mctsSrc {
	return &mctsSrc{inner: rand.NewSource(k.seed), hi: k.hi, lo: k.lo}
}

func (k mctsCase) desc() string {
	cfg := tak.VerifCfg(k.p)
	return fmt.Sprintf("mcts-steps kind=%s place_win=%d corners=%d C=%g maxrollout=%d evalthreshold=%d want=%d seed=%d hi=%d lo=%d cfg=%d:%d:%d:%d pos=%s",
		k.kind, b2i(k.placeWin), b2i(k.corners), k.c, k.maxRoll, k.evalThr, k.want, k.seed, k.hi, k.lo,
		cfg.Size, cfg.Pieces, cfg.Capstones, b2i(cfg.BlackWinsTies), enc(k.p))
}

type mctsOut struct {
	lines []string
	stats map[string]int64
}

func (o *mctsOut) stat(k string, n int64) { o.stats[k] += n }
func (o *mctsOut) fail(class, input, did, want string) {
	cl := strings.NewReplacer("|", "/", "\n", " ", "\r", " ")
	o.lines = append(o.lines, fmt.Sprintf("ORACLE-FAIL %s | %s | %s | %s", class, cl.Replace(input), cl.Replace(did), cl.Replace(want)))
	o.stat("oraclefail_"+class, 1)
}

func mctsFnv(s string) uint64 {
	h := fnv.New64a()
	h.Write([]byte(s))
	return h.Sum64()
}

func mctsInts(xs []int) string {
	if len(xs) == 0 {
		return "-"
	}
	s := make([]string, len(xs))
	for i, x := range xs {
		s[i] = strconv.Itoa(x)
	}
	return strings.Join(s, ".")
}

// runReal: (B).  Returns the move / panic, the evaluate lines, the stream drawn, and the number of loop passes (-1: not known).
func (k mctsCase) runReal(limit time.Duration) (m tak.Move, pan bool, msg string, evals []string, drawn []int32, fuel int) {
	hook := &mctsLogHook{}
	src := k.src()
	blocked := false
	var start time.Time
	done := make(chan struct{})
	go func() {
		defer close(done)
		id := mctsGoid()
		mctsLogHooks.Store(id, hook)
		defer mctsLogHooks.Delete(id)
		pan, msg = safely(func() {
			mc := mcts.NewMonteCarlo(k.cfg(5, limit))
			mcts.VerifSetSource(mc, src)
			mcts.VerifHook(mc, func() {
				if !blocked && len(hook.evals) >= k.want {
					blocked = true
					if d := time.Until(start.Add(limit + 2*time.Millisecond)); d > 0 {
						time.Sleep(d)
					}
					for time.Now().Before(start.Add(limit + time.Millisecond)) {
					}
				}
			})
			start = time.Now()
			m = mc.GetMove(context.Background(), k.p)
		})
	}()
	<-done
	elapsed := time.Since(start)
	n := len(hook.evals)
	switch {
	case k.corners && k.p.MoveNumber() < 2:
		fuel = 0
	case blocked:
		fuel = n // the pass that was held completed after the deadline: the loop ended by the clock
	case elapsed < limit-limit/8:
		fuel = n + 1 // returned early: the loop was left by `break` in pass n+1
	case limit == 0:
		fuel = 0
	default:
		fuel = -1 // the deadline passed on its own (loaded machine): ended by the clock after n passes, or by break
	}
	return m, pan, msg, hook.evals, src.drawn, fuel
}

func (k mctsCase) run(o *mctsOut) {
	p := k.p
	desc := k.desc()
	before := enc(p)
	// (B) the real GetMove
	limit := 25 * time.Millisecond
	if k.want == 0 {
		limit = 0
	}
	var m tak.Move
	var pan bool
	var msg string
	var evals []string
	var drawn []int32
	fuel := -1
	for attempt := 0; attempt < 4; attempt++ {
		m, pan, msg, evals, drawn, fuel = k.runReal(limit)
		if fuel >= 0 {
			break
		}
		// the deadline passed on its own (loaded machine) before the wanted passes were done: the pass count would depend on
		// the wall clock, so the run is repeated with a longer limit (the emitted case is a function of the seed alone)
		o.stat("mcts_steps_retry_longer_limit", 1)
		limit *= 3
	}
	if fuel < 0 {
		o.stat("mcts_steps_skipped_undetermined_pass_count", 1)
		return
	}
	if enc(p) != before {
		o.fail("position-mutated", desc, "the searched position changed during GetMove", "the caller's position is left alone")
		return
	}
	// direct oracle on the returned move
	moveStr, verdict := "PANIC", "-"
	switch {
	case pan && k.want == 0 && !(k.corners && p.MoveNumber() < 2):
		o.stat("mcts_steps_no_iteration_panic", 1) // Limit 0: outside the property (no playout); kept for the model's Panic branch
	case pan:
		o.fail("mcts-panic", desc, "panic: "+msg, "no crash")
	default:
		moveStr = encMove(m)
		var err error
		pan2, _ := safely(func() { _, err = p.Move(m) })
		rules := false
		safely(func() { rules = absOf(p).rulesMove(m) != nil })
		switch {
		case pan2:
			verdict = "PANIC"
		case err != nil:
			verdict = "ERR"
		default:
			verdict = "OK"
		}
		if verdict != "OK" || !rules {
			cls := "mcts-move-illegal"
			if k.corners && p.MoveNumber() < 2 {
				cls = "mcts-corner-illegal"
			}
			o.fail(cls, desc, fmt.Sprintf("GetMove returned %s: Position.Move says %s, rules oracle accepts=%v", moveStr, verdict, rules), "a legal move")
		}
	}
	// (A) the same passes, statement by statement
	var l2 []string
	children, perm, final := "-", "-", "-"
	mc := mcts.NewMonteCarlo(k.cfg(0, time.Hour))
	mcCfg := mcts.VerifConfig(mc)
	if !(k.corners && p.MoveNumber() < 2) {
		src := k.src()
		mcts.VerifSetSource(mc, src)
		vt := mcts.VerifNewTree(p)
		var spPan bool
		var spMsg string
		passes := 0
		for i := 0; i < fuel; i++ {
			var path []int
			var brk bool
			var val, npr int
			if sc, all := vt.RootScored(); sc >= 2 {
				o.stat("mcts_steps_passes_with_computed_scores_at_root", 1)
				if all {
					o.stat("mcts_steps_passes_decided_by_computed_scores_at_root", 1)
				}
			}
			spPan, spMsg = safely(func() { path, brk, val, npr = vt.Iterate(mc) })
			if spPan {
				break
			}
			passes++
			if brk {
				l2 = append(l2, fmt.Sprintf("%s/break/%016x", mctsInts(path), mctsFnv(vt.Dump())))
				o.stat("mcts_steps_break", 1)
				break
			}
			l2 = append(l2, fmt.Sprintf("%s/%d/%016x", mctsInts(path), val, mctsFnv(vt.Dump())))
			// the real loop's log line of this pass: "evaluate: [..] = val p=proven"
			if i < len(evals) {
				want := fmt.Sprintf("= %d p=%d", val, npr)
				if !strings.HasSuffix(evals[i], want) {
					o.fail("mcts-steps-diverge", desc, fmt.Sprintf("pass %d: the real loop logged %q, the stepped loop computed %q", i+1, evals[i], want),
						"the stepped loop of the overlay repeats the loop of GetMove")
					return
				}
			} else {
				o.fail("mcts-steps-diverge", desc, fmt.Sprintf("pass %d of the stepped loop has no log line in the real run (%d lines)", i+1, len(evals)),
					"the stepped loop of the overlay repeats the loop of GetMove")
				return
			}
			if len(path) > 3 {
				o.stat("mcts_steps_depth_ge4", 1)
			}
		}
		if spPan {
			if !pan {
				o.fail("mcts-steps-diverge", desc, "the stepped loop panicked ("+spMsg+") but GetMove did not", "the stepped loop of the overlay repeats the loop of GetMove")
				return
			}
			l2 = append(l2, "PANIC")
		}
		if len(src.drawn) > len(drawn) {
			o.fail("mcts-steps-diverge", desc, fmt.Sprintf("the stepped loop drew %d random values, the real run only %d", len(src.drawn), len(drawn)),
				"the stepped loop of the overlay repeats the loop of GetMove")
			return
		}
		for i, v := range src.drawn {
			if drawn[i] != v {
				o.fail("mcts-steps-diverge", desc, fmt.Sprintf("random value %d differs between the real and the stepped run", i), "identical sources")
				return
			}
		}
		o.stat("mcts_steps_passes", int64(passes))
		ch := vt.RootChildren()
		children = encMoves(ch)
		perm = mctsInts(vt.SortedOrder())
		final = vt.Dump()
		if len(ch) > 12 {
			o.stat("mcts_steps_sort_more_than_12_children", 1)
		}
		if vt.RootProven() != 0 {
			o.stat("mcts_steps_root_proven", 1)
		}
	} else {
		o.stat("mcts_steps_corner_answers", 1)
	}
	ds := make([]string, len(drawn))
	nhi := 0
	for i, v := range drawn {
		ds[i] = strconv.Itoa(int(v))
		if v == 0x7fffffff {
			nhi++
		}
	}
	stream := "-"
	if len(ds) > 0 {
		stream = strings.Join(ds, ",")
	}
	o.stat("mcts_steps_cases", 1)
	o.stat("mcts_steps_kind_"+k.kind, 1)
	o.stat(fmt.Sprintf("mcts_steps_size%d", p.Size()), 1)
	o.stat("mcts_steps_policy_placewin", int64(b2i(k.placeWin)))
	o.stat("mcts_steps_corners", int64(b2i(k.corners)))
	o.stat("mcts_steps_random_values", int64(len(drawn)))
	o.stat("mcts_steps_random_values_max_int31", int64(nhi))
	fb := fuel
	if fb > 80 {
		fb = 80
	}
	o.stat(fmt.Sprintf("mcts_steps_fuel_%02d_%02d", fb/10*10, fb/10*10+9), 1)
	if ws, wc, bs, bc := tak.VerifReserves(p); (p.ToMove() == tak.White && ws == 0 && wc > 0) || (p.ToMove() == tak.Black && bs == 0 && bc > 0) {
		o.stat("mcts_steps_mover_has_only_capstones", 1)
	}
	l2s := "-"
	if len(l2) > 0 {
		l2s = strings.Join(l2, " ")
	}
	o.lines = append(o.lines, fmt.Sprintf("CASE MCTS ; %s ; %d ; %d ; %s ; %d ; %d ; %d ; %s ; %s | move=%s verdict=%s children=%s | %s final=%s",
		enc(p), b2i(k.placeWin), b2i(k.corners), strconv.FormatFloat(mcCfg.C, 'g', -1, 64), mcCfg.MaxRollout, mcCfg.EvalThreshold, fuel, stream, perm,
		moveStr, verdict, children, l2s, final))
}

// ---------- positions ----------

func mctsLive(p *tak.Position) bool {
	over, _ := p.GameOver()
	return !over
}

func mctsMoverOnlyCaps(p *tak.Position) bool {
	ws, wc, bs, bc := tak.VerifReserves(p)
	if p.ToMove() == tak.White {
		return ws == 0 && wc > 0
	}
	return bs == 0 && bc > 0
}

func mctsGenPosition(r *rand.Rand, size int, kind string) *tak.Position {
	for try := 0; try < 60; try++ {
		var p *tak.Position
		switch kind {
		case "opening":
			ps, _ := randomGame(r, randCfg(r, size), r.Intn(5), -1, false)
			p = ps[len(ps)-1]
		case "middle":
			ps, _ := randomGame(r, randCfg(r, size), 4+r.Intn(4*size), -1, false)
			for i := len(ps) - 1; i >= 0; i-- {
				if mctsLive(ps[i]) {
					p = ps[i]
					break
				}
			}
		case "nearterm":
			ps, _ := randomGame(r, randCfg(r, size), 300, []int{4, 4, 0, 3}[r.Intn(4)], false)
			if len(ps) < 5 || mctsLive(ps[len(ps)-1]) {
				continue
			}
			p = ps[len(ps)-2-r.Intn(3)]
		case "caponly":
			cfg := tak.Config{Size: size, Pieces: 2 + r.Intn(5), Capstones: 1 + r.Intn(2), BlackWinsTies: r.Intn(4) == 0}
			ps, _ := randomGame(r, cfg, 300, []int{4, 4, -1}[r.Intn(3)], false)
			var cand []*tak.Position
			for _, q := range ps {
				if mctsMoverOnlyCaps(q) && mctsLive(q) {
					cand = append(cand, q)
				}
			}
			if len(cand) == 0 {
				continue
			}
			p = cand[r.Intn(len(cand))]
		}
		if p != nil && mctsLive(p) {
			return p
		}
	}
	return nil
}

// ---------- replay ----------

// mctsStepsReplay re-runs one case from the input text of an ORACLE-FAIL line of this file (mctsCase.desc); called by
// c04Replay for inputs that start with "mcts-steps".
func mctsStepsReplay(c *ctx, input string) {
	head, pos := input, ""
	if i := strings.Index(input, " pos="); i >= 0 {
		head, pos = input[:i], input[i+5:]
	}
	kv := map[string]string{}
	for _, f := range strings.Fields(head) {
		if i := strings.Index(f, "="); i > 0 {
			kv[f[:i]] = f[i+1:]
		}
	}
	atoi := func(s string) int64 { v, _ := strconv.ParseInt(s, 10, 64); return v }
	p, err := decodeEnc(pos)
	if err != nil {
		fmt.Fprintln(os.Stderr, "bad position in replay:", err)
		os.Exit(2)
	}
	cf, _ := strconv.ParseFloat(kv["C"], 64)
	k := mctsCase{p: p, kind: kv["kind"], placeWin: kv["place_win"] == "1", corners: kv["corners"] == "1", c: cf,
		maxRoll: int(atoi(kv["maxrollout"])), evalThr: atoi(kv["evalthreshold"]), want: int(atoi(kv["want"])),
		seed: atoi(kv["seed"]), hi: atoi(kv["hi"]), lo: atoi(kv["lo"])}
	prev := log.Writer()
	log.SetOutput(mctsLogWriter{})
	defer log.SetOutput(prev)
	o := &mctsOut{stats: map[string]int64{}}
	if pan, msg := safely(func() { k.run(o) }); pan {
		o.fail("harness-panic", input, "the harness itself panicked: "+msg, "-")
	}
	failed := false
	for _, l := range o.lines {
		if strings.HasPrefix(l, "ORACLE-FAIL ") {
			failed = true
			c.printf("%s\n", l)
		}
	}
	if !failed {
		c.printf("REPLAY-OK %s\n", input)
	}
}

// ---------- the run ----------

func runMctsSteps(c *ctx) {
	if c.tier == "replay" {
		return
	}
	r := c.r
	n := 96
	if c.tier == "thorough" {
		n = 1200
	}
	if s := os.Getenv("VERIF_MCTS_STEPS"); s != "" {
		n, _ = strconv.Atoi(s)
	}
	kinds := []string{"opening", "middle", "middle", "nearterm", "nearterm", "caponly"}
	var cases []mctsCase
	for j := 0; j < n; j++ {
		size := 3 + j%4
		kind := kinds[r.Intn(len(kinds))]
		k := mctsCase{kind: kind, placeWin: r.Intn(2) == 0, corners: r.Intn(2) == 0, seed: 1 + r.Int63n(1<<40)}
		if k.corners && r.Intn(3) == 0 {
			k.kind = "opening"
		}
		k.p = mctsGenPosition(r, size, k.kind)
		if k.p == nil {
			continue
		}
		k.c = []float64{0, 0, 0.7, 1.4, 0.05, 3}[r.Intn(6)]
		k.maxRoll = []int{0, 1, 2, 4, 8, 8, 20}[r.Intn(7)]
		k.evalThr = []int64{0, 0, 1, 300, 100000}[r.Intn(5)]
		switch x := r.Intn(10); {
		case x < 4:
			k.want = 1 + r.Intn(6)
		case x < 8:
			k.want = 5 + r.Intn(16)
		default:
			k.want = 20 + r.Intn(21)
		}
		if k.maxRoll == 0 && k.want > 12 { // 50-ply rollouts are slow in the extracted model
			k.want = 1 + r.Intn(12)
		}
		if j%4 == 0 && r.Intn(2) == 0 {
			// few legal moves and many passes: descend is decided by the computed (float) scores, ties between equal scores
			k.kind = []string{"nearterm", "caponly", "middle"}[r.Intn(3)]
			k.corners = false
			if q := mctsGenPosition(r, 3, k.kind); q != nil {
				k.p = q
			}
			k.want = 30 + r.Intn(50)
			k.maxRoll = []int{1, 2, 4, 8}[r.Intn(4)]
		}
		if r.Intn(40) == 0 {
			k.want = 0
		}
		switch r.Intn(3) {
		case 0:
			k.hi, k.lo = 7, 5
		case 1:
			k.hi, k.lo = 0, 3
		}
		cases = append(cases, k)
	}
	// corner forcing in the two opening plies: the empty board and a first stone in / off a corner
	for size := 3; size <= 6; size++ {
		for _, f := range [][2]int{{-1, -1}, {0, 0}, {size - 1, 0}, {size - 1, size - 1}, {1, 1}} {
			p := tak.New(tak.Config{Size: size})
			if f[0] >= 0 {
				p, _ = p.Move(tak.Move{X: int8(f[0]), Y: int8(f[1]), Type: tak.PlaceFlat})
			}
			k := mctsCase{p: p, kind: "opening", placeWin: r.Intn(2) == 0, corners: true, seed: 1 + r.Int63n(1<<40), want: 1, maxRoll: 2}
			if r.Intn(2) == 0 {
				k.hi, k.lo = 5, 3
			}
			cases = append(cases, k)
		}
	}

	prev := log.Writer()
	log.SetOutput(mctsLogWriter{})
	defer log.SetOutput(prev)
	outs := make([]*mctsOut, len(cases))
	var wg sync.WaitGroup
	ch := make(chan int)
	nw := runtime.NumCPU()
	if nw > 12 {
		nw = 12
	}
	for w := 0; w < nw; w++ {
		wg.Add(1)
		go func() {
			defer wg.Done()
			for i := range ch {
				o := &mctsOut{stats: map[string]int64{}}
				if pan, msg := safely(func() { cases[i].run(o) }); pan {
					o.fail("harness-panic", cases[i].desc(), "the harness itself panicked: "+msg, "-")
				}
				outs[i] = o
			}
		}()
	}
	for i := range cases {
		ch <- i
	}
	close(ch)
	wg.Wait()
	samples := 0
	for i, o := range outs {
		for _, l := range o.lines {
			if strings.HasPrefix(l, "CASE ") {
				c.stat("cases", 1)
				c.stat("cases_mcts_steps", 1)
				if samples < 2 && i%7 == 3 {
					samples++
					f := strings.SplitN(l, " | ", 3)
					c.printf("SAMPLE %s -> %s\n", cases[i].desc(), f[1])
				}
			}
			c.printf("%s\n", l)
		}
		for k, v := range o.stats {
			c.stat(k, v)
		}
	}
}
