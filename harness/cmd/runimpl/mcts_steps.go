package main

// MCTS at the level of single search iterations (model correspondence for property C04).
// Called at the end of runC04; emits CASE lines whose input starts with "MCTS ;".
func runMctsSteps(c *ctx) {
}
