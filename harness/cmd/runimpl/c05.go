package main

// C05: precise search = exhaustive negamax; verdicts with a transposition table on fresh and reused engines.
//
// CASE <id> ; <cfg> ; A ; <enc p>@<k> ; <enc p>@<k> ...   | <pv v depth canceled> ; ...   | <17 counters> ; ...
// CASE <id> ; <cfg> ; ALL ; <enc p>@0                      | <sorted first moves> <v> <depth>    | <all lines in order>
//   cfg = size depth evk nosort nonull noreduce multicut tablelen      (only configurations the model can follow: NoSort,
//   no symmetry de-duplication, table <= 4096 entries); k = the leaf evaluation inside which the context is cancelled (0 never).
//   One CASE is one engine and the whole history of Analyze calls made on it.
// The direct oracle (exhaustive negamax / forced-result solver, search_common.go) judges every configuration.

import (
	"fmt"
	"math/rand"
	"sort"
	"strings"

	"github.com/nelhage/taktician/ai"
	"github.com/nelhage/taktician/tak"
)

func init() { register("C05", runC05) }

type c05call struct {
	p *tak.Position
	k int
}

func c05Describe(e *srchEngine, calls []c05call) string {
	var s []string
	for _, cl := range calls {
		s = append(s, fmt.Sprintf("[%s cancel@%d]", srchKey(cl.p), cl.k))
	}
	return e.sc.String() + " history: " + strings.Join(s, " ")
}

func c05Depths(r *rand.Rand, size int, thorough bool) int {
	max := map[int]int{3: 4, 4: 3, 5: 2}[size]
	if thorough && r.Intn(3) == 0 {
		max++
	}
	return 1 + r.Intn(max)
}

func c05Size(r *rand.Rand) int {
	switch x := r.Intn(20); {
	case x < 10:
		return 3
	case x < 17:
		return 4
	}
	return 5
}

// srchModelBudget: the extracted model evaluates about 400 nodes a second; histories with more nodes are judged by the oracle only.
func srchModelBudget(tier string) int {
	if tier == "thorough" {
		return 8000
	}
	return 2500
}

func c05EmitHistory(o *srchOut, tier, id string, e *srchEngine, calls []c05call, res []srchResult) {
	if !e.modelComparable() {
		o.stat("cases_oracle_only", 1)
		return
	}
	nodes := 0
	for _, r := range res {
		nodes += int(r.st.Evaluated + r.st.Visited)
	}
	if nodes > srchModelBudget(tier) {
		o.stat("cases_oracle_only_model_budget", 1)
		return
	}
	var in, l1, l2 []string
	for i, cl := range calls {
		in = append(in, fmt.Sprintf("%s@%d", enc(cl.p), cl.k))
		l1 = append(l1, srchL1(res[i]))
		l2 = append(l2, srchL2(res[i]))
	}
	o.printf("CASE %s ; %s ; A ; %s | %s | %s", id, e.encCfg(), strings.Join(in, " ; "), strings.Join(l1, " ; "), strings.Join(l2, " ; "))
	o.stat("cases_model", 1)
}

// ---- clause 1: no table, value-preserving options ----

func c05NoTable(tier string, id int, r *rand.Rand, o *srchOut) {
	thorough := tier == "thorough"
	size := c05Size(r)
	sc := srchCfg{size: size, depth: c05Depths(r, size, thorough), evk: r.Intn(2), nosort: r.Intn(2) == 0, nonull: true, noreduce: true,
		dedup: r.Intn(8) == 0, tableMem: -1}
	ps := srchGame(r, size)
	i := srchPick(r, ps)
	if i < 0 {
		return
	}
	if sc.dedup && r.Intn(2) == 0 { // symmetry de-duplication only acts in the first plies
		i = r.Intn(3)
		if i >= len(ps) {
			i = 0
		}
		if over, _ := ps[i].GameOver(); over {
			i = 0
		}
	}
	cid := fmt.Sprintf("id=%s:%d", tier, id)
	e := newSrchEngine(sc)
	orc := newSrchOracle(sc)
	o.stat(fmt.Sprintf("notable_size%d_depth%d", size, sc.depth), 1)
	o.stat(fmt.Sprintf("notable_eval%d_nosort%d_dedup%d", sc.evk, b2i(sc.nosort), b2i(sc.dedup)), 1)

	if r.Intn(3) == 0 {
		// AnalyzeAll on a fresh engine; in half of the cases the context is cancelled inside the k-th leaf evaluation of the call:
		// k inside Analyze's own leaves, or beyond them so that the flag flips during the second pass, or beyond the whole call
		p := ps[i]
		k := 0
		if r.Intn(2) == 0 && !sc.dedup {
			scout := newSrchEngine(sc)
			scout.analyze(p, 0)
			own := scout.cnt // leaf evaluations of Analyze alone
			scout = newSrchEngine(sc)
			scout.analyzeAllCancel(p, 0)
			total := scout.cnt
			switch x := r.Intn(10); {
			case x < 3 && own > 0:
				k = 1 + r.Intn(own)
				o.stat("analyzeall_cancel_in_analyze", 1)
			case x < 9 && total > own:
				k = own + 1 + r.Intn(total-own)
				o.stat("analyzeall_cancel_in_second_pass", 1)
			default:
				k = total + 1 + r.Intn(5)
				o.stat("analyzeall_cancel_after_call", 1)
			}
		}
		pvs, v, st := e.analyzeAllCancel(p, k)
		d := st.Depth
		desc := c05Describe(e, []c05call{{p, k}})
		o.stat("analyzeall_calls", 1)
		var gotSet []string
		for _, l := range pvs {
			if len(l) > 0 {
				gotSet = append(gotSet, encMove(l[0]))
			}
		}
		sort.Strings(gotSet)
		got := strings.Join(gotSet, ",")
		if len(pvs) == 0 || d <= 0 {
			// nothing was completed: only a cancelled call may say so
			if !st.Canceled || k == 0 {
				o.printf("ORACLE-FAIL no-result | %s AnalyzeAll %s | %d lines depth %d canceled %v | an uncancelled search of a live position returns a line", cid, desc, len(pvs), d, st.Canceled)
			}
			if len(pvs) != 0 {
				o.printf("ORACLE-FAIL analyze-all-lists-unsearched-move | %s AnalyzeAll %s | first moves {%s} at depth %d | no iteration was completed: no line can be reported", cid, desc, got, d)
			}
		} else {
			ms, vs := orc.childValues(p, d)
			want := orc.negamax(p, d)
			val := map[string]int64{}
			var wantSet []string
			for j, m := range ms {
				val[encMove(m)] = vs[j]
				if vs[j] == want {
					wantSet = append(wantSet, encMove(m))
				}
			}
			sort.Strings(wantSet)
			o.stat(fmt.Sprintf("analyzeall_bestmoves_%s", bucket(len(wantSet))), 1)
			if st.Canceled {
				o.stat(fmt.Sprintf("analyzeall_canceled_lines_%s", bucket(len(gotSet))), 1)
			}
			if v != want {
				o.printf("ORACLE-FAIL precise-value-mismatch | %s AnalyzeAll %s | value %d at depth %d | exhaustive negamax to depth %d is %d", cid, desc, v, d, d, want)
			} else {
				// cancelled or not: a listed first move must attain the value (an abandoned child search has no value)
				bad := ""
				for _, g := range gotSet {
					if cv, ok := val[g]; !ok || cv != want {
						bad = g
						break
					}
				}
				if bad != "" && (st.Canceled || k > 0) {
					o.printf("ORACLE-FAIL analyze-all-lists-unsearched-move | %s AnalyzeAll %s | first moves {%s} value %d depth %d canceled %v | %s leads to %d, not to the reported value; the moves attaining it are {%s}",
						cid, desc, got, v, d, st.Canceled, bad, val[bad], strings.Join(wantSet, ","))
				} else if (bad != "" || !st.Canceled) && got != strings.Join(wantSet, ",") {
					o.printf("ORACLE-FAIL analyze-all-set-mismatch | %s AnalyzeAll %s | first moves {%s} value %d depth %d | the moves attaining the negamax value are {%s}",
						cid, desc, got, v, d, strings.Join(wantSet, ","))
				}
			}
			// cancellation only truncates (C16's view of AnalyzeAll): with NoSort the order of the lines is fixed by AllMoves, so the
			// first moves of a cancelled call are a prefix of those of an uninterrupted call limited to the reported depth
			if st.Canceled && sc.nosort && v == want {
				sc2 := sc
				sc2.depth = d
				full, _, _ := newSrchEngine(sc2).analyzeAllCancel(p, 0)
				okPrefix := len(pvs) <= len(full)
				for j := 0; okPrefix && j < len(pvs); j++ {
					okPrefix = len(pvs[j]) > 0 && len(full[j]) > 0 && pvs[j][0].Equal(full[j][0])
				}
				o.stat("analyzeall_prefix_checked", 1)
				if !okPrefix {
					var fh []string
					for _, l := range full {
						if len(l) > 0 {
							fh = append(fh, encMove(l[0]))
						}
					}
					var gh []string
					for _, l := range pvs {
						if len(l) > 0 {
							gh = append(gh, encMove(l[0]))
						}
					}
					o.printf("ORACLE-FAIL analyze-all-not-prefix | %s AnalyzeAll %s | first moves in order [%s] depth %d | the uninterrupted call limited to depth %d lists [%s]",
						cid, desc, strings.Join(gh, ","), d, d, strings.Join(fh, ","))
				}
			}
			if k == 0 && st.Canceled {
				o.printf("ORACLE-FAIL no-result | %s AnalyzeAll %s | canceled %v | an uncancelled call is not reported as cancelled", cid, desc, st.Canceled)
			}
			if !st.Canceled && d != sc.depth && srchVerdict(v) == 0 {
				o.printf("ORACLE-FAIL reported-depth-short | %s AnalyzeAll %s | depth %d value %d | an undecided uncancelled search reaches the configured depth %d", cid, desc, d, v, sc.depth)
			}
			if id%40 == 0 {
				o.printf("SAMPLE AnalyzeAll %s -> first moves {%s} value %d depth %d canceled %v; oracle: negamax %d, best {%s}", desc, got, v, d, st.Canceled, want, strings.Join(wantSet, ","))
			}
		}
		if e.modelComparable() && e.cnt <= srchModelBudget(tier) {
			var lines []string
			for _, l := range pvs {
				lines = append(lines, encMoves(l))
			}
			if got == "" {
				got = "-"
			}
			l2 := strings.Join(lines, " ; ")
			if l2 == "" {
				l2 = "-"
			}
			o.printf("CASE %s ; %s ; ALL ; %s@%d | %s %d %d %d | %s", cid, e.encCfg(), enc(p), k, got, v, d, b2i(st.Canceled), l2)
			o.stat("cases_model", 1)
		} else {
			o.stat("cases_oracle_only", 1)
		}
		return
	}

	// a history of 1..3 Analyze calls on one engine (no table: only the history/response heuristics persist)
	n := 1 + r.Intn(3)
	var calls []c05call
	var res []srchResult
	for c := 0; c < n; c++ {
		j := i
		if c > 0 {
			j = i + r.Intn(3) - 1
			if j < 0 || j >= len(ps) {
				j = i
			}
			if over, _ := ps[j].GameOver(); over {
				j = i
			}
		}
		p := ps[j]
		cl := c05call{p, 0}
		calls = append(calls, cl)
		rr := e.analyze(p, 0)
		res = append(res, rr)
		desc := c05Describe(e, calls)
		d := rr.st.Depth
		o.stat("notable_calls", 1)
		if len(rr.pv) == 0 || rr.st.Canceled {
			o.printf("ORACLE-FAIL no-result | %s %s | pv %s canceled %v | an uncancelled search of a live position returns a line", cid, desc, encMoves(rr.pv), rr.st.Canceled)
			continue
		}
		want := orc.negamax(p, d)
		o.stat("notable_verdict_"+[]string{"loss", "none", "win"}[srchVerdict(want)+1], 1)
		if rr.v != want {
			o.printf("ORACLE-FAIL precise-value-mismatch | %s %s | value %d at depth %d pv %s | exhaustive negamax to depth %d is %d", cid, desc, rr.v, d, encMoves(rr.pv), d, want)
			continue
		}
		q, err := p.Move(rr.pv[0])
		if err != nil {
			o.printf("ORACLE-FAIL pv-illegal | %s %s | pv %s | first move is illegal", cid, desc, encMoves(rr.pv))
			continue
		}
		if got := -orc.negamax(q, d-1); got != want {
			o.printf("ORACLE-FAIL pv-first-move-not-best | %s %s | pv %s value %d depth %d | the first move leads to %d, negamax is %d", cid, desc, encMoves(rr.pv), rr.v, d, got, want)
		}
		if d != sc.depth && srchVerdict(rr.v) == 0 {
			o.printf("ORACLE-FAIL reported-depth-short | %s %s | depth %d value %d | an undecided uncancelled search reaches the configured depth %d", cid, desc, d, rr.v, sc.depth)
		}
		if id%40 == 1 && c == 0 {
			o.printf("SAMPLE Analyze %s -> pv %s value %d depth %d; oracle: negamax %d", desc, encMoves(rr.pv), rr.v, d, want)
		}
	}
	c05EmitHistory(o, tier, cid, e, calls, res)
}

func bucket(n int) string {
	switch {
	case n <= 1:
		return "1"
	case n <= 3:
		return "2to3"
	}
	return "4plus"
}

// ---- clause 2: with a table; fresh engines and histories ----

var c05TableMems = []int64{16, 64, 96, 160, 400, 400, 1000, 4000, 1 << 16, 1 << 16, 0} // 16 bytes: too small for one entry = no table

func c05Table(tier string, id int, r *rand.Rand, o *srchOut) {
	thorough := tier == "thorough"
	size := c05Size(r)
	if size == 5 && r.Intn(2) == 0 {
		size = 3
	}
	depth := c05Depths(r, size, thorough)
	if depth < 2 {
		depth = 2
	}
	sc := srchCfg{size: size, depth: depth, evk: r.Intn(2), nosort: r.Intn(3) != 0, nonull: true, noreduce: true,
		dedup: r.Intn(6) == 0, tableMem: c05TableMems[r.Intn(len(c05TableMems))]}
	if sc.tableMem == 0 && r.Intn(3) != 0 { // the 100 MB default table: rarely
		sc.tableMem = 400
	}
	ps := srchGame(r, size)
	i := srchPick(r, ps)
	if i < 0 {
		return
	}
	cid := fmt.Sprintf("id=%s:%d", tier, id)
	e := newSrchEngine(sc)
	orc := newSrchOracle(sc)
	maxCalls := 5
	if thorough {
		maxCalls = 8
	}
	n := 1 + r.Intn(maxCalls)
	if r.Intn(4) == 0 {
		n = 1 // fresh engine, single call
	}
	o.stat(fmt.Sprintf("table_size%d_depth%d", size, depth), 1)
	o.stat(fmt.Sprintf("table_entries_%d", e.tableLen()), 1)
	o.stat(fmt.Sprintf("table_history_len%d", n), 1)
	var calls []c05call
	var res []srchResult
	seen := map[string]bool{}
	priorDepth := 0
	j := i
	for c := 0; c < n; c++ {
		if c > 0 {
			switch r.Intn(6) {
			case 0, 1: // the same position again
			case 2:
				j++
			case 3:
				j--
			case 4:
				j += 2
			default:
				j = i + r.Intn(5) - 2
			}
			if j < 0 || j >= len(ps) {
				j = i
			}
			if over, _ := ps[j].GameOver(); over {
				j = i
			}
		}
		p := ps[j]
		k := 0
		if c < n-1 && r.Intn(4) == 0 || c == n-1 && r.Intn(10) == 0 {
			k = 1 + r.Intn(300)
			if r.Intn(3) == 0 {
				k = 1 + r.Intn(20)
			}
		}
		calls = append(calls, c05call{p, k})
		rr := e.analyze(p, k)
		res = append(res, rr)
		desc := c05Describe(e, calls)
		key := srchKey(p)
		repeat := seen[key]
		d := rr.st.Depth
		o.stat("table_calls", 1)
		if rr.st.Canceled {
			o.stat("table_calls_cancelled", 1)
		}
		if repeat {
			o.stat("table_calls_repeated_position", 1)
		}
		if rr.tableWrittenAfterCancel {
			o.printf("ORACLE-FAIL cancel-writes-table | %s %s | the transposition table changed after the cancel flag was set | a cancelled search leaves no trace of the part that is discarded", cid, desc)
		}
		if len(rr.pv) == 0 {
			if !rr.st.Canceled {
				o.printf("ORACLE-FAIL no-result | %s %s | no line, not cancelled | an uncancelled search of a live position returns a line", cid, desc)
			}
			priorDepth += sc.depth
			continue
		}
		seen[key] = true
		truth := orc.sign(p, d)
		o.stat("table_verdict_"+[]string{"loss", "none", "win"}[truth+1], 1)
		class := "tt-reused-wrong-verdict"
		if c == 0 {
			class = "tt-dedup-wrong-verdict" // a fresh engine with a table: the class of the repaired snapshot defect
		} else if repeat && rr.v == 0 {
			class = "analyze-twice-value" // a repeated position answered with value 0: the class of the repaired seeding defect
		}
		srchCheckVerdict(o, orc, class, cid+" "+desc, p, rr, truth, priorDepth)
		if _, err := p.Move(rr.pv[0]); err != nil {
			o.printf("ORACLE-FAIL pv-illegal | %s %s | pv %s | first move is illegal", cid, desc, encMoves(rr.pv))
		}
		priorDepth += sc.depth
		if id%60 == 2 && c == n-1 {
			o.printf("SAMPLE table(%d entries) %s -> pv %s value %d depth %d canceled %v; oracle: %s within %d plies", e.tableLen(), desc, encMoves(rr.pv), rr.v, d, rr.st.Canceled, srchVerdictName(truth), d)
		}
	}
	c05EmitHistory(o, tier, cid, e, calls, res)
}

func runC05(c *ctx) {
	tier := c.tier
	only := -1
	if c.tier == "replay" {
		tier, only = srchReplayID(c)
		if only < 0 {
			fmt.Fprintln(c.w, "replay: no case id in the replay file")
			return
		}
	}
	nA, nB := 700, 900
	if tier == "thorough" {
		nA, nB = 700*c05ThoroughScale, 900*c05ThoroughScale
	}
	// ids [0,nA): clause 1; [nA, nA+nB): clause 2
	// ids [nA+nB, nA+nB+2): directed search for positions whose hashes agree in one 32-bit half (sizes 3 and 4)
	srchRun(c, 5, nA+nB+2, only, func(id int, r *rand.Rand, o *srchOut) {
		switch {
		case id < nA:
			c05NoTable(tier, id, r, o)
		case id < nA+nB:
			c05Table(tier, id, r, o)
		default:
			c05Collide(tier, id, 3+id-nA-nB, r, o)
		}
	})
	_ = ai.WinThreshold
}

const c05ThoroughScale = 10

// c05Collide: the table identifies positions by their 64-bit hash (the theorems carry NoCollision as a hypothesis).  A change
// that compares only PART of the hash makes collisions 2^32 times likelier and no random test would ever meet one - so they are
// searched for: among a few hundred thousand distinct live positions of one game configuration, pairs whose hashes agree in the
// upper or in the lower 32 bits are found by bucketing (birthday bound: ~N^2/2^33 pairs).  Each pair whose members have different
// forced results is run through ONE engine with a one-entry table (both positions share the slot): the second answer is judged by
// the exhaustive solver.  With full 64-bit keys the two positions are simply different entries.
func c05Collide(tier string, id int, size int, r *rand.Rand, o *srchOut) {
	n := 300000
	if tier == "thorough" {
		n = 1500000
	}
	cfg := tak.Config{Size: size}
	type rec struct {
		p *tak.Position
		h uint64
	}
	seen := map[string]bool{}
	byHi := map[uint32]int{}
	byLo := map[uint32]int{}
	var all []rec
	type pair struct{ a, b int }
	var pairs []pair
	for tries := 0; len(all) < n && tries < 40*n; tries++ {
		policy := []int{4, 4, -1, 0, 1, 3}[r.Intn(6)]
		ps, _ := randomGame(r, cfg, 4+r.Intn(8*size), policy, false)
		for _, p := range ps {
			if p.MoveNumber() < 2 {
				continue
			}
			if over, _ := p.GameOver(); over {
				continue
			}
			k := retroKey(p)
			if seen[k] {
				continue
			}
			seen[k] = true
			h := p.Hash()
			i := len(all)
			all = append(all, rec{p, h})
			if j, ok := byHi[uint32(h>>32)]; ok {
				pairs = append(pairs, pair{j, i})
			} else {
				byHi[uint32(h>>32)] = i
			}
			if j, ok := byLo[uint32(h)]; ok {
				pairs = append(pairs, pair{j, i})
			} else {
				byLo[uint32(h)] = i
			}
		}
	}
	o.stat(fmt.Sprintf("collide_size%d_distinct_positions", size), int64(len(all)))
	o.stat(fmt.Sprintf("collide_size%d_half_hash_pairs", size), int64(len(pairs)))
	depth := 3
	cid := fmt.Sprintf("id=%s:%d", tier, id)
	for _, pr := range pairs {
		if all[pr.a].h == all[pr.b].h {
			o.printf("ORACLE-FAIL hash-collision-64 | %s %s ; %s | two distinct positions of one game share the 64-bit hash %d | distinct hashes", cid, enc(all[pr.a].p), enc(all[pr.b].p), all[pr.a].h)
			continue
		}
		for _, ord := range [][2]int{{pr.a, pr.b}, {pr.b, pr.a}} {
			A, B := all[ord[0]].p, all[ord[1]].p
			sc := srchCfg{size: size, depth: depth, evk: r.Intn(2), nosort: r.Intn(2) == 0, nonull: true, noreduce: true, tableMem: 40}
			orc := newSrchOracle(sc)
			tA, tB := orc.sign(A, depth), orc.sign(B, depth)
			if tB == 0 || tA == tB {
				o.stat("collide_pairs_same_or_no_result", 1)
				continue
			}
			e := newSrchEngine(sc)
			e.analyze(A, 0)
			rr := e.analyze(B, 0)
			o.stat("collide_pairs_run", 1)
			if len(rr.pv) == 0 {
				o.printf("ORACLE-FAIL no-result | %s half-hash pair %s then %s | no line, not cancelled | an uncancelled search of a live position returns a line", cid, enc(A), enc(B))
				continue
			}
			where := fmt.Sprintf("%s engine(%s, %d table entries): Analyze(%s) then Analyze(%s); the two hashes %d and %d agree in one 32-bit half", cid, sc.String(), e.tableLen(), encAbs(A), encAbs(B), all[ord[0]].h, all[ord[1]].h)
			srchCheckVerdict(o, orc, "tt-reused-wrong-verdict", where, B, rr, orc.sign(B, rr.st.Depth), depth)
		}
	}
}
