package main

// verif:needs c05

// C16: cancellation only truncates a search; it never alters results or the engine.
//
// The context is cancelled inside the k-th leaf evaluation of an Analyze call (search_common.go: the evaluation wrapper cancels and
// then waits until the engine's flag reads 1).  Oracle, computed on the implementation itself: let evals(d) be the number of leaf
// evaluations of the uninterrupted run limited to depth d on an engine with the same history; the deepest iteration completed before
// the flag flips is d* = max{d : evals(d) < k}, and the cancelled call must return exactly (pv, value, Stats.Depth) of the run
// limited to d* (no move when nothing was completed).  Afterwards the same engine is asked twice more (the same position, and a
// successor) and those answers are judged by the C05 oracles (exhaustive negamax / forced-result solver).
//
// CASE <id> ; <cfg> ; A ; [<enc q>@0 ;] <enc p>@<k> ; <enc p>@0 ; <enc p'>@0   | <pv v depth canceled> ; ...   | <17 counters> ; ...
//   (same format as C05: one engine, the whole history; replayed by the extracted model Search.v with the same k)

import (
	"context"
	"fmt"
	"math/rand"
	"os"
	"os/exec"
	"path/filepath"
	"strings"
	"time"

	"github.com/nelhage/taktician/ai"
	"github.com/nelhage/taktician/tak"
)

func init() { register("C16", runC16) }

type c16setup struct {
	sc    srchCfg
	prior []*tak.Position // uncancelled calls made on the engine before the cancelled one
	p     *tak.Position
	next  *tak.Position // a successor of p, asked afterwards

	priorRes []srchResult // what the prior calls returned (the same on every engine)
}

func (su *c16setup) engine() *srchEngine {
	e := newSrchEngine(su.sc)
	su.priorRes = su.priorRes[:0]
	for _, q := range su.prior {
		su.priorRes = append(su.priorRes, e.analyze(q, 0))
	}
	return e
}

func (su *c16setup) describe(k int) string {
	var pr []string
	for _, q := range su.prior {
		pr = append(pr, "["+srchKey(q)+"]")
	}
	return fmt.Sprintf("%s prior calls: %s cancelled call: [%s] cancel@%d then [%s] and [%s]", su.sc.String(), strings.Join(pr, " "), srchKey(su.p), k, srchKey(su.p), srchKey(su.next))
}

// limited[d]: the uninterrupted run with Depth limited to d (d = 0: no iteration at all) on an engine with the same history
func (su *c16setup) limitedRuns() []srchResult {
	out := make([]srchResult, su.sc.depth+1)
	for d := 0; d <= su.sc.depth; d++ {
		e := su.engine()
		e.ai.Cfg.Depth = d
		out[d] = e.analyze(su.p, 0)
	}
	return out
}

func c16Config(r *rand.Rand, tier string, size int) srchCfg {
	depth := 2 + r.Intn(map[int]int{3: 3, 4: 2, 5: 2}[size])
	if tier == "thorough" && r.Intn(2) == 0 {
		depth++
	}
	sc := srchCfg{size: size, depth: depth, evk: r.Intn(2), nosort: r.Intn(2) == 0, tableMem: []int64{-1, -1, 96, 400, 4000, 1 << 16}[r.Intn(6)]}
	switch r.Intn(5) {
	case 0, 1: // precise
		sc.nonull, sc.noreduce = true, true
	case 2: // default
	case 3:
		sc.multicut = true
	default:
		sc.nonull, sc.noreduce, sc.multicut = r.Intn(2) == 0, r.Intn(2) == 0, r.Intn(2) == 0
	}
	return sc
}

func c16Case(tier string, id int, r *rand.Rand, o *srchOut) {
	size := c05Size(r)
	ps := srchGame(r, size)
	i := srchPick(r, ps)
	if i < 0 {
		return
	}
	su := &c16setup{sc: c16Config(r, tier, size), p: ps[i]}
	legal := legalMoves(su.p)
	su.next, _ = su.p.Move(legal[r.Intn(len(legal))])
	if i+1 < len(ps) && r.Intn(2) == 0 {
		su.next = ps[i+1]
	}
	if r.Intn(3) == 0 && i > 0 { // an engine that has already searched a neighbouring position
		su.prior = append(su.prior, ps[i-1])
		if r.Intn(3) == 0 {
			su.prior = append(su.prior, su.p)
		}
	}
	cid := fmt.Sprintf("id=%s:%d", tier, id)
	cfgName := "other"
	if su.sc.precise() {
		cfgName = "precise"
	} else if !su.sc.nonull && !su.sc.noreduce && !su.sc.multicut {
		cfgName = "default"
	}
	o.stat("positions", 1)
	o.stat(fmt.Sprintf("positions_size%d_depth%d", size, su.sc.depth), 1)
	o.stat("positions_cfg_"+cfgName, 1)
	o.stat(fmt.Sprintf("positions_table%d", b2i(su.sc.tableMem >= 0)), 1)
	o.stat(fmt.Sprintf("positions_prior_calls%d", len(su.prior)), 1)

	lim := su.limitedRuns()
	full := lim[su.sc.depth]
	total := full.evals
	maxK := 2000
	if tier == "thorough" {
		maxK = 100000
	}
	allK := total+1 <= maxK
	if allK {
		o.stat("positions_every_k", 1)
	}
	o.stat("search_size_"+c16Bucket(total), 1)

	orc := newSrchOracle(su.sc)
	negamaxMemo := map[string]int64{}
	nm := func(p *tak.Position, d int) int64 {
		key := fmt.Sprintf("%s/%d", srchKey(p), d)
		if v, ok := negamaxMemo[key]; ok {
			return v
		}
		v := orc.negamax(p, d)
		negamaxMemo[key] = v
		return v
	}
	priorDepth := su.sc.depth * (len(su.prior) + 1)

	// the boundaries evals(d): cancelling at evals(d) hits the last leaf of iteration d, at evals(d)+1 the first of the next
	interesting := map[int]bool{1: true, 2: true, total: true, total + 1: true, total + 7: true}
	for d := 1; d <= su.sc.depth; d++ {
		interesting[lim[d].evals-1], interesting[lim[d].evals], interesting[lim[d].evals+1] = true, true, true
	}
	modelCases := 0
	modelMax := 3
	if su.sc.tableMem >= 0 { // the table is where a cancelled search can leave damage: more replayed cancellation points
		modelMax = 7
	}
	modelAt := map[int]bool{}
	if total > 0 {
		for j := 0; j < modelMax; j++ {
			modelAt[1+r.Intn(total)] = true
		}
		if su.sc.depth >= 2 { // one in the last iteration, near a boundary
			modelAt[lim[su.sc.depth-1].evals+1+r.Intn(3)] = true
		}
	}
	stride := 1
	if !allK {
		stride = (total + maxK) / maxK
	}
	for k := 1; k <= total+7; k++ {
		if !(k <= total+1 && k%stride == 0 || interesting[k] || modelAt[k]) {
			continue
		}
		e := su.engine()
		rr := e.analyze(su.p, k)
		o.stat("cancel_points", 1)
		// expected: the deepest depth-limited run that completes before leaf k
		dstar := 0
		for d := 1; d <= su.sc.depth; d++ {
			if lim[d].evals < k {
				dstar = d
			}
		}
		want := lim[dstar]
		desc := su.describe(k)
		if !srchSamePV(rr.pv, want.pv) || rr.v != want.v || rr.st.Depth != want.st.Depth {
			o.printf("ORACLE-FAIL cancel-alters-result | %s %s | pv %s value %d depth %d canceled %v | the uninterrupted search limited to depth %d returns pv %s value %d depth %d",
				cid, desc, encMoves(rr.pv), rr.v, rr.st.Depth, rr.st.Canceled, dstar, encMoves(want.pv), want.v, want.st.Depth)
		}
		if rr.tableWrittenAfterCancel {
			o.printf("ORACLE-FAIL cancel-writes-table | %s %s | the transposition table changed after the cancel flag was set | a cancelled search leaves no trace of the part that is discarded (ttPut refuses writes once cancelled)", cid, desc)
		}
		if want.st.Depth == 0 && len(want.pv) == 0 {
			o.stat("cancel_before_any_iteration", 1)
			if len(rr.pv) != 0 {
				o.printf("ORACLE-FAIL cancel-move-without-iteration | %s %s | pv %s | no iteration completed: no move", cid, desc, encMoves(rr.pv))
			}
		} else {
			o.stat(fmt.Sprintf("cancel_completed_depth%d", want.st.Depth), 1)
		}
		if k > total {
			o.stat("cancel_after_the_end", 1)
			if rr.st.Canceled {
				o.printf("ORACLE-FAIL cancel-flag-spurious | %s %s | Canceled set | the search finished before the cancellation point", cid, desc)
			}
		}

		// the engine afterwards: two further searches
		further := interesting[k] || modelAt[k] || r.Intn(8) == 0
		if !further {
			continue
		}
		o.stat("further_search_pairs", 1)
		calls := []c05call{}
		res := []srchResult{}
		for j, q := range su.prior {
			calls = append(calls, c05call{q, 0})
			res = append(res, su.priorRes[j])
		}
		calls = append(calls, c05call{su.p, k})
		res = append(res, rr)
		for _, q := range []*tak.Position{su.p, su.next} {
			if over, _ := q.GameOver(); over {
				continue
			}
			r2 := e.analyze(q, 0)
			calls = append(calls, c05call{q, 0})
			res = append(res, r2)
			where := fmt.Sprintf("%s %s, later search of [%s]", cid, desc, srchKey(q))
			if len(r2.pv) == 0 || r2.st.Canceled {
				o.printf("ORACLE-FAIL engine-dead-after-cancel | %s | pv %s canceled %v | an uncancelled search of a live position returns a line", where, encMoves(r2.pv), r2.st.Canceled)
				continue
			}
			if _, err := q.Move(r2.pv[0]); err != nil {
				o.printf("ORACLE-FAIL pv-illegal-after-cancel | %s | pv %s | first move is illegal", where, encMoves(r2.pv))
				continue
			}
			d := r2.st.Depth
			switch {
			case su.sc.precise() && su.sc.tableMem < 0:
				want := nm(q, d)
				if r2.v != want {
					o.printf("ORACLE-FAIL value-wrong-after-cancel | %s | value %d depth %d pv %s | exhaustive negamax to depth %d is %d", where, r2.v, d, encMoves(r2.pv), d, want)
				} else if c, _ := q.Move(r2.pv[0]); -nm(c, d-1) != want {
					o.printf("ORACLE-FAIL pv-not-best-after-cancel | %s | pv %s value %d | the first move does not attain the negamax value %d", where, encMoves(r2.pv), r2.v, want)
				}
				o.stat("further_checked_negamax", 1)
			case su.sc.precise():
				srchCheckVerdict(o, orc, "verdict-wrong-after-cancel", where, q, r2, orc.sign(q, d), priorDepth)
				o.stat("further_checked_verdict", 1)
			default:
				if r2.v > ai.MaxEval || r2.v < ai.MinEval {
					o.printf("ORACLE-FAIL value-out-of-range-after-cancel | %s | value %d | |value| <= MaxEval", where, r2.v)
				}
				o.stat("further_checked_sanity", 1)
			}
		}
		// model comparison for a few cancellation points per position
		if modelAt[k] && modelCases < modelMax && e.modelComparable() && len(su.prior) <= 1 {
			nodes := 0
			var in, l1, l2 []string
			for j := range calls {
				nodes += int(res[j].st.Evaluated + res[j].st.Visited)
			}
			if nodes > srchModelBudget(tier) {
				o.stat("cases_oracle_only_model_budget", 1)
			} else {
				for j, cl := range calls {
					in = append(in, fmt.Sprintf("%s@%d", enc(cl.p), cl.k))
					l1 = append(l1, srchL1(res[j]))
					l2 = append(l2, srchL2(res[j]))
				}
				o.printf("CASE %s k=%d ; %s ; A ; %s | %s | %s", cid, k, e.encCfg(), strings.Join(in, " ; "), strings.Join(l1, " ; "), strings.Join(l2, " ; "))
				o.stat("cases_model", 1)
				modelCases++
			}
		}
		if id%25 == 0 && k == lim[su.sc.depth-1].evals+1 {
			o.printf("SAMPLE %s -> pv %s value %d depth %d canceled %v; depth-limited run (d=%d): pv %s value %d depth %d; search has %d leaves", desc,
				encMoves(rr.pv), rr.v, rr.st.Depth, rr.st.Canceled, dstar, encMoves(want.pv), want.v, want.st.Depth, total)
		}
	}
}

func c16Bucket(n int) string {
	switch {
	case n <= 100:
		return "le100"
	case n <= 1000:
		return "le1000"
	case n <= 10000:
		return "le10000"
	}
	return "gt10000"
}

// c16Concurrent: cancellation from another goroutine at a random time.  The result must equal SOME depth-limited run
// (which one depends on the schedule, so only the count of runs is printed).
func c16Concurrent(tier string, id int, r *rand.Rand, o *srchOut) {
	size := 4 + r.Intn(2)
	ps := srchGame(r, size)
	i := srchPick(r, ps)
	if i < 0 {
		return
	}
	sc := srchCfg{size: size, depth: 4, evk: 0, nosort: r.Intn(2) == 0, tableMem: []int64{-1, 4000, 1 << 20}[r.Intn(3)]}
	if size == 4 {
		sc.depth = 5
	}
	if r.Intn(2) == 0 {
		sc.nonull, sc.noreduce = true, true
		sc.depth--
	}
	su := &c16setup{sc: sc, p: ps[i], next: ps[i]}
	lim := su.limitedRuns()
	cid := fmt.Sprintf("id=%s:%d", tier, id)
	t0 := time.Now()
	e := su.engine()
	e.analyze(su.p, 0)
	fullTime := time.Since(t0)
	runs := 6
	for j := 0; j < runs; j++ {
		e := su.engine()
		ctx, cancel := context.WithCancel(context.Background())
		delay := time.Duration(r.Int63n(int64(fullTime) + 1))
		go func() {
			time.Sleep(delay)
			cancel()
		}()
		pv, v, st := e.ai.Analyze(ctx, su.p)
		cancel()
		o.stat("concurrent_cancellations", 1)
		ok := false
		for d := 0; d <= sc.depth; d++ {
			if srchSamePV(pv, lim[d].pv) && v == lim[d].v && st.Depth == lim[d].st.Depth {
				ok = true
			}
		}
		if !ok {
			o.printf("ORACLE-FAIL concurrent-cancel-alters-result | %s %s concurrent cancellation after %v | pv %s value %d depth %d canceled %v | equals none of the depth-limited runs 0..%d",
				cid, su.describe(0), delay, encMoves(pv), v, st.Depth, st.Canceled, sc.depth)
		}
		// the engine afterwards
		r2 := e.analyze(su.p, 0)
		if len(r2.pv) == 0 {
			o.printf("ORACLE-FAIL engine-dead-after-cancel | %s %s concurrent | no line | an uncancelled search of a live position returns a line", cid, su.describe(0))
		} else if _, err := su.p.Move(r2.pv[0]); err != nil {
			o.printf("ORACLE-FAIL pv-illegal-after-cancel | %s %s concurrent | pv %s | first move is illegal", cid, su.describe(0), encMoves(r2.pv))
		}
	}
}

func runC16(c *ctx) {
	tier := c.tier
	only := -1
	if c.tier == "replay" {
		tier, only = srchReplayID(c)
		if only < 0 {
			fmt.Fprintln(c.w, "replay: no case id in the replay file")
			return
		}
	}
	nPos, nConc := 110, 10
	if tier == "thorough" {
		nPos, nConc = 400, 60
	}
	srchRun(c, 16, nPos+nConc, only, func(id int, r *rand.Rand, o *srchOut) {
		if id < nPos {
			c16Case(tier, id, r, o)
		} else {
			c16Concurrent(tier, id, r, o)
		}
	})
	if only < 0 {
		c16RaceEvidence(c, tier)
	}
}

// c16RaceEvidence: the data-race clause is not a theorem.  Supporting evidence only: harness/build_c16.sh builds a small driver
// with `go build -race` and cancels a few hundred searches from a concurrent goroutine; a report of the race detector is a finding.
func c16RaceEvidence(c *ctx, tier string) {
	exe, err := os.Executable()
	if err != nil {
		c.printf("SAMPLE race detector run skipped: %v\n", err)
		return
	}
	script := filepath.Join(filepath.Dir(exe), "..", "harness", "build_c16.sh")
	cnt := "40" // quick: ~480 concurrently cancelled searches, a few seconds
	if tier == "thorough" {
		cnt = "120"
	}
	cmd := exec.Command("bash", script, fmt.Sprint(c.seed), cnt)
	out, err := cmd.CombinedOutput()
	text := string(out)
	switch {
	case strings.Contains(text, "DATA RACE"):
		first := text
		if i := strings.Index(first, "WARNING: DATA RACE"); i >= 0 {
			first = first[i:]
		}
		if len(first) > 1500 {
			first = first[:1500]
		}
		first = strings.ReplaceAll(strings.ReplaceAll(first, "\n", " // "), "|", "/")
		c.printf("ORACLE-FAIL data-race | go build -race driver harness/cmd/c16race, seed %d | %s | concurrent cancellation is free of data races\n", c.seed, first)
		c.stat("race_detector_reports", 1)
	case err != nil || !strings.Contains(text, "RACE-RUN ok"):
		c.stat("race_detector_run_failed", 1)
		c.printf("SAMPLE race detector run (supporting evidence) could not be completed: %v %s\n", err, strings.ReplaceAll(strings.TrimSpace(text), "\n", " // "))
	default:
		var n int64
		if i := strings.Index(text, "cancelled_searches="); i >= 0 {
			fmt.Sscanf(text[i+len("cancelled_searches="):], "%d", &n)
		}
		c.stat("race_detector_cancelled_searches", n)
		c.stat("race_detector_reports", 0)
		c.printf("SAMPLE race detector (go build -race, supporting evidence only): %d concurrently cancelled searches, no data race reported\n", n)
	}
}
