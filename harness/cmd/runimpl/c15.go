package main

// verif:needs c01

// C15: canonicalisation picks one representative per symmetry class of games.
// CASE <size> <moves> | <canonical moves or ERR/PANIC>

import (
	"fmt"
	"strconv"
	"strings"

	"github.com/nelhage/taktician/symmetry"
	"github.com/nelhage/taktician/tak"
)

func init() { register("C15", runC15) }

func canonicalOf(size int, ms []tak.Move) (string, []tak.Move) {
	var out []tak.Move
	var err error
	if panicked, _ := safely(func() { out, err = symmetry.Canonical(size, ms) }); panicked {
		return "PANIC", nil
	}
	if err != nil {
		return "ERR", nil
	}
	return encMoves(out), out
}

func replayAbs(size int, ms []tak.Move) ([]*aboard, bool) {
	p := tak.New(tak.Config{Size: size})
	out := []*aboard{absOf(p)}
	for _, m := range ms {
		q, err := p.Move(m)
		if err != nil {
			return out, false
		}
		p = q
		out = append(out, absOf(p))
	}
	return out, true
}

// c15Prime: the call made immediately before the judged call (history family), "<size> <moves>"; part of the failing input
var c15Prime string

func emitC15(c *ctx, size int, ms []tak.Move, kind string, check bool) {
	res, cs := canonicalOf(size, ms)
	c.printf("CASE %d %s | %s\n", size, encMoves(ms), res)
	c.stat("cases", 1)
	c.stat("kind_"+kind, 1)
	c.stat(fmt.Sprintf("size%d", size), 1)
	if !check {
		return
	}
	fail := func(cls, did, want string) {
		in := fmt.Sprintf("%d %s", size, encMoves(ms))
		if c15Prime != "" {
			in += " after " + c15Prime
		}
		c.printf("ORACLE-FAIL %s | %s | %s | %s\n", cls, in, did, want)
	}
	orig, legal := replayAbs(size, ms)
	if !legal {
		return // not a legal game: outside the claim (the model still has to agree on the outcome)
	}
	if res == "ERR" || res == "PANIC" {
		fail("canonical-fails-on-legal-game", res, "the canonical form of a legal game exists")
		return
	}
	if len(cs) != len(ms) {
		fail("canonical-length-differs", res, "same length")
		return
	}
	can, ok := replayAbs(size, cs)
	if !ok {
		fail("canonical-not-legal", res, "the canonical form is a legal sequence")
		return
	}
	for k := range orig {
		found := false
		for i := 0; i < 8 && !found; i++ {
			found = symBoard(i, orig[k]).equalBoard(can[k])
		}
		if !found {
			fail("prefix-not-an-image", fmt.Sprintf("after %d plies the canonical game is at %s", k, encAbsBoard(can[k])), "a symmetric image of "+encAbsBoard(orig[k]))
			return
		}
	}
	// all eight images of the game have the same canonical form
	for i := 1; i < 8; i++ {
		img := make([]tak.Move, len(ms))
		for k, m := range ms {
			img[k] = symMove(i, size, m)
		}
		if r2, _ := canonicalOf(size, img); r2 != res {
			fail("images-canonicalise-differently", fmt.Sprintf("image %d (%s) -> %s", i, encMoves(img), r2), "same canonical form "+res)
			return
		}
	}
	if r3, _ := canonicalOf(size, cs); r3 != res {
		fail("not-idempotent", "canonical(canonical) = "+r3, res)
	}
}

// pseudoSymmetric: some non-identity symmetry maps the top view (top piece and height of every square) onto
// itself but not the full stacks.
func pseudoSymmetric(a *aboard) bool {
	for i := 1; i < 8; i++ {
		b := symBoard(i, a)
		top, full := true, true
		for y := 0; y < a.n && top; y++ {
			for x := 0; x < a.n && top; x++ {
				s1, s2 := a.sq[y][x], b.sq[y][x]
				if len(s1) != len(s2) || (len(s1) > 0 && s1[0] != s2[0]) {
					top = false
					break
				}
				for k := range s1 {
					if s1[k] != s2[k] {
						full = false
					}
				}
			}
		}
		if top && !full {
			return true
		}
	}
	return false
}

func runC15(c *ctx) {
	if c.tier == "replay" {
		f := strings.Fields(readReplay(c).Input)
		if len(f) >= 2 {
			size, _ := strconv.Atoi(f[0])
			if len(f) >= 5 && f[2] == "after" { // the priming call of the history family
				ps, _ := strconv.Atoi(f[3])
				canonicalOf(ps, decodeMoves(f[4]))
				c15Prime = f[3] + " " + f[4]
			}
			emitC15(c, size, decodeMoves(f[1]), "replay", true)
		}
		return
	}
	r := c.r
	for g := 0; g < 150*c.scale; g++ {
		size := 3 + r.Intn(6)
		var ms []tak.Move
		kind := "random"
		switch g % 3 {
		case 0:
			_, ms = randomGame(r, tak.Config{Size: size}, 2+r.Intn(40), []int{-1, 1, 5}[r.Intn(3)], false)
		case 1:
			ms = axisGame(r, size, 3+r.Intn(8), r.Intn(10))
			kind = "axis"
		case 2: // small boards, slide-heavy: stacks that look symmetric from above
			size = 3 + g%2
			_, ms = randomGame(r, tak.Config{Size: size}, 6+r.Intn(20), 1, false)
			kind = "small-slides"
		}
		emitC15(c, size, ms, kind, true)
		// the eight images go to the model as well
		if g%5 == 0 {
			i := 1 + r.Intn(7)
			img := make([]tak.Move, len(ms))
			for k, m := range ms {
				img[k] = symMove(i, size, m)
			}
			emitC15(c, size, img, "image", true)
		}
		// an illegal continuation: outcome only
		if g%7 == 0 && len(ms) > 2 {
			bad := append(append([]tak.Move(nil), ms...), ms[0])
			emitC15(c, size, bad, "illegal", false)
		}
	}
	// games played under a CUSTOM configuration (Canonical takes a board size, not a configuration: it replays from
	// tak.New(Config{Size})): a game under a reduced piece set is legal under the default one as well - canonical form and all
	// three clauses are checked; a game under an enlarged piece set or with extra capstones on a small board stops being
	// legal under the default configuration where it uses the extra pieces - Canonical must answer with an error, as the model.
	for g := 0; g < 18*c.scale; g++ {
		size := 3 + g%6
		dp := []int{0, 0, 0, 10, 15, 21, 30, 40, 50}[size]
		cfg := tak.Config{Size: size, BlackWinsTies: r.Intn(2) == 0}
		kind := "custom-reduced"
		switch g % 3 {
		case 0:
			cfg.Pieces = 2 + r.Intn(dp-2)
		case 1:
			cfg.Pieces = dp + 1 + r.Intn(10)
			cfg.Capstones = []int{0, 0, 0, 0, 0, 1, 1, 2, 2}[size] + 1 + r.Intn(2)
			kind = "custom-enlarged"
		default:
			size = 3 + g%2
			cfg.Size = size
			cfg.Capstones = 1 + r.Intn(3)
			kind = "custom-capstones-small-board"
		}
		_, ms := randomGame(r, cfg, 4+r.Intn(36), []int{-1, 1, 5, 2}[r.Intn(4)], false)
		if _, legal := replayAbs(size, ms); !legal {
			c.stat("custom_illegal_under_default", 1)
		}
		emitC15(c, size, ms, kind, true)
	}
	// ORBIT games: games that RE-ENTER symmetry.  Round by round the two players fill one orbit each of a chosen symmetry g
	// (a quarter turn: 8 plies per round; a half turn or a reflection: 4 plies): after every round the position is invariant
	// under g again, so Canonical has to pick among still-symmetric replays once more - several times per game, and with the same
	// transform as before.  A few free moves follow.  Every game is also given in all eight orientations (the first pick differs).
	for g := 0; g < 40*c.scale; g++ {
		size := 4 + r.Intn(5)
		if size > 8 {
			size = 8
		}
		gen := []int{6, 7, 5, 1, 2, 3, 4}[r.Intn(7)] // rotate CW, CCW, 180, flips, diagonals
		if g%2 == 0 {
			gen = 6 + r.Intn(2)
		}
		orbit := func(x, y int) [][2]int {
			var o [][2]int
			cx, cy := x, y
			for {
				o = append(o, [2]int{cx, cy})
				cx, cy = symMap(gen, size, cx, cy)
				if cx == x && cy == y {
					break
				}
			}
			return o
		}
		used := map[[2]int]bool{}
		pick := func() [][2]int {
			for t := 0; t < 200; t++ {
				x, y := r.Intn(size), r.Intn(size)
				o := orbit(x, y)
				want := 2
				if gen >= 6 {
					want = 4
				}
				if len(o) != want {
					continue
				}
				ok := true
				for _, q := range o {
					if used[q] {
						ok = false
					}
				}
				if !ok {
					continue
				}
				for _, q := range o {
					used[q] = true
				}
				return o
			}
			return nil
		}
		var ms []tak.Move
		rounds := 1 + r.Intn(3)
		for rd := 0; rd < rounds; rd++ {
			oa, ob := pick(), pick()
			if oa == nil || ob == nil {
				break
			}
			kind := tak.PlaceFlat
			if rd > 0 && r.Intn(3) == 0 {
				kind = tak.PlaceStanding
			}
			// first round: the two opening stones have swapped colours, so White's first stone starts Black's orbit:
			// ply 0 oa[0] (a black stone), ply 1 ob[0] (a white stone), then White continues ob, Black continues oa
			if rd == 0 {
				ms = append(ms, tak.Move{X: int8(oa[0][0]), Y: int8(oa[0][1]), Type: tak.PlaceFlat}, tak.Move{X: int8(ob[0][0]), Y: int8(ob[0][1]), Type: tak.PlaceFlat})
				for k := 1; k < len(oa); k++ {
					ms = append(ms, tak.Move{X: int8(ob[k][0]), Y: int8(ob[k][1]), Type: tak.PlaceFlat}, tak.Move{X: int8(oa[k][0]), Y: int8(oa[k][1]), Type: tak.PlaceFlat})
				}
			} else {
				for k := 0; k < len(oa); k++ {
					ms = append(ms, tak.Move{X: int8(oa[k][0]), Y: int8(oa[k][1]), Type: kind}, tak.Move{X: int8(ob[k][0]), Y: int8(ob[k][1]), Type: kind})
				}
			}
		}
		// replay: stop at the first illegal move or the end of the game; then free moves
		p := tak.New(tak.Config{Size: size})
		var game []tak.Move
		for _, m := range ms {
			if over, _ := p.GameOver(); over {
				break
			}
			q, err := p.Move(m)
			if err != nil {
				break
			}
			p = q
			game = append(game, m)
		}
		for t := 1 + r.Intn(4); t > 0; t-- {
			if over, _ := p.GameOver(); over {
				break
			}
			legal := legalMoves(p)
			if len(legal) == 0 {
				break
			}
			m := legal[r.Intn(len(legal))]
			q, err := p.Move(m)
			if err != nil {
				break
			}
			p = q
			game = append(game, m)
		}
		if len(game) < 5 {
			continue
		}
		c.stat("orbit_games", 1)
		for i := 0; i < 8; i++ {
			img := make([]tak.Move, len(game))
			for k, m := range game {
				img[k] = symMove(i, size, m)
			}
			emitC15(c, size, img, "orbit", true)
		}
	}
	// CALL HISTORIES: Canonical is a function of (size, moves) alone, whatever was canonicalised before in the same process.
	// A priming call on a RELATED input (the same line or a prefix of it on another board size, the same line or one of its
	// images on the same size, the canonical form itself) is made immediately before the judged call, whose first action is the
	// call under test; the model, which has no state, has to agree too.
	for g := 0; g < 40*c.scale; g++ {
		n := 3 + r.Intn(3)
		_, ms := randomGame(r, tak.Config{Size: n}, 3+r.Intn(12), []int{-1, 1, 5}[r.Intn(3)], false)
		if len(ms) < 3 {
			continue
		}
		for _, n2 := range []int{n, n + 1, n + 2 + r.Intn(2)} {
			if n2 > 8 {
				n2 = 8
			}
			// the line as played on size n2 (legal there as well: larger board, more pieces), extended by a few legal moves
			p := tak.New(tak.Config{Size: n2})
			var line []tak.Move
			for _, m := range ms {
				q, err := p.Move(m)
				if err != nil {
					break
				}
				p = q
				line = append(line, m)
			}
			for t := r.Intn(3); t > 0; t-- {
				if over, _ := p.GameOver(); over {
					break
				}
				legal := legalMoves(p)
				if len(legal) == 0 {
					break
				}
				m := legal[r.Intn(len(legal))]
				q, _ := p.Move(m)
				p = q
				line = append(line, m)
			}
			if len(line) < len(ms) {
				continue
			}
			var prime []tak.Move
			psize := n
			switch r.Intn(5) {
			case 0: // the same line on the size it was generated for
				prime = ms
			case 1: // a prefix of it
				prime = ms[:1+r.Intn(len(ms))]
			case 2: // the judged line itself, on yet another size
				prime, psize = line, 3+r.Intn(6)
			case 3: // an image of the line on the judged size
				i := 1 + r.Intn(7)
				prime, psize = make([]tak.Move, len(line)), n2
				for k, m := range line {
					prime[k] = symMove(i, n2, m)
				}
			case 4: // its canonical form
				_, cs := canonicalOf(n2, line)
				prime, psize = cs, n2
			}
			canonicalOf(psize, prime)
			c15Prime = fmt.Sprintf("%d %s", psize, encMoves(prime))
			emitC15(c, n2, line, "after-related-call", true)
			c15Prime = ""
		}
	}
	// directed search: positions that look symmetric from above (tops and heights) under some symmetry while the
	// captives differ only arise from stacking and are rare (about 1 game in 400); hunt for them with cheap
	// playouts and emit the game up to there plus a few continuations
	hits := 0
	for g := 0; g < 6000*c.scale && hits < 25*c.scale; g++ {
		size := 3 + g%3
		p := tak.New(tak.Config{Size: size})
		var ms []tak.Move
		for k := 0; k < 10+r.Intn(16); k++ {
			if over, _ := p.GameOver(); over {
				break
			}
			legal := legalMoves(p)
			if len(legal) == 0 {
				break
			}
			m := pickMove(r, p, legal, []int{1, 1, 5, -1}[r.Intn(4)])
			q, err := p.Move(m)
			if err != nil {
				break
			}
			p = q
			ms = append(ms, m)
			if pseudoSymmetric(absOf(p)) {
				if over, _ := p.GameOver(); over {
					break
				}
				hits++
				next := legalMoves(p)
				for t := 0; t < 4 && len(next) > 0; t++ {
					emitC15(c, size, append(append([]tak.Move(nil), ms...), next[r.Intn(len(next))]), "pseudo-symmetric", true)
				}
				break
			}
		}
	}
	c.stat("pseudo_symmetric_positions_found", int64(hits))
	// exhaustive: all games of <= 2 plies (3 in thorough) on 3x3 and 4x4
	depth := 2
	if !c.quick() {
		depth = 3
	}
	for _, size := range []int{3, 4} {
		var rec func(p *tak.Position, ms []tak.Move)
		rec = func(p *tak.Position, ms []tak.Move) {
			emitC15(c, size, ms, "exhaustive", true)
			if len(ms) == depth {
				return
			}
			for _, m := range legalMoves(p) {
				q, _ := p.Move(m)
				rec(q, append(append([]tak.Move(nil), ms...), m))
			}
		}
		rec(tak.New(tak.Config{Size: size}), nil)
	}
}
