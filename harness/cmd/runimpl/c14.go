package main

// verif:needs c01 c10 c02

// C14: the eight board symmetries commute with the rules.
// CASE <enc p> ; <move> | for each entry of Symmetries(p): <sym index>:<abs image>:<transformed move>:<class + abs result>
//   joined by " # ", then " @ " <result of the original move>

import (
	"fmt"
	"strings"

	"github.com/nelhage/taktician/symmetry"
	"github.com/nelhage/taktician/tak"
)

func init() { register("C14", runC14) }

func transformable(m tak.Move) bool {
	if m.Type >= tak.PlaceFlat && m.Type <= tak.PlaceCapstone {
		return true
	}
	return m.Type >= tak.SlideLeft && m.Type <= tak.SlideDown && m.Slides.Len() > 0
}

func moveResult(p *tak.Position, m tak.Move) (string, *tak.Position) {
	r := applyMove(p, m)
	if r.next != nil {
		return "OK " + encAbs(r.next), r.next
	}
	return r.class, nil
}

func overStr(p *tak.Position) string {
	d := p.WinDetails()
	return fmt.Sprintf("%d%s%d/%d", b2i(d.Over), colorStr(d.Winner), d.WhiteFlats, d.BlackFlats)
}

func emitC14(c *ctx, p *tak.Position, m tak.Move) {
	fail := func(cls, did, want string) {
		c.printf("ORACLE-FAIL %s | %s ; %s | %s | %s\n", cls, enc(p), encMove(m), did, want)
	}
	var syms []symmetry.PositionAndSymmetry
	var err error
	if panicked, msg := safely(func() { syms, err = symmetry.Symmetries(p) }); panicked || err != nil {
		fail("symmetries-failed", fmt.Sprint(msg, err), "Symmetries returns the images")
		return
	}
	n := p.Size()
	// the list is used AFTER unrelated calls for another board size (a list must not depend on what was asked since)
	if other := c14Other[(n+c.r.Intn(5)+1-3)%6]; other != nil && other.Size() != n {
		safely(func() { symmetry.Symmetries(other) })
		if c.r.Intn(3) == 0 {
			safely(func() {
				symmetry.Canonical(other.Size(), []tak.Move{{X: 0, Y: 0, Type: tak.PlaceFlat}, {X: 1, Y: 1, Type: tak.PlaceFlat}})
			})
		}
	}
	a := absOf(p)
	origRes, origNext := moveResult(p, m)
	var parts []string
	seenImg := map[string]int{}
	for _, ps := range syms {
		idx := identifySym(ps.S, n)
		var tm tak.Move
		tmStr := "PANIC"
		if panicked, _ := safely(func() { tm = symmetry.TransformMove(ps.S, m) }); !panicked {
			tmStr = encMove(tm)
		}
		res := "-"
		if tmStr != "PANIC" {
			var next *tak.Position
			res, next = moveResult(ps.P, tm)
			// direct oracle: commutation
			if idx >= 0 {
				if want := symMove(idx, n, m); tm != want {
					fail("transform-move-wrong", fmt.Sprintf("sym %d: %s", idx, tmStr), "expected "+encMove(want))
				}
				switch {
				case (origNext == nil) != (next == nil):
					fail("legality-not-invariant", fmt.Sprintf("sym %d: original %s, image %s", idx, strings.Fields(origRes)[0], strings.Fields(res)[0]), "legality is unchanged by a symmetry")
				case next != nil:
					if !symBoard(idx, absOf(origNext)).equalBoard(absOf(next)) {
						fail("move-does-not-commute", fmt.Sprintf("sym %d: image result %s", idx, res), "transform(apply(p,m)) = "+encAbsBoard(symBoard(idx, absOf(origNext))))
					} else if overStr(origNext) != overStr(next) {
						fail("gameover-not-invariant", fmt.Sprintf("sym %d: %s vs %s", idx, overStr(origNext), overStr(next)), "game-over status, winner and flat counts are unchanged")
					}
				}
			}
		} else if transformable(m) {
			fail("transform-move-panic", "TransformMove panicked", "a transformable move is transformed")
		}
		parts = append(parts, fmt.Sprintf("%d:%s:%s:%s", idx, encAbs(ps.P), tmStr, res))
		// pairing and images
		if idx < 0 {
			fail("unknown-symmetry", "S is not one of the eight maps", "each image is paired with the transform that produces it")
		} else if !symBoard(idx, a).equalBoard(absOf(ps.P)) {
			fail("image-paired-with-wrong-transform", fmt.Sprintf("sym %d image %s", idx, encAbs(ps.P)), "image = transform(p): "+encAbsBoard(symBoard(idx, a)))
		}
		if overStr(ps.P) != overStr(p) {
			fail("gameover-not-invariant", fmt.Sprintf("image %d: %s vs %s", idx, overStr(ps.P), overStr(p)), "game-over status, winner and flat counts are unchanged")
		}
		seenImg[boardKey(absOf(ps.P))]++
	}
	// each distinct image exactly once
	distinct := map[string]bool{}
	for i := 0; i < 8; i++ {
		distinct[boardKey(symBoard(i, a))] = true
	}
	for k, cnt := range seenImg {
		if cnt > 1 {
			fail("image-listed-twice", k, "each distinct image exactly once")
		}
	}
	if len(seenImg) != len(distinct) {
		fail("image-missing", fmt.Sprintf("%d images listed, %d distinct images exist", len(seenImg), len(distinct)), "each distinct image exactly once")
	}
	c.stat("cases", 1)
	c.stat(fmt.Sprintf("distinct_images_%d", len(distinct)), 1)
	c.stat(fmt.Sprintf("size%d", n), 1)
	c.stat("move_"+strings.Fields(origRes)[0], 1)
	c.printf("CASE %s ; %s | %s @ %s\n", enc(p), encMove(m), strings.Join(parts, " # "), origRes)
}

// defaultize rebuilds a constructed board under the DEFAULT configuration of its size (the model of Symmetries
// rebuilds images with the default piece counts); nil if the board uses more pieces than the defaults provide.
func defaultize(p *tak.Position) *tak.Position {
	size := p.Size()
	pieces := []int{0, 0, 0, 10, 15, 21, 30, 40, 50}[size]
	caps := []int{0, 0, 0, 0, 0, 1, 1, 2, 2}[size]
	var st, cp [2]int
	b := boardOf(p)
	for _, row := range b {
		for _, sq := range row {
			for _, pc := range sq {
				i := 0
				if pc.Color() == tak.Black {
					i = 1
				}
				if pc.Kind() == tak.Capstone {
					cp[i]++
				} else {
					st[i]++
				}
			}
		}
	}
	if st[0] > pieces || st[1] > pieces || cp[0] > caps || cp[1] > caps {
		return nil
	}
	q, err := tak.FromSquares(tak.Config{Size: size}, b, p.MoveNumber())
	if err != nil {
		return nil
	}
	return q
}

// one position per size 3..8, used for the unrelated calls
var c14Other [6]*tak.Position

func c14Moves(c *ctx, p *tak.Position, k int) []tak.Move {
	r := c.r
	var out []tak.Move
	all := p.AllMoves(nil)
	for i := 0; i < k && len(all) > 0; i++ {
		out = append(out, all[r.Intn(len(all))])
	}
	// illegal but transformable moves: off-board, occupied squares, bad slides
	for i := 0; i < 2; i++ {
		m := malformedMove(r, p)
		if transformable(m) && m.X > -100 && m.X < 100 && m.Y > -100 && m.Y < 100 {
			out = append(out, m)
		}
	}
	n := int8(p.Size())
	out = append(out, tak.Move{X: n, Y: 0, Type: tak.PlaceFlat}, tak.Move{X: -1, Y: n - 1, Type: tak.SlideRight, Slides: tak.MkSlides(1)})
	return out
}

func runC14(c *ctx) {
	for s := 3; s <= 8; s++ {
		ps, _ := randomGame(c.r, tak.Config{Size: s}, 6, -1, false)
		c14Other[s-3] = ps[len(ps)-1]
	}
	if c.tier == "replay" {
		parts := strings.Split(readReplay(c).Input, ";")
		if p, err := decodeEnc(parts[0]); err == nil && len(parts) > 1 {
			emitC14(c, p, decodeMove(parts[1]))
		}
		return
	}
	r := c.r
	for g := 0; g < 30*c.scale; g++ {
		size := 3 + g%6
		var ps []*tak.Position
		if g%3 == 0 {
			// symmetric-looking positions with stacks: axis games
			p := tak.New(tak.Config{Size: size})
			for _, m := range axisGame(r, size, 4+r.Intn(10), r.Intn(6)) {
				p, _ = p.Move(m)
				ps = append(ps, p)
			}
		} else {
			ps, _ = randomGame(r, tak.Config{Size: size}, 6+r.Intn(50), -1, r.Intn(8) == 0)
		}
		for i, p := range ps {
			if i < 3 || r.Intn(4) == 0 {
				for _, m := range c14Moves(c, p, 2) {
					emitC14(c, p, m)
				}
			}
		}
	}
	// winding roads and boards with many groups: the game-over verdict must not depend on the orientation
	for b := 0; b < 40*c.scale; b++ {
		size := 3 + b%6
		var p *tak.Position
		switch b % 3 {
		case 0:
			p = snakeBoard(r, size)
		case 1:
			p = roadBoard(r, size)
		default:
			p = manyGroups(r, 6+b%3)
		}
		if p = defaultize(p); p == nil {
			continue
		}
		for _, m := range c14Moves(c, p, 1) {
			emitC14(c, p, m)
		}
	}
	for b := 0; b < 40*c.scale; b++ {
		size := 3 + b%6
		p := defaultBoard(r, size)
		for _, m := range c14Moves(c, p, 2) {
			emitC14(c, p, m)
		}
	}
	// boards that are mirror-symmetric from above but not underneath (equal tops, different captives)
	for b := 0; b < 40*c.scale; b++ {
		size := 3 + b%6
		board := make([][]tak.Square, size)
		for y := range board {
			board[y] = make([]tak.Square, size)
		}
		sym := 1 + r.Intn(7)
		for k := 0; k < 1+r.Intn(3); k++ {
			x, y := r.Intn(size), r.Intn(size)
			mx, my := symMap(sym, size, x, y)
			top := tak.MakePiece([]tak.Color{tak.White, tak.Black}[r.Intn(2)], tak.Flat)
			h := 2 + r.Intn(2)
			s1, s2 := tak.Square{top}, tak.Square{top}
			for j := 1; j < h; j++ {
				s1 = append(s1, tak.MakePiece([]tak.Color{tak.White, tak.Black}[r.Intn(2)], tak.Flat))
				s2 = append(s2, tak.MakePiece([]tak.Color{tak.White, tak.Black}[r.Intn(2)], tak.Flat))
			}
			board[y][x] = s1
			board[my][mx] = s2
		}
		p, err := tak.FromSquares(tak.Config{Size: size}, board, 2+r.Intn(10))
		if err != nil {
			continue
		}
		for _, m := range c14Moves(c, p, 2) {
			emitC14(c, p, m)
		}
	}
}
