package main

// verif:needs c01 c10 c02

// C14: the eight board symmetries commute with the rules.
// CASE <enc p> ; <move> ; <Config().Pieces> <Config().Capstones> |
//   for each entry of Symmetries(p): <sym index>:<abs image>:<tie-break flag of the image>:<WinDetails of the image>:<transformed move>:<class + abs result + WinDetails>
//   joined by " # ", then " @ " <result of the original move>
// The positions come from games and boards under DEFAULT and CUSTOM configurations (reduced and enlarged piece sets, extra
// capstones on small boards, BlackWinsTies): Symmetries rebuilds every image with p.Config(), and the model does the same
// (coq/SymmetryCfg.v).

import (
	"fmt"
	"math/rand"
	"strings"

	"github.com/nelhage/taktician/symmetry"
	"github.com/nelhage/taktician/tak"
)

func init() { register("C14", runC14) }

func transformable(m tak.Move) bool {
	if m.Type >= tak.PlaceFlat && m.Type <= tak.PlaceCapstone {
		return true
	}
	return m.Type >= tak.SlideLeft && m.Type <= tak.SlideDown && m.Slides.Len() > 0
}

func moveResult(p *tak.Position, m tak.Move) (string, *tak.Position) {
	r := applyMove(p, m)
	if r.next != nil {
		return "OK " + encAbs(r.next) + " " + overStr(r.next), r.next
	}
	return r.class, nil
}

func overStr(p *tak.Position) string {
	d := p.WinDetails()
	return fmt.Sprintf("%d%s%d/%d", b2i(d.Over), colorStr(d.Winner), d.WhiteFlats, d.BlackFlats)
}

func emitC14(c *ctx, p *tak.Position, m tak.Move) {
	cfg := p.Config()
	input := fmt.Sprintf("%s ; %s ; %d %d", enc(p), encMove(m), cfg.Pieces, cfg.Capstones)
	fail := func(cls, did, want string) {
		c.printf("ORACLE-FAIL %s | %s | %s | %s\n", cls, input, did, want)
	}
	var syms []symmetry.PositionAndSymmetry
	var err error
	if panicked, msg := safely(func() { syms, err = symmetry.Symmetries(p) }); panicked || err != nil {
		fail("symmetries-failed", fmt.Sprint(msg, err), "Symmetries returns the images")
		return
	}
	n := p.Size()
	// the list is used AFTER unrelated calls for another board size (a list must not depend on what was asked since)
	if other := c14Other[(n+c.r.Intn(5)+1-3)%6]; other != nil && other.Size() != n {
		safely(func() { symmetry.Symmetries(other) })
		if c.r.Intn(3) == 0 {
			safely(func() {
				symmetry.Canonical(other.Size(), []tak.Move{{X: 0, Y: 0, Type: tak.PlaceFlat}, {X: 1, Y: 1, Type: tak.PlaceFlat}})
			})
		}
	}
	a := absOf(p)
	origRes, origNext := moveResult(p, m)
	var parts []string
	seenImg := map[string]int{}
	for _, ps := range syms {
		idx := identifySym(ps.S, n)
		var tm tak.Move
		tmStr := "PANIC"
		if panicked, _ := safely(func() { tm = symmetry.TransformMove(ps.S, m) }); !panicked {
			tmStr = encMove(tm)
		}
		res := "-"
		if tmStr != "PANIC" {
			var next *tak.Position
			res, next = moveResult(ps.P, tm)
			// direct oracle: commutation
			if idx >= 0 {
				if want := symMove(idx, n, m); tm != want {
					fail("transform-move-wrong", fmt.Sprintf("sym %d: %s", idx, tmStr), "expected "+encMove(want))
				}
				switch {
				case (origNext == nil) != (next == nil):
					fail("legality-not-invariant", fmt.Sprintf("sym %d: original %s, image %s", idx, strings.Fields(origRes)[0], strings.Fields(res)[0]), "legality is unchanged by a symmetry")
				case next != nil:
					if !symBoard(idx, absOf(origNext)).equalBoard(absOf(next)) {
						fail("move-does-not-commute", fmt.Sprintf("sym %d: image result %s", idx, res), "transform(apply(p,m)) = "+encAbsBoard(symBoard(idx, absOf(origNext))))
					} else if overStr(origNext) != overStr(next) {
						fail("gameover-not-invariant", fmt.Sprintf("sym %d: %s vs %s", idx, overStr(origNext), overStr(next)), "game-over status, winner and flat counts are unchanged")
					}
				}
			}
		} else if transformable(m) {
			fail("transform-move-panic", "TransformMove panicked", "a transformable move is transformed")
		}
		parts = append(parts, fmt.Sprintf("%d:%s:%d:%s:%s:%s", idx, encAbs(ps.P), b2i(ps.P.Config().BlackWinsTies), overStr(ps.P), tmStr, res))
		// the image is a position of the same game: same piece set, same tie-break rule
		if ic := ps.P.Config(); ic.Size != cfg.Size || ic.Pieces != cfg.Pieces || ic.Capstones != cfg.Capstones || ic.BlackWinsTies != cfg.BlackWinsTies {
			fail("image-config-differs", fmt.Sprintf("sym %d: image configuration size %d pieces %d capstones %d blackWinsTies %v", idx, ic.Size, ic.Pieces, ic.Capstones, ic.BlackWinsTies),
				fmt.Sprintf("the configuration of the position: size %d pieces %d capstones %d blackWinsTies %v", cfg.Size, cfg.Pieces, cfg.Capstones, cfg.BlackWinsTies))
		}
		// pairing and images
		if idx < 0 {
			fail("unknown-symmetry", "S is not one of the eight maps", "each image is paired with the transform that produces it")
		} else if !symBoard(idx, a).equalBoard(absOf(ps.P)) {
			fail("image-paired-with-wrong-transform", fmt.Sprintf("sym %d image %s", idx, encAbs(ps.P)), "image = transform(p): "+encAbsBoard(symBoard(idx, a)))
		}
		if overStr(ps.P) != overStr(p) {
			fail("gameover-not-invariant", fmt.Sprintf("image %d: %s vs %s", idx, overStr(ps.P), overStr(p)), "game-over status, winner and flat counts are unchanged")
		}
		seenImg[boardKey(absOf(ps.P))]++
	}
	// each distinct image exactly once
	distinct := map[string]bool{}
	for i := 0; i < 8; i++ {
		distinct[boardKey(symBoard(i, a))] = true
	}
	for k, cnt := range seenImg {
		if cnt > 1 {
			fail("image-listed-twice", k, "each distinct image exactly once")
		}
	}
	if len(seenImg) != len(distinct) {
		fail("image-missing", fmt.Sprintf("%d images listed, %d distinct images exist", len(seenImg), len(distinct)), "each distinct image exactly once")
	}
	c.stat("cases", 1)
	c.stat(fmt.Sprintf("distinct_images_%d", len(distinct)), 1)
	c.stat(fmt.Sprintf("size%d", n), 1)
	c.stat("move_"+strings.Fields(origRes)[0], 1)
	if cfg.Pieces != c14DefaultPieces[n] || cfg.Capstones != c14DefaultCaps[n] {
		c.stat("custom_piece_counts", 1)
		if cfg.Pieces < c14DefaultPieces[n] {
			c.stat("custom_fewer_stones", 1)
		} else if cfg.Pieces > c14DefaultPieces[n] {
			c.stat("custom_more_stones", 1)
		}
		if cfg.Capstones > c14DefaultCaps[n] {
			c.stat("custom_more_capstones", 1)
		}
	}
	if cfg.BlackWinsTies {
		c.stat("black_wins_ties", 1)
	}
	if d := p.WinDetails(); d.Over && d.Reason == tak.FlatsWin && d.WhiteFlats == d.BlackFlats {
		c.stat("tied_flat_count", 1)
		if cfg.BlackWinsTies {
			c.stat("tied_flat_count_black_wins", 1)
		}
	}
	if origNext != nil {
		if d := origNext.WinDetails(); d.Over && d.Reason == tak.FlatsWin && d.WhiteFlats == d.BlackFlats {
			c.stat("move_into_tied_flat_count", 1)
		}
	}
	c.printf("CASE %s | %s @ %s\n", input, strings.Join(parts, " # "), origRes)
}

var c14DefaultPieces = []int{0, 0, 0, 10, 15, 21, 30, 40, 50}
var c14DefaultCaps = []int{0, 0, 0, 0, 0, 1, 1, 2, 2}

// c14Cfg: a custom configuration: reduced piece sets (games that end by an exhausted reserve, often with tied flat counts),
// enlarged ones, extra capstones on small boards, BlackWinsTies in half of them.
func c14Cfg(r *rand.Rand, size int) tak.Config {
	cfg := tak.Config{Size: size, BlackWinsTies: r.Intn(2) == 0}
	switch r.Intn(4) {
	case 0: // very few stones: the game is over after a handful of plies
		cfg.Pieces = 2 + r.Intn(4)
		cfg.Capstones = r.Intn(3)
	case 1: // reduced
		cfg.Pieces = 3 + r.Intn(c14DefaultPieces[size]-3)
		cfg.Capstones = r.Intn(2)
	case 2: // enlarged, extra capstones
		cfg.Pieces = c14DefaultPieces[size] + 1 + r.Intn(20)
		cfg.Capstones = c14DefaultCaps[size] + 1 + r.Intn(3)
	default: // only the flag / only the capstones differ
		if r.Intn(2) == 0 {
			cfg.Capstones = c14DefaultCaps[size] + 1 + r.Intn(2)
		}
	}
	return cfg
}

// tieBoard: a full board (game over by flat count) with EQUAL flat counts: a draw, or Black's win under BlackWinsTies.
// Walls, capstones and captives make up the rest; the piece counts are fitted (sometimes exactly).
// With hole: one of Black's flats is still in the reserve and Black is to move: placing it (the move returned) ends the game
// with tied flat counts.
func tieBoard(r *rand.Rand, size int, hole bool) (*tak.Position, *tak.Move) {
	nsq := size * size
	f := 1 + r.Intn(nsq/2)
	kinds := make([]tak.Piece, 0, nsq)
	for i := 0; i < f; i++ {
		kinds = append(kinds, tak.MakePiece(tak.White, tak.Flat), tak.MakePiece(tak.Black, tak.Flat))
	}
	caps := [2]int{}
	for len(kinds) < nsq {
		ci := r.Intn(2)
		col := []tak.Color{tak.White, tak.Black}[ci]
		if caps[ci] < 2 && r.Intn(4) == 0 {
			caps[ci]++
			kinds = append(kinds, tak.MakePiece(col, tak.Capstone))
		} else {
			kinds = append(kinds, tak.MakePiece(col, tak.Standing))
		}
	}
	r.Shuffle(len(kinds), func(i, j int) { kinds[i], kinds[j] = kinds[j], kinds[i] })
	board := make([][]tak.Square, size)
	for y := range board {
		board[y] = make([]tak.Square, size)
		for x := range board[y] {
			sq := tak.Square{kinds[x+y*size]}
			if r.Intn(5) == 0 {
				for j := 0; j < 1+r.Intn(3); j++ {
					sq = append(sq, tak.MakePiece([]tak.Color{tak.White, tak.Black}[r.Intn(2)], tak.Flat))
				}
			}
			board[y][x] = sq
		}
	}
	cfg := tak.Config{Size: size, BlackWinsTies: r.Intn(3) != 0}
	fitReserves(r, &cfg, board)
	ply := 2 + r.Intn(40)
	var last *tak.Move
	if hole {
		for t := 0; t < 200 && last == nil; t++ {
			x, y := r.Intn(size), r.Intn(size)
			if sq := board[y][x]; len(sq) == 1 && sq[0] == tak.MakePiece(tak.Black, tak.Flat) {
				board[y][x] = nil
				last = &tak.Move{X: int8(x), Y: int8(y), Type: tak.PlaceFlat}
				ply |= 1
			}
		}
	}
	p, err := tak.FromSquares(cfg, board, ply)
	if err != nil {
		return nil, nil
	}
	return p, last
}

// defaultize rebuilds a constructed board under the DEFAULT configuration of its size; nil if the board uses more pieces
// than the defaults provide.
func defaultize(p *tak.Position) *tak.Position {
	size := p.Size()
	pieces := []int{0, 0, 0, 10, 15, 21, 30, 40, 50}[size]
	caps := []int{0, 0, 0, 0, 0, 1, 1, 2, 2}[size]
	var st, cp [2]int
	b := boardOf(p)
	for _, row := range b {
		for _, sq := range row {
			for _, pc := range sq {
				i := 0
				if pc.Color() == tak.Black {
					i = 1
				}
				if pc.Kind() == tak.Capstone {
					cp[i]++
				} else {
					st[i]++
				}
			}
		}
	}
	if st[0] > pieces || st[1] > pieces || cp[0] > caps || cp[1] > caps {
		return nil
	}
	q, err := tak.FromSquares(tak.Config{Size: size}, b, p.MoveNumber())
	if err != nil {
		return nil
	}
	return q
}

// one position per size 3..8, used for the unrelated calls
var c14Other [6]*tak.Position

func c14Moves(c *ctx, p *tak.Position, k int) []tak.Move {
	r := c.r
	var out []tak.Move
	all := p.AllMoves(nil)
	for i := 0; i < k && len(all) > 0; i++ {
		out = append(out, all[r.Intn(len(all))])
	}
	// illegal but transformable moves: off-board, occupied squares, bad slides
	for i := 0; i < 2; i++ {
		m := malformedMove(r, p)
		if transformable(m) && m.X > -100 && m.X < 100 && m.Y > -100 && m.Y < 100 {
			out = append(out, m)
		}
	}
	n := int8(p.Size())
	out = append(out, tak.Move{X: n, Y: 0, Type: tak.PlaceFlat}, tak.Move{X: -1, Y: n - 1, Type: tak.SlideRight, Slides: tak.MkSlides(1)})
	return out
}

func runC14(c *ctx) {
	for s := 3; s <= 8; s++ {
		ps, _ := randomGame(c.r, tak.Config{Size: s}, 6, -1, false)
		c14Other[s-3] = ps[len(ps)-1]
	}
	if c.tier == "replay" {
		parts := strings.Split(readReplay(c).Input, ";")
		if p, err := decodeEnc(parts[0]); err == nil && len(parts) > 1 {
			if len(parts) > 2 {
				// the configuration of the position: rebuild under it, then restore the raw reserves
				var pieces, capstones int
				fmt.Sscan(parts[2], &pieces, &capstones)
				ws, wc, bs, bc := tak.VerifReserves(p)
				if q, err := tak.FromSquares(tak.Config{Size: p.Size(), Pieces: pieces, Capstones: capstones, BlackWinsTies: p.Config().BlackWinsTies}, boardOf(p), p.MoveNumber()); err == nil {
					tak.VerifSetRaw(q, ws, wc, bs, bc, p.MoveNumber())
					p = q
				}
			}
			emitC14(c, p, decodeMove(parts[1]))
		}
		return
	}
	r := c.r
	for g := 0; g < 36*c.scale; g++ {
		size := 3 + g%6
		var ps []*tak.Position
		switch {
		case g%3 == 0:
			// symmetric-looking positions with stacks: axis games (legal under any configuration with at least the default
			// counts: replayed from an enlarged / flagged configuration in half of them)
			cfg := tak.Config{Size: size}
			if g%2 == 0 {
				cfg = tak.Config{Size: size, Pieces: c14DefaultPieces[size] + r.Intn(9), Capstones: c14DefaultCaps[size] + r.Intn(2), BlackWinsTies: r.Intn(2) == 0}
			}
			p := tak.New(cfg)
			for _, m := range axisGame(r, size, 4+r.Intn(10), r.Intn(6)) {
				q, err := p.Move(m)
				if err != nil {
					break
				}
				p = q
				ps = append(ps, p)
			}
		case g%3 == 1:
			ps, _ = randomGame(r, tak.Config{Size: size}, 6+r.Intn(50), -1, r.Intn(8) == 0)
		default:
			// games under a custom configuration
			ps, _ = randomGame(r, c14Cfg(r, size), 6+r.Intn(50), -1, r.Intn(8) == 0)
		}
		for i, p := range ps {
			if i < 3 || r.Intn(5) == 0 || (i == len(ps)-1 && g%3 == 2) {
				for _, m := range c14Moves(c, p, 2) {
					emitC14(c, p, m)
				}
			}
		}
	}
	// winding roads and boards with many groups: the game-over verdict must not depend on the orientation
	for b := 0; b < 40*c.scale; b++ {
		size := 3 + b%6
		var p *tak.Position
		switch b % 3 {
		case 0:
			p = snakeBoard(r, size)
		case 1:
			p = roadBoard(r, size)
		default:
			p = manyGroups(r, 6+b%3)
		}
		// under the configuration the board was built with (fitted piece counts, BlackWinsTies in a third of them); every
		// third one rebuilt under the default configuration of its size
		if b%9 >= 6 {
			if p = defaultize(p); p == nil {
				continue
			}
		}
		for _, m := range c14Moves(c, p, 1) {
			emitC14(c, p, m)
		}
	}
	for b := 0; b < 30*c.scale; b++ {
		size := 3 + b%6
		p := defaultBoard(r, size)
		for _, m := range c14Moves(c, p, 2) {
			emitC14(c, p, m)
		}
	}
	// constructed boards under fitted custom configurations (exact counts in a sixth of them: an exhausted reserve), with
	// BlackWinsTies in a quarter; full boards with TIED flat counts (a draw, or Black's win under BlackWinsTies)
	for b := 0; b < 30*c.scale; b++ {
		size := 3 + b%6
		var p *tak.Position
		var last *tak.Move
		if b%2 == 0 {
			p, _, _ = constructedBoard(r, size, 1+r.Intn(8), 0.2+0.8*r.Float64())
		} else if p, last = tieBoard(r, size, b%4 == 1); p == nil {
			continue
		}
		if last != nil {
			emitC14(c, p, *last)
		}
		for _, m := range c14Moves(c, p, 1) {
			emitC14(c, p, m)
		}
	}
	// boards that are mirror-symmetric from above but not underneath (equal tops, different captives)
	for b := 0; b < 40*c.scale; b++ {
		size := 3 + b%6
		board := make([][]tak.Square, size)
		for y := range board {
			board[y] = make([]tak.Square, size)
		}
		sym := 1 + r.Intn(7)
		for k := 0; k < 1+r.Intn(3); k++ {
			x, y := r.Intn(size), r.Intn(size)
			mx, my := symMap(sym, size, x, y)
			top := tak.MakePiece([]tak.Color{tak.White, tak.Black}[r.Intn(2)], tak.Flat)
			h := 2 + r.Intn(2)
			s1, s2 := tak.Square{top}, tak.Square{top}
			for j := 1; j < h; j++ {
				s1 = append(s1, tak.MakePiece([]tak.Color{tak.White, tak.Black}[r.Intn(2)], tak.Flat))
				s2 = append(s2, tak.MakePiece([]tak.Color{tak.White, tak.Black}[r.Intn(2)], tak.Flat))
			}
			board[y][x] = s1
			board[my][mx] = s2
		}
		mcfg := tak.Config{Size: size}
		if b%2 == 1 { // the buried stones decide which images are distinct under any configuration
			mcfg = tak.Config{Size: size, Pieces: 8 + r.Intn(60), Capstones: r.Intn(4), BlackWinsTies: r.Intn(2) == 0}
		}
		p, err := tak.FromSquares(mcfg, board, 2+r.Intn(10))
		if err != nil {
			continue
		}
		for _, m := range c14Moves(c, p, 2) {
			emitC14(c, p, m)
		}
	}
	// runs of ADJACENT stacks of one colour whose heights are not a palindrome (e.g. [W W][W][W] on b1,c1,d1): a reflection
	// moves the stack boundaries but keeps the sequence of pieces read along the row or column, so an image key that does not
	// mark where a stack ends confuses two distinct images.  The rest of the board is empty or symmetric.
	for b := 0; b < 40*c.scale; b++ {
		size := 4 + b%5
		board := make([][]tak.Square, size)
		for y := range board {
			board[y] = make([]tak.Square, size)
		}
		col := []tak.Color{tak.White, tak.Black}[r.Intn(2)]
		l := 2 + r.Intn(2)
		if (size-l)%2 == 1 { // centred run: it is mapped onto itself by the reflection across the run
			l++
		}
		if l > size {
			l = size
		}
		x0 := (size - l) / 2
		line := r.Intn(size)
		vertical := r.Intn(2) == 0
		hs := make([]int, l)
		for {
			pal := true
			for i := range hs {
				hs[i] = 1 + r.Intn(3)
			}
			for i := range hs {
				if hs[i] != hs[l-1-i] {
					pal = false
				}
			}
			if !pal {
				break
			}
		}
		for i, h := range hs {
			var s tak.Square
			for j := 0; j < h; j++ {
				s = append(s, tak.MakePiece(col, tak.Flat))
			}
			if vertical {
				board[x0+i][line] = s
			} else {
				board[line][x0+i] = s
			}
		}
		if r.Intn(2) == 0 { // a symmetric pair of enemy stones elsewhere
			o := (line + 1 + r.Intn(size-1)) % size
			e := tak.Square{tak.MakePiece(col.Flip(), tak.Flat)}
			if vertical {
				board[x0][o], board[x0+l-1][o] = e, e
			} else {
				board[o][x0], board[o][x0+l-1] = e, e
			}
		}
		p, err := tak.FromSquares(tak.Config{Size: size}, board, 2+r.Intn(10))
		if err != nil {
			continue
		}
		c.stat("kind_adjacent_stack_runs", 1)
		for _, m := range c14Moves(c, p, 2) {
			emitC14(c, p, m)
		}
	}
}
