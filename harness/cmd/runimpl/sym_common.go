package main

// The eight symmetries of the square board, written independently of symmetry/canonical.go, and helpers
// shared by C14 and C15.

import (
	"fmt"
	"math/rand"
	"strings"

	"github.com/nelhage/taktician/tak"
)

// symMap i maps (x, y) on an n x n board; same order as the implementation documents:
// identity, flipX, flipY, diag1, diag2, rotate 180, rotate CW, rotate CCW.
func symMap(i, n, x, y int) (int, int) {
	f := func(v int) int { return n - 1 - v }
	switch i {
	case 0:
		return x, y
	case 1:
		return f(x), y
	case 2:
		return x, f(y)
	case 3:
		return y, x
	case 4:
		return f(y), f(x)
	case 5:
		return f(x), f(y)
	case 6:
		return y, f(x)
	case 7:
		return f(y), x
	}
	panic("sym")
}

// symDir: where direction t (5..8 = left, right, up, down) points after symmetry i
func symMove(i, n int, m tak.Move) tak.Move {
	x, y := symMap(i, n, int(m.X), int(m.Y))
	out := tak.Move{X: int8(x), Y: int8(y), Type: m.Type, Slides: m.Slides}
	if m.Type < tak.SlideLeft || m.Type > tak.SlideDown {
		if m.Type >= tak.PlaceFlat && m.Type <= tak.PlaceCapstone {
			out.Slides = 0
		}
		return out
	}
	dx, dy := 0, 0
	switch m.Type {
	case tak.SlideLeft:
		dx = -1
	case tak.SlideRight:
		dx = 1
	case tak.SlideUp:
		dy = 1
	case tak.SlideDown:
		dy = -1
	}
	// image of the unit step: map origin and origin+step (the maps are affine)
	ox, oy := symMap(i, n, 0, 0)
	sx, sy := symMap(i, n, dx, dy)
	ddx, ddy := sx-ox, sy-oy
	switch {
	case ddx == -1:
		out.Type = tak.SlideLeft
	case ddx == 1:
		out.Type = tak.SlideRight
	case ddy == 1:
		out.Type = tak.SlideUp
	case ddy == -1:
		out.Type = tak.SlideDown
	}
	return out
}

// symBoard: the image of an abstract board under symmetry i
func symBoard(i int, a *aboard) *aboard {
	b := a.clone()
	for y := 0; y < a.n; y++ {
		for x := 0; x < a.n; x++ {
			rx, ry := symMap(i, a.n, x, y)
			b.sq[ry][rx] = append(tak.Square(nil), a.sq[y][x]...)
		}
	}
	return b
}

func boardKey(a *aboard) string {
	var sb strings.Builder
	for y := 0; y < a.n; y++ {
		for x := 0; x < a.n; x++ {
			sb.WriteString(encSquare(a.sq[y][x]))
			sb.WriteByte(',')
		}
	}
	return sb.String()
}

// which of the eight maps is the implementation's function s on an n x n board (-1 if none)
func identifySym(s func(int8, int8) (int8, int8), n int) int {
	for i := 0; i < 8; i++ {
		ok := true
		for x := 0; x < n && ok; x++ {
			for y := 0; y < n && ok; y++ {
				ex, ey := symMap(i, n, x, y)
				gx, gy := s(int8(x), int8(y))
				if int(gx) != ex || int(gy) != ey {
					ok = false
				}
			}
		}
		if ok {
			return i
		}
	}
	return -1
}

// axisGame: a legal game whose first `sym` plies only touch squares on one reflection axis (so the
// position stays symmetric under that reflection), followed by free play.
func axisGame(r *rand.Rand, size int, sym, free int) []tak.Move {
	axis := r.Intn(3)
	onAxis := func(x, y int8) bool {
		switch axis {
		case 0:
			return x == y
		case 1:
			return int(x)+int(y) == size-1
		default:
			return size%2 == 1 && int(x) == size/2
		}
	}
	p := tak.New(tak.Config{Size: size})
	var ms []tak.Move
	for k := 0; k < sym+free; k++ {
		if over, _ := p.GameOver(); over {
			break
		}
		legal := legalMoves(p)
		var cand []tak.Move
		if k < sym {
			for _, m := range legal {
				ex, ey := m.X, m.Y
				if m.IsSlide() {
					ex, ey = m.Dest()
				}
				if onAxis(m.X, m.Y) && (k < sym-1 && onAxis(ex, ey) || k == sym-1) {
					cand = append(cand, m)
				}
			}
		}
		if len(cand) == 0 {
			cand = legal
		}
		if len(cand) == 0 {
			break
		}
		m := cand[r.Intn(len(cand))]
		if r.Intn(2) == 0 { // prefer slides
			for t := 0; t < 6; t++ {
				if m2 := cand[r.Intn(len(cand))]; m2.IsSlide() {
					m = m2
					break
				}
			}
		}
		q, err := p.Move(m)
		if err != nil {
			break
		}
		p = q
		ms = append(ms, m)
	}
	return ms
}

func fmtMoves(ms []tak.Move) string { return fmt.Sprint(encMoves(ms)) }
