package main

// C08: equality and hash depend only on board and side to move, whatever the path.
// CASE S <enc p> | <consistent with from-scratch rebuild: 1/0> | <Hash()>
// CASE P <enc p> ; <enc q> | <Equal> <Hash equal> | <Hash p> <Hash q>

import (
	"fmt"
	"math/rand"
	"strings"

	"github.com/nelhage/taktician/ptn"
	"github.com/nelhage/taktician/symmetry"
	"github.com/nelhage/taktician/tak"
)

func init() { register("C08", runC08) }

func rebuild(p *tak.Position) *tak.Position {
	cfg := p.Config()
	q, err := tak.FromSquares(cfg, boardOf(p), p.MoveNumber())
	if err != nil {
		panic(err)
	}
	return q
}

func sameBoard(p, q *tak.Position) bool {
	if p.Size() != q.Size() || p.ToMove() != q.ToMove() {
		return false
	}
	n := p.Size()
	for y := 0; y < n; y++ {
		for x := 0; x < n; x++ {
			a, b := p.At(x, y), q.At(x, y)
			if len(a) != len(b) {
				return false
			}
			for i := range a {
				if a[i] != b[i] {
					return false
				}
			}
		}
	}
	return true
}

var c08Sampled int

func emitSingle(c *ctx, p *tak.Position, how string) {
	q := rebuild(p)
	ok := p.Equal(q) && q.Equal(p) && p.Hash() == q.Hash()
	c.stat("single_"+how, 1)
	if !ok {
		c.printf("ORACLE-FAIL path-dependent-%s | %s | Equal=%v/%v Hash %d vs %d | equal to the position rebuilt from its squares, same hash\n",
			how, enc(p), p.Equal(q), q.Equal(p), p.Hash(), q.Hash())
	}
	// the model recomputes 64-bit multiplications on binary numbers: sample
	c08Sampled++
	if c08Sampled%c.c08every() == 0 {
		c.printf("CASE S %s | %d | %d\n", enc(p), b2i(ok), p.Hash())
	}
}

func (c *ctx) c08every() int {
	if c.quick() {
		return 12
	}
	return 40
}

func emitPair(c *ctx, p, q *tak.Position, how string) {
	eq, heq := p.Equal(q), p.Hash() == q.Hash()
	same := sameBoard(p, q)
	c.stat("pair_"+how, 1)
	if same {
		c.stat("pairs_same_board", 1)
	} else {
		c.stat("pairs_different", 1)
	}
	c.printf("CASE P %s ; %s | %d %d | %d %d\n", enc(p), enc(q), b2i(eq), b2i(heq), p.Hash(), q.Hash())
	switch {
	case same && (!eq || !q.Equal(p)):
		c.printf("ORACLE-FAIL equal-boards-unequal | %s ; %s | Equal=false (%s) | same stacks and side to move must compare equal\n", enc(p), enc(q), how)
	case same && !heq:
		c.printf("ORACLE-FAIL equal-boards-hash-differs | %s ; %s | hashes %d %d (%s) | same stacks and side to move must hash equal\n", enc(p), enc(q), p.Hash(), q.Hash(), how)
	case !same && p.Size() == q.Size() && (eq || q.Equal(p)):
		c.printf("ORACLE-FAIL different-boards-equal | %s ; %s | Equal=true (%s) | positions that differ must compare unequal\n", enc(p), enc(q), how)
	case !same && p.Size() == q.Size() && heq:
		c.printf("ORACLE-FAIL hash-collision | %s ; %s | both hash to %d (%s) | distinct positions met in exploration must not share a hash\n", enc(p), enc(q), p.Hash(), how)
	}
}

// replayInto replays moves from start, alternating between a small pool of reused buffers in the
// given pattern (0 = fresh storage).
func replayInto(start *tak.Position, ms []tak.Move, r *rand.Rand, pool []*tak.Position) *tak.Position {
	p := start
	var prevBuf *tak.Position
	for _, m := range ms {
		var buf *tak.Position
		if len(pool) > 0 && r.Intn(3) != 0 {
			buf = pool[r.Intn(len(pool))]
			if buf == p || buf == prevBuf {
				buf = nil
			}
		}
		q, err := p.MovePreallocated(m, buf)
		if err != nil {
			return nil
		}
		prevBuf = p
		p = q
	}
	return p
}

func runC08(c *ctx) {
	if c.tier == "replay" {
		parts := strings.Split(readReplay(c).Input, ";")
		p, err := decodeEnc(parts[0])
		if err != nil {
			return
		}
		if len(parts) > 1 {
			if q, err := decodeEnc(parts[1]); err == nil {
				emitPair(c, p, q, "replay")
			}
		} else {
			c08Sampled = -1
			emitSingle(c, p, "replay")
		}
		return
	}
	r := c.r
	// 1. every position of playouts, produced into fresh and into reused, dirty storage
	for g := 0; g < 40*c.scale; g++ {
		size := 3 + g%6
		cfg := randCfg(r, size)
		ps, ms := randomGame(r, cfg, 10+r.Intn(70), -1, r.Intn(8) == 0)
		for _, p := range ps {
			emitSingle(c, p, "move")
		}
		// the same game replayed through a pool of dirty buffers (filled by another game first)
		pool := make([]*tak.Position, 3)
		other, _ := randomGame(r, cfg, 30, 1, true)
		for i := range pool {
			pool[i] = tak.Alloc(size)
			if len(other) > 3 {
				o := other[len(other)-1-i]
				o.MovePreallocated(tak.Move{Type: tak.Pass}, pool[i]) // leaves o's contents (+1 ply) in the buffer
			}
		}
		start := tak.New(cfg)
		cur := start
		var prev *tak.Position
		for k, m := range ms {
			buf := pool[k%len(pool)]
			if buf == cur || buf == prev {
				buf = nil
			}
			q, err := cur.MovePreallocated(m, buf)
			if err != nil {
				break
			}
			prev, cur = cur, q
			emitSingle(c, cur, "prealloc")
			if k+1 < len(ps) {
				emitPair(c, cur, ps[k+1], "prealloc-vs-fresh")
			}
		}
		// search-like depth-first exploration with one buffer per ply
		if len(ps) > 4 {
			root := ps[len(ps)/2]
			bufs := []*tak.Position{tak.Alloc(size), tak.Alloc(size), tak.Alloc(size)}
			var dfs func(p *tak.Position, d int)
			budget := 300
			dfs = func(p *tak.Position, d int) {
				if d == len(bufs) || budget <= 0 {
					return
				}
				for _, m := range p.AllMoves(nil) {
					if budget <= 0 {
						return
					}
					if r.Intn(3) != 0 {
						continue
					}
					q, err := p.MovePreallocated(m, bufs[d])
					if err != nil {
						continue
					}
					budget--
					emitSingle(c, q, "dfs")
					dfs(q, d+1)
				}
			}
			dfs(root, 0)
		}
	}
	// 1b. Pass (the search's null move, accepted by Position.Move): the position after a pass is the same board with the
	// other side to move - it must equal, and hash like, that board imported from its squares, differ from its parent, and
	// hashes of positions derived from it (pass, pass; pass, move) must again be the from-scratch values
	for g := 0; g < 40*c.scale; g++ {
		size := 3 + g%6
		ps, _ := randomGame(r, randCfg(r, size), 4+r.Intn(60), -1, r.Intn(6) == 0)
		bufs := []*tak.Position{tak.Alloc(size), tak.Alloc(size)}
		for k, p := range ps {
			if k%3 != g%3 {
				continue
			}
			var buf *tak.Position
			if r.Intn(2) == 0 {
				buf = bufs[r.Intn(2)]
				if buf == p {
					buf = nil
				}
			}
			p.Hash() // whatever is remembered about the parent's hash is remembered now
			q, err := p.MovePreallocated(tak.Move{Type: tak.Pass}, buf)
			if err != nil {
				c.printf("ORACLE-FAIL pass-rejected | %s | %v | Position.Move accepts the null move\n", enc(p), err)
				continue
			}
			emitSingle(c, q, "pass")
			emitPair(c, q, p, "pass-vs-parent")
			if q2, err := q.Move(tak.Move{Type: tak.Pass}); err == nil {
				emitSingle(c, q2, "pass-pass")
				emitPair(c, q2, p, "pass-pass-vs-parent")
			}
			if over, _ := q.GameOver(); !over {
				if lm := legalMoves(q); len(lm) > 0 {
					if q3, err := q.Move(lm[r.Intn(len(lm))]); err == nil {
						emitSingle(c, q3, "pass-move")
					}
				}
			}
		}
	}
	// 2. transpositions: commuting placements in two orders
	for g := 0; g < 150*c.scale; g++ {
		size := 3 + g%6
		ps, _ := randomGame(r, tak.Config{Size: size}, 2+r.Intn(20), -1, false)
		base := ps[len(ps)-1]
		if over, _ := base.GameOver(); over {
			continue
		}
		legal := legalMoves(base)
		var places []tak.Move
		for _, m := range legal {
			if !m.IsSlide() {
				places = append(places, m)
			}
		}
		if len(places) < 4 {
			continue
		}
		// a, b, c, d : a and c by the mover, b and d by the opponent; swap a<->c and b<->d
		pick := func() tak.Move { return places[r.Intn(len(places))] }
		a, b, cc, d := pick(), pick(), pick(), pick()
		p1 := replayInto(base, []tak.Move{a, b, cc, d}, r, nil)
		p2 := replayInto(base, []tak.Move{cc, d, a, b}, r, []*tak.Position{tak.Alloc(size), tak.Alloc(size)})
		if p1 != nil && p2 != nil {
			emitPair(c, p1, p2, "transposition")
		}
		p3 := replayInto(base, []tak.Move{a, b, cc}, r, nil)
		if p1 != nil && p3 != nil {
			emitPair(c, p1, p3, "prefix")
		}
	}
	// 3. import from squares / TPS / symmetry images; near-miss pairs
	for g := 0; g < 150*c.scale; g++ {
		size := 3 + g%6
		var p *tak.Position
		if g%2 == 0 {
			ps, _ := randomGame(r, tak.Config{Size: size}, 4+r.Intn(60), -1, false)
			p = ps[len(ps)-1]
		} else {
			p, _, _ = constructedBoard(r, size, 10, 0.3+0.5*r.Float64())
		}
		emitPair(c, p, rebuild(p), "from-squares")
		if q, err := ptn.ParseTPS(ptn.FormatTPS(p)); err == nil {
			emitPair(c, p, q, "tps")
		}
		if syms, err := symmetry.Symmetries(p); err == nil {
			for _, s := range syms {
				emitSingle(c, s.P, "symmetry")
			}
			if len(syms) > 1 {
				emitPair(c, p, syms[len(syms)-1].P, "symmetry-image")
			}
		}
		// same board, other side to move
		b := boardOf(p)
		cfg := p.Config()
		if q, err := tak.FromSquares(cfg, b, p.MoveNumber()+1); err == nil {
			emitPair(c, p, q, "side-to-move")
		}
		if q, err := tak.FromSquares(cfg, b, p.MoveNumber()+2); err == nil {
			emitPair(c, p, q, "same-side-later-ply")
		}
		// one buried or top piece changed
		x, y := r.Intn(size), r.Intn(size)
		if len(b[y][x]) > 0 {
			j := r.Intn(len(b[y][x]))
			pc := b[y][x][j]
			b[y][x][j] = tak.MakePiece(pc.Color().Flip(), pc.Kind())
			if q, err := tak.FromSquares(cfg, b, p.MoveNumber()); err == nil {
				emitPair(c, p, q, "one-piece-differs")
			}
		}
	}
	// 3b. structured probes (sizes 3..8): boards that differ only in the KINDS or COLOURS of the tops of two squares
	// i < j (the flat/wall/capstone roles swapped, a colour swapped): distinct positions, must hash differently
	for g := 0; g < 200*c.scale; g++ {
		size := 3 + g%6
		base, _, _ := constructedBoard(r, size, 3, 0.3+0.4*r.Float64())
		b := boardOf(base)
		cfg := base.Config()
		n := size * size
		i, j := r.Intn(n), r.Intn(n)
		if g%2 == 0 && n > 32 { // pairs 32 apart: the two halves of a 64-bit word
			i = r.Intn(n - 32)
			j = i + 32
		}
		if i == j {
			continue
		}
		mk := func(ki, kj tak.Kind, ci, cj tak.Color) *tak.Position {
			b2 := make([][]tak.Square, size)
			for y := range b {
				b2[y] = append([]tak.Square(nil), b[y]...)
			}
			b2[i/size][i%size] = tak.Square{tak.MakePiece(ci, ki)}
			b2[j/size][j%size] = tak.Square{tak.MakePiece(cj, kj)}
			cfg2 := cfg
			cfg2.Pieces, cfg2.Capstones = 0, 0
			fitReserves(r, &cfg2, b2)
			cfg2.Capstones += 2
			q, err := tak.FromSquares(cfg2, b2, base.MoveNumber())
			if err != nil {
				return nil
			}
			return q
		}
		kinds := []tak.Kind{tak.Flat, tak.Standing, tak.Capstone}
		ka, kb := kinds[r.Intn(3)], kinds[r.Intn(3)]
		if ka == kb {
			kb = kinds[(r.Intn(2)+1+int(ka)-1)%3]
		}
		p1, p2 := mk(ka, kb, tak.White, tak.White), mk(kb, ka, tak.White, tak.White)
		if p1 != nil && p2 != nil {
			emitPair(c, p1, p2, "kinds-swapped")
		}
		p3, p4 := mk(ka, ka, tak.White, tak.Black), mk(ka, ka, tak.Black, tak.White)
		if p3 != nil && p4 != nil {
			emitPair(c, p3, p4, "colours-swapped")
		}
	}
	// 4. census: distinct positions of one size must not share a hash (exploration, not proof)
	perSize := 30000 * c.scale
	for size := 3; size <= 8; size++ {
		seen := map[uint64]string{}
		n := 0
		for n < perSize {
			ps, _ := randomGame(r, tak.Config{Size: size}, 6+r.Intn(50), -1, false)
			for _, p := range ps {
				// the identity of a position for hashing purposes: stacks on every square + side to move
				ab := encAbs(p)
				key := ab[strings.LastIndex(ab, " "):] + fmt.Sprint(p.ToMove())
				h := p.Hash()
				if old, ok := seen[h]; ok {
					if old != key {
						c.printf("ORACLE-FAIL hash-collision | %s | census: same hash %d as another position | distinct positions met in exploration must not share a hash\n", enc(p), h)
						n = perSize
						break
					}
					continue
				}
				seen[h] = key
				n++
			}
		}
		c.stat(fmt.Sprintf("census_distinct_size%d", size), int64(len(seen)))
	}
}
