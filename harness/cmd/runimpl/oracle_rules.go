package main

// An independent reading of the rules of Tak over [][]Square boards (index [y][x], every
// square top first), written from the rule book / coq/Rules.v, not from tak/move.go.
// It is the "direct oracle" of C01, C03, C14, C19, C20: it decides the property on the
// implementation's outputs without going through the Coq model.

import (
	"github.com/nelhage/taktician/tak"
)

type aboard struct {
	n              int
	sq             [][]tak.Square // [y][x], top first
	ws, wc, bs, bc int
	ply            int
	blackWinsTies  bool
}

func absOf(p *tak.Position) *aboard {
	ws, wc, bs, bc := tak.VerifReserves(p)
	return &aboard{n: p.Size(), sq: boardOf(p), ws: int(ws), wc: int(wc), bs: int(bs), bc: int(bc), ply: p.MoveNumber(),
		blackWinsTies: p.Config().BlackWinsTies}
}

func (a *aboard) clone() *aboard {
	b := *a
	b.sq = make([][]tak.Square, a.n)
	for y := range a.sq {
		b.sq[y] = make([]tak.Square, a.n)
		for x := range a.sq[y] {
			b.sq[y][x] = append(tak.Square(nil), a.sq[y][x]...)
		}
	}
	return &b
}

func (a *aboard) toMove() tak.Color {
	if a.ply%2 == 0 {
		return tak.White
	}
	return tak.Black
}

func (a *aboard) on(x, y int) bool { return x >= 0 && x < a.n && y >= 0 && y < a.n }

// rulesMove: nil = illegal / not a move.  Raw move values: any int8 coordinates, any type
// code, any 32-bit slides word.
func (a *aboard) rulesMove(m tak.Move) *aboard {
	x, y := int(m.X), int(m.Y)
	t := int(m.Type)
	switch {
	case t >= 2 && t <= 4:
		kind := []tak.Kind{tak.Flat, tak.Standing, tak.Capstone}[t-2]
		if !a.on(x, y) || len(a.sq[y][x]) != 0 {
			return nil
		}
		opening := a.ply < 2
		if opening && kind != tak.Flat {
			return nil
		}
		col := a.toMove()
		if opening {
			col = col.Flip()
		}
		b := a.clone()
		var r *int
		switch {
		case kind == tak.Capstone && col == tak.White:
			r = &b.wc
		case kind == tak.Capstone:
			r = &b.bc
		case col == tak.White:
			r = &b.ws
		default:
			r = &b.bs
		}
		if *r == 0 {
			return nil
		}
		*r--
		b.sq[y][x] = tak.Square{tak.MakePiece(col, kind)}
		b.ply++
		return b
	case t >= 5 && t <= 8:
		dx, dy := 0, 0
		switch t {
		case 5:
			dx = -1
		case 6:
			dx = 1
		case 7:
			dy = 1
		case 8:
			dy = -1
		}
		var drops []int
		for s := uint32(m.Slides); s != 0; s >>= 4 {
			drops = append(drops, int(s&15))
		}
		if a.ply < 2 || !a.on(x, y) {
			return nil
		}
		ct := 0
		for _, d := range drops {
			if d == 0 {
				return nil
			}
			ct += d
		}
		st := a.sq[y][x]
		if ct == 0 || ct > a.n || ct > len(st) {
			return nil
		}
		if st[0].Color() != a.toMove() {
			return nil
		}
		b := a.clone()
		carry := append(tak.Square(nil), st[:ct]...) // top first
		b.sq[y][x] = append(tak.Square(nil), st[ct:]...)
		for _, d := range drops {
			x += dx
			y += dy
			if !a.on(x, y) {
				return nil
			}
			tgt := b.sq[y][x]
			chunk := carry[len(carry)-d:]
			if len(tgt) > 0 {
				switch tgt[0].Kind() {
				case tak.Capstone:
					return nil
				case tak.Standing:
					if !(len(carry) == 1 && carry[0].Kind() == tak.Capstone) {
						return nil
					}
					tgt = append(tak.Square{tak.MakePiece(tgt[0].Color(), tak.Flat)}, tgt[1:]...)
				}
			}
			b.sq[y][x] = append(append(tak.Square(nil), chunk...), tgt...)
			carry = carry[:len(carry)-d]
		}
		b.ply++
		return b
	}
	return nil
}

func (a *aboard) equalBoard(b *aboard) bool {
	if a.n != b.n || a.ws != b.ws || a.wc != b.wc || a.bs != b.bs || a.bc != b.bc || a.ply != b.ply {
		return false
	}
	for y := 0; y < a.n; y++ {
		for x := 0; x < a.n; x++ {
			if len(a.sq[y][x]) != len(b.sq[y][x]) {
				return false
			}
			for i := range a.sq[y][x] {
				if a.sq[y][x][i] != b.sq[y][x][i] {
					return false
				}
			}
		}
	}
	return true
}

// maxHeightAfter: the tallest stack of b (the 64-piece representation limit is part of the
// property's domain: a successor with a taller stack is outside it).
func (a *aboard) maxHeight() int {
	h := 0
	for y := range a.sq {
		for x := range a.sq[y] {
			if len(a.sq[y][x]) > h {
				h = len(a.sq[y][x])
			}
		}
	}
	return h
}

// ---- roads and game end, by depth-first search over squares ----

func (a *aboard) roadTop(x, y int, c tak.Color) bool {
	s := a.sq[y][x]
	return len(s) > 0 && s[0].Color() == c && (s[0].Kind() == tak.Flat || s[0].Kind() == tak.Capstone)
}

func (a *aboard) hasRoad(c tak.Color) bool {
	n := a.n
	for pass := 0; pass < 2; pass++ { // 0: left->right (x), 1: bottom->top (y)
		seen := make([]bool, n*n)
		var stack [][2]int
		for k := 0; k < n; k++ {
			x, y := 0, k
			if pass == 1 {
				x, y = k, 0
			}
			if a.roadTop(x, y, c) {
				seen[x+y*n] = true
				stack = append(stack, [2]int{x, y})
			}
		}
		for len(stack) > 0 {
			cur := stack[len(stack)-1]
			stack = stack[:len(stack)-1]
			if (pass == 0 && cur[0] == n-1) || (pass == 1 && cur[1] == n-1) {
				return true
			}
			for _, d := range [][2]int{{1, 0}, {-1, 0}, {0, 1}, {0, -1}} {
				x, y := cur[0]+d[0], cur[1]+d[1]
				if a.on(x, y) && !seen[x+y*n] && a.roadTop(x, y, c) {
					seen[x+y*n] = true
					stack = append(stack, [2]int{x, y})
				}
			}
		}
	}
	return false
}

func (a *aboard) flatCounts() (w, b int) {
	for y := range a.sq {
		for x := range a.sq[y] {
			s := a.sq[y][x]
			if len(s) > 0 && s[0].Kind() == tak.Flat {
				if s[0].Color() == tak.White {
					w++
				} else {
					b++
				}
			}
		}
	}
	return
}

// outcome: over, winner, byRoad
func (a *aboard) outcome() (bool, tak.Color, bool) {
	wr, br := a.hasRoad(tak.White), a.hasRoad(tak.Black)
	switch {
	case wr && br:
		return true, a.toMove().Flip(), true
	case wr:
		return true, tak.White, true
	case br:
		return true, tak.Black, true
	}
	full := true
	for y := range a.sq {
		for x := range a.sq[y] {
			if len(a.sq[y][x]) == 0 {
				full = false
			}
		}
	}
	if !full && a.ws+a.wc != 0 && a.bs+a.bc != 0 {
		return false, tak.NoColor, false
	}
	w, b := a.flatCounts()
	switch {
	case w > b:
		return true, tak.White, false
	case b > w:
		return true, tak.Black, false
	case a.blackWinsTies:
		return true, tak.Black, false
	}
	return true, tak.NoColor, false
}
