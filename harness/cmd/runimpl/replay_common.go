package main

// Replay support shared by the position-level properties: decode the wire encoding of a position
// (common.go: enc) back into a *tak.Position, read a replay file.

import (
	"encoding/json"
	"fmt"
	"os"
	"strconv"
	"strings"

	"github.com/nelhage/taktician/tak"
)

type replayFile struct {
	Property string `json:"property"`
	Class    string `json:"class"`
	Input    string `json:"input"`
	Seed     int64  `json:"seed"`
}

func readReplay(c *ctx) replayFile {
	var rf replayFile
	if len(c.args) == 0 {
		fmt.Fprintln(os.Stderr, "replay: missing file")
		os.Exit(2)
	}
	data, err := os.ReadFile(c.args[0])
	if err != nil {
		fmt.Fprintln(os.Stderr, err)
		os.Exit(2)
	}
	if err := json.Unmarshal(data, &rf); err != nil {
		fmt.Fprintln(os.Stderr, err)
		os.Exit(2)
	}
	return rf
}

// decodeEnc: size bwt ws wc bs bc move W B S C heights stacks rawhash  ->  position (rebuilt through
// FromSquares from the squares those fields describe, then reserves and ply restored).
func decodeEnc(s string) (*tak.Position, error) {
	w := strings.Fields(s)
	if len(w) < 13 {
		return nil, fmt.Errorf("bad position encoding")
	}
	u := func(t string) uint64 { v, _ := strconv.ParseUint(t, 10, 64); return v }
	size := int(u(w[0]))
	white, black, standing, caps := u(w[7]), u(w[8]), u(w[9]), u(w[10])
	hs, st := strings.Split(w[11], ","), strings.Split(w[12], ",")
	board := make([][]tak.Square, size)
	for y := range board {
		board[y] = make([]tak.Square, size)
		for x := range board[y] {
			i := uint(x + y*size)
			h := int(u(hs[i]))
			if h == 0 || (white|black)&(1<<i) == 0 {
				continue
			}
			col := tak.White
			if black&(1<<i) != 0 {
				col = tak.Black
			}
			k := tak.Flat
			if standing&(1<<i) != 0 {
				k = tak.Standing
			} else if caps&(1<<i) != 0 {
				k = tak.Capstone
			}
			sq := tak.Square{tak.MakePiece(col, k)}
			for j := 1; j < h; j++ {
				c := tak.White
				if u(st[i])&(1<<uint(j-1)) != 0 {
					c = tak.Black
				}
				sq = append(sq, tak.MakePiece(c, tak.Flat))
			}
			board[y][x] = sq
		}
	}
	mv, _ := strconv.Atoi(w[6])
	p, err := tak.FromSquares(tak.Config{Size: size, BlackWinsTies: w[1] == "1"}, board, mv)
	if err != nil {
		return nil, err
	}
	tak.VerifSetRaw(p, byte(u(w[2])), byte(u(w[3])), byte(u(w[4])), byte(u(w[5])), mv)
	return p, nil
}

func decodeMove(s string) tak.Move {
	f := strings.Split(strings.TrimSpace(s), ":")
	var v [4]int64
	for i := 0; i < 4 && i < len(f); i++ {
		v[i], _ = strconv.ParseInt(f[i], 10, 64)
	}
	return tak.Move{X: int8(v[0]), Y: int8(v[1]), Type: tak.MoveType(v[2]), Slides: tak.Slides(v[3])}
}

func decodeMoves(s string) []tak.Move {
	if s == "-" || s == "" {
		return nil
	}
	var out []tak.Move
	for _, t := range strings.Split(s, ",") {
		out = append(out, decodeMove(t))
	}
	return out
}
