package main

import (
	"fmt"
	"os"
	"strconv"
	"time"

	"github.com/nelhage/taktician/tak"
)

func init() { register("C06", runC06) }

func runC06(c *ctx) {
	if c.tier == "probe" {
		sz, _ := strconv.Atoi(c.args[0])
		pc, _ := strconv.Atoi(c.args[1])
		cp, _ := strconv.Atoi(c.args[2])
		t0 := time.Now()
		g := buildRetro(tak.New(tak.Config{Size: sz, Pieces: pc, Capstones: cp}), 50000000)
		if g == nil {
			fmt.Fprintln(os.Stderr, "too big")
			return
		}
		mx := [2]int32{}
		in := [2]int{}
		for a := 0; a < 2; a++ {
			for _, d := range g.dist[a] {
				if d >= 0 {
					in[a]++
				}
				if d > mx[a] {
					mx[a] = d
				}
			}
		}
		fmt.Fprintf(os.Stderr, "size %d pieces %d caps %d: nodes %d edges %d  attractor W %d (max %d) B %d (max %d) root W %d B %d  %v\n",
			sz, pc, cp, len(g.term), g.edges, in[0], mx[0], in[1], mx[1], g.dist[0][0], g.dist[1][0], time.Since(t0))
	}
}
