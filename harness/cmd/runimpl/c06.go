package main

// C06: proof-number solver verdicts agree with the game-theoretic truth.
//
// CASE pn;<enc position>;<maxnodes> <preserve> <maxdepth> | <verdict> <move> | <proof> <disproof> <depth> <nodes> <proved> <disproved> <dropped> <expanded> <maxdepth>
// CASE pn;<enc position>;<maxnodes> <preserve> <maxdepth> pn2 | <verdict> <move> | <the same nine numbers> <pn2 calls> <nodes searched by them> <sum of their limits>
//   (PN-squared runs are made with Config.Debug = 3: pn2() then logs one line per second-level search, which is where the
//    last three numbers come from; the model cost of such a run is bounded by first-level expansions AND second-level nodes)
// CASE dfpn;<enc position>;<table entries> <attacker N|W|B> | <verdict> <move> | <phi> <delta> <work> <repetition> <terminal> <solved> <hits> <miss>
//
// Oracle (oracle_retro.go): exact retrograde solution of the whole reachable game graph for
// small configurations, bounded exhaustive search (one-sided) for larger positions.
// Failure classes: proven-but-not-won, disproven-but-won, proven-move-loses (prefixed with
// attacker-not-mover- when the configured DFPN attacker is not the side to move, with finished-root- when the root is a
// finished game), solver-panic, solver-no-result, reused-solver-wrong-verdict, reused-solver-panic, reused-solver-wrong-disproven (the replayed
// sequences of the repetition/table finding, judged by a depth-limited exhaustive search to the known distance).

import (
	"bytes"
	"context"
	"encoding/json"
	"encoding/xml"
	"fmt"
	"log"
	"math/rand"
	"os"
	"runtime/debug"
	"strconv"
	"strings"
	"sync"
	"sync/atomic"
	"time"

	"github.com/nelhage/taktician/prove"
	"github.com/nelhage/taktician/ptn"
	"github.com/nelhage/taktician/tak"
)

func init() { register("C06", runC06) }

const c06EntrySize = 32 // unsafe.Sizeof(prove.entry{}): the table has TableMem/32 slots

type c06job struct {
	kind string // "pn" | "dfpn"
	root *tak.Position
	// pn
	maxNodes uint64
	preserve bool
	pn2      bool
	maxDepth int
	// dfpn
	entries  int
	attacker tak.Color
	// oracle
	g                     *retroGraph // nil: bounded exhaustive search
	gi                    int
	hunt                  bool
	seq                   []*tak.Position // kind "dfpnseq": one solver proves these in a row
	seqG                  []*retroGraph
	forceModel            bool  // compare with the model whatever the cost (thorough tier: one long run WITH repetitions)
	crossFresh            bool  // "dfpnseq" without an exact oracle: a solved verdict of the reused solver may not contradict a fresh solver's
	seqWon                []int // "dfpnseq" of a known finding: the attacker wins call i's root within seqWon[i] plies (0: not known)
	bigModel              bool  // follow-up run on a root where repetition was seen: larger model budget
	rep                   int   // DFPN: threefold repetitions met by this run
	work                  uint64
	pn2calls, pn2searched uint64 // PN-squared: second-level searches of this run and the nodes they created
	crossPN               bool   // also ask the PN solver (which has no immediate-threat shortcut): the two verdicts may not contradict
	modelOK               bool   // eligible for the model comparison (cost permitting)

	// results
	l1, l2 string
	done   int32
	out    []string
	stats  map[string]int64
}

func verdictStr(e prove.Evaluation) string {
	switch e {
	case prove.EvalTrue:
		return "proven"
	case prove.EvalFalse:
		return "disproven"
	}
	return "unknown"
}

func attStr(c tak.Color) string {
	switch c {
	case tak.White:
		return "W"
	case tak.Black:
		return "B"
	}
	return "N"
}

func (j *c06job) input() string {
	if j.kind == "dfpnseq" {
		return fmt.Sprintf("dfpnseq;%d positions;%d %s", len(j.seq), j.entries, attStr(j.attacker))
	}
	if j.kind == "pn" {
		s := fmt.Sprintf("pn;%s;%d %d %d", enc(j.root), j.maxNodes, b2i(j.preserve), j.maxDepth)
		if j.pn2 {
			s += " pn2"
		}
		return s
	}
	return fmt.Sprintf("dfpn;%s;%d %s", enc(j.root), j.entries, attStr(j.attacker))
}

// model cost limits: PN expansions / DFPN work above which a run is judged by the oracle only
const (
	c06MaxModelExpanded = 400
	c06MaxModelWork     = 60
	c06MaxModelSearched = 40000 // PN-squared: nodes created by all second-level searches of one run
)

// ---------- PN-squared: what the second level did, read from the log lines of pn2() (Config.Debug > 2) ----------
//
//	[pn2] depth=%d(%d) val=%s limit=%d searched=%d pn=(%d,%d)
//
// The log package is global: PN-squared runs hold c06pn2Mu, so the lines between reset and take belong to one run (other
// solvers running at the same time only log progress lines, which are ignored).
type c06pn2Log struct {
	mu                      sync.Mutex
	calls, searched, limits uint64
	maxSearched             uint64
	unlimited               uint64 // second-level searches without a node limit (limit = 0)
}

var (
	c06log   c06pn2Log
	c06pn2Mu sync.Mutex
)

func (w *c06pn2Log) Write(b []byte) (int, error) {
	i := bytes.Index(b, []byte("[pn2] depth="))
	if i < 0 {
		return len(b), nil
	}
	if os.Getenv("C06_PN2LOG") != "" { // debugging: show what every second-level search did
		os.Stderr.Write(b[i:])
	}
	var d1, d2 int
	var val string
	var lim, searched uint64
	var phi, delta uint32
	n, _ := fmt.Sscanf(string(b[i:]), "[pn2] depth=%d(%d) val=%s limit=%d searched=%d pn=(%d,%d)", &d1, &d2, &val, &lim, &searched, &phi, &delta)
	w.mu.Lock()
	defer w.mu.Unlock()
	if n < 5 {
		w.calls = 1 << 62 // unreadable line: make the comparison fail loudly
		return len(b), nil
	}
	w.calls++
	w.searched += searched
	w.limits += lim
	if searched > w.maxSearched {
		w.maxSearched = searched
	}
	if lim == 0 {
		w.unlimited++
	}
	return len(b), nil
}

// c06pn2Screen: does a PN-squared run with this configuration reach the second level, and at what cost?
func c06pn2Screen(j *c06job) (calls, searched, expanded uint64) {
	c06pn2Mu.Lock()
	defer c06pn2Mu.Unlock()
	c06log.reset()
	safely(func() {
		pr := prove.New(prove.Config{MaxNodes: j.maxNodes, PreserveSolved: j.preserve, PN2: true, MaxDepth: j.maxDepth, Debug: 3})
		_, st := pr.Prove(context.Background(), j.root)
		expanded = st.Expanded
	})
	c06log.mu.Lock()
	defer c06log.mu.Unlock()
	return c06log.calls, c06log.searched, expanded
}

func (w *c06pn2Log) reset() {
	w.mu.Lock()
	w.calls, w.searched, w.limits, w.maxSearched, w.unlimited = 0, 0, 0, 0, 0
	w.mu.Unlock()
}

// runSeq: one DFPN solver used for several positions in a row (mixed sides to move, mixed board sizes).  Every
// verdict is judged like that of a fresh solver; a failure that a fresh solver does not show on the same position
// is reported as reused-solver-wrong-verdict.
func (j *c06job) runSeq() {
	encs := make([]string, len(j.seq))
	for i, p := range j.seq {
		encs[i] = enc(p)
	}
	in := fmt.Sprintf("dfpnseq;%s;%d %s", strings.Join(encs, "@"), j.entries, attStr(j.attacker))
	var l1s, l2s []string
	costOK := true
	var fails []string
	panicked, msg := safely(func() {
		if os.Getenv("C06_STACK") != "" {
			defer func() {
				if e := recover(); e != nil {
					for _, q := range j.seq {
						ws, wc, bs, bc := tak.VerifReserves(q)
						fmt.Fprintf(os.Stderr, "SEQ %s reserves %d %d %d %d\n", ptn.FormatTPS(q), ws, wc, bs, bc)
					}
					fmt.Fprintf(os.Stderr, "entries %d attacker %s\n%v\n%s\n", j.entries, attStr(j.attacker), e, debug.Stack())
					os.Exit(3)
				}
			}()
		}
		d := prove.NewDFPN(&prove.DFPNConfig{Attacker: j.attacker, TableMem: int64(j.entries) * c06EntrySize})
		for i, p := range j.seq {
			r, st := d.Prove(p)
			att := j.attacker
			if att == tak.NoColor {
				att = p.ToMove()
			}
			l1 := verdictStr(r.Result) + " " + encMove(r.Move)
			l1s = append(l1s, l1)
			l2s = append(l2s, fmt.Sprintf("%d %d %d %d %d %d %d %d", r.Proof, r.Disproof, st.Work, st.Repetition, st.Terminal, st.Solved, st.Hits, st.Miss))
			if st.Work > c06MaxModelWork {
				costOK = false
			}
			j.stats["reused_solver_calls"]++
			j.stats["verdict_reused_"+verdictStr(r.Result)]++
			one := &c06job{kind: "dfpn", root: p, g: j.seqG[i], entries: j.entries, attacker: j.attacker, stats: j.stats, work: st.Work}
			if i > 0 {
				// the table may hold proofs found by the earlier calls: the number of mid calls of THIS call says
				// nothing about the depth of the proof, so the work-bounded exhaustive check does not apply
				one.work = 1 << 30
			}
			one.judge(fmt.Sprintf("@SEQ@ (call %d of the sequence)", i+1), r, att, l1)
			if i < len(j.seqWon) && j.seqWon[i] > 0 {
				// a replayed sequence of the finding "bounds that rest on a repetition cut were stored as facts": the
				// attacker wins this root within seqWon[i] plies, confirmed here by a depth-limited exhaustive search
				j.stats["known_sequence_calls_with_known_win"]++
				if r.Result == prove.EvalFalse {
					if c06wonWithin(p, att, j.seqWon[i]) {
						fails = append(fails, fmt.Sprintf("ORACLE-FAIL reused-solver-wrong-disproven | %s (call %d of the sequence: %s) | %s | attacker %s wins within %d plies (depth-limited exhaustive search)",
							in, i+1, ptn.FormatTPS(p), l1, attStr(att), j.seqWon[i]))
					} else {
						j.stats["known_sequence_distance_not_confirmed"]++
					}
				} else if r.Result == prove.EvalTrue {
					j.stats["known_sequence_calls_proven"]++
				}
			}
			if j.crossFresh && i > 0 && r.Result != prove.EvalUnknown {
				// no exact oracle for this configuration in the quick tier: `proven` of a fresh solver is sound (C06_dfpn_proven_sound),
				// `disproven` of the repaired solver is sound (C06_dfpn_seq_sound) - the two may not contradict each other
				fr, _ := prove.NewDFPN(&prove.DFPNConfig{Attacker: j.attacker, TableMem: int64(j.entries) * c06EntrySize}).Prove(p)
				j.stats["reused_vs_fresh_compared"]++
				if fr.Result != prove.EvalUnknown && fr.Result != r.Result {
					class := "reused-solver-contradicts-fresh"
					if r.Result == prove.EvalFalse {
						class = "reused-solver-wrong-disproven"
					}
					fails = append(fails, fmt.Sprintf("ORACLE-FAIL %s | %s (call %d of the sequence: %s) | %s | a fresh solver answers %s",
						class, in, i+1, ptn.FormatTPS(p), l1, verdictStr(fr.Result)))
				}
			}
			for _, f := range one.out {
				f = strings.Replace(f, "@SEQ@", in, 1)
				// the same position on a fresh solver
				fresh := &c06job{kind: "dfpn", root: p, g: j.seqG[i], entries: j.entries, attacker: j.attacker, stats: map[string]int64{}}
				fr, fst := prove.NewDFPN(&prove.DFPNConfig{Attacker: j.attacker, TableMem: int64(j.entries) * c06EntrySize}).Prove(p)
				fresh.work = fst.Work
				fresh.judge("fresh", fr, att, "")
				if len(fresh.out) == 0 {
					parts := strings.SplitN(f, " | ", 2)
					f = "ORACLE-FAIL reused-solver-wrong-verdict | " + parts[1] + " [a fresh solver answers " + verdictStr(fr.Result) + "]"
				}
				fails = append(fails, f)
			}
		}
	})
	if panicked {
		j.out = append(j.out, fmt.Sprintf("ORACLE-FAIL reused-solver-panic | %s | panic in call %d of the sequence: %s | a verdict", in, len(l1s)+1, strings.ReplaceAll(msg, "|", "/")))
		return
	}
	j.l1, j.l2 = strings.Join(l1s, " , "), strings.Join(l2s, " , ")
	if j.modelOK && costOK {
		j.out = append(j.out, fmt.Sprintf("CASE %s | %s | %s", in, j.l1, j.l2))
	} else {
		j.stats["oracle_only_runs"]++
	}
	j.out = append(j.out, fails...)
}

func (j *c06job) run() {
	j.stats = map[string]int64{}
	if j.kind == "dfpnseq" {
		j.runSeq()
		return
	}
	var res prove.ProofResult
	var l2 string
	var attacker tak.Color
	costOK := false
	panicked, msg := safely(func() {
		if j.kind == "pn" {
			pcfg := prove.Config{MaxNodes: j.maxNodes, PreserveSolved: j.preserve, PN2: j.pn2, MaxDepth: j.maxDepth}
			traced := j.pn2 && j.modelOK // the other PN-squared runs are not traced (the trace needs the runs one at a time)
			if traced {
				pcfg.Debug = 3
				c06pn2Mu.Lock()
				defer c06pn2Mu.Unlock()
				c06log.reset()
			}
			pr := prove.New(pcfg)
			r, st := pr.Prove(context.Background(), j.root)
			res = r
			attacker = j.root.ToMove()
			l2 = fmt.Sprintf("%d %d %d %d %d %d %d %d %d", r.Proof, r.Disproof, r.Depth, st.Nodes, st.Proved, st.Disproved, st.Dropped, st.Expanded, st.MaxDepth)
			costOK = st.Expanded <= c06MaxModelExpanded || (j.bigModel && st.Expanded <= 20*c06MaxModelExpanded)
			j.stats["pn_expanded_total"] += int64(st.Expanded)
			if j.pn2 && !traced {
				costOK = false
			}
			if traced {
				c06log.mu.Lock()
				j.pn2calls, j.pn2searched = c06log.calls, c06log.searched
				l2 += fmt.Sprintf(" %d %d %d", c06log.calls, c06log.searched, c06log.limits)
				if c06log.calls > 0 {
					j.stats["pn2_traced_runs_entering_second_level"]++
					j.stats["pn2_traced_second_level_searches"] += int64(c06log.calls)
					j.stats["pn2_traced_second_level_searches_without_limit"] += int64(c06log.unlimited)
					j.stats["pn2_traced_second_level_nodes"] += int64(c06log.searched)
				}
				// the first-level expansions of a PN-squared run are cheap for the model next to its second-level searches
				costOK = st.Expanded <= 10*c06MaxModelExpanded && c06log.searched <= c06MaxModelSearched
				c06log.mu.Unlock()
			}
		} else {
			d := prove.NewDFPN(&prove.DFPNConfig{Attacker: j.attacker, TableMem: int64(j.entries) * c06EntrySize})
			r, st := d.Prove(j.root)
			res = r
			attacker = j.attacker
			if attacker == tak.NoColor {
				attacker = j.root.ToMove()
			}
			l2 = fmt.Sprintf("%d %d %d %d %d %d %d %d", r.Proof, r.Disproof, st.Work, st.Repetition, st.Terminal, st.Solved, st.Hits, st.Miss)
			costOK = st.Work <= c06MaxModelWork || (j.bigModel && st.Work <= 8*c06MaxModelWork) || j.forceModel || os.Getenv("C06_FORCE_CASE") != "" // (env: manual one-off model comparisons of long runs)
			j.rep = int(st.Repetition)
			j.work = st.Work
			j.stats["dfpn_work_total"] += int64(st.Work)
			if st.Repetition > 0 {
				j.stats["dfpn_runs_with_repetition"]++
				j.stats[fmt.Sprintf("dfpn_runs_with_repetition_graph%d", j.gi)]++
				j.stats["dfpn_repetition_events"] += int64(st.Repetition)
				if os.Getenv("C06_SHOWREP") != "" {
					fmt.Fprintf(os.Stderr, "REP %d work %d %s %s entries %d att %s\n", st.Repetition, st.Work, ptn.FormatTPS(j.root), verdictStr(r.Result), j.entries, attStr(j.attacker))
				}
			}
		}
	})
	in := j.input()
	if panicked {
		j.out = append(j.out, fmt.Sprintf("ORACLE-FAIL solver-panic | %s | panic: %s | a verdict", in, strings.ReplaceAll(msg, "|", "/")))
		return
	}
	v := verdictStr(res.Result)
	j.stats["verdict_"+j.kind+"_"+v]++
	l1 := v + " " + encMove(res.Move)
	j.l1, j.l2 = l1, l2
	if j.modelOK && costOK {
		j.out = append(j.out, fmt.Sprintf("CASE %s | %s | %s", in, l1, l2))
		if j.pn2 {
			j.stats["pn2_model_cases"]++
			if j.pn2calls > 0 {
				j.stats["pn2_model_cases_entering_second_level"]++
				j.stats["pn2_model_cases_second_level_searches"] += int64(j.pn2calls)
				j.stats["pn2_model_cases_second_level_nodes"] += int64(j.pn2searched)
				j.stats["pn2_model_cases_entering_second_level_"+v]++
			}
		}
	} else {
		j.stats["oracle_only_runs"]++
	}
	j.judge(in, res, attacker, l1)
	if j.crossPN && j.kind == "dfpn" && attacker == j.root.ToMove() && res.Result != prove.EvalUnknown {
		pr := prove.New(prove.Config{MaxNodes: 200000})
		r2, _ := pr.Prove(context.Background(), j.root)
		j.stats["dfpn_pn_cross_checked"]++
		if r2.Result != prove.EvalUnknown && r2.Result != res.Result {
			// both solvers claim to be sound for the same attacker: one of the two verdicts is wrong
			j.out = append(j.out, fmt.Sprintf("ORACLE-FAIL pn-dfpn-contradiction | %s | DFPN: %s, PN (200000 nodes, no depth limit): %s | the same verdict from both, or unknown", in, l1, verdictStr(r2.Result)))
		}
	}
}

// judge: the property, evaluated directly.
func (j *c06job) judge(in string, res prove.ProofResult, attacker tak.Color, l1 string) {
	fail := func(class, did, want string) {
		if attacker != j.root.ToMove() {
			// own classes: the verdict is then reported from the mover's side (see the C06 finding)
			class = "attacker-not-mover-" + class
		}
		if over, _ := j.root.GameOver(); over {
			// own classes: the root itself is a finished game
			class = "finished-root-" + class
		}
		j.out = append(j.out, fmt.Sprintf("ORACLE-FAIL %s | %s | %s | %s", class, in, did, want))
	}
	defender := attacker.Flip()
	if j.g != nil {
		win, dist, ok := j.g.wins(j.root, attacker)
		if !ok {
			j.stats["oracle_root_not_in_graph"]++
			return
		}
		j.stats["oracle_exact"]++
		if win {
			j.stats["truth_won"]++
		} else {
			j.stats["truth_not_won"]++
		}
		switch res.Result {
		case prove.EvalTrue:
			if !win {
				fail("proven-but-not-won", l1, fmt.Sprintf("attacker %s has no forced win (retrograde solution of %d positions)", attStr(attacker), len(j.g.term)))
				return
			}
			if res.Move.Type != 0 {
				q, err := j.root.Move(res.Move)
				if err != nil {
					fail("proven-move-loses", l1, "returned move is illegal: "+err.Error())
					return
				}
				w2, _, ok2 := j.g.wins(q, attacker)
				if ok2 && !w2 {
					fail("proven-move-loses", l1, fmt.Sprintf("after the returned move attacker %s has no forced win any more", attStr(attacker)))
				}
				j.stats["proven_move_checked"]++
			} else {
				j.stats["proven_without_move"]++
			}
		case prove.EvalFalse:
			if j.kind == "pn" && j.maxDepth > 0 {
				// depth-limited: the claim is "no win within MaxDepth plies"
				if win && int(dist) <= j.maxDepth {
					fail("disproven-but-won", l1, fmt.Sprintf("attacker %s wins within %d plies <= MaxDepth %d", attStr(attacker), dist, j.maxDepth))
				}
				j.stats["disproven_depth_limited"]++
			} else if win {
				fail("disproven-but-won", l1, fmt.Sprintf("attacker %s has a forced win in %d plies (retrograde)", attStr(attacker), dist))
			}
		}
		return
	}
	// one-sided: bounded exhaustive search
	const depth = 3
	budget := 400000
	switch res.Result {
	case prove.EvalTrue:
		if w, c := forcedWin(j.root, defender, depth, &budget); c && w {
			fail("proven-but-not-won", l1, fmt.Sprintf("defender %s wins by force within %d plies", attStr(defender), depth))
			return
		}
		// a DFPN proof found with w calls of mid is a win within w+1 plies (each call goes one ply down, the
		// immediate-threat shortcut adds one)
		if j.kind == "dfpn" && j.work <= 4 && (j.work <= 3 || j.root.Size() == 3) {
			b2 := 4000000
			if w, c := forcedWin(j.root, attacker, int(j.work)+1, &b2); c {
				j.stats["bounded_dfpn_proven_confirmed_exactly"]++
				if !w {
					fail("proven-but-not-won", l1, fmt.Sprintf("no forced win for %s within %d plies (exhaustive), but the search made only %d calls", attStr(attacker), j.work+1, j.work))
					return
				}
			}
		}
		// a PN proof tree of depth D is a win within D plies
		if j.kind == "pn" && res.Depth <= 5 {
			b2 := 3000000
			if w, c := forcedWin(j.root, attacker, int(res.Depth), &b2); c {
				j.stats["bounded_proven_confirmed_exactly"]++
				if !w {
					fail("proven-but-not-won", l1, fmt.Sprintf("no forced win for %s within the reported depth %d (exhaustive)", attStr(attacker), res.Depth))
					return
				}
			}
		}
		if res.Move.Type != 0 {
			q, err := j.root.Move(res.Move)
			if err != nil {
				fail("proven-move-loses", l1, "returned move is illegal: "+err.Error())
				return
			}
			b3 := 400000
			if w, c := forcedWin(q, defender, depth-1, &b3); c && w {
				fail("proven-move-loses", l1, fmt.Sprintf("after the returned move defender %s wins by force within %d plies", attStr(defender), depth-1))
				return
			}
			// the proof that DFPN found runs through the returned move: w calls of mid = a win within w plies after it
			if j.kind == "dfpn" && j.work <= 4 {
				b4 := 4000000
				if w, c := forcedWin(q, attacker, int(j.work), &b4); c && !w {
					fail("proven-move-loses", l1, fmt.Sprintf("after the returned move no forced win for %s within %d plies (exhaustive), but the search made only %d calls", attStr(attacker), j.work, j.work))
					return
				}
			}
		}
		j.stats["bounded_proven_checked"]++
	case prove.EvalFalse:
		d := depth
		if j.kind == "pn" && j.maxDepth > 0 && j.maxDepth < d {
			d = j.maxDepth
		}
		if w, c := forcedWin(j.root, attacker, d, &budget); c && w {
			fail("disproven-but-won", l1, fmt.Sprintf("attacker %s wins by force within %d plies (exhaustive)", attStr(attacker), d))
		}
		j.stats["bounded_disproven_checked"]++
	}
}

// ---------- generation ----------

type c06graphSpec struct {
	cfg                     tak.Config
	playout, sampled, model int
	hunt                    int // extra oracle-only DFPN runs on shuffle-prone roots (a wall and a stack on the board)
}

func c06roots(r *rand.Rand, cfg tak.Config, n int, maxPlies int) []*tak.Position {
	var out []*tak.Position
	for len(out) < n {
		plies := 2 + r.Intn(maxPlies)
		ps, _ := randomGame(r, cfg, plies, -1, false)
		p := ps[len(ps)-1]
		if over, _ := p.GameOver(); over {
			if len(ps) < 2 {
				continue
			}
			p = ps[len(ps)-2]
			if r.Intn(3) == 0 && len(ps) >= 3 {
				p = ps[len(ps)-3]
			}
		}
		out = append(out, p)
	}
	return out
}

func (c *ctx) c06pnJob(root *tak.Position, g *retroGraph) *c06job {
	r := c.r
	j := &c06job{kind: "pn", root: root, g: g, modelOK: true}
	switch r.Intn(5) {
	case 0:
		j.maxNodes = 0
	case 1:
		j.maxNodes = uint64(5 + r.Intn(60))
	case 2:
		j.maxNodes = uint64(100 + r.Intn(2000))
	default:
		j.maxNodes = 20000
	}
	j.preserve = r.Intn(2) == 0
	if r.Intn(3) == 0 {
		j.maxDepth = 1 + r.Intn(8)
	}
	if r.Intn(4) == 0 {
		j.pn2 = true
	}
	return j
}

func (c *ctx) c06dfpnJob(root *tak.Position, g *retroGraph) *c06job {
	r := c.r
	j := &c06job{kind: "dfpn", root: root, g: g, modelOK: true}
	j.entries = []int{1, 2, 4, 8, 16, 64, 1024, 1 << 16}[r.Intn(8)]
	switch r.Intn(4) {
	case 0:
		j.attacker = tak.White
	case 1:
		j.attacker = tak.Black
	}
	return j
}

func runC06(c *ctx) {
	log.SetOutput(&c06log) // the PN search logs progress lines (dropped) and, with Debug > 2, one line per pn2 call (counted)
	log.SetFlags(0)
	switch c.tier {
	case "probe":
		c06probe(c)
		return
	case "replay":
		c06replay(c)
		return
	case "tpsseq": // runimpl C06 tpsseq <seed> <entries> <N|W|B> "<tps>" "<tps>" ...: one DFPN solver, the positions in a row
		j := &c06job{kind: "dfpnseq", modelOK: true}
		j.entries, _ = strconv.Atoi(c.args[0])
		switch c.args[1] {
		case "W":
			j.attacker = tak.White
		case "B":
			j.attacker = tak.Black
		}
		for _, t := range c.args[2:] {
			p, err := ptn.ParseTPS(t)
			if err != nil {
				fmt.Fprintln(os.Stderr, err)
				os.Exit(2)
			}
			j.seq = append(j.seq, p)
			j.seqG = append(j.seqG, nil)
		}
		j.root = j.seq[0]
		j.run()
		for _, l := range j.out {
			c.printf("%s\n", l)
		}
		c.printf("SAMPLE result: %s | %s\n", j.l1, j.l2)
		return
	case "tpscfg": // runimpl C06 tpscfg <seed> <pieces> <capstones> "<tps>" dfpn <entries> <N|W|B>: like tps, reserves of a custom configuration
		pieces, _ := strconv.Atoi(c.args[0])
		caps, _ := strconv.Atoi(c.args[1])
		q, err := ptn.ParseTPS(c.args[2])
		if err != nil {
			fmt.Fprintln(os.Stderr, err)
			os.Exit(2)
		}
		p, err := c06customTPS(tak.Config{Size: q.Size(), Pieces: pieces, Capstones: caps}, c.args[2])
		if err != nil {
			fmt.Fprintln(os.Stderr, err)
			os.Exit(2)
		}
		j, err := c06parse(c.args[3] + ";" + enc(p) + ";" + strings.Join(c.args[4:], " "))
		if err != nil {
			fmt.Fprintln(os.Stderr, err)
			os.Exit(2)
		}
		j.root = p
		j.bigModel = true
		c06single(c, j)
		return
	case "tps": // runimpl C06 tps <seed> "<tps>" pn <maxnodes> <preserve> <maxdepth> [pn2] | dfpn <entries> <N|W|B>
		p, err := ptn.ParseTPS(c.args[0])
		if err != nil {
			fmt.Fprintln(os.Stderr, err)
			os.Exit(2)
		}
		j, err := c06parse(c.args[1] + ";" + enc(p) + ";" + strings.Join(c.args[2:], " "))
		if err != nil {
			fmt.Fprintln(os.Stderr, err)
			os.Exit(2)
		}
		j.root = p // keep the reserves of the TPS configuration
		c06single(c, j)
		return
	}
	var jobs []*c06job
	// roots: playout = positions from random legal games, sampled = drawn from the solved graph itself;
	// model = how many of the roots (first the playout ones) are also given to the extracted model
	specs := []c06graphSpec{
		{tak.Config{Size: 3, Pieces: 3}, 500, 700, 150, 12000},
		{tak.Config{Size: 3, Pieces: 3, BlackWinsTies: true}, 200, 300, 50, 6000},
		{tak.Config{Size: 3, Pieces: 2, Capstones: 1}, 500, 700, 150, 12000},
		{tak.Config{Size: 3, Pieces: 2}, 60, 60, 40, 0},
		{tak.Config{Size: 4, Pieces: 2}, 200, 300, 100, 1000},
		{tak.Config{Size: 4, Pieces: 1, Capstones: 1}, 100, 100, 40, 0},
	}
	if !c.quick() {
		specs = append(specs,
			c06graphSpec{tak.Config{Size: 4, Pieces: 3}, 300, 500, 20, 3000},
			c06graphSpec{tak.Config{Size: 4, Pieces: 2, Capstones: 1}, 300, 500, 20, 3000},
			c06graphSpec{tak.Config{Size: 3, Pieces: 4}, 300, 500, 20, 6000},
		)
	}
	graphs := make([]*retroGraph, len(specs))
	var wg sync.WaitGroup
	t0 := time.Now()
	for i := range specs {
		wg.Add(1)
		go func(i int) {
			defer wg.Done()
			graphs[i] = buildRetro(tak.New(specs[i].cfg), 40000000, 37)
		}(i)
	}
	wg.Wait()
	for i, g := range graphs {
		if g == nil {
			fmt.Fprintf(os.Stderr, "c06: graph %d too large\n", i)
			os.Exit(3)
		}
		cf := specs[i].cfg
		c.stat(fmt.Sprintf("graph_%dx%d_p%d_c%d_bwt%d_positions", cf.Size, cf.Size, cf.Pieces, cf.Capstones, b2i(cf.BlackWinsTies)), int64(len(g.term)))
	}
	c.stat("graph_build_ms", int64(time.Since(t0)/time.Millisecond))
	for i, s := range specs {
		g := graphs[i]
		roots := c06roots(c.r, s.cfg, s.playout*c.scale, 12)
		for k := 0; k < s.sampled*c.scale && len(g.sample) > 0; k++ {
			roots = append(roots, g.sample[c.r.Intn(len(g.sample))])
		}
		c.stat("roots_playout", int64(s.playout*c.scale))
		c.stat("roots_sampled_from_graph", int64(len(roots)-s.playout*c.scale))
		for ri, root := range roots {
			model := ri < s.model*c.scale
			k := 1 + c.r.Intn(2)
			for x := 0; x < k; x++ {
				j := c.c06pnJob(root, g)
				j.modelOK = j.modelOK && model
				j.gi = i
				jobs = append(jobs, j)
			}
			k = 1 + c.r.Intn(2)
			for x := 0; x < k; x++ {
				j := c.c06dfpnJob(root, g)
				j.modelOK = j.modelOK && model
				j.gi = i
				jobs = append(jobs, j)
			}
		}
		// the hunt for a wrong verdict caused by repetition (graph-history interaction)
		var prone []*tak.Position
		for _, p := range g.sample {
			if p.Standing == 0 {
				continue
			}
			for _, h := range p.Height {
				if h >= 2 {
					prone = append(prone, p)
					break
				}
			}
		}
		for k := 0; k < s.hunt*c.scale && len(prone) > 0; k++ {
			root := prone[c.r.Intn(len(prone))]
			var j *c06job
			if k%4 == 3 {
				j = c.c06pnJob(root, g)
			} else {
				j = c.c06dfpnJob(root, g)
			}
			j.modelOK = j.modelOK && k%40 == 0
			j.hunt = true
			j.gi = i
			jobs = append(jobs, j)
			c.stat("hunt_runs", 1)
		}
		// the cyclic region of the graph (neither side can force the end of the game: the attacker can only
		// shuffle) and the positions just before it: here the repetition rule decides the verdict
		cyc, near := g.cyclicRoots(tak.New(s.cfg), 400*c.scale)
		c.stat("cyclic_region_roots", int64(len(cyc)))
		c.stat("near_cyclic_roots", int64(len(near)))
		for ri, root := range append(append([]*tak.Position{}, cyc...), near...) {
			for x := 0; x < 4; x++ {
				var j *c06job
				if x%2 == 0 {
					j = c.c06pnJob(root, g)
					if x == 0 {
						j.maxNodes, j.maxDepth, j.pn2 = 20000, 0, false
					}
				} else {
					j = c.c06dfpnJob(root, g)
				}
				j.modelOK = !j.pn2 && ri%8 == 0 && x < 2
				j.bigModel = ri%80 == 0
				j.hunt, j.gi = true, i
				jobs = append(jobs, j)
				c.stat("cyclic_hunt_runs", 1)
			}
		}
		// finished games as roots: the verdict must be the result of the game
		for k := 0; k < 30*c.scale && len(g.finished) > 0; k++ {
			root := g.finished[c.r.Intn(len(g.finished))]
			jp := c.c06pnJob(root, g)
			jd := c.c06dfpnJob(root, g)
			jp.modelOK = jp.modelOK && k < 10
			jd.modelOK = jd.modelOK && k < 10
			jp.gi, jd.gi = i, i
			jobs = append(jobs, jp, jd)
			c.stat("finished_root_runs", 2)
		}
	}

	// larger positions: default reserves, near the end of road races; one-sided oracle.
	// DFPN has no node limit, so it only gets positions with a short forced result.
	nbig := 60 * c.scale
	var bigSolved []*tak.Position // large positions with a short forced result: usable by DFPN (no node limit)
	for k := 0; k < nbig; {
		size := 4 + c.r.Intn(2)
		cfg := tak.Config{Size: size}
		var p *tak.Position
		if k%3 == 2 {
			// constructed around the capstone-in-the-gap pattern (5x5: capstones and walls present)
			p, _ = c06capPattern(c.r, 5, 0)
			if p == nil {
				continue
			}
			c.stat("big_constructed_capstone_pattern", 1)
		} else {
			ps, _ := randomGame(c.r, cfg, 6+c.r.Intn(14), []int{4, 2, 4}[c.r.Intn(3)], false)
			p = ps[len(ps)-1]
			if over, _ := p.GameOver(); over {
				if len(ps) < 4 {
					continue
				}
				p = ps[len(ps)-2-c.r.Intn(2)]
			}
		}
		if p.Caps != 0 {
			c.stat("big_with_capstone_on_board", 1)
		}
		b1, b2 := 300000, 600000
		w3, _ := forcedWin(p, p.ToMove(), 3, &b1)
		l4 := false
		if !w3 {
			l4, _ = forcedWin(p, p.ToMove().Flip(), 4, &b2)
		}
		if w3 || l4 {
			bigSolved = append(bigSolved, p)
		}
		var j *c06job
		if (w3 || l4) && c.r.Intn(3) != 0 {
			j = c.c06dfpnJob(p, nil)
			if j.entries < 1024 {
				j.entries = 1024
			}
			c.stat("big_dfpn", 1)
		} else {
			j = c.c06pnJob(p, nil)
			if j.maxNodes == 0 || j.maxNodes > 5000 {
				j.maxNodes = 5000
			}
			c.stat("big_pn", 1)
		}
		if w3 {
			c.stat("big_mover_wins_within_3", 1)
		} else if l4 {
			c.stat("big_mover_loses_within_4", 1)
		} else {
			c.stat("big_undecided_within_4", 1)
		}
		j.modelOK = false
		jobs = append(jobs, j)
		k++
	}
	// capstone-in-the-gap pattern (see c06capPattern) with one or two stones left: each root gets its own exactly
	// solved reachable graph
	ncap := 36 * c.scale
	capRoots := make([]*tak.Position, 0, ncap)
	for k := 0; k < ncap; k++ {
		size, left := 3, 1+c.r.Intn(2)
		if k%4 == 3 {
			size, left = 4, 1
		}
		if p, _ := c06capPattern(c.r, size, left); p != nil {
			capRoots = append(capRoots, p)
		}
	}
	capGraphs := make([]*retroGraph, len(capRoots))
	{
		var wg2 sync.WaitGroup
		sem := make(chan bool, 8)
		for i := range capRoots {
			wg2.Add(1)
			go func(i int) {
				defer wg2.Done()
				sem <- true
				capGraphs[i] = buildRetro(capRoots[i], 700000, 0)
				<-sem
			}(i)
		}
		wg2.Wait()
	}
	for i, root := range capRoots {
		g := capGraphs[i]
		if g == nil {
			c.stat("capstone_pattern_graph_too_large", 1)
			continue
		}
		c.stat("capstone_pattern_roots", 1)
		c.stat("capstone_pattern_graph_positions", int64(len(g.term)))
		for x := 0; x < 6; x++ {
			var j *c06job
			if x%3 == 2 {
				j = c.c06pnJob(root, g)
			} else {
				j = c.c06dfpnJob(root, g)
			}
			j.gi = -1
			jobs = append(jobs, j)
		}
	}

	// the same pattern on 3x3 with the default reserves (DFPN always comes back on 3x3): judged by exhaustive search
	// to the depth that the number of mid calls allows
	for k := 0; k < 150*c.scale; k++ {
		p, x := c06capPattern(c.r, 3, 0)
		if p == nil {
			continue
		}
		for v := 0; v < 3; v++ {
			j := c.c06dfpnJob(p, nil)
			switch v {
			case 0:
				j.attacker = x
			case 1:
				j.attacker = tak.NoColor
			}
			if j.entries < 1024 {
				j.entries = 1 << 16 // full-size 3x3 games: the search needs its table to come back in time
			}
			j.modelOK = v == 0 && k%2 == 0
			j.crossPN = true
			j.gi = -1
			jobs = append(jobs, j)
		}
		c.stat("capstone_pattern_3x3_default_roots", 1)
	}

	// one solver for a stream of positions: mixed sides to move and mixed board sizes
	pool := [][]*tak.Position{}
	poolG := [][]*retroGraph{}
	poolOneOff := map[int]bool{}
	for i, s := range specs {
		if i >= 6 {
			break
		}
		rs := c06roots(c.r, s.cfg, 40*c.scale, 10)
		gs := make([]*retroGraph, len(rs))
		for k := range gs {
			gs[k] = graphs[i]
		}
		pool = append(pool, rs)
		poolG = append(poolG, gs)
	}
	if len(bigSolved) > 0 {
		pool = append(pool, bigSolved)
		poolG = append(poolG, make([]*retroGraph, len(bigSolved)))
	}
	if len(capRoots) > 0 {
		var rs []*tak.Position
		var gs []*retroGraph
		for i, p := range capRoots {
			if capGraphs[i] != nil {
				rs = append(rs, p)
				gs = append(gs, capGraphs[i])
			}
		}
		if len(rs) > 0 {
			poolOneOff[len(pool)] = true
			pool = append(pool, rs)
			poolG = append(poolG, gs)
		}
	}
	for k := 0; k < 400*c.scale; k++ {
		n := 2 + c.r.Intn(3)
		j := &c06job{kind: "dfpnseq", modelOK: k%4 == 0}
		j.entries = []int{4, 64, 1024, 1 << 16}[c.r.Intn(4)]
		switch c.r.Intn(3) {
		case 0:
			j.attacker = tak.White
		case 1:
			j.attacker = tak.Black
		}
		// One game per board size within a stream: the table is keyed by Position.Hash, which covers the board and the
		// side to move but neither the reserves nor the tie rule, so positions of DIFFERENT games on the same board size
		// must not share a solver (the solver clears its table only when the size or the attacker changes).
		famOfSize := map[int]int{}
		oneOff := map[int]*tak.Position{} // families whose members each have their own reserves: one member per stream
		last := -1
		for x := 0; x < n; x++ {
			pi := c.r.Intn(len(pool))
			if pi == last {
				pi = (pi + 1 + c.r.Intn(len(pool)-1)) % len(pool) // neighbours in the stream come from different families
			}
			ri := c.r.Intn(len(pool[pi]))
			p := pool[pi][ri]
			if f, ok := famOfSize[p.Size()]; ok && f != pi {
				continue
			}
			if poolOneOff[pi] {
				if q, ok := oneOff[pi]; ok && q != p {
					continue
				}
				oneOff[pi] = p
			}
			famOfSize[p.Size()] = pi
			last = pi
			j.seq = append(j.seq, p)
			j.seqG = append(j.seqG, poolG[pi][ri])
		}
		if len(j.seq) < 2 {
			continue
		}
		j.root = j.seq[0]
		jobs = append(jobs, j)
	}

	// TWIN streams: one solver, two positions of the SAME game that differ only in the kind of one top piece (capstone
	// <-> wall), in both orders: anything the solver keeps per position besides the hash-keyed table (memoised threat
	// answers, killers, pooled positions) must not carry over from one twin to the other.
	twinStreams := 0
	for gi, g := range graphs {
		if specs[gi].cfg.Capstones == 0 || len(g.sample) == 0 {
			continue
		}
		tried := 0
		for twinStreams < 120*c.scale*(gi+1) && tried < 40000*c.scale {
			tried++
			p := g.sample[c.r.Intn(len(g.sample))]
			if p.Caps == 0 && p.Standing == 0 {
				continue
			}
			b := boardOf(p)
			var cand [][2]int
			for y := range b {
				for x := range b[y] {
					if len(b[y][x]) > 0 && b[y][x][0].Kind() != tak.Flat {
						cand = append(cand, [2]int{x, y})
					}
				}
			}
			if len(cand) == 0 {
				continue
			}
			sq := cand[c.r.Intn(len(cand))]
			top := b[sq[1]][sq[0]][0]
			nk := tak.Capstone
			if top.Kind() == tak.Capstone {
				nk = tak.Standing
			}
			b[sq[1]][sq[0]][0] = tak.MakePiece(top.Color(), nk)
			q, err := tak.FromSquares(specs[gi].cfg, b, p.MoveNumber())
			if err != nil || g.lookup(q) < 0 {
				continue // the twin is not a position of this game (reserves)
			}
			if over, _ := q.GameOver(); over {
				continue
			}
			j := &c06job{kind: "dfpnseq", modelOK: twinStreams%6 == 0}
			j.entries = []int{64, 1024, 1 << 16}[c.r.Intn(3)]
			switch c.r.Intn(3) {
			case 0:
				j.attacker = tak.White
			case 1:
				j.attacker = tak.Black
			}
			seqs := [][]*tak.Position{{p, q}, {q, p}, {p, q, p}, {q, p, q}}
			j.seq = seqs[c.r.Intn(len(seqs))]
			for range j.seq {
				j.seqG = append(j.seqG, g)
			}
			j.root = j.seq[0]
			jobs = append(jobs, j)
			twinStreams++
		}
	}
	c.stat("twin_streams", int64(twinStreams))

	// DESCENDANT streams: one solver with a FIXED attacker proves X and then a position one to three plies below X (nothing is
	// forgotten in between: same attacker, same size): entries and moves stored for the second root while it was an inner node
	// of the first search must not turn into its verdict or its move.
	descStreams := 0
	for gi, g := range graphs {
		if gi >= 6 || len(g.sample) == 0 {
			continue
		}
		for tries := 0; descStreams < 60*c.scale*(gi+1) && tries < 4000*c.scale; tries++ {
			x := g.sample[c.r.Intn(len(g.sample))]
			y := x
			plies := 1 + c.r.Intn(3)
			ok := true
			for k := 0; k < plies && ok; k++ {
				ms := y.AllMoves(nil)
				q, err := y.Move(ms[c.r.Intn(len(ms))])
				if err != nil {
					ok = false
					break
				}
				if over, _ := q.GameOver(); over {
					ok = false
					break
				}
				y = q
			}
			if !ok || y == x {
				continue
			}
			j := &c06job{kind: "dfpnseq", modelOK: descStreams%5 == 0}
			j.entries = []int{64, 1024, 1 << 16}[c.r.Intn(3)]
			j.attacker = x.ToMove()
			if c.r.Intn(4) == 0 {
				j.attacker = j.attacker.Flip()
			}
			j.seq = []*tak.Position{x, y}
			if c.r.Intn(3) == 0 {
				j.seq = append(j.seq, x)
			}
			for range j.seq {
				j.seqG = append(j.seqG, g)
			}
			j.root = x
			jobs = append(jobs, j)
			descStreams++
		}
	}
	c.stat("descendant_streams", int64(descStreams))

	// ANCESTOR streams with the DEFAULT attacker (the side to move of each root): one solver proves a position Y and then a
	// position X one or three plies ABOVE it, so the attacker changes between the calls and whatever the solver kept about Y
	// (its root entry included) was computed for the other attacker; also Y, X, Y, X.  A draw below X must not turn into a win.
	ancStreams := 0
	for gi, g := range graphs {
		if gi >= 6 || len(g.sample) == 0 {
			continue
		}
		for tries := 0; ancStreams < 50*c.scale*(gi+1) && tries < 4000*c.scale; tries++ {
			x := g.sample[c.r.Intn(len(g.sample))]
			y := x
			plies := []int{1, 1, 3}[c.r.Intn(3)]
			ok := true
			for k := 0; k < plies && ok; k++ {
				ms := y.AllMoves(nil)
				q, err := y.Move(ms[c.r.Intn(len(ms))])
				if err != nil {
					ok = false
					break
				}
				if over, _ := q.GameOver(); over {
					ok = false
					break
				}
				y = q
			}
			if !ok || y == x {
				continue
			}
			j := &c06job{kind: "dfpnseq", modelOK: ancStreams%6 == 0}
			j.entries = []int{64, 1024, 1 << 16}[c.r.Intn(3)]
			j.attacker = tak.NoColor
			j.seq = []*tak.Position{y, x}
			if c.r.Intn(2) == 0 {
				j.seq = []*tak.Position{y, x, y, x}
			}
			for range j.seq {
				j.seqG = append(j.seqG, g)
			}
			j.root = y
			jobs = append(jobs, j)
			ancStreams++
		}
	}
	c.stat("ancestor_streams_default_attacker", int64(ancStreams))

	// LONG-LIVED solver: a search, then hundreds of calls that each force the solver to forget its storage (finished
	// games of another board size with alternating sides to move: nothing is searched, but attacker or size differ from
	// the previous call every time), then a search of a neighbouring position of the first game with the other attacker.
	// The number of forgotten generations in between straddles 256 and 512: whatever stands in for "wipe the table"
	// must not let entries of an earlier generation come back.
	longStreams := 0
	if len(graphs) > 4 && len(graphs[4].finished) > 0 {
		var finW, finB []*tak.Position
		for _, f := range graphs[4].finished {
			if f.ToMove() == tak.White {
				finW = append(finW, f)
			} else {
				finB = append(finB, f)
			}
		}
		for _, gi := range []int{0, 2} {
			g := graphs[gi]
			if len(g.sample) == 0 || len(finW) == 0 || len(finB) == 0 {
				continue
			}
			pairs := 0
			for tries := 0; pairs < 4*c.scale && tries < 20000; tries++ {
				par := g.sample[c.r.Intn(len(g.sample))]
				ms := par.AllMoves(nil)
				ch, err := par.Move(ms[c.r.Intn(len(ms))])
				if err != nil {
					continue
				}
				if over, _ := ch.GameOver(); over {
					continue
				}
				// undecided for both sides at both positions: every stored bound is a "no win", which means the opposite for
				// the other attacker
				if tries < 10000 {
					wW, _, _ := g.wins(par, tak.White)
					wB, _, _ := g.wins(par, tak.Black)
					cW, _, _ := g.wins(ch, tak.White)
					cB, _, _ := g.wins(ch, tak.Black)
					if wW || wB || cW || cB {
						continue
					}
				}
				pairs++
				for _, gap := range []int{253, 254, 255, 256, 257, 509, 510, 511, 512, 513} {
					for order := 0; order < 2; order++ {
						first, second := ch, par
						if order == 1 {
							first, second = par, ch
						}
						j := &c06job{kind: "dfpnseq", modelOK: longStreams%20 == 0}
						j.entries = 1024
						j.seq = append(j.seq, first)
						j.seqG = append(j.seqG, g)
						for k := 0; k < gap; k++ {
							f := finW[c.r.Intn(len(finW))]
							if k%2 == 1 {
								f = finB[c.r.Intn(len(finB))]
							}
							j.seq = append(j.seq, f)
							j.seqG = append(j.seqG, graphs[4])
						}
						j.seq = append(j.seq, second)
						j.seqG = append(j.seqG, g)
						j.root = j.seq[0]
						jobs = append(jobs, j)
						longStreams++
					}
				}
			}
		}
	}
	c.stat("long_lived_solver_streams", int64(longStreams))

	// replay of the finding "a reused solver answers `disproven` for a won position": two calls on one solver, 3x3 with
	// 3 stones + capstone; the first call meets repetitions, the second used to hit a bound that rested on a repetition
	// cut of the first (notes/c06_ghi/poison_p3c1.out.txt lists 38 such sequences with their oracle distances)
	knownSeqs := 0
	for _, k := range c06knownSeqs {
		j := &c06job{kind: "dfpnseq", modelOK: false, entries: k.entries, attacker: k.att}
		for i, t := range []string{k.first, k.second} {
			p, err := c06customTPS(tak.Config{Size: 3, Pieces: 3, Capstones: 1}, t)
			if err != nil {
				panic(err)
			}
			j.seq = append(j.seq, p)
			j.seqG = append(j.seqG, nil)
			j.seqWon = append(j.seqWon, []int{k.dist1, k.dist2}[i])
		}
		j.root = j.seq[0]
		jobs = append(jobs, j)
		knownSeqs++
	}
	c.stat("known_finding_sequences", int64(knownSeqs))

	// the neighbourhood of that finding: 3x3 with 3 stones + capstone, one solver (attacker of the known sequence, large table)
	// proves a first root that meets repetitions and then positions one and two plies around the known second roots and
	// around the first root; no exact oracle in the quick tier (3.7e7 positions), the reused solver is compared with a fresh one
	neighbourStreams := 0
	for ki, k := range c06knownSeqs {
		if ki%3 != 0 {
			continue
		}
		cfg := tak.Config{Size: 3, Pieces: 3, Capstones: 1}
		first, _ := c06customTPS(cfg, k.first)
		second, _ := c06customTPS(cfg, k.second)
		seen := map[string]bool{retroKey(first): true}
		var near []*tak.Position
		frontier := []*tak.Position{second, first}
		for d := 0; d < 2; d++ {
			var next []*tak.Position
			for _, p := range frontier {
				var buf [256]tak.Move
				for _, m := range p.AllMoves(buf[:0]) {
					q, err := p.Move(m)
					if err != nil {
						continue
					}
					if over, _ := q.GameOver(); over || seen[retroKey(q)] {
						continue
					}
					seen[retroKey(q)] = true
					next = append(next, q)
				}
			}
			near = append(near, next...)
			frontier = next
		}
		c.r.Shuffle(len(near), func(a, b int) { near[a], near[b] = near[b], near[a] })
		if len(near) > 24 {
			near = near[:24]
		}
		j := &c06job{kind: "dfpnseq", modelOK: false, entries: k.entries, attacker: k.att, crossFresh: true}
		j.seq = append(j.seq, first)
		j.seqG = append(j.seqG, nil)
		for _, q := range near {
			j.seq = append(j.seq, q)
			j.seqG = append(j.seqG, nil)
		}
		j.root = j.seq[0]
		jobs = append(jobs, j)
		neighbourStreams++
	}
	c.stat("known_finding_neighbour_streams", int64(neighbourStreams))

	// thorough tier: ONE long DFPN run that meets repetitions is compared with the model (about 8 minutes of model time): the
	// quick budget admits no run with Repetition > 0 (the cheapest one on 3x3 with 2 stones + capstone needs 15362 calls of mid),
	// so this is where the repetition branch of Dfpn.v - and the rule "bounds resting on a repetition cut are not stored" -
	// is tied to the code (the unrepaired solver needs 81406 calls on this root, the repaired one 15362)
	if !c.quick() || os.Getenv("C06_BIG_REP_CASE") != "" {
		if p, err := c06customTPS(tak.Config{Size: 3, Pieces: 2, Capstones: 1}, "11S,2,x/x3/x3 2 3"); err == nil {
			jobs = append(jobs, &c06job{kind: "dfpn", root: p, entries: 16, attacker: tak.Black, modelOK: true, forceModel: true})
			c.stat("long_model_runs_with_repetition", 1)
		}
		// the cheapest run with a repetition found on 3x3 with 2 stones + capstone (all 99964 live positions x attacker W/B/unset x
		// tables 1..65536): 3899 calls of mid, 73 s of model time - still beyond the quick budget
		if p, err := c06customTPS(tak.Config{Size: 3, Pieces: 2, Capstones: 1}, "x3/x3/x,22S,1 1 4"); err == nil {
			jobs = append(jobs, &c06job{kind: "dfpn", root: p, entries: 1024, attacker: tak.White, modelOK: true, forceModel: true})
			c.stat("long_model_runs_with_repetition", 1)
		}
	}

	c06runJobs(c, jobs)

	// follow-up: the roots on which a DFPN run met a threefold repetition are searched again by PN and DFPN in
	// model-comparable configurations, so that the repetition code of both solvers is part of the tie
	var again []*c06job
	seen := map[string]bool{}
	for _, j := range jobs {
		if j.rep == 0 || j.g == nil || len(seen) >= 6*c.scale {
			continue
		}
		k := retroKey(j.root)
		if seen[k] {
			continue
		}
		seen[k] = true
		for _, f := range []*c06job{
			{kind: "pn", maxNodes: 20000},
			{kind: "pn", maxNodes: 400, preserve: true},
			{kind: "pn", maxNodes: 20000, maxDepth: 7},
			{kind: "dfpn", entries: 1024},
			{kind: "dfpn", entries: 4},
		} {
			f.root, f.g, f.gi, f.modelOK, f.bigModel, f.hunt = j.root, j.g, j.gi, true, true, true
			if f.kind == "pn" && len(seen) > 2*c.scale {
				f.bigModel = false // thousands of expansions cost the model tens of seconds: two such roots per scale unit
			}
			again = append(again, f)
		}
	}
	// directed roots (kept from earlier runs): searches that are known to meet threefold repetitions
	for _, d := range []struct {
		gi  int
		tps string
	}{{2, "x3/x3/x,11S,2 2 3"}, {2, "x,11S,x/x,2,x/x3 2 4"}} {
		q, err := ptn.ParseTPS(d.tps)
		if err != nil || specs[d.gi].cfg.Size != q.Size() {
			continue
		}
		p, err := tak.FromSquares(specs[d.gi].cfg, boardOf(q), q.MoveNumber())
		if err != nil || seen[retroKey(p)] {
			continue
		}
		seen[retroKey(p)] = true
		for fi, f := range []*c06job{
			{kind: "pn", maxNodes: 20000},
			{kind: "pn", maxNodes: 20000, maxDepth: 9},
			{kind: "dfpn", entries: 1024},
			{kind: "dfpn", entries: 4},
			{kind: "pn", maxNodes: 20000, preserve: true},
		} {
			f.root, f.g, f.gi, f.modelOK, f.bigModel, f.hunt = p, graphs[d.gi], d.gi, true, true, true
			if fi == 4 && c.quick() {
				f.modelOK = false // the second copy of the most expensive model case: thorough only
			}
			again = append(again, f)
		}
		c.stat("directed_repetition_roots", 1)
	}
	// the same for PN: roots on which the PN search itself meets repetitions (found by inspecting the final tree)
	pnRoots := 0
	for i, g := range graphs {
		if specs[i].cfg.Size != 3 || specs[i].hunt == 0 {
			continue
		}
		tried := 0
		for _, p := range g.sample {
			if pnRoots >= 2*c.scale || tried >= 3000*c.scale {
				break
			}
			if p.Standing == 0 {
				continue
			}
			tried++
			if seen[retroKey(p)] {
				continue
			}
			n, exp, _ := c06pnRepLeaves(p, 20000)
			if n == 0 || exp > 10*c06MaxModelExpanded*2 {
				continue
			}
			pnRoots++
			for _, f := range []*c06job{
				{kind: "pn", maxNodes: 20000},
				{kind: "pn", maxNodes: 20000, preserve: true},
			} {
				f.root, f.g, f.gi, f.modelOK, f.bigModel, f.hunt = p, g, i, true, true, true
				again = append(again, f)
			}
		}
	}
	c.stat("pn_roots_with_repetition_leaves", int64(pnRoots))
	c.stat("followup_runs_on_repetition_roots", int64(len(again)))
	c06runJobs(c, again)

	// PN-squared where the second level really starts: the first-level counter Stats.Nodes must exceed pn2Threshold = 1000,
	// which the searches from the roots above rarely do (they are solved earlier).  Roots within the first plies of the
	// 3x3 games (exactly solved graphs), node limits that give every kind of second-level limit: none at the first level
	// (limit = Live), small (limit close to Live), large (limit = Live^2/MaxNodes small or 0 = unlimited second level).
	var second []*c06job
	tScreen := time.Now()
	sc := c.scale // the screening runs one at a time (the log): the thorough tier gets 6 times the quick numbers, not 20
	if sc > 6 {
		sc = 6
	}
	for i, s := range specs {
		if s.cfg.Size != 3 {
			continue
		}
		// candidates are screened by a run of the solver itself: kept when the second level starts and the run is within
		// the model budget (the screening only selects inputs; the kept ones are run again and judged like every other run)
		kept, tries := 0, 0
		seenIn := map[string]bool{}
		for kept < 14*sc && tries < 250*sc {
			tries++
			p := tak.New(s.cfg)
			for x, plies := 0, c.r.Intn(6); x < plies; x++ {
				legal := legalMoves(p)
				if len(legal) == 0 {
					break
				}
				q, err := p.Move(legal[c.r.Intn(len(legal))])
				if err != nil {
					break
				}
				if over, _ := q.GameOver(); over {
					break
				}
				p = q
			}
			j := &c06job{kind: "pn", root: p, g: graphs[i], gi: i, pn2: true, modelOK: true}
			switch c.r.Intn(6) {
			case 0:
				j.maxNodes = 0
			case 1:
				j.maxNodes = uint64(2000 + c.r.Intn(3000))
			case 2:
				j.maxNodes = uint64(5000 + c.r.Intn(30000))
			case 3:
				j.maxNodes = uint64(100000 + c.r.Intn(400000))
			case 4:
				j.maxNodes = uint64(2050 + c.r.Intn(300)) // first-level limit (half of it) just above the threshold
			default:
				j.maxNodes = 5000000
			}
			j.preserve = c.r.Intn(2) == 0
			if c.r.Intn(3) == 0 {
				j.maxDepth = 3 + c.r.Intn(8)
			}
			if seenIn[j.input()] {
				continue
			}
			seenIn[j.input()] = true
			calls, searched, expanded := c06pn2Screen(j)
			if calls == 0 || searched > c06MaxModelSearched || expanded > 10*c06MaxModelExpanded {
				continue
			}
			kept++
			second = append(second, j)
			c.stat("pn2_early_root_runs", 1)
			c.stat(fmt.Sprintf("pn2_early_root_runs_move_%d", p.MoveNumber()), 1)
		}
		c.stat("pn2_early_root_candidates", int64(tries))
	}
	c.stat("pn2_screen_early_ms", int64(time.Since(tScreen)/time.Millisecond))
	// larger boards with the default reserves (one-sided oracle): ~30 children per node, so the threshold is passed after
	// a few dozen expansions and the rest of the node budget is spent in second-level searches with real limits; most
	// of these runs end `unknown`, what is compared are the numbers and counters.  The first-level limit must stay small:
	// MaxNodes above 2*Live^2 means second-level searches WITHOUT a limit, which do not come back on these boards.
	for kept, tries := 0, 0; kept < 40*sc && tries < 400*sc; tries++ {
		size := 4 + c.r.Intn(2)
		ps, _ := randomGame(c.r, tak.Config{Size: size}, 2+c.r.Intn(16), []int{4, 2, 4, -1}[c.r.Intn(4)], false)
		p := ps[len(ps)-1]
		if over, _ := p.GameOver(); over {
			continue
		}
		j := &c06job{kind: "pn", root: p, gi: -1, pn2: true, modelOK: true}
		switch c.r.Intn(3) {
		case 0:
			j.maxNodes = uint64(2020 + c.r.Intn(400))
		case 1:
			j.maxNodes = uint64(2400 + c.r.Intn(4000))
		default:
			j.maxNodes = uint64(6000 + c.r.Intn(4000))
		}
		j.preserve = c.r.Intn(2) == 0
		if c.r.Intn(3) == 0 {
			j.maxDepth = 2 + c.r.Intn(6)
		}
		c.stat("pn2_big_board_candidates", 1)
		calls, searched, expanded := c06pn2Screen(j)
		if calls == 0 || searched > c06MaxModelSearched/4 || expanded > c06MaxModelExpanded {
			continue
		}
		kept++
		second = append(second, j)
		c.stat("pn2_big_board_runs", 1)
		c.stat(fmt.Sprintf("pn2_big_board_runs_size_%d", size), 1)
	}
	c.stat("pn2_screen_ms", int64(time.Since(tScreen)/time.Millisecond))
	c06runJobs(c, second)
}

func c06runJobs(c *ctx, jobs []*c06job) {
	t0 := time.Now()
	if os.Getenv("C06_TIMING") != "" {
		for _, j := range jobs {
			done := make(chan bool, 1)
			t := time.Now()
			go func(j *c06job) { j.run(); done <- true }(j)
			select {
			case <-done:
				if d := time.Since(t); d > 300*time.Millisecond {
					fmt.Fprintf(os.Stderr, "SLOW %v size %d move %d %s\n", d, j.root.Size(), j.root.MoveNumber(), j.input()[len(j.input())-20:])
				}
			case <-time.After(3 * time.Second):
				fmt.Fprintf(os.Stderr, "TIMEOUT size %d move %d gi %d %s pn2=%v\n", j.root.Size(), j.root.MoveNumber(), j.gi, j.input()[len(j.input())-20:], j.pn2)
			}
		}
		return
	}
	var wg sync.WaitGroup
	ch := make(chan *c06job, len(jobs))
	for _, j := range jobs {
		ch <- j
	}
	close(ch)
	const workers = 12
	var current [workers]atomic.Value // the job a worker is busy with
	for w := 0; w < workers; w++ {
		wg.Add(1)
		go func(w int) {
			defer wg.Done()
			for j := range ch {
				current[w].Store(j)
				j.run()
				atomic.StoreInt32(&j.done, 1)
			}
			current[w].Store((*c06job)(nil))
		}(w)
	}
	// A solver that does not come back is a failure too (DFPN has no node limit): after the time
	// budget the runs still in flight are reported and everything not started is dropped.
	budget := 150 * time.Second
	if !c.quick() {
		budget = 45 * time.Minute
	}
	finished := make(chan bool)
	go func() { wg.Wait(); close(finished) }()
	select {
	case <-finished:
	case <-time.After(budget):
		var kept []*c06job
		for _, j := range jobs {
			if atomic.LoadInt32(&j.done) == 1 {
				kept = append(kept, j)
			}
		}
		for w := 0; w < workers; w++ {
			if j, _ := current[w].Load().(*c06job); j != nil && atomic.LoadInt32(&j.done) == 0 {
				c.printf("ORACLE-FAIL solver-no-result | %s | no result within the time budget of the whole run (%v) | a verdict\n", j.input(), budget)
			}
		}
		c.stat("runs_dropped_after_timeout", int64(len(jobs)-len(kept)))
		jobs = kept
	}
	samples := 0
	for _, j := range jobs {
		for _, l := range j.out {
			c.printf("%s\n", l)
			if samples < 6 && strings.HasPrefix(l, "CASE ") && c.r.Intn(20) == 0 {
				samples++
				fs := strings.Split(l[5:], " | ")
				in := strings.Split(fs[0], ";")
				c.printf("SAMPLE %s size %s cfg [%s] -> %s ; numbers %s\n", in[0], strings.SplitN(in[1], " ", 2)[0], in[2], fs[1], fs[2])
			}
		}
		for k, v := range j.stats {
			c.stat(k, v)
		}
		c.stat("runs_"+j.kind, 1)
		if j.pn2 {
			c.stat("runs_pn2", 1)
		}
		if j.kind == "dfpn" {
			c.stat(fmt.Sprintf("dfpn_table_%d", j.entries), 1)
			c.stat("dfpn_attacker_"+attStr(j.attacker), 1)
		}
		c.stat(fmt.Sprintf("root_size_%d", j.root.Size()), 1)
	}
	c.stat("solver_ms", int64(time.Since(t0)/time.Millisecond))
}

// c06capPattern builds a position around the pattern "a road of X is one square short, that square holds a capstone
// (own or enemy), and X has a flat-topped stack next to it that could step onto it if it were not a capstone" -
// CountThreats must not report that step as a winning threat.  left > 0: the reserves are set to `left` stones each and
// no capstones (small reachable graph); left = 0: default reserves minus what is on the board.
func c06capPattern(r *rand.Rand, size int, left int) (*tak.Position, tak.Color) {
	for try := 0; try < 50; try++ {
		board := make([][]tak.Square, size)
		for y := range board {
			board[y] = make([]tak.Square, size)
		}
		x := tak.White
		if r.Intn(2) == 0 {
			x = tak.Black
		}
		o := x.Flip()
		horizontal := r.Intn(2) == 0
		line := r.Intn(size)
		gap := r.Intn(size)
		at := func(i int) (int, int) { // i-th square of the line -> (col, row)
			if horizontal {
				return i, line
			}
			return line, i
		}
		for i := 0; i < size; i++ {
			cx, cy := at(i)
			if i == gap {
				capCol := x
				if r.Intn(2) == 0 {
					capCol = o
				}
				sq := tak.Square{tak.MakePiece(capCol, tak.Capstone)}
				if r.Intn(3) == 0 && (left == 0 || size > 3) {
					sq = append(sq, tak.MakePiece([]tak.Color{x, o}[r.Intn(2)], tak.Flat))
				}
				board[cy][cx] = sq
			} else {
				sq := tak.Square{tak.MakePiece(x, tak.Flat)}
				if r.Intn(5) == 0 && left == 0 {
					sq = append(sq, tak.MakePiece(o, tak.Flat))
				}
				board[cy][cx] = sq
			}
		}
		// the neighbour of the gap off the line
		gx, gy := at(gap)
		nx, ny := gx, gy
		d := 1
		if r.Intn(2) == 0 {
			d = -1
		}
		if horizontal {
			ny += d
			if ny < 0 || ny >= size {
				ny = gy - d
			}
		} else {
			nx += d
			if nx < 0 || nx >= size {
				nx = gx - d
			}
		}
		nsq := tak.Square{tak.MakePiece(x, tak.Flat)}
		if r.Intn(3) == 0 && left != 1 {
			nsq = append(nsq, tak.MakePiece([]tak.Color{x, o}[r.Intn(2)], tak.Flat))
		}
		board[ny][nx] = nsq
		// a few more pieces elsewhere
		extra := r.Intn(3)
		if left > 0 && size == 3 {
			extra = r.Intn(2)
		}
		if size >= 5 {
			extra = 2 + r.Intn(8)
		}
		for k := 0; k < extra; k++ {
			ex, ey := r.Intn(size), r.Intn(size)
			if len(board[ey][ex]) != 0 {
				continue
			}
			col := []tak.Color{x, o}[r.Intn(2)]
			kind := tak.Flat
			if r.Intn(3) == 0 {
				kind = tak.Standing
			}
			board[ey][ex] = tak.Square{tak.MakePiece(col, kind)}
		}
		mover := o // mostly the opponent moves first: the pattern is then met in the children of the root
		if r.Intn(3) == 0 {
			mover = x
		}
		ply := 10 + 2*r.Intn(6)
		if mover == tak.Black {
			ply++
		}
		cfg := tak.Config{Size: size}
		if left > 0 {
			cfg.Pieces, cfg.Capstones = 60, 3
		} else if size == 3 {
			cfg.Pieces, cfg.Capstones = 5+r.Intn(2), 1 // the default 3x3 game has no capstone; 10 stones make DFPN slow
		} else if size == 4 {
			cfg.Capstones = 1
		}
		p, err := tak.FromSquares(cfg, board, ply)
		if err != nil {
			continue
		}
		if left > 0 {
			tak.VerifSetRaw(p, byte(left), 0, byte(1+r.Intn(left)), 0, ply)
		} else {
			ws, wc, bs, bc := tak.VerifReserves(p)
			if int(ws)+int(wc) == 0 || int(bs)+int(bc) == 0 || ws > 50 || bs > 50 || wc > 2 || bc > 2 {
				continue
			}
		}
		if over, _ := p.GameOver(); over {
			continue
		}
		return p, x
	}
	return nil, tak.NoColor
}

// ---------- replay / probe ----------

// c06parse rebuilds a job from the input field of a CASE / ORACLE-FAIL line.
func c06parse(in string) (*c06job, error) {
	fs := strings.Split(in, ";")
	if len(fs) != 3 {
		return nil, fmt.Errorf("bad input")
	}
	p, err := decPosition(strings.TrimSpace(fs[1]))
	if err != nil {
		return nil, err
	}
	w := strings.Fields(fs[2])
	j := &c06job{kind: strings.TrimSpace(fs[0]), root: p}
	if j.kind == "pn" {
		mn, _ := strconv.ParseUint(w[0], 10, 64)
		j.maxNodes = mn
		j.preserve = w[1] == "1"
		j.maxDepth, _ = strconv.Atoi(w[2])
		j.pn2 = len(w) > 3 && w[3] == "pn2"
	} else {
		j.entries, _ = strconv.Atoi(w[0])
		switch w[1] {
		case "W":
			j.attacker = tak.White
		case "B":
			j.attacker = tak.Black
		}
	}
	return j, nil
}

// decPosition: inverse of enc (common.go) through FromSquares.
func decPosition(s string) (*tak.Position, error) {
	w := strings.Fields(s)
	if len(w) != 14 {
		return nil, fmt.Errorf("bad position")
	}
	u := func(i int) uint64 { v, _ := strconv.ParseUint(w[i], 10, 64); return v }
	size := int(u(0))
	white, black, standing, caps := u(7), u(8), u(9), u(10)
	hs := strings.Split(w[11], ",")
	ss := strings.Split(w[12], ",")
	board := make([][]tak.Square, size)
	wst, wcp := int(u(2)), int(u(3))
	for y := 0; y < size; y++ {
		board[y] = make([]tak.Square, size)
		for x := 0; x < size; x++ {
			i := uint(x + y*size)
			h, _ := strconv.Atoi(hs[i])
			if h == 0 {
				continue
			}
			st, _ := strconv.ParseUint(ss[i], 10, 64)
			sq := make(tak.Square, h)
			col := tak.White
			if black&(1<<i) != 0 {
				col = tak.Black
			}
			kind := tak.Flat
			if standing&(1<<i) != 0 {
				kind = tak.Standing
			} else if caps&(1<<i) != 0 {
				kind = tak.Capstone
			}
			sq[0] = tak.MakePiece(col, kind)
			if col == tak.White {
				if kind == tak.Capstone {
					wcp++
				} else {
					wst++
				}
			}
			for k := 1; k < h; k++ {
				cc := tak.White
				if st&(1<<uint(k-1)) != 0 {
					cc = tak.Black
				} else {
					wst++
				}
				sq[k] = tak.MakePiece(cc, tak.Flat)
			}
			board[y][x] = sq
		}
	}
	_ = white
	_, _ = wst, wcp
	mv, _ := strconv.Atoi(w[6])
	p, err := tak.FromSquares(tak.Config{Size: size, Pieces: 60, Capstones: 3, BlackWinsTies: w[1] == "1"}, board, mv)
	if err != nil {
		return nil, err
	}
	tak.VerifSetRaw(p, byte(u(2)), byte(u(3)), byte(u(4)), byte(u(5)), mv)
	if enc(p) != strings.Join(w, " ") {
		return nil, fmt.Errorf("position does not round-trip: %s", enc(p))
	}
	return p, nil
}

func c06replay(c *ctx) {
	if len(c.args) < 1 {
		fmt.Fprintln(os.Stderr, "replay file needed")
		os.Exit(2)
	}
	raw, err := os.ReadFile(c.args[0])
	if err != nil {
		fmt.Fprintln(os.Stderr, err)
		os.Exit(2)
	}
	var data struct {
		Input string `json:"input"`
	}
	if err := json.Unmarshal(raw, &data); err != nil {
		fmt.Fprintln(os.Stderr, err)
		os.Exit(2)
	}
	j, err := c06parse(data.Input)
	if err != nil {
		fmt.Fprintln(os.Stderr, "cannot parse replay input:", err)
		os.Exit(2)
	}
	c06single(c, j)
}

func c06single(c *ctx, j *c06job) {
	// solve the graph reachable from this root alone when it is small enough
	j.g = buildRetro(j.root, 6000000, 0)
	j.modelOK = true
	j.run()
	for _, l := range j.out {
		c.printf("%s\n", l)
	}
	c.printf("SAMPLE result: %s | %s\n", j.l1, j.l2)
	if j.g != nil {
		for a, nm := range []string{"White", "Black"} {
			c.printf("SAMPLE truth: attacker %s least winning bound %d (-1 = no forced win); graph of %d positions\n", nm, j.g.dist[a][0], len(j.g.term))
		}
	}
}

// c06pnRepLeaves runs PN with PreserveSolved and counts the leaves of the final tree that were evaluated as not won
// although the game is not over there (depth unlimited): those are the threefold repetitions the search met.
func c06pnRepLeaves(p *tak.Position, maxNodes uint64) (int, uint64, prove.Evaluation) {
	pr := prove.New(prove.Config{MaxNodes: maxNodes, PreserveSolved: true})
	r, st := pr.Prove(context.Background(), p)
	var buf bytes.Buffer
	pr.DumpTree(&buf)
	dec := xml.NewDecoder(&buf)
	type frame struct {
		pos      *tak.Position
		value    string
		children bool
	}
	var stack []frame
	count := 0
	for {
		tok, err := dec.Token()
		if err != nil {
			break
		}
		switch t := tok.(type) {
		case xml.StartElement:
			if t.Name.Local == "Node" {
				var mv, val string
				for _, a := range t.Attr {
					switch a.Name.Local {
					case "Move":
						mv = a.Value
					case "Value":
						val = a.Value
					}
				}
				var pos *tak.Position
				if len(stack) == 0 {
					pos = p
				} else if par := stack[len(stack)-1].pos; par != nil {
					if m, e := ptn.ParseMove(mv); e == nil {
						pos, _ = par.Move(m)
					}
				}
				stack = append(stack, frame{pos: pos, value: val})
			} else if t.Name.Local == "Children" && len(stack) > 0 {
				stack[len(stack)-1].children = true
			}
		case xml.EndElement:
			if t.Name.Local == "Node" {
				f := stack[len(stack)-1]
				stack = stack[:len(stack)-1]
				if !f.children && f.value == "disproven" && f.pos != nil {
					if over, _ := f.pos.GameOver(); !over {
						count++
					}
				}
			}
		}
	}
	return count, st.Expanded, r.Result
}

func c06probe(c *ctx) {
	if c.args[0] == "pnrep" {
		cfg := tak.Config{Size: 3, Pieces: 3}
		if len(c.args) > 1 && c.args[1] == "c" {
			cfg = tak.Config{Size: 3, Pieces: 2, Capstones: 1}
		}
		g := buildRetro(tak.New(cfg), 40000000, 37)
		found := 0
		tried := 0
		defer func() { fmt.Fprintf(os.Stderr, "tried %d of %d samples\n", tried, len(g.sample)) }()
		for k := 0; k < len(g.sample) && found < 15; k++ {
			p := g.sample[k]
			if p.Standing == 0 {
				continue
			}
			tried++
			n, exp, res := c06pnRepLeaves(p, 20000)
			if n > 0 {
				found++
				fmt.Fprintf(os.Stderr, "%s : %d repetition leaves, expanded %d, %s\n", ptn.FormatTPS(p), n, exp, verdictStr(res))
			}
		}
		return
	}
	if c.args[0] == "hard" {
		sz, _ := strconv.Atoi(c.args[1])
		pc, _ := strconv.Atoi(c.args[2])
		cp, _ := strconv.Atoi(c.args[3])
		cfg := tak.Config{Size: sz, Pieces: pc, Capstones: cp}
		for k := 0; k < 10; k++ {
			ps, _ := randomGame(c.r, cfg, k/2, -1, false)
			p := ps[len(ps)-1]
			for _, a := range []tak.Color{tak.White, tak.Black} {
				for _, e := range []int{4, 1024, 1 << 16} {
					t0 := time.Now()
					d := prove.NewDFPN(&prove.DFPNConfig{Attacker: a, TableMem: int64(e) * c06EntrySize})
					r, st := d.Prove(p)
					fmt.Fprintf(os.Stderr, "ply %d att %s entries %d: %s work %d rep %d hits %d miss %d  %v\n", p.MoveNumber(), attStr(a), e, verdictStr(r.Result), st.Work, st.Repetition, st.Hits, st.Miss, time.Since(t0))
				}
			}
		}
		return
	}
	if c.args[0] == "late" {
		size, _ := strconv.Atoi(c.args[1])
		left, _ := strconv.Atoi(c.args[2])
		pcs := 0
		if len(c.args) > 3 {
			pcs, _ = strconv.Atoi(c.args[3])
		}
		for k := 0; k < 12; k++ {
			ps, _ := randomGame(c.r, tak.Config{Size: size, Pieces: pcs}, 200, c.r.Intn(6), false)
			var p *tak.Position
			for _, q := range ps {
				ws, wc, bs, bc := tak.VerifReserves(q)
				if over, _ := q.GameOver(); !over && int(ws)+int(wc) <= left && int(bs)+int(bc) <= left {
					p = q
					break
				}
			}
			if p == nil {
				continue
			}
			t0 := time.Now()
			g := buildRetro(p, 3000000, 0)
			if g == nil {
				fmt.Fprintf(os.Stderr, "ply %d: > 3M (%v)\n", p.MoveNumber(), time.Since(t0))
				continue
			}
			fmt.Fprintf(os.Stderr, "ply %d: nodes %d edges %d root W %d B %d %v\n", p.MoveNumber(), len(g.term), g.edges, g.dist[0][0], g.dist[1][0], time.Since(t0))
			for _, a := range []tak.Color{tak.White, tak.Black} {
				for _, e := range []int{4, 1 << 16} {
					t0 := time.Now()
					d := prove.NewDFPN(&prove.DFPNConfig{Attacker: a, TableMem: int64(e) * c06EntrySize})
					r, st := d.Prove(p)
					fmt.Fprintf(os.Stderr, "    att %s entries %d: %s work %d rep %d hits %d miss %d  %v\n", attStr(a), e, verdictStr(r.Result), st.Work, st.Repetition, st.Hits, st.Miss, time.Since(t0))
				}
			}
		}
		return
	}
	sz, _ := strconv.Atoi(c.args[0])
	pc, _ := strconv.Atoi(c.args[1])
	cp, _ := strconv.Atoi(c.args[2])
	t0 := time.Now()
	g := buildRetro(tak.New(tak.Config{Size: sz, Pieces: pc, Capstones: cp}), 50000000, 0)
	if g == nil {
		fmt.Fprintln(os.Stderr, "too big")
		return
	}
	mx := [2]int32{}
	in := [2]int{}
	for a := 0; a < 2; a++ {
		cyc := 0
		for v := range g.term {
			if g.term[v] == 0 && g.dist[a][v] < 0 && !g.ends[a][v] {
				cyc++
			}
		}
		fmt.Fprintf(os.Stderr, "attacker %d: cyclic region %d positions\n", a, cyc)
		for _, d := range g.dist[a] {
			if d >= 0 {
				in[a]++
			}
			if d > mx[a] {
				mx[a] = d
			}
		}
	}
	fmt.Fprintf(os.Stderr, "size %d pieces %d caps %d: nodes %d edges %d  attractor W %d (max %d) B %d (max %d) root W %d B %d  %v\n",
		sz, pc, cp, len(g.term), g.edges, in[0], mx[0], in[1], mx[1], g.dist[0][0], g.dist[1][0], time.Since(t0))
}

// ---------- the replayed sequences of the repetition/table finding ----------

type c06knownSeq struct {
	att           tak.Color
	entries       int
	first, second string // TPS, configuration 3x3 with 3 stones + 1 capstone
	dist1, dist2  int    // the attacker wins within that many plies (retrograde oracle of the search agent)
}

var c06knownSeqs = []c06knownSeq{
	{tak.White, 65536, "x,2,x/x,1,x/x2,22S 1 5", "x,22S,x/x,1,x/2,1,x 1 5", 0, 11},
	{tak.White, 65536, "x,2,x/x,1,x/x2,22S 1 5", "22S,x2/x,1,x/2,1,x 2 5", 0, 12},
	{tak.White, 65536, "x,2,x/x,1,x/x2,22S 1 5", "x2,22S/x,1,x/2,1,x 2 5", 0, 12},
	{tak.White, 1024, "x2,22S/x,1,x/x,2,x 1 5", "1,12,x/22S,x2/x3 1 5", 0, 17},
	{tak.White, 1024, "x2,22S/x,1,x/x,2,x 1 5", "x,1,1/22S,2,x/x3 2 5", 0, 18},
	{tak.White, 65536, "x,1,x/x,2,22S/x3 1 5", "x3/1,1,22S/2,x2 1 5", 0, 11},
	{tak.White, 65536, "x,121,x/x2,22S/x3 2 5", "x2,22S/1,1,x/2,x2 2 5", 0, 12},
	{tak.Black, 65536, "x,1,x/x2,22/x2,11S 2 4", "x3/2,2,11S/1,x2 2 4", 0, 11},
	{tak.Black, 65536, "x,1,x/2,2,x/x2,11S 1 5", "x3/2,2,x/1,x,11S 1 5", 0, 12},
	{tak.Black, 65536, "x3/2,2,x/x,1,11S 1 5", "x2,11S/2,2,x/1,x2 1 5", 0, 12},
}

// c06customTPS: the position of a TPS string with the reserves of a non-default configuration
func c06customTPS(cfg tak.Config, tps string) (*tak.Position, error) {
	q, err := ptn.ParseTPS(tps)
	if err != nil {
		return nil, err
	}
	board := make([][]tak.Square, cfg.Size)
	for y := 0; y < cfg.Size; y++ {
		board[y] = make([]tak.Square, cfg.Size)
		for x := 0; x < cfg.Size; x++ {
			board[y][x] = q.At(x, y)
		}
	}
	return tak.FromSquares(cfg, board, q.MoveNumber())
}

// c06wonWithin: `who` wins p within n plies (wn n p of coq/AndOr.v) - exhaustive, memoised on (position, remaining plies)
func c06wonWithin(p *tak.Position, who tak.Color, n int) bool {
	won := map[string]int{}  // least depth known to win
	lost := map[string]int{} // largest depth known not to win, plus one
	var rec func(p *tak.Position, n int) bool
	rec = func(p *tak.Position, n int) bool {
		if over, w := p.GameOver(); over {
			return w == who
		}
		if n == 0 {
			return false
		}
		k := retroKey(p)
		if w, ok := won[k]; ok && w <= n {
			return true
		}
		if f, ok := lost[k]; ok && n < f {
			return false
		}
		var buf [256]tak.Move
		res := p.ToMove() != who
		for _, m := range p.AllMoves(buf[:0]) {
			q, err := p.Move(m)
			if err != nil {
				continue
			}
			r := rec(q, n-1)
			if p.ToMove() == who && r {
				res = true
				break
			}
			if p.ToMove() != who && !r {
				res = false
				break
			}
		}
		if res {
			if w, ok := won[k]; !ok || n < w {
				won[k] = n
			}
		} else if f, ok := lost[k]; !ok || n+1 > f {
			lost[k] = n + 1
		}
		return res
	}
	return rec(p, n)
}
