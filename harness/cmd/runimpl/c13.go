package main

// verif:needs c10 c11 c12 c17

// C13: text entry points are total: malformed input gives an error, never a crash or a hang.
// CASE <entry> <input hex> | <class>          class = OK.. / ERR.. / PANIC / HANG
// entries: M ParseMove, T ParseTPS, F PTN file (parse + initial position + replay), S ParseServer,
//          C chat lines (ParseTell/ParseShout/ParseShoutRoom), J weights JSON, E TEI command stream.
// For M, T, F, S, E, C the extracted Coq models classify the same strings (L1 = the class, for M/S/T/C also the value:
// for C the strings returned by the three chat-line parsers).

import (
	"encoding/hex"
	"encoding/json"
	"fmt"
	"math/rand"
	"sort"
	"strings"
	"time"

	"github.com/nelhage/taktician/ai"
	"github.com/nelhage/taktician/playtak"
	"github.com/nelhage/taktician/ptn"
	"github.com/nelhage/taktician/tak"
)

func init() { register("C13", runC13) }

// withDeadline runs f in a goroutine; "HANG" if it does not return within the limit.
func withDeadline(limit time.Duration, f func() string) string {
	ch := make(chan string, 1)
	go func() {
		var out string
		if panicked, msg := safely(func() { out = f() }); panicked {
			out = "PANIC " + msg
		}
		ch <- out
	}()
	select {
	case s := <-ch:
		return s
	case <-time.After(limit):
		return "HANG"
	}
}

func classOf(out string) string {
	switch {
	case strings.HasPrefix(out, "PANIC"):
		return "PANIC"
	case strings.HasPrefix(out, "HANG"):
		return "HANG"
	}
	return out
}

func c13Entry(entry byte, data string) string {
	limit := 5 * time.Second
	switch entry {
	case 'M':
		return withDeadline(limit, func() string { return parseRes(ptn.ParseMove(data)) })
	case 'S':
		return withDeadline(limit, func() string { return parseRes(playtak.ParseServer(data)) })
	case 'T':
		return withDeadline(limit, func() string {
			p, err := ptn.ParseTPS(data)
			if err != nil {
				return "ERR"
			}
			return "OK " + encAbs(p)
		})
	case 'F':
		return withDeadline(limit, func() string {
			o := ptnFileOutcome([]byte(data))
			if strings.HasPrefix(o, "ERR") {
				return "ERR" // which stage refused the file is not part of the claim
			}
			return o
		})
	case 'E':
		return withDeadline(20*time.Second, func() string { return teiOutcome(data) })
	case 'C':
		return withDeadline(limit, func() string {
			// L1 = the returned strings (model: BotLine.parse_tell / parse_shout / parse_shout_room)
			a, b := playtak.ParseTell(data)
			c, d := playtak.ParseShout(data)
			e, f, g := playtak.ParseShoutRoom(data)
			h := func(x string) string { return hex.EncodeToString([]byte(x)) }
			return "OK " + h(a) + "," + h(b) + ";" + h(c) + "," + h(d) + ";" + h(e) + "," + h(f) + "," + h(g)
		})
	case 'J':
		return withDeadline(limit, func() string {
			var w ai.Weights
			if err := json.Unmarshal([]byte(data), &w); err != nil {
				return "ERR"
			}
			if _, err := json.Marshal(&w); err != nil {
				return "ERR"
			}
			return "OK"
		})
	}
	panic("entry")
}

// c13JsonPairs: what json.Unmarshal(bs, &h) leaves in h : map[string]int64 ("-" if it fails), as <hex key>:<value>,... in sorted key order
func c13JsonPairs(data string) string {
	h := make(map[string]int64)
	if err := json.Unmarshal([]byte(data), &h); err != nil {
		return "-"
	}
	keys := make([]string, 0, len(h))
	for k := range h {
		keys = append(keys, k)
	}
	sort.Strings(keys)
	out := make([]string, len(keys))
	for i, k := range keys {
		out[i] = fmt.Sprintf("%x:%d", k, h[k])
	}
	return "=" + strings.Join(out, ",")
}

var c13Seen = map[string]bool{}

func emitC13(c *ctx, entry byte, data string) {
	key := string(entry) + data
	if c13Seen[key] {
		return
	}
	c13Seen[key] = true
	out := c13Entry(entry, data)
	cls := classOf(out)
	c.stat("cases", 1)
	c.stat("entry_"+string(entry), 1)
	short := cls
	if i := strings.IndexByte(short, ' '); i > 0 {
		short = short[:i]
	}
	if strings.Contains(short, ":") {
		short = "OK"
	}
	c.stat("class_"+string(entry)+"_"+short, 1)
	if entry == 'C' && strings.HasPrefix(cls, "OK ") {
		if g := strings.Split(cls[3:], ";"); len(g) == 3 {
			for i, name := range []string{"chat_tell_matched", "chat_shout_matched", "chat_shoutroom_matched"} {
				if strings.Trim(g[i], ",") != "" {
					c.stat(name, 1)
				}
			}
		}
	}
	if entry == 'J' {
		// the Go-specific part of ai/json.go is modelled (WeightsJson.unmarshal_post): when the text decodes into
		// map[string]int64 the decoded pairs go to the model (sorted key order), which must give the same class
		pairs := c13JsonPairs(data)
		if pairs != "-" {
			c.stat("json_object_of_integers", 1)
		}
		c.printf("CASE %c %s %s | %s\n", entry, hex.EncodeToString([]byte(data)), pairs, cls)
	} else {
		c.printf("CASE %c %s | %s\n", entry, hex.EncodeToString([]byte(data)), cls)
	}
	if cls == "PANIC" || cls == "HANG" {
		names := map[byte]string{'M': "ptn-move", 'S': "playtak-move", 'T': "tps", 'F': "ptn-file", 'C': "chat", 'J': "weights-json", 'E': "tei"}
		kind := strings.ToLower(cls)
		name := names[entry] + "-" + kind
		// stable class names of the repaired crashes, should they return
		switch {
		case entry == 'T' && strings.Contains(data, ",,"), entry == 'T' && (strings.HasPrefix(data, ",") || strings.Contains(data, "/,") || strings.Contains(data, ",/") || strings.Contains(data, ", ")):
			name = "tps-empty-cell"
		case entry == 'F' && strings.HasSuffix(strings.TrimSpace(data), "{"):
			name = "ptn-unterminated-comment"
		}
		c.printf("ORACLE-FAIL %s | %c %s | %s | a value or an error in bounded time; never a panic or a hang\n", name, entry, hex.EncodeToString([]byte(data)), out)
	}
}

func mutateBytes(r *rand.Rand, s string, alphabet string) string {
	b := []byte(s)
	n := 1 + r.Intn(3)
	for k := 0; k < n; k++ {
		switch r.Intn(7) {
		case 0:
			if len(b) > 0 {
				i := r.Intn(len(b))
				b = append(b[:i], b[i+1:]...)
			}
		case 1:
			if len(b) > 0 {
				i := r.Intn(len(b))
				b = append(b[:i+1], b[i:]...)
			}
		case 2:
			if len(b) > 1 {
				i := r.Intn(len(b) - 1)
				b[i], b[i+1] = b[i+1], b[i]
			}
		case 3:
			if len(b) > 0 {
				b = b[:r.Intn(len(b))]
			}
		case 4:
			i := r.Intn(len(b) + 1)
			b = append(b[:i], append([]byte{alphabet[r.Intn(len(alphabet))]}, b[i:]...)...)
		case 5:
			if len(b) > 0 {
				b[r.Intn(len(b))] = alphabet[r.Intn(len(alphabet))]
			}
		case 6:
			if len(b) > 0 {
				b[r.Intn(len(b))] = byte(r.Intn(256))
			}
		}
	}
	return string(b)
}

func randBytes(r *rand.Rand, n int, alphabet string) string {
	b := make([]byte, n)
	for i := range b {
		if alphabet == "" || r.Intn(8) == 0 {
			b[i] = byte(r.Intn(256))
		} else {
			b[i] = alphabet[r.Intn(len(alphabet))]
		}
	}
	return string(b)
}

func allStrings(alphabet string, maxLen int, f func(string)) {
	var rec func(prefix []byte)
	rec = func(prefix []byte) {
		f(string(prefix))
		if len(prefix) == maxLen {
			return
		}
		for i := 0; i < len(alphabet); i++ {
			rec(append(prefix, alphabet[i]))
		}
	}
	rec(nil)
}

func runC13(c *ctx) {
	if c.tier == "replay" {
		f := strings.Fields(readReplay(c).Input)
		if len(f) >= 1 {
			data := ""
			if len(f) > 1 {
				b, _ := hex.DecodeString(f[1])
				data = string(b)
			}
			emitC13(c, f[0][0], data)
		}
		return
	}
	r := c.r
	const moveAlpha = "abh18 9FSC<>+-!?*'x0i"
	const srvAlpha = "PMWC AH19a8 0-IZ"
	// 1. exhaustive short strings for the two move parsers
	maxLen := 3
	if !c.quick() {
		maxLen = 4
	}
	allStrings(moveAlpha, maxLen, func(s string) { emitC13(c, 'M', s) })
	allStrings("PMWC A1H9 a0", maxLen, func(s string) { emitC13(c, 'S', s) })
	// 2. valid spellings and their mutations
	shapes := legalShapes()
	for k := 0; k < 1500*c.scale; k++ {
		m := shapes[r.Intn(len(shapes))]
		for _, s := range []string{ptn.FormatMove(m), ptn.FormatMoveLong(m)} {
			emitC13(c, 'M', mutateBytes(r, s, moveAlpha))
		}
		emitC13(c, 'S', mutateBytes(r, playtak.FormatServer(m), srvAlpha))
	}
	for k := 0; k < 1500*c.scale; k++ {
		emitC13(c, 'M', randBytes(r, r.Intn(9), moveAlpha))
		emitC13(c, 'S', randBytes(r, r.Intn(14), srvAlpha))
		emitC13(c, 'S', "M A1 A2 "+randBytes(r, r.Intn(24), "0123456789 -"))
	}
	// 2b. drop lists at the boundaries of the carry: for every carry count 1..8 (and 0, 9) and direction, drop strings whose
	// digits sum to just below / exactly / just above the carry, of every length up to 10 (one more digit than a board is wide),
	// for the PTN parser, and the corresponding wire spellings for the server parser
	for cnt := 0; cnt <= 9; cnt++ {
		for _, dir := range []string{"<", ">", "+", "-"} {
			head := fmt.Sprintf("%da1%s", cnt, dir)
			if cnt == 1 && r.Intn(2) == 0 {
				head = "a1" + dir
			}
			var ds []string
			for n := 0; n <= 10; n++ {
				ds = append(ds, strings.Repeat("1", n)) // 8a1>111111111: eight drops use the carry up, a ninth follows
			}
			for k := 0; k < 6; k++ { // random compositions around the carry, plus one extra digit
				s, sum := "", 0
				for sum < cnt+r.Intn(3)-1 && len(s) < 10 {
					d := 1 + r.Intn(3)
					s += fmt.Sprint(d)
					sum += d
				}
				ds = append(ds, s, s+fmt.Sprint(r.Intn(10)), s+"0")
			}
			for _, d := range ds {
				emitC13(c, 'M', head+d)
				emitC13(c, 'S', "M A1 A"+fmt.Sprint(1+len(d))+" "+strings.Join(strings.Split(d, ""), " "))
			}
		}
	}
	// 3. TPS
	var tpsTexts []string
	for g := 0; g < 12*c.scale; g++ {
		ps, _ := randomGame(r, tak.Config{Size: 3 + g%6}, 10+r.Intn(60), -1, false)
		tpsTexts = append(tpsTexts, ptn.FormatTPS(ps[len(ps)-1]))
		tpsTexts = append(tpsTexts, ptn.FormatTPS(defaultBoard(r, 3+g%6)))
	}
	for _, s := range tpsTexts {
		emitC13(c, 'T', s)
		for k := 0; k < 12; k++ {
			emitC13(c, 'T', mutateTPS(r, s))
			emitC13(c, 'T', mutateBytes(r, s, ",/ xSC12390"))
		}
	}
	for k := 0; k < 600*c.scale; k++ {
		emitC13(c, 'T', randBytes(r, r.Intn(30), ",/ xSC1234 "))
	}
	for _, s := range []string{"", " ", "  ", ",", "x,,x/x3/x3 1 1", ",x2/x3/x3 1 1", "x3/x3/x2, 1 1", "S/x3/x3 1 2", "C,x2/x3/x3 1 2", "x3/x3/x3 1 1", "x4/x2/x3 1 1",
		"x,x/x,x,x,x/x,x,x 1 1", "x3/x3/x3 1 99999999999999999999", "x3/x3/x3 1 4611686018427387905", "x3//x3 1 1", "/x3/x3 1 1", "x3/x3/x3/ 1 1", "x3/x3/x3 01 1"} {
		emitC13(c, 'T', s)
	}
	// 4. PTN files
	var files []string
	for g := 0; g < 10*c.scale; g++ {
		size := 3 + g%6
		_, ms := randomGame(r, tak.Config{Size: size}, 4+r.Intn(40), -1, false)
		var g2 ptn.PTN
		g2.Tags = []ptn.Tag{{Name: "Size", Value: fmt.Sprint(size)}, {Name: "Player1", Value: "a b"}}
		g2.AddMoves(ms)
		txt := g2.Render()
		if r.Intn(3) == 0 {
			txt = strings.Replace(txt, "1.", "1. {a comment} ", 1)
		}
		files = append(files, txt)
	}
	const fileAlpha = "[]\"{} \n\t.123Size TPSx/,a1+-<>FRCS0-\v\f\x85\xa0\r"
	for _, s := range files {
		emitC13(c, 'F', s)
		emitC13(c, 'F', "\xef\xbb\xbf"+s)
		for k := 0; k < 10; k++ {
			emitC13(c, 'F', mutateBytes(r, s, fileAlpha))
		}
		emitC13(c, 'F', s+" {")
		for _, ws := range []string{"\v", "\f", "\x85", "\xa0", "\r", "\xc2\xa0", "\xe2\x80\x83"} {
			// a whitespace-like byte where a token starts / between tags and moves / inside the move text
			emitC13(c, 'F', strings.Replace(s, "\n1.", "\n"+ws+"1.", 1))
			emitC13(c, 'F', strings.Replace(s, " ", " "+ws, 3))
			emitC13(c, 'F', ws+s)
			emitC13(c, 'F', s+ws)
		}
		emitC13(c, 'F', s+" {unterminated")
		emitC13(c, 'F', strings.Replace(s, "[Size \"", "[Size \"9", 1))
		emitC13(c, 'F', strings.Replace(s, "[Size \"", "[Size \"-", 1))
	}
	for _, s := range []string{"", "{", "[", "[Size", "[Size \"5\"]", "[Size \"5\"]\n\n1. a1 {", "[Size \"9\"]\n\n1. a1", "[Size \"2\"]\n\n1. a1", "[Size \"0\"]\n1. a1",
		"[Size \"-1\"]\n\n1. a1", "[Size \"x\"]\n1. a1", "[Size \"5\"]\n[TPS \"x5/x5/x,,x3/x5/x5 1 1\"]\n1. a1", "[Size \"5\"]\n[TPS \"x3/x3/x3 1 1\"]\n1. a1",
		"[Size \"3\"]\n[TPS \"x4/x2/x3 1 1\"]\n1. a1", "1. a1 a2", "[Size \"3\"]\n99999999999999999999. a1", "[Size \"3\"] 1. a1 R-0 a2", "\xff\xfe[Size \"3\"]"} {
		emitC13(c, 'F', s)
	}
	for k := 0; k < 300*c.scale; k++ {
		emitC13(c, 'F', randBytes(r, r.Intn(60), fileAlpha))
	}
	// 5. chat lines (model family: L1 = the strings ParseTell / ParseShout / ParseShoutRoom return) and weight JSON (oracle
	// only: encoding/json is trusted total).  ALL strings up to a small length over small alphabets, bare and behind the
	// literal prefixes of the three patterns (so that complete matches, near matches and every way of failing inside a group are
	// enumerated: '>' and ' ' inside names, "\n" in names (accepted) and messages (refused), "\t" in rooms, invalid UTF-8,
	// rooms containing '<'), then real lines and their mutations.
	const chatAlpha = "<> a\n\t\x80"
	ext := 0
	if !c.quick() {
		ext = 1
	}
	allStrings("TelShoutRm<> a\n\t\x80", 3+ext, func(s string) { emitC13(c, 'C', s) })
	allStrings(chatAlpha, 4+ext, func(s string) { emitC13(c, 'C', "Tell "+s) })
	allStrings(chatAlpha, 5+ext, func(s string) { emitC13(c, 'C', "Tell <"+s) })
	allStrings(chatAlpha, 4+ext, func(s string) { emitC13(c, 'C', "Shout <"+s) })
	allStrings(chatAlpha, 4+ext, func(s string) { emitC13(c, 'C', "ShoutRoom a <"+s) })
	allStrings("<> a", 7+ext, func(s string) { emitC13(c, 'C', "ShoutRoom "+s) })
	// every short room name over the white-space bytes \S excludes, \v (which it accepts) and friends, in an otherwise complete line
	allStrings("a\t\n\f\r\v<\x80 ", 3+ext, func(s string) { emitC13(c, 'C', "ShoutRoom "+s+" <a> a") })
	chat := []string{"Tell <alice> hello", "Shout <bob> hi there", "ShoutRoom room1 <carol> msg", "Tell", "Shout <", "ShoutRoom", "Tell <> ", "Shout <a", "ShoutRoom x <y",
		"Tell <a> <b> c", "ShoutRoom a<b <c> d", "ShoutRoom a <b <c> d", "ShoutRoom <a> <b> <c> d", "ShoutRoom  <a> b", "ShoutRoom a  <b> c", "ShoutRoom a\t<b> c",
		"ShoutRoom a\v <b> c", "Tell <a\nb> c", "Tell <a> b\n", "Tell <a> b\nc", "Tell <a> \n", "Tell <a>  ", "Tell <a> ", "Tell <a>b", "Tell <a b> c", "Tell <a>b> c",
		"Tell <\xff\xfe> \xc3", "Shout <\xe2\x82> \xac", "ShoutRoom \xc3\xa9 <\xf0\x9f\x98\x80> \xed\xa0\x80", " Tell <a> b", "Tell <a> b\r", "tell <a> b",
		"Tell <a> b Tell <c> d", "Shout <a> b\nShout <c> d", "ShoutRoom Over <x> gg", "ShoutRoom a <b> c\x00d", "Tell <\x00> \x00",
		"ShoutRoom a\tb <c> d", "ShoutRoom a\rb <c> d\r", "ShoutRoom a\fb <c> d"}
	for _, s := range chat {
		emitC13(c, 'C', s)
		for k := 0; k < 20*c.scale; k++ {
			emitC13(c, 'C', mutateBytes(r, s, "<> TelShoutRm\x00\n\t\x80a"))
		}
	}
	var w ai.Weights = ai.DefaultWeights[5]
	js, _ := json.Marshal(&w)
	emitC13(c, 'J', string(js))
	for k := 0; k < 200*c.scale; k++ {
		emitC13(c, 'J', mutateBytes(r, string(js), "{}\":,0123456789-eE.TopFlatnul[] "))
	}
	// objects of integers over the real feature names, the stringer's out-of-range spellings and unknown names
	var fnames []string
	for f := ai.Feature(0); f < ai.MaxFeature; f++ {
		fnames = append(fnames, f.String())
	}
	extra := []string{"MaxFeature", ai.MaxFeature.String(), (ai.MaxFeature + 1).String(), ai.Feature(-1).String(), "Feature(0)", "Feature(36)", "topflat", "TopFlat ", "", "Nope", "Tempo\u0000"}
	for k := 0; k < 150*c.scale; k++ {
		n := r.Intn(5)
		var parts []string
		for i := 0; i < n; i++ {
			name := fnames[r.Intn(len(fnames))]
			if r.Intn(6) == 0 {
				name = extra[r.Intn(len(extra))]
			}
			v := []string{"0", "1", "-7", "300", "9223372036854775807", "-9223372036854775808"}[r.Intn(6)]
			parts = append(parts, fmt.Sprintf("%q:%s", name, v))
		}
		emitC13(c, 'J', "{"+strings.Join(parts, ",")+"}")
	}
	for _, name := range append(append([]string{}, fnames...), extra...) {
		emitC13(c, 'J', fmt.Sprintf("{%q:5}", name))
		emitC13(c, 'J', fmt.Sprintf("{\"TopFlat\":1,%q:5,\"Nope\":2}", name))
	}
	for _, s := range []string{"", "{", "{}", "null", "[]", "{\"TopFlat\":1e999}", "{\"TopFlat\":\"x\"}", "{\"Nope\":1}", "{\"TopFlat\":99999999999999999999}", "{\"TopFlat\":1.5}"} {
		emitC13(c, 'J', s)
	}
	// every name the Feature stringer knows, the sentinel and the out-of-range spellings included (Feature(-1) .. Feature(MaxFeature+3)),
	// alone and in pairs, with integer, null, negative and huge values: a key is either a real weight slot or an error
	for i := -1; i <= int(ai.MaxFeature)+3; i++ {
		name := ai.Feature(i).String()
		for _, v := range []string{"7", "null", "-1", "9223372036854775807", "0"} {
			emitC13(c, 'J', fmt.Sprintf("{%q:%s}", name, v))
		}
		emitC13(c, 'J', fmt.Sprintf("{\"TopFlat\":1,%q:2}", name))
		emitC13(c, 'J', fmt.Sprintf("{%q:2,\"TopFlat\":1}", strings.ToLower(name)))
	}
	// 6. the TEI command stream
	teiScripts := []string{"tei\nisready\nteinewgame 5\nposition startpos moves a1 e5\ngo movetime 10\nquit\n",
		"position startpos\n", "teinewgame 3\nposition startpos moves a1 c3 c2 a2 c1\ngo\n", "teinewgame 9\n", "teinewgame x\n", "go\n", "teinewgame 4\ngo\n",
		"teinewgame 5\nposition tps x5/x5/x5/x5/x5 1 1\ngo wtime 1 btime 1\n", "teinewgame 5\nposition tps x5/x5/x,,x3/x5/x5 1 1\n", "teinewgame 5\nposition\n",
		"teinewgame 5\nposition startpos moves\ngo movetime\n", "teinewgame 5\nposition startpos moves zz\n", "teinewgame 5\nposition startpos extra\n", "stop\nisready\nbogus\n",
		"teinewgame 3\nposition startpos\ngo winc 18446744073709551615\n", "teinewgame 6\nposition startpos\ngo movetime 1 wtime 5 btime 5 winc 1 binc 1\nteinewgame\nposition startpos\ngo\n"}
	const teiAlpha = " \nteinwgamposxv0123456789/,ySC"
	for _, s := range teiScripts {
		emitC13(c, 'E', s)
		for k := 0; k < 6*c.scale; k++ {
			emitC13(c, 'E', mutateBytes(r, s, teiAlpha))
		}
	}
	words := []string{"tei", "isready", "teinewgame", "position", "startpos", "tps", "moves", "go", "movetime", "wtime", "btime", "winc", "binc", "stop", "quit",
		"3", "5", "8", "9", "0", "-1", "a1", "c3", "a1+", "Cb2", "x3/x3/x3", "1", "2", "x5/x5/x5/x5/x5", "100", "\n", "\n", "\n"}
	for k := 0; k < 60*c.scale; k++ {
		var sb strings.Builder
		for i := r.Intn(25); i > 0; i-- {
			sb.WriteString(words[r.Intn(len(words))])
			if r.Intn(4) != 0 {
				sb.WriteByte(' ')
			}
		}
		sb.WriteByte('\n')
		emitC13(c, 'E', sb.String())
	}
	// whole sessions as the C17 generator writes them (several games on one engine, sizes changing, position lines that
	// repeat or extend one another across teinewgame, takebacks, TPS starts), plain and with bytes mutated
	tg := &c17Gen{r: r}
	for k := 0; k < 60*c.scale; k++ {
		var lines []string
		switch k % 3 {
		case 0:
			lines = tg.sameLineOtherSize(8)
		case 1:
			lines = tg.sameMoves(6)
		default:
			lines = tg.session(5)
		}
		text := strings.Join(lines, "\n") + "\n"
		emitC13(c, 'E', text)
		if k%2 == 0 {
			emitC13(c, 'E', mutateBytes(r, text, teiAlpha))
		}
	}
}
