package main

// C11: move notations (PTN short / long, playtak wire) round-trip and agree.
// CASE <move> | <short> <long> <server> <parse short> <parse long> <parse server> <parse short+suffix> <parse long+suffix>
// (spellings hex-encoded).  The enumeration of legal-shaped moves is COMPLETE on both sides.

import (
	"encoding/hex"
	"fmt"
	"strings"
	"sync"

	"github.com/nelhage/taktician/playtak"
	"github.com/nelhage/taktician/ptn"
	"github.com/nelhage/taktician/tak"
)

func init() { register("C11", runC11) }

// legalShapes: every placement and every slide composition (carry 1..n, each drop >= 1) in four
// directions from every square of an n x n board that ends on the board, n = 3..8; the union over n.
func legalShapes() []tak.Move {
	seen := map[tak.Move]bool{}
	var out []tak.Move
	add := func(m tak.Move) {
		if !seen[m] {
			seen[m] = true
			out = append(out, m)
		}
	}
	for n := 3; n <= 8; n++ {
		for x := 0; x < n; x++ {
			for y := 0; y < n; y++ {
				for t := tak.PlaceFlat; t <= tak.PlaceCapstone; t++ {
					add(tak.Move{X: int8(x), Y: int8(y), Type: t})
				}
				dist := map[tak.MoveType]int{tak.SlideLeft: x, tak.SlideRight: n - 1 - x, tak.SlideDown: y, tak.SlideUp: n - 1 - y}
				for _, t := range []tak.MoveType{tak.SlideLeft, tak.SlideRight, tak.SlideUp, tak.SlideDown} { // fixed order: runs are reproducible
					d := dist[t]
					if d == 0 {
						continue
					}
					for k := 1; k <= n; k++ {
						for _, s := range compositions(k, d) {
							add(tak.Move{X: int8(x), Y: int8(y), Type: t, Slides: s})
						}
					}
				}
			}
		}
	}
	return out
}

func parseRes(m tak.Move, err error) string {
	if err != nil {
		return "ERR"
	}
	return encMove(m)
}

// ---- independent decoders of the two notations (written from the notation definitions) ----

// PTN: [count][stone] file rank [direction [drops]] ; count defaults to 1, drops default to [count].
func specDecodePTN(s string) (tak.Move, bool) {
	var m tak.Move
	i := 0
	count := 0
	stone := byte(0)
	if i < len(s) && s[i] >= '1' && s[i] <= '8' {
		count = int(s[i] - '0')
		i++
	}
	if i < len(s) && (s[i] == 'F' || s[i] == 'S' || s[i] == 'C') {
		stone = s[i]
		i++
	}
	if i+2 > len(s) || s[i] < 'a' || s[i] > 'h' || s[i+1] < '1' || s[i+1] > '8' {
		return m, false
	}
	m.X, m.Y = int8(s[i]-'a'), int8(s[i+1]-'1')
	i += 2
	if i == len(s) {
		if count != 0 {
			return m, false
		}
		switch stone {
		case 0, 'F':
			m.Type = tak.PlaceFlat
		case 'S':
			m.Type = tak.PlaceStanding
		case 'C':
			m.Type = tak.PlaceCapstone
		}
		return m, true
	}
	if stone != 0 {
		return m, false
	}
	switch s[i] {
	case '<':
		m.Type = tak.SlideLeft
	case '>':
		m.Type = tak.SlideRight
	case '+':
		m.Type = tak.SlideUp
	case '-':
		m.Type = tak.SlideDown
	default:
		return m, false
	}
	i++
	if count == 0 {
		count = 1
	}
	var drops []int
	sum := 0
	for ; i < len(s); i++ {
		if s[i] < '1' || s[i] > '8' {
			return m, false
		}
		drops = append(drops, int(s[i]-'0'))
		sum += int(s[i] - '0')
	}
	if len(drops) == 0 {
		drops = []int{count}
		sum = count
	}
	if sum != count {
		return m, false
	}
	m.Slides = tak.MkSlides(drops...)
	return m, true
}

// playtak: "P <SQ> [C|W]" or "M <FROM> <TO> <drop>..." where TO is the last square reached.
func specDecodeServer(s string) (tak.Move, bool) {
	var m tak.Move
	w := strings.Split(s, " ")
	sq := func(t string) (int, int, bool) {
		if len(t) != 2 || t[0] < 'A' || t[0] > 'H' || t[1] < '1' || t[1] > '8' {
			return 0, 0, false
		}
		return int(t[0] - 'A'), int(t[1] - '1'), true
	}
	switch {
	case w[0] == "P" && (len(w) == 2 || len(w) == 3):
		x, y, ok := sq(w[1])
		if !ok {
			return m, false
		}
		m.X, m.Y, m.Type = int8(x), int8(y), tak.PlaceFlat
		if len(w) == 3 {
			switch w[2] {
			case "C":
				m.Type = tak.PlaceCapstone
			case "W":
				m.Type = tak.PlaceStanding
			default:
				return m, false
			}
		}
		return m, true
	case w[0] == "M" && len(w) >= 4:
		x, y, ok1 := sq(w[1])
		ex, ey, ok2 := sq(w[2])
		if !ok1 || !ok2 {
			return m, false
		}
		var drops []int
		for _, d := range w[3:] {
			if len(d) != 1 || d[0] < '1' || d[0] > '8' {
				return m, false
			}
			drops = append(drops, int(d[0]-'0'))
		}
		l := len(drops)
		switch {
		case ey == y && ex == x+l:
			m.Type = tak.SlideRight
		case ey == y && ex == x-l:
			m.Type = tak.SlideLeft
		case ex == x && ey == y+l:
			m.Type = tak.SlideUp
		case ex == x && ey == y-l:
			m.Type = tak.SlideDown
		default:
			return m, false // the destination is not the square reached by that many drops
		}
		m.X, m.Y = int8(x), int8(y)
		m.Slides = tak.MkSlides(drops...)
		return m, true
	}
	return m, false
}

var c11Suffixes = []string{"!", "?", "'", "*", "!!", "?!", "''", "!'", "*'?", "'!?*"}

func runC11(c *ctx) {
	moves := legalShapes()
	if c.tier == "replay" {
		moves = []tak.Move{decodeMove(strings.Fields(readReplay(c).Input)[0])}
	}
	lines := make([]string, len(moves))
	fails := make([]string, len(moves))
	var wg sync.WaitGroup
	workers := 8
	for w := 0; w < workers; w++ {
		wg.Add(1)
		go func(w int) {
			defer wg.Done()
			for i := w; i < len(moves); i += workers {
				m := moves[i]
				sfx := c11Suffixes[i%len(c11Suffixes)]
				short, long, srv := ptn.FormatMove(m), ptn.FormatMoveLong(m), playtak.FormatServer(m)
				ps, pl := parseRes(ptn.ParseMove(short)), parseRes(ptn.ParseMove(long))
				pv := parseRes(playtak.ParseServer(srv))
				pss, pls := parseRes(ptn.ParseMove(short+sfx)), parseRes(ptn.ParseMove(long+sfx))
				lines[i] = fmt.Sprintf("CASE %s %s | %s %s %s %s %s %s %s %s\n", encMove(m), hex.EncodeToString([]byte(sfx)),
					hex.EncodeToString([]byte(short)), hex.EncodeToString([]byte(long)), hex.EncodeToString([]byte(srv)), ps, pl, pv, pss, pls)
				want := encMove(m)
				var bad []string
				if ps != want {
					bad = append(bad, "short-roundtrip")
				}
				if pl != want {
					bad = append(bad, "long-roundtrip")
				}
				if pv != want {
					bad = append(bad, "server-roundtrip")
				}
				if pss != want || pls != want {
					bad = append(bad, "annotation-changes-move")
				}
				if d, ok := specDecodePTN(short); !ok || d != m {
					bad = append(bad, "short-denotes-other-move")
				}
				if d, ok := specDecodePTN(long); !ok || d != m {
					bad = append(bad, "long-denotes-other-move")
				}
				if d, ok := specDecodeServer(srv); !ok || d != m {
					bad = append(bad, "server-denotes-other-move")
				}
				if len(bad) > 0 {
					fails[i] = fmt.Sprintf("ORACLE-FAIL %s | %s | short=%q long=%q server=%q parsed %s %s %s suffix %q: %s %s | every spelling parses back to the identical move and denotes it\n",
						bad[0], encMove(m), short, long, srv, ps, pl, pv, sfx, pss, pls)
				}
			}
		}(w)
	}
	wg.Wait()
	for i := range moves {
		c.w.WriteString(lines[i])
		if fails[i] != "" {
			c.w.WriteString(fails[i])
		}
		if moves[i].IsSlide() {
			c.stat(fmt.Sprintf("slides_len%d", moves[i].Slides.Len()), 1)
		} else {
			c.stat("placements", 1)
		}
	}
	c.stat("cases", int64(len(moves)))
	c.printf("SAMPLE exhaustive: all %d legal-shaped moves of sizes 3..8, e.g. %s -> %q %q %q\n", len(moves), encMove(moves[len(moves)/2]),
		ptn.FormatMove(moves[len(moves)/2]), ptn.FormatMoveLong(moves[len(moves)/2]), playtak.FormatServer(moves[len(moves)/2]))
}
