package main

// verif:tags verif_c04

// C04: every searching player answers a live position with a legal move.
//
// Decided by the DIRECT ORACLE on the implementation: for every generated live position and every
// player / configuration the call must not panic, the returned move must be legal (the independent
// rules oracle of oracle_rules.go accepts it AND Position.Move accepts it), pv[0] must be legal and
// the whole PV must replay legally whenever |value| <= WinThreshold.
//
// Model correspondence (ties the oracle's notion of legality to the proved bit-level model):
//   CASE P ; <enc position> | <live> <sorted legal move set>     model: GameOver.game_over, GameOver.all_moves filtered by Inst.mv_fixed
//   CASE M ; <enc position> ; <move> | OK|ERR|PANIC              every move a deterministic player returned, judged by Inst.mv_fixed
//   CASE RAND ; <cfg> ; <window> ; <scale> ; <Int63 stream> ; <enc position> | <move>|PANIC    the randomised GetMove against coq/SearchRand.v
//
// Players: ai.MinimaxAI (Analyze, GetMove with the randomised choice, AnalyzeAll; engines are reused
// over several positions so that table / history / response / PV hints are stale), the opening
// book wrapper (book of /repo/cmd/internal/playtak/book.go read from the source + synthetic books,
// every prefix position and all 8 images built with an independent symmetry transform),
// mcts.MonteCarloAI (both policies, ForceCorners on/off).
//
// Every job is described by one line of key=value tokens from which it can be re-run
// (`runimpl C04 replay <seed> <replay.json>`).

import (
	"context"
	"encoding/hex"
	"encoding/json"
	"fmt"
	"go/ast"
	"go/parser"
	"go/token"
	"math/rand"
	"os"
	"path/filepath"
	"regexp"
	"runtime"
	"sort"
	"strconv"
	"strings"
	"sync"
	"time"

	"github.com/nelhage/taktician/ai"
	"github.com/nelhage/taktician/ai/mcts"
	"github.com/nelhage/taktician/ptn"
	"github.com/nelhage/taktician/tak"
)

func init() { register("C04", runC04) }

// ---------- output of one job (jobs run in parallel, output is printed in job order) ----------

type c04Out struct {
	lines []string
	stats map[string]int64
	quiet bool // wall-clock dependent job: judged by the oracle, but no CASE lines (the case file stays reproducible)
}

func (o *c04Out) stat(k string, n int64) { o.stats[k] += n }
func c04Clean(s string) string {
	return strings.NewReplacer("|", "/", "\n", " ", "\r", " ").Replace(s)
}
func (o *c04Out) fail(class, input, did, want string) {
	o.lines = append(o.lines, fmt.Sprintf("ORACLE-FAIL %s | %s | %s | %s", class, c04Clean(input), c04Clean(did), c04Clean(want)))
	o.stat("oraclefail_"+class, 1)
}
func (o *c04Out) mcase(p *tak.Position, m tak.Move) {
	if o.quiet {
		return
	}
	cls := "OK"
	var err error
	if pan, _ := safely(func() { _, err = p.Move(m) }); pan {
		cls = "PANIC"
	} else if err != nil {
		cls = "ERR"
	}
	o.lines = append(o.lines, fmt.Sprintf("CASE M ; %s ; %s | %s", enc(p), encMove(m), cls))
}

type c04Job struct {
	desc string
	run  func(o *c04Out)
}

// ---------- the randomised GetMove: model correspondence (CASE RAND) ----------
//   CASE RAND ; <cfg: size depth evk nosort nonull noreduce multicut tablelen dedup> ; <RandomizeWindow> ; <RandomizeScale> ; <Int63 stream v0,v1,...> ; <enc position> | <move> | PANIC
// MinimaxAI.GetMove with RandomizeWindow > 0 (or, with Cfg.DedupSymmetry, window 0: the model of coq/SearchDedup.v) on a fresh engine whose
// configuration is deterministic for the model (NoSort, a table of at most 4096 entries or none).  Analyze creates ai.rand from Cfg.Seed, so the values the randomised choice
// draws are the first values of rand.NewSource(seed).Int63(): they are written into the case, and the extracted model
// (coq/SearchRand.v: get_move) replays the whole call from them.  The returned move is also judged by the direct oracle.
func c04RunRandModel(o *c04Out, sc srchCfg, window, scale, seed int64, pp c04Pos) {
	cfg := ai.MinimaxConfig{Size: sc.size, Depth: sc.depth, Seed: seed, TableMem: sc.tableMem, RandomizeWindow: window, RandomizeScale: scale,
		NoSort: sc.nosort, NoNullMove: sc.nonull, NoReduceSlides: sc.noreduce, MultiCut: sc.multicut, DedupSymmetry: sc.dedup}
	if sc.precise() {
		cfg.NoExtendForces = true
	}
	if sc.evk == 1 {
		cfg.Evaluate = ai.EvaluateWinner
	}
	eng := ai.NewMinimax(cfg)
	tlen := ai.VerifTableLen(eng)
	if tlen > 4096 {
		return
	}
	src := rand.NewSource(seed)
	vals := make([]string, 400)
	for i := range vals {
		vals[i] = strconv.FormatInt(src.Int63(), 10)
	}
	var m tak.Move
	pan, msg := safely(func() { m = eng.GetMove(context.Background(), pp.p) })
	in := fmt.Sprintf("RAND ; %d %d %d %d %d %d %d %d %d ; %d ; %d ; %s ; %s", sc.size, sc.depth, sc.evk, b2i(sc.nosort), b2i(sc.nonull), b2i(sc.noreduce),
		b2i(sc.multicut), tlen, b2i(sc.dedup), window, scale, strings.Join(vals, ","), enc(pp.p))
	o.stat("rand_model_cases", 1)
	if sc.dedup {
		o.stat("rand_model_dedup_cases", 1)
	}
	o.stat(fmt.Sprintf("rand_model_size_%d", sc.size), 1)
	o.stat(fmt.Sprintf("rand_model_depth_%d", sc.depth), 1)
	if pan {
		// with the default scale the choice must not crash (C04); other scales are outside the option lattice: recorded, compared with the model
		if scale == 1 {
			o.fail("randomised-getmove-panic", fmt.Sprintf("RAND %s window=%d scale=%d seed=%d %s", sc.String(), window, scale, seed, enc(pp.p)), "panic: "+msg, "a legal move")
		}
		o.stat("rand_model_panics", 1)
		o.lines = append(o.lines, fmt.Sprintf("CASE %s | PANIC", in))
		return
	}
	if ok, why := c04Legal(pp.p, m); !ok {
		o.fail("randomised-getmove-illegal", fmt.Sprintf("RAND %s window=%d scale=%d seed=%d %s", sc.String(), window, scale, seed, enc(pp.p)), "returned "+c04FmtMove(m)+": "+why, "a legal move")
	}
	// how often the random choice leaves Analyze's first move (input-distribution statistic)
	cfg.RandomizeWindow = 0
	if pv, _, _ := ai.NewMinimax(cfg).Analyze(context.Background(), pp.p); len(pv) > 0 && !m.Equal(pv[0]) {
		o.stat("rand_model_not_pv0", 1)
	}
	o.lines = append(o.lines, fmt.Sprintf("CASE %s | %s", in, encMove(m)))
}

// ---------- positions ----------

type c04Pos struct {
	p    *tak.Position
	kind string
}

func c04PosStr(p *tak.Position) string {
	cfg := tak.VerifCfg(p)
	return fmt.Sprintf("%d:%d:%d:%d:%s", cfg.Size, cfg.Pieces, cfg.Capstones, b2i(cfg.BlackWinsTies), strings.ReplaceAll(ptn.FormatTPS(p), " ", "_"))
}

func c04ParsePos(s string) (*tak.Position, error) {
	f := strings.SplitN(s, ":", 5)
	if len(f) != 5 {
		return nil, fmt.Errorf("bad position %q", s)
	}
	var n [4]int
	for i := 0; i < 4; i++ {
		v, err := strconv.Atoi(f[i])
		if err != nil {
			return nil, err
		}
		n[i] = v
	}
	q, err := ptn.ParseTPS(strings.ReplaceAll(f[4], "_", " "))
	if err != nil {
		return nil, err
	}
	cfg := tak.Config{Size: n[0], Pieces: n[1], Capstones: n[2], BlackWinsTies: n[3] == 1}
	return tak.FromSquares(cfg, boardOf(q), q.MoveNumber())
}

func c04Live(p *tak.Position) bool {
	over, _ := p.GameOver()
	if over {
		return false
	}
	o, _, _ := absOf(p).outcome()
	return !o
}

func c04MoverReserves(p *tak.Position) (stones, caps int) {
	ws, wc, bs, bc := tak.VerifReserves(p)
	if p.ToMove() == tak.White {
		return int(ws), int(wc)
	}
	return int(bs), int(bc)
}

// c04LowReserveBoard: a constructed board on which the player to move has no stones left but a capstone
// (so only capstone placements and slides are legal), usually with road material on the board.
func c04LowReserveBoard(r *rand.Rand, size int) *tak.Position {
	for try := 0; try < 50; try++ {
		board := make([][]tak.Square, size)
		for y := range board {
			board[y] = make([]tak.Square, size)
		}
		var used [2]int
		put := func(x, y int, col tak.Color, k tak.Kind, under int) {
			sq := tak.Square{tak.MakePiece(col, k)}
			for j := 0; j < under; j++ {
				c := tak.White
				if r.Intn(2) == 0 {
					c = tak.Black
				}
				sq = append(sq, tak.MakePiece(c, tak.Flat))
			}
			for _, pc := range sq {
				if pc.Color() == tak.White {
					used[0]++
				} else {
					used[1]++
				}
			}
			board[y][x] = sq
		}
		// two broken rows of flats (road threats for both sides), plus noise
		for _, row := range []struct {
			y   int
			col tak.Color
		}{{0, tak.White}, {size - 1, tak.Black}} {
			gap := r.Intn(size)
			for x := 0; x < size; x++ {
				if x != gap {
					put(x, row.y, row.col, tak.Flat, 0)
				}
			}
		}
		for k := r.Intn(size); k > 0; k-- {
			x, y := r.Intn(size), 1+r.Intn(size-2)
			if len(board[y][x]) == 0 {
				col := tak.White
				if r.Intn(2) == 0 {
					col = tak.Black
				}
				kind := tak.Flat
				if r.Intn(4) == 0 {
					kind = tak.Standing
				}
				put(x, y, col, kind, r.Intn(3))
			}
		}
		// the player who used more stones is the mover and has none left
		mover := 0
		if used[1] > used[0] {
			mover = 1
		}
		cfg := tak.Config{Size: size, Pieces: used[mover], Capstones: 1 + r.Intn(2), BlackWinsTies: r.Intn(4) == 0}
		move := 2*(2+r.Intn(20)) + mover
		p, err := tak.FromSquares(cfg, board, move)
		if err != nil {
			continue
		}
		if s, c := c04MoverReserves(p); s == 0 && c > 0 && c04Live(p) {
			return p
		}
	}
	return nil
}

// c04TallStackBoard: a sparse board with one or two tall stacks owned by the mover away from the edges: on 7x7 / 8x8 such
// positions have more than 500 generated moves (more than the engine's preallocated per-frame buffers hold).
func c04TallStackBoard(r *rand.Rand, size int) *tak.Position {
	board := make([][]tak.Square, size)
	for y := range board {
		board[y] = make([]tak.Square, size)
	}
	mover := tak.White
	if r.Intn(2) == 0 {
		mover = tak.Black
	}
	rc := func() tak.Color {
		if r.Intn(2) == 0 {
			return tak.White
		}
		return tak.Black
	}
	for k := 1 + r.Intn(2); k > 0; k-- {
		x, y := size/2-1+r.Intn(2), size/2-1+r.Intn(2)
		h := size + r.Intn(5)
		top := tak.Flat
		if r.Intn(3) == 0 {
			top = tak.Capstone
		}
		sq := tak.Square{tak.MakePiece(mover, top)}
		for j := 1; j < h; j++ {
			sq = append(sq, tak.MakePiece(rc(), tak.Flat))
		}
		board[y][x] = sq
	}
	for k := r.Intn(2 * size); k > 0; k-- {
		x, y := r.Intn(size), r.Intn(size)
		if len(board[y][x]) == 0 {
			kind := tak.Flat
			if r.Intn(5) == 0 {
				kind = tak.Standing
			}
			board[y][x] = tak.Square{tak.MakePiece(rc(), kind)}
		}
	}
	cfg := tak.Config{Size: size}
	fitReserves(r, &cfg, board)
	cfg.Pieces += 5
	move := 2 * (5 + r.Intn(20))
	if mover == tak.Black {
		move++
	}
	p, err := tak.FromSquares(cfg, board, move)
	if err != nil {
		return nil
	}
	return p
}

func c04GenPosition(r *rand.Rand, size int, kind string) *tak.Position {
	for try := 0; try < 40; try++ {
		var p *tak.Position
		switch kind {
		case "opening":
			if r.Intn(2) == 0 { // the usual openings: the first stones go into corners
				p = tak.New(randCfg(r, size))
				for k, plies := 0, r.Intn(4); k < plies; k++ {
					legal := legalMoves(p)
					var corner []tak.Move
					for _, m := range legal {
						if (m.X == 0 || int(m.X) == size-1) && (m.Y == 0 || int(m.Y) == size-1) && !m.IsSlide() {
							corner = append(corner, m)
						}
					}
					if len(corner) > 0 && r.Intn(4) != 0 {
						legal = corner
					}
					p, _ = p.Move(legal[r.Intn(len(legal))])
				}
				break
			}
			ps, _ := randomGame(r, randCfg(r, size), r.Intn(4), -1, false)
			p = ps[len(ps)-1]
		case "middle":
			ps, _ := randomGame(r, randCfg(r, size), 4+r.Intn(5*size), -1, false)
			for i := len(ps) - 1; i >= 0; i-- {
				if c04Live(ps[i]) {
					p = ps[i]
					break
				}
			}
		case "nearterm":
			pol := []int{4, 4, 0, 3}[r.Intn(4)]
			ps, _ := randomGame(r, randCfg(r, size), 300, pol, false)
			last := ps[len(ps)-1]
			if over, _ := last.GameOver(); !over || len(ps) < 4 {
				continue
			}
			p = ps[len(ps)-2-r.Intn(2)]
		case "lowres":
			if r.Intn(2) == 0 {
				p = c04LowReserveBoard(r, size)
				break
			}
			cfg := tak.Config{Size: size, Pieces: 2 + r.Intn(6), Capstones: r.Intn(3), BlackWinsTies: r.Intn(4) == 0}
			ps, _ := randomGame(r, cfg, 300, []int{4, 4, -1}[r.Intn(3)], false)
			// prefer a position whose mover has no stones but a capstone, else one of the last four
			var cand []*tak.Position
			for _, q := range ps {
				if s, c := c04MoverReserves(q); s == 0 && c > 0 && c04Live(q) {
					cand = append(cand, q)
				}
			}
			if len(cand) > 0 && r.Intn(3) != 0 {
				p = cand[r.Intn(len(cand))]
			} else if len(ps) >= 2 {
				k := len(ps) - 2 - r.Intn(4)
				if k < 0 {
					k = 0
				}
				p = ps[k]
			}
		case "tallstack":
			p = c04TallStackBoard(r, size)
		case "constructed":
			maxH := []int{2, 4, 6, 10}[r.Intn(4)]
			q, _, mv := constructedBoard(r, size, maxH, 0.15+0.7*r.Float64())
			if mv < 2 { // ply 0/1 with pieces on the board cannot arise (and the opponent may have no stone to place)
				continue
			}
			p = q
		}
		if p != nil && c04Live(p) {
			return p
		}
	}
	return nil
}

// ---------- legality (direct oracle) ----------

func c04Legal(p *tak.Position, m tak.Move) (bool, string) {
	var err error
	pan, msg := safely(func() { _, err = p.Move(m) })
	rules := absOf(p).rulesMove(m) != nil
	switch {
	case pan:
		return false, "Position.Move panicked: " + msg
	case err != nil && !rules:
		return false, "illegal (" + err.Error() + ")"
	case err != nil:
		return false, "rejected by Position.Move (" + err.Error() + ") although the rules oracle accepts it"
	case !rules:
		return false, "accepted by Position.Move but illegal by the rules oracle"
	}
	return true, ""
}

func c04FmtMove(m tak.Move) string {
	if m.Type < tak.PlaceFlat || m.Type > tak.SlideDown {
		return "raw(" + encMove(m) + ")"
	}
	s := "?"
	safely(func() { s = ptn.FormatMove(m) })
	return s + "(" + encMove(m) + ")"
}

func c04FmtPV(pv []tak.Move) string {
	s := make([]string, len(pv))
	for i, m := range pv {
		s[i] = c04FmtMove(m)
	}
	return "[" + strings.Join(s, " ") + "]"
}

// c04JudgePV: pv[0] legal; the whole PV replays legally unless the value is decisive.
func c04JudgePV(o *c04Out, who, desc string, p *tak.Position, pv []tak.Move, v int64) {
	if len(pv) == 0 {
		o.fail(who+"-no-move", desc, fmt.Sprintf("empty PV, value %d", v), "a non-empty PV whose first move is legal")
		return
	}
	decisive := v > ai.WinThreshold || v < -ai.WinThreshold
	if decisive {
		o.stat(who+"_pv_decisive", 1)
	} else {
		o.stat(who+"_pv_nondecisive", 1)
	}
	cur := p
	for i, m := range pv {
		ok, why := c04Legal(cur, m)
		if !ok {
			switch {
			case i == 0:
				o.fail(who+"-pv0-illegal", desc, fmt.Sprintf("pv=%s value=%d: pv[0] %s", c04FmtPV(pv), v, why), "pv[0] legal in the searched position")
			case !decisive:
				o.fail(who+"-pv-tail-illegal", desc, fmt.Sprintf("pv=%s value=%d: pv[%d] %s after replaying the first %d moves", c04FmtPV(pv), v, i, why, i),
					"the whole PV replays legally (value is not decisive)")
			default:
				o.stat(who+"_decisive_pv_tail_illegal_allowed", 1)
			}
			return
		}
		o.mcase(cur, m)
		next, _ := cur.Move(m)
		cur = next
	}
	l := len(pv)
	if l > 6 {
		l = 6
	}
	o.stat(fmt.Sprintf("%s_pv_len_%d", who, l), 1)
}

// ---------- alpha-beta ----------

type c04MMCfg struct {
	size, depth                             int
	tableMem                                int64
	nosort, nonull, noreduce, multicut, ded bool
	maxEvals                                uint64
	timeoutMs                               int
	window                                  int64
	seed                                    int64
	evk                                     int // 0 default evaluator, 1 EvaluateWinner
	plant                                   int // simulated hash collisions: 1 root entry (decisive, shallow), 2 entries for the children, 3 both
}

func (k c04MMCfg) String() string {
	return fmt.Sprintf("mm size=%d depth=%d table=%d nosort=%d nonull=%d noreduce=%d multicut=%d dedup=%d maxevals=%d timeout=%d window=%d seed=%d eval=%d plant=%d",
		k.size, k.depth, k.tableMem, b2i(k.nosort), b2i(k.nonull), b2i(k.noreduce), b2i(k.multicut), b2i(k.ded), k.maxEvals, k.timeoutMs, k.window, k.seed, k.evk, k.plant)
}

func (k c04MMCfg) mk() *ai.MinimaxAI {
	cfg := ai.MinimaxConfig{Size: k.size, Depth: k.depth, Seed: k.seed, TableMem: k.tableMem, MaxEvals: k.maxEvals,
		RandomizeWindow: k.window, NoSort: k.nosort, NoNullMove: k.nonull, NoReduceSlides: k.noreduce, MultiCut: k.multicut, DedupSymmetry: k.ded}
	if k.nonull && k.noreduce && !k.multicut {
		cfg.NoExtendForces = true // = MakePrecise()
	}
	if k.evk == 1 {
		cfg.Evaluate = ai.EvaluateWinner
	}
	return ai.NewMinimax(cfg)
}

// c04IllegalMove: a well-formed move value that is illegal in p (what a colliding table entry would hold).
func c04IllegalMove(r *rand.Rand, p *tak.Position) (tak.Move, bool) {
	n := p.Size()
	for try := 0; try < 200; try++ {
		m := tak.Move{X: int8(r.Intn(n)), Y: int8(r.Intn(n)), Type: tak.MoveType(2 + r.Intn(7))}
		if m.IsSlide() {
			m.Slides = tak.MkSlides(1 + r.Intn(2))
			if r.Intn(2) == 0 {
				m.Slides = m.Slides.Prepend(1)
			}
		}
		if _, err := p.Move(m); err != nil && absOf(p).rulesMove(m) == nil {
			return m, true
		}
	}
	return tak.Move{}, false
}

// c04Plant simulates hash collisions before a call: entries with the hashes of p / of p's children holding illegal moves.
func c04Plant(o *c04Out, eng *ai.MinimaxAI, k c04MMCfg, p *tak.Position, seed int64) {
	r := rand.New(rand.NewSource(seed))
	d := k.depth
	if d == 0 {
		d = 15
	}
	if k.plant&1 != 0 && d >= 2 {
		// exact, decisive, shallower than the search: the shortcut test passes at the root, the seed of Analyze is replaced by iteration 1
		if m, ok := c04IllegalMove(r, p); ok && ai.VerifPlantTable(eng, p.Hash(), m, ai.WinThreshold+1+r.Int63n(1000), 1, 1) {
			o.stat("mm_planted_root_entries", 1)
		}
	}
	if k.plant&2 != 0 {
		for i, cm := range legalMoves(p) {
			if i%3 != int(seed%3) {
				continue
			}
			q, err := p.Move(cm)
			if err != nil {
				continue
			}
			if over, _ := q.GameOver(); over {
				continue
			}
			// depth d-1: enough for the shortcut one ply below the root in every iteration, but never >= Cfg.Depth, so that a later
			// call whose ROOT is this child does not take the entry as Analyze's (unvalidated) seed: that path is only reachable
			// through a true 64-bit collision at the root and is outside the simulation (DESIGN 5.4, NoCollisionOn)
			if m, ok := c04IllegalMove(r, q); ok && ai.VerifPlantTable(eng, q.Hash(), m, r.Int63n(2001)-1000, 1, d-1) {
				o.stat("mm_planted_child_entries", 1)
			}
		}
	}
}

type c04Call struct {
	mode byte // A Analyze, G GetMove, L AnalyzeAll
	pos  c04Pos
}

func c04CallsStr(cs []c04Call) string {
	s := make([]string, len(cs))
	for i, c := range cs {
		s[i] = string(c.mode) + "@" + c04PosStr(c.pos.p)
	}
	return strings.Join(s, "+")
}

func c04RunMM(o *c04Out, k c04MMCfg, calls []c04Call) {
	zeroTable := k.tableMem > 0 && k.tableMem < 32
	panicClass := func(msg string) string {
		if zeroTable && strings.Contains(msg, "divide by zero") {
			return "table-zero-entries-panic"
		}
		return "minimax-panic"
	}
	o.quiet = k.timeoutMs > 0
	var eng *ai.MinimaxAI
	if pan, msg := safely(func() { eng = k.mk() }); pan {
		o.fail(panicClass(msg), k.String()+" calls=", "NewMinimax panicked: "+msg, "no crash")
		return
	}
	for i, call := range calls {
		desc := k.String() + " calls=" + c04CallsStr(calls[:i+1])
		p := call.pos.p
		before := enc(p)
		ctx := context.Background()
		cancel := func() {}
		if k.timeoutMs > 0 {
			ctx, cancel = context.WithTimeout(ctx, time.Duration(k.timeoutMs)*time.Millisecond)
		}
		o.stat("mm_calls", 1)
		o.stat("mm_mode_"+string(call.mode), 1)
		o.stat("mm_kind_"+call.pos.kind, 1)
		o.stat(fmt.Sprintf("mm_size%d", k.size), 1)
		d := k.depth
		if d == 0 || d > 6 {
			d = 15
		}
		o.stat(fmt.Sprintf("mm_depth%d", d), 1)
		if k.plant != 0 {
			c04Plant(o, eng, k, p, k.seed+int64(i))
		}
		var pan bool
		var msg string
		switch call.mode {
		case 'A':
			var pv []tak.Move
			var v int64
			var st ai.Stats
			pan, msg = safely(func() {
				a, b, c := eng.Analyze(ctx, p)
				pv, v, st = append([]tak.Move(nil), a...), b, c
			})
			if pan {
				break
			}
			if k.timeoutMs > 0 && len(pv) == 0 && st.Canceled {
				o.stat("mm_budget_below_one_iteration", 1) // outside the claim: not even depth 1 completed
				break
			}
			if st.Canceled {
				o.stat("mm_canceled", 1)
			}
			c04JudgePV(o, "minimax", desc, p, pv, v)
		case 'G':
			var m tak.Move
			pan, msg = safely(func() { m = eng.GetMove(ctx, p) })
			if pan {
				break
			}
			if m.Type == 0 {
				o.fail("minimax-no-move", desc, "GetMove returned the zero Move", "a legal move")
				break
			}
			if ok, why := c04Legal(p, m); !ok {
				o.fail("minimax-move-illegal", desc, "GetMove returned "+c04FmtMove(m)+": "+why, "a legal move")
				break
			}
			o.mcase(p, m)
		case 'L':
			var pvs [][]tak.Move
			var v int64
			pan, msg = safely(func() {
				a, b, _ := eng.AnalyzeAll(ctx, p)
				v = b
				for _, x := range a {
					pvs = append(pvs, append([]tak.Move(nil), x...))
				}
			})
			if pan {
				break
			}
			if len(pvs) == 0 {
				o.fail("analyzeall-no-move", desc, fmt.Sprintf("no PV, value %d", v), "at least one PV")
				break
			}
			n := len(pvs)
			if n > 5 {
				n = 5
			}
			o.stat(fmt.Sprintf("analyzeall_pvs_%d", n), 1)
			for _, pv := range pvs {
				c04JudgePV(o, "analyzeall", desc, p, pv, v)
			}
		}
		cancel()
		if pan {
			o.fail(panicClass(msg), desc, "panic: "+msg, "no crash")
			return // the engine's state is unknown after a panic
		}
		if enc(p) != before {
			o.fail("position-mutated", desc, "the searched position changed during the call", "the caller's position is left alone")
			return
		}
	}
}

// ---------- opening book ----------

// c04SymPoint / c04SymMove: the eight symmetries of the square, written here independently of package symmetry:
// bit 0 transpose, bit 1 mirror x, bit 2 mirror y (applied in that order).
func c04SymVec(k int, x, y int) (int, int) {
	if k&1 != 0 {
		x, y = y, x
	}
	return x, y
}
func c04SymPoint(k, n int, x, y int) (int, int) {
	x, y = c04SymVec(k, x, y)
	if k&2 != 0 {
		x = n - 1 - x
	}
	if k&4 != 0 {
		y = n - 1 - y
	}
	return x, y
}
func c04SymMove(k, n int, m tak.Move) tak.Move {
	x, y := c04SymPoint(k, n, int(m.X), int(m.Y))
	out := tak.Move{X: int8(x), Y: int8(y), Type: m.Type, Slides: m.Slides}
	if !m.IsSlide() {
		out.Slides = 0
		return out
	}
	dx, dy := 0, 0
	switch m.Type {
	case tak.SlideLeft:
		dx = -1
	case tak.SlideRight:
		dx = 1
	case tak.SlideUp:
		dy = 1
	case tak.SlideDown:
		dy = -1
	}
	dx, dy = c04SymVec(k, dx, dy)
	if k&2 != 0 {
		dx = -dx
	}
	if k&4 != 0 {
		dy = -dy
	}
	switch {
	case dx == -1:
		out.Type = tak.SlideLeft
	case dx == 1:
		out.Type = tak.SlideRight
	case dy == 1:
		out.Type = tak.SlideUp
	default:
		out.Type = tak.SlideDown
	}
	return out
}

// c04RepoBookLines reads the constants book5 / book6 out of cmd/internal/playtak/book.go (an internal
// package, so it cannot be imported from the harness module): data is taken from the source, not copied.
func c04RepoBookLines() (map[int][]string, error) {
	repo := os.Getenv("VERIF_REPO")
	if repo == "" {
		repo = "/repo"
	}
	fset := token.NewFileSet()
	f, err := parser.ParseFile(fset, filepath.Join(repo, "cmd", "internal", "playtak", "book.go"), nil, 0)
	if err != nil {
		return nil, err
	}
	out := map[int][]string{}
	for _, d := range f.Decls {
		gd, ok := d.(*ast.GenDecl)
		if !ok || gd.Tok != token.CONST {
			continue
		}
		for _, sp := range gd.Specs {
			vs := sp.(*ast.ValueSpec)
			for i, nm := range vs.Names {
				if !strings.HasPrefix(nm.Name, "book") || i >= len(vs.Values) {
					continue
				}
				size, err := strconv.Atoi(strings.TrimPrefix(nm.Name, "book"))
				if err != nil {
					continue
				}
				lit, ok := vs.Values[i].(*ast.BasicLit)
				if !ok || lit.Kind != token.STRING {
					continue
				}
				s, err := strconv.Unquote(lit.Value)
				if err != nil {
					return nil, err
				}
				out[size] = strings.Split(strings.Trim(s, " \n"), "\n")
			}
		}
	}
	if len(out) == 0 {
		return nil, fmt.Errorf("no book constants found in book.go")
	}
	return out, nil
}

// synthetic book lines: short random legal games (slides included once the opening is over)
func c04SyntheticLines(r *rand.Rand, size, n int) []string {
	var lines []string
	for len(lines) < n {
		_, ms := randomGame(r, tak.Config{Size: size}, 3+r.Intn(6), []int{-1, 0, 1, 5}[r.Intn(4)], false)
		if len(ms) < 2 {
			continue
		}
		s := make([]string, len(ms))
		for i, m := range ms {
			s[i] = ptn.FormatMove(m)
		}
		lines = append(lines, strings.Join(s, " "))
	}
	return lines
}

func c04RunBook(o *c04Out, size int, src string, lines []string, seed int64, offbook []c04Pos) {
	desc := fmt.Sprintf("book size=%d src=%s seed=%d lines=%s", size, src, seed, strings.ReplaceAll(strings.Join(lines, ";"), " ", "_"))
	var ob *ai.OpeningBook
	var berr error
	if pan, msg := safely(func() { ob, berr = ai.BuildOpeningBook(size, lines) }); pan {
		o.fail("book-panic", desc, "BuildOpeningBook panicked: "+msg, "no crash")
		return
	}
	if berr != nil {
		o.fail("book-build-error", desc, "BuildOpeningBook: "+berr.Error(), "the book builds from legal lines")
		return
	}
	o.stat("book_books", 1)
	o.stat("book_entries", int64(ai.VerifBookLen(ob)))
	inner := ai.NewMinimax(ai.MinimaxConfig{Size: size, Depth: 2, TableMem: -1, Seed: seed | 1})
	player := ai.WithOpeningBook(inner, ob)
	if !ai.VerifSeedOpeningPlayer(player, seed) {
		o.fail("book-panic", desc, "WithOpeningBook did not return an OpeningPlayer", "the opening book wrapper")
		return
	}
	ctx := context.Background()
	seen := map[string]bool{}
	query := func(q *tak.Position, where string, expect *tak.Move) {
		key := c04PosStr(q)
		if seen[key] {
			return
		}
		seen[key] = true
		if !c04Live(q) {
			return
		}
		qd := desc + " at=" + where + " pos=" + key
		stored, ok := ai.VerifBookMoves(ob, q)
		if expect != nil {
			if !ok {
				o.stat("book_image_missing", 1)
			} else {
				o.stat("book_image_found", 1)
				found := false
				for _, s := range stored {
					if s.Equal(*expect) {
						found = true
					}
				}
				if found {
					o.stat("book_expected_move_stored", 1)
				} else {
					o.stat("book_expected_move_not_stored", 1)
				}
			}
		} else if ok {
			o.stat("book_offbook_hit", 1)
		} else {
			o.stat("book_offbook_miss", 1)
		}
		for _, s := range stored {
			if lok, why := c04Legal(q, s); !lok {
				o.fail("book-entry-illegal", qd, "the book stores "+c04FmtMove(s)+" for this position: "+why, "every stored reply is legal in the position it is stored for")
			}
		}
		for k := 0; k < 3; k++ {
			var m tak.Move
			if pan, msg := safely(func() { m = player.GetMove(ctx, q) }); pan {
				o.fail("book-panic", qd, "OpeningPlayer.GetMove panicked: "+msg, "no crash")
				return
			}
			o.stat("book_queries", 1)
			if lok, why := c04Legal(q, m); !lok {
				o.fail("book-move-illegal", qd, "OpeningPlayer.GetMove returned "+c04FmtMove(m)+": "+why, "a legal move")
				return
			}
			o.mcase(q, m)
			if !ok {
				break // answered by the inner player (deterministic)
			}
		}
	}
	for li, line := range lines {
		var ms []tak.Move
		for _, w := range strings.Fields(line) {
			m, err := ptn.ParseMove(w)
			if err != nil {
				o.fail("book-build-error", desc, "line does not parse: "+line, "book lines are move lists")
				return
			}
			ms = append(ms, m)
		}
		for k := 0; k < 8; k++ {
			q := tak.New(tak.Config{Size: size})
			for i, m := range ms {
				sm := c04SymMove(k, size, m)
				query(q, fmt.Sprintf("line%d.ply%d.sym%d", li, i, k), &sm)
				next, err := q.Move(sm)
				if err != nil {
					o.fail("book-build-error", desc, fmt.Sprintf("image %d of line %q is not a legal game at ply %d", k, line, i), "symmetric images of legal games are legal games")
					break
				}
				q = next
			}
			query(q, fmt.Sprintf("line%d.end.sym%d", li, k), nil) // the position after the line: normally off book
		}
	}
	for i, pp := range offbook {
		query(pp.p, fmt.Sprintf("offbook%d", i), nil)
	}
}

// ---------- opening book: model correspondence (coq/Opening.v) ----------
//
//   CASE BOOK ; <size> ; <lines: x<hex>,... or -> ; <dump 0|1> ; <Int31 script v0,v1,... or -> ; <G|P position> ; ...
//        | <OK | ERR kind lno x<hex word> | PANIC> <answer> ...      | n=<entries> <hash>@<position>@<move>*<weight>+.../...
// One case = one book (raw line bytes) x one batch of queries answered IN ORDER on one scripted random source:
// G = OpeningBook.GetMove(p, r) (answer move/ok/next draw), P = OpeningPlayer.GetMove(ctx, p) on a player whose inner player is a
// stub and whose generator is the same r (answer move/next draw).  The first batch of a book carries the whole book as L2.

// c04ScriptSrc replays Int31 values: Int63 = v<<32 with 0 <= v < 2^31 - 2^21, so that rand.Int31n(n) = v mod n with exactly
// one draw for every n <= 2^21 (no rejection; for a power of two v&(n-1) = v mod n).  Values are produced by gen on demand
// and recorded.
type c04ScriptSrc struct {
	gen   func(i int) int32
	drawn []int32
}

func (s *c04ScriptSrc) Seed(int64) {}
func (s *c04ScriptSrc) Int63() int64 {
	v := s.gen(len(s.drawn))
	s.drawn = append(s.drawn, v)
	return int64(v) << 32
}

// c04Stub is the inner player of the model cases: a placement that depends on the position it is handed.
type c04Stub struct{}

func (c04Stub) GetMove(ctx context.Context, p *tak.Position) tak.Move {
	return tak.Move{X: int8(p.Size() - 1), Y: int8(p.MoveNumber() % 8), Type: tak.PlaceStanding}
}

func c04Hex(s string) string { return "x" + hex.EncodeToString([]byte(s)) }

// c04ExpectBuild: what BuildOpeningBook has to answer, decided independently: words by strings.Split, ptn.ParseMove (the
// subject of C11) for the text, the rules oracle AND Position.Move for legality.  Returns "OK" or "ERR kind lno x<hex word>".
func c04ExpectBuild(size int, lines []string) string {
	for lno, line := range lines {
		p := tak.New(tak.Config{Size: size})
		for _, w := range strings.Split(line, " ") {
			m, err := ptn.ParseMove(w)
			if err != nil {
				return fmt.Sprintf("ERR 1 %d %s", lno, c04Hex(w))
			}
			if ok, _ := c04Legal(p, m); !ok {
				return fmt.Sprintf("ERR 3 %d %s", lno, c04Hex(w))
			}
			p, _ = p.Move(m)
		}
	}
	return "OK"
}

var c04BookErrRe = regexp.MustCompile("(?s)^line (\\d+): move `(.*)`: (.*)$")

func c04RunBookModel(o *c04Out, size int, src string, lines []string, seed int64, offbook []c04Pos, maxQueries int) {
	desc := fmt.Sprintf("bookmodel size=%d src=%s seed=%d lines=%s", size, src, seed, strings.ReplaceAll(strings.Join(lines, ";"), " ", "_"))
	hexLines := "-"
	if len(lines) > 0 {
		hs := make([]string, len(lines))
		for i, l := range lines {
			hs[i] = c04Hex(l)
		}
		hexLines = strings.Join(hs, ",")
	}
	var ob *ai.OpeningBook
	var berr error
	status := "OK"
	if pan, _ := safely(func() { ob, berr = ai.BuildOpeningBook(size, lines) }); pan {
		status = "PANIC"
	} else if berr != nil {
		msg := berr.Error()
		if mm := c04BookErrRe.FindStringSubmatch(msg); mm != nil {
			kind := 3
			if _, perr := ptn.ParseMove(mm[2]); perr != nil {
				kind = 1
			}
			status = fmt.Sprintf("ERR %s %s %s", strconv.Itoa(kind), mm[1], c04Hex(mm[2]))
		} else {
			status = "ERR 2 0 x" // "compute symmetries: ..."
		}
	}
	o.stat("bookmodel_books", 1)
	o.stat("bookmodel_status_"+strings.Fields(status)[0], 1)
	inDomain := size >= 3 && size <= 8
	if inDomain {
		if want := c04ExpectBuild(size, lines); want != status {
			class := "book-build-error"
			if status == "PANIC" {
				class = "book-panic"
			} else if status == "OK" {
				class = "book-accepts-bad-line"
			}
			o.fail(class, desc, "BuildOpeningBook: "+status, want+" (words parsed one by one, moves replayed with the rules oracle)")
		}
	}
	if status != "OK" {
		if status != "PANIC" {
			o.stat("bookmodel_err_kind_"+strings.Fields(status)[1], 1)
		}
		o.lines = append(o.lines, fmt.Sprintf("CASE BOOK ; %d ; %s ; 0 ; - | %s", size, hexLines, status))
		return
	}
	// ---- the whole book, entries sorted by hash ----
	ents := ai.VerifBookDump(ob)
	sort.Slice(ents, func(i, j int) bool { return ents[i].Hash < ents[j].Hash })
	es := make([]string, len(ents))
	maxW, nch := 0, 0
	for i, e := range ents {
		cs := make([]string, len(e.Moves))
		for j := range e.Moves {
			cs[j] = fmt.Sprintf("%s*%d", encMove(e.Moves[j]), e.Weights[j])
			if e.Weights[j] > maxW {
				maxW = e.Weights[j]
			}
			nch++
			if ok, why := c04Legal(e.P, e.Moves[j]); !ok {
				o.fail("book-entry-illegal", desc+" entry="+c04PosStr(e.P), "the book stores "+c04FmtMove(e.Moves[j])+" for this position: "+why, "every stored reply is legal in the position it is stored for")
			}
		}
		if e.P.Hash() != e.Hash {
			o.fail("book-entry-illegal", desc+" entry="+c04PosStr(e.P), fmt.Sprintf("stored under key %d, Hash() = %d", e.Hash, e.P.Hash()), "entries are keyed by the hash of their position")
		}
		es[i] = fmt.Sprintf("%d@%s@%s", e.Hash, enc(e.P), strings.Join(cs, "+"))
	}
	dump := fmt.Sprintf("n=%d %s", len(ents), strings.Join(es, "/"))
	o.stat("bookmodel_entries", int64(len(ents)))
	o.stat("bookmodel_children", int64(nch))
	if maxW > 1 {
		o.stat("bookmodel_books_with_weight_gt1", 1)
	}
	for _, e := range ents {
		if len(e.Moves) > 1 {
			o.stat("bookmodel_entries_with_several_children", 1)
		}
	}
	// ---- query positions: every prefix position of every line in all 8 images (independent transform), the line ends, off-book positions ----
	r := rand.New(rand.NewSource(seed))
	var qs []*tak.Position
	seen := map[string]bool{}
	add := func(q *tak.Position) {
		k := enc(q)
		if !seen[k] {
			seen[k] = true
			qs = append(qs, q)
		}
	}
	for _, line := range lines {
		var ms []tak.Move
		for _, w := range strings.Split(line, " ") {
			m, err := ptn.ParseMove(w)
			if err != nil {
				break
			}
			ms = append(ms, m)
		}
		for k := 0; k < 8; k++ {
			q := tak.New(tak.Config{Size: size})
			for _, m := range ms {
				add(q)
				next, err := q.Move(c04SymMove(k, size, m))
				if err != nil {
					break
				}
				q = next
			}
			add(q)
		}
	}
	for _, pp := range offbook {
		if pp.p.Size() == size {
			add(pp.p)
		}
	}
	r.Shuffle(len(qs), func(i, j int) { qs[i], qs[j] = qs[j], qs[i] })
	if len(qs) > maxQueries {
		qs = qs[:maxQueries]
	}
	const batch = 12
	ctx := context.Background()
	first := true
	for b0 := 0; b0 < len(qs) || first; b0 += batch {
		b1 := b0 + batch
		if b1 > len(qs) {
			b1 = len(qs)
		}
		mode := r.Intn(4)
		gr := rand.New(rand.NewSource(seed + int64(b0) + 1))
		ssrc := &c04ScriptSrc{gen: func(i int) int32 {
			switch mode {
			case 0: // every comparison `0 < weight` succeeds: the last child is returned
				return 0
			case 1: // small values: v mod sum is v itself for the later children
				return int32(gr.Intn(4))
			case 2:
				if gr.Intn(3) == 0 {
					return int32(gr.Intn(3))
				}
			}
			return int32(gr.Int63n(1<<31 - 1<<21))
		}}
		rr := rand.New(ssrc)
		player := ai.WithOpeningBook(c04Stub{}, ob)
		if !ai.VerifSetOpeningPlayerRand(player, rr) {
			o.fail("book-panic", desc, "WithOpeningBook did not return an OpeningPlayer", "the opening book wrapper")
			return
		}
		var qstr, ans []string
		for _, q := range qs[b0:b1] {
			stored, inBook := ai.VerifBookMoves(ob, q)
			before := len(ssrc.drawn)
			qd := desc + " query=" + c04PosStr(q)
			if r.Intn(2) == 0 {
				var m tak.Move
				var ok bool
				if pan, msg := safely(func() { m, ok = ob.GetMove(q, rr) }); pan {
					o.fail("book-panic", qd, "OpeningBook.GetMove panicked: "+msg, "no crash")
					return
				}
				qstr = append(qstr, "G "+enc(q))
				ans = append(ans, fmt.Sprintf("%s/%d/%d", encMove(m), b2i(ok), len(ssrc.drawn)))
				if ok != inBook {
					o.fail("book-move-illegal", qd, fmt.Sprintf("GetMove ok=%v, the book has an entry: %v", ok, inBook), "ok iff the position's hash is a key of the book")
				}
				if ok {
					o.stat("bookmodel_queries_answered_by_book", 1)
					if lok, why := c04Legal(q, m); !lok && c04Live(q) {
						o.fail("book-move-illegal", qd, "OpeningBook.GetMove returned "+c04FmtMove(m)+": "+why, "a legal move")
					}
				} else {
					o.stat("bookmodel_queries_off_book", 1)
				}
			} else {
				var m tak.Move
				if pan, msg := safely(func() { m = player.GetMove(ctx, q) }); pan {
					o.fail("book-panic", qd, "OpeningPlayer.GetMove panicked: "+msg, "no crash")
					return
				}
				qstr = append(qstr, "P "+enc(q))
				ans = append(ans, fmt.Sprintf("%s/%d", encMove(m), len(ssrc.drawn)))
				if inBook {
					o.stat("bookmodel_queries_answered_by_book", 1)
					if lok, why := c04Legal(q, m); !lok && c04Live(q) {
						o.fail("book-move-illegal", qd, "OpeningPlayer.GetMove returned "+c04FmtMove(m)+": "+why, "a legal move")
					}
				} else {
					o.stat("bookmodel_queries_off_book", 1)
					if m != (c04Stub{}).GetMove(ctx, q) {
						o.fail("book-move-illegal", qd, "off book, OpeningPlayer.GetMove returned "+c04FmtMove(m), "the inner player's answer")
					}
				}
			}
			if used := len(ssrc.drawn) - before; used != len(stored) {
				// the script is built so that Int31n never rejects: one draw per child
				o.fail("harness-panic", qd, fmt.Sprintf("%d draws for %d children", used, len(stored)), "one Int31n draw per stored reply")
			}
			o.stat("bookmodel_queries", 1)
		}
		vals := "-"
		if len(ssrc.drawn) > 0 {
			vs := make([]string, len(ssrc.drawn))
			for i, v := range ssrc.drawn {
				vs[i] = strconv.Itoa(int(v))
			}
			vals = strings.Join(vs, ",")
		}
		in := fmt.Sprintf("BOOK ; %d ; %s ; %d ; %s", size, hexLines, b2i(first), vals)
		if len(qstr) > 0 {
			in += " ; " + strings.Join(qstr, " ; ")
		}
		l := fmt.Sprintf("CASE %s | %s", in, strings.Join(append([]string{"OK"}, ans...), " "))
		if first {
			l += " | " + dump
		}
		o.lines = append(o.lines, l)
		first = false
	}
}

// c04TransposingLines: lines that reach the same position along different move orders (two stones of one colour swapped),
// mirror images of one another, repeated lines and lines continuing one another: entries are shared, weights exceed 1.
func c04TransposingLines(r *rand.Rand, size int) []string {
	var lines []string
	for len(lines) < 5 {
		_, ms := randomGame(r, tak.Config{Size: size}, 5+r.Intn(4), -1, false)
		if len(ms) < 5 {
			continue
		}
		str := func(ms []tak.Move) string {
			s := make([]string, len(ms))
			for i, m := range ms {
				s[i] = ptn.FormatMove(m)
			}
			return strings.Join(s, " ")
		}
		legal := func(ms []tak.Move) bool {
			p := tak.New(tak.Config{Size: size})
			for _, m := range ms {
				q, err := p.Move(m)
				if err != nil {
					return false
				}
				p = q
			}
			return true
		}
		lines = append(lines, str(ms))
		// swap plies i and i+2 (same colour, both placements): the same position two plies later
		for try := 0; try < 4; try++ {
			i := 2 + r.Intn(len(ms)-4)
			sw := append([]tak.Move(nil), ms...)
			sw[i], sw[i+2] = sw[i+2], sw[i]
			if !sw[i].IsSlide() && !sw[i+2].IsSlide() && legal(sw) {
				lines = append(lines, str(sw))
				break
			}
		}
		k := 1 + r.Intn(7)
		im := make([]tak.Move, len(ms))
		for i, m := range ms {
			im[i] = c04SymMove(k, size, m)
		}
		switch r.Intn(3) {
		case 0:
			lines = append(lines, str(im)) // a symmetric image of the line
		case 1:
			lines = append(lines, str(ms[:2+r.Intn(len(ms)-2)])) // a prefix
		default:
			lines = append(lines, str(ms)) // the same line again
		}
	}
	return lines
}

// c04BrokenLines: a legal set of lines with one defect planted at a random place.
func c04BrokenLines(r *rand.Rand, size int) []string {
	lines := c04SyntheticLines(r, size, 3+r.Intn(3))
	li := r.Intn(len(lines))
	ws := strings.Split(lines[li], " ")
	wi := r.Intn(len(ws))
	switch r.Intn(9) {
	case 0:
		ws[wi] = "zz" // does not parse
	case 1:
		ws[wi] = "" // two adjacent spaces
	case 2:
		ws[wi] = fmt.Sprintf("%c%d", 'a'+size, 1) // off the board of this size (parses up to 8x8)
	case 3:
		ws[wi] = "a9"
	case 4:
		if wi > 0 {
			ws[wi] = ws[wi-1] // usually an occupied square
		} else {
			ws[wi] = "Sa1" // a wall in the opening
		}
	case 5:
		ws[wi] = "Ca1" // capstone in the opening / on sizes without capstones / possibly legal
	case 6:
		ws[wi] = "3a1>111" // a slide that is rarely possible
	case 7:
		ws[wi] = ws[wi] + "?" // annotation: still the same move
	default:
		lines[li] = lines[li] + " " // trailing space: an empty word at the end
		return lines
	}
	lines[li] = strings.Join(ws, " ")
	return lines
}

// ---------- Monte-Carlo ----------

type c04MCCfg struct {
	size    int
	limitMs int
	seed    int64
	policy  string
	corners bool
}

func (k c04MCCfg) String() string {
	return fmt.Sprintf("mcts size=%d limit=%d seed=%d policy=%s corners=%d", k.size, k.limitMs, k.seed, k.policy, b2i(k.corners))
}

func c04RunMCTS(o *c04Out, k c04MCCfg, pos c04Pos) {
	p := pos.p
	desc := k.String() + " pos=" + c04PosStr(p)
	o.stat("mcts_runs", 1)
	o.stat("mcts_policy_"+k.policy, 1)
	o.stat("mcts_kind_"+pos.kind, 1)
	o.stat(fmt.Sprintf("mcts_size%d", k.size), 1)
	if k.corners {
		o.stat("mcts_corners", 1)
	}
	before := enc(p)
	limit := k.limitMs
	for attempt := 0; ; attempt++ {
		var m tak.Move
		pan, msg := safely(func() {
			mc := mcts.NewMonteCarlo(mcts.MCTSConfig{Size: k.size, Limit: time.Duration(limit) * time.Millisecond, Seed: k.seed, Policy: k.policy, ForceCorners: k.corners})
			m = mc.GetMove(context.Background(), p)
		})
		if pan && attempt == 0 && limit < 100 && strings.Contains(msg, "index out of range [0] with length 0") {
			// no playout at all inside a limit below the property's 100 ms (loaded machine): once more with a long limit
			o.stat("mcts_retry_long_limit", 1)
			limit = 400
			continue
		}
		switch {
		case pan && strings.Contains(msg, "placeWinMove"):
			o.fail("mcts-placewin-panic", desc, "panic: "+msg, "no crash")
		case pan:
			o.fail("mcts-panic", desc, "panic: "+msg, "no crash")
		default:
			if ok, why := c04Legal(p, m); !ok {
				cls := "mcts-move-illegal"
				if k.corners && p.MoveNumber() < 2 {
					cls = "mcts-corner-illegal"
				}
				o.fail(cls, desc, "GetMove returned "+c04FmtMove(m)+": "+why, "a legal move")
			} else {
				o.stat("mcts_legal", 1)
			}
		}
		break
	}
	if enc(p) != before {
		o.fail("position-mutated", desc, "the searched position changed during the call", "the caller's position is left alone")
	}
}

// ---------- the run ----------

func c04Parallel(jobs []c04Job) []*c04Out {
	outs := make([]*c04Out, len(jobs))
	var wg sync.WaitGroup
	ch := make(chan int)
	nw := runtime.NumCPU()
	if nw > 16 {
		nw = 16
	}
	for w := 0; w < nw; w++ {
		wg.Add(1)
		go func() {
			defer wg.Done()
			for i := range ch {
				o := &c04Out{stats: map[string]int64{}}
				t0 := time.Now()
				if pan, msg := safely(func() { jobs[i].run(o) }); pan {
					o.fail("harness-panic", jobs[i].desc, "the harness itself panicked: "+msg, "-")
				}
				if d := time.Since(t0); d > 20*time.Second && os.Getenv("C04_TIMING") != "" {
					fmt.Fprintf(os.Stderr, "C04 slow job %.1fs: %s\n", d.Seconds(), jobs[i].desc)
				}
				outs[i] = o
			}
		}()
	}
	for i := range jobs {
		ch <- i
	}
	close(ch)
	wg.Wait()
	return outs
}

func c04RandMMCfg(r *rand.Rand, size int, thorough bool) c04MMCfg {
	k := c04MMCfg{size: size, seed: 1 + r.Int63n(1<<30)}
	// depth
	x := r.Intn(100)
	switch {
	case x < 15:
		k.depth = 1
	case x < 50:
		k.depth = 2
	case x < 88:
		k.depth = 3
	case x < 94:
		if size <= 5 {
			k.depth = 4
		} else {
			k.depth = 3
		}
	default: // the full depth range (0 means maxDepth = 15) cut down by a tiny budget
		k.depth = []int{0, 15, 7 + r.Intn(8)}[r.Intn(3)]
		if r.Intn(4) == 0 {
			k.timeoutMs = 120 + r.Intn(150)
		} else {
			k.maxEvals = []uint64{1, 40, 400, 3000}[r.Intn(4)]
		}
	}
	if thorough && k.depth >= 1 && k.depth <= 4 && r.Intn(5) == 0 {
		switch {
		case size == 3:
			k.depth = 4 + r.Intn(3)
		case size <= 5:
			k.depth = 4 + r.Intn(2)
		default:
			k.depth = 4
		}
	}
	// table: none, tiny (1, 2, 3, 12 entries), small, medium; the 100 MB default rarely
	switch x := r.Intn(20); {
	case x < 4:
		k.tableMem = -1
	case x < 10:
		k.tableMem = []int64{32, 64, 100, 400}[r.Intn(4)]
	case x < 15:
		k.tableMem = []int64{4096, 1 << 16}[r.Intn(2)]
	case x < 19:
		k.tableMem = 1 << 20
	default:
		k.tableMem = 0
	}
	k.nosort = r.Intn(3) == 0
	k.nonull = r.Intn(3) == 0
	k.noreduce = r.Intn(3) == 0
	k.multicut = r.Intn(3) == 0
	k.ded = r.Intn(3) == 0
	if r.Intn(6) == 0 { // precise
		k.nonull, k.noreduce, k.multicut = true, true, false
	}
	if r.Intn(2) == 0 {
		k.window = []int64{1, 10, 100, 1000, 1 << 25}[r.Intn(5)]
	}
	if r.Intn(8) == 0 {
		k.evk = 1
	}
	if k.tableMem >= 4096 && k.timeoutMs == 0 && r.Intn(3) == 0 {
		k.plant = 1 + r.Intn(3)
	}
	return k
}

var c04Kinds = []string{"opening", "opening", "middle", "middle", "middle", "nearterm", "nearterm", "lowres", "lowres", "constructed", "tallstack"}

func runC04(c *ctx) {
	if c.tier == "replay" {
		c04Replay(c)
		return
	}
	r := c.r
	thorough := c.tier == "thorough"
	var jobs []c04Job
	var allPos []c04Pos
	newPos := func(size int, kind string) (c04Pos, bool) {
		p := c04GenPosition(r, size, kind)
		if p == nil {
			return c04Pos{}, false
		}
		pp := c04Pos{p, kind}
		allPos = append(allPos, pp)
		return pp, true
	}

	// ---- alpha-beta: engines reused over several calls ----
	nmm := 160 * c.scale
	for j := 0; j < nmm; j++ {
		size := 3 + j%6
		k := c04RandMMCfg(r, size, thorough)
		ncalls := 1 + r.Intn(5)
		if k.timeoutMs > 0 {
			ncalls = 1 + r.Intn(2)
		}
		var calls []c04Call
		if r.Intn(2) == 0 {
			// consecutive positions of one game, as a playing engine sees them (every other ply, or every ply)
			ps, _ := randomGame(r, randCfg(r, size), 2+r.Intn(8*size), -1, false)
			step := 1 + r.Intn(2)
			start := 0
			if len(ps) > ncalls*step {
				start = r.Intn(len(ps) - ncalls*step + 1)
			}
			for i := start; i < len(ps) && len(calls) < ncalls; i += step {
				if c04Live(ps[i]) {
					pp := c04Pos{ps[i], "game"}
					allPos = append(allPos, pp)
					calls = append(calls, c04Call{pos: pp})
				}
			}
		}
		for len(calls) < ncalls {
			pp, ok := newPos(size, c04Kinds[r.Intn(len(c04Kinds))])
			if !ok {
				break
			}
			calls = append(calls, c04Call{pos: pp})
		}
		for i := range calls {
			switch x := r.Intn(10); {
			case k.timeoutMs > 0:
				calls[i].mode = 'A'
			case x < 4:
				calls[i].mode = 'A'
			case x < 8:
				calls[i].mode = 'G'
			default:
				calls[i].mode = 'L'
			}
			if k.depth >= 5 && calls[i].mode == 'L' && r.Intn(4) != 0 {
				calls[i].mode = 'A'
			}
			if r.Intn(6) == 0 && i > 0 { // the same position asked twice on one engine
				calls[i].pos = calls[i-1].pos
			}
		}
		jobs = append(jobs, c04Job{desc: k.String(), run: func(o *c04Out) { c04RunMM(o, k, calls) }})
	}
	// tables too small to hold a single entry (TableMem 1..31 bytes)
	for j := 0; j < 2*c.scale; j++ {
		size := 3 + r.Intn(6)
		k := c04RandMMCfg(r, size, false)
		k.depth, k.timeoutMs, k.maxEvals = 1+r.Intn(2), 0, 0
		k.tableMem = []int64{1, 16, 31}[r.Intn(3)]
		pp, ok := newPos(size, "middle")
		if !ok {
			continue
		}
		calls := []c04Call{{mode: 'A', pos: pp}}
		jobs = append(jobs, c04Job{desc: k.String(), run: func(o *c04Out) { c04RunMM(o, k, calls) }})
	}

	// ---- opening book ----
	repoBooks, err := c04RepoBookLines()
	if err != nil {
		fmt.Fprintln(os.Stderr, "C04: cannot read the opening book constants from the repository:", err)
		os.Exit(3)
	}
	var bsizes []int
	for s := range repoBooks {
		bsizes = append(bsizes, s)
	}
	sort.Ints(bsizes)
	addBook := func(size int, src string, lines []string) {
		var off []c04Pos
		for i := 0; i < 3; i++ {
			if pp, ok := newPos(size, []string{"opening", "middle", "opening"}[i]); ok {
				off = append(off, pp)
			}
		}
		seed := 1 + r.Int63n(1<<30)
		jobs = append(jobs, c04Job{desc: "book " + src, run: func(o *c04Out) { c04RunBook(o, size, src, lines, seed, off) }})
	}
	for _, s := range bsizes {
		addBook(s, fmt.Sprintf("repo-book%d", s), repoBooks[s])
	}
	for j := 0; j < 6*c.scale; j++ {
		size := 3 + j%6
		addBook(size, "synthetic", c04SyntheticLines(r, size, 4+r.Intn(4)))
	}

	// ---- opening book: model correspondence (CASE BOOK) ----
	addBookModel := func(size int, src string, lines []string, maxQ int) {
		var off []c04Pos
		for i := 0; i < 2 && size >= 3 && size <= 8; i++ {
			if pp, ok := newPos(size, []string{"opening", "middle"}[i]); ok {
				off = append(off, pp)
			}
		}
		seed := 1 + r.Int63n(1<<30)
		jobs = append(jobs, c04Job{desc: "bookmodel " + src, run: func(o *c04Out) { c04RunBookModel(o, size, src, lines, seed, off, maxQ) }})
	}
	for _, s := range bsizes {
		addBookModel(s, fmt.Sprintf("repo-book%d", s), repoBooks[s], 48*c.scale)
	}
	for j := 0; j < 6*c.scale; j++ {
		size := 3 + j%6
		addBookModel(size, "synthetic", c04SyntheticLines(r, size, 3+r.Intn(3)), 24)
		addBookModel(size, "transposing", c04TransposingLines(r, size), 24)
	}
	for j := 0; j < 18*c.scale; j++ {
		addBookModel(3+j%6, "broken", c04BrokenLines(r, 3+j%6), 12)
	}
	// sizes tak.New does not accept (a panic as soon as a line is read; no line: an empty book), and empty inputs
	for _, sz := range []int{-1, 0, 2, 9} {
		addBookModel(sz, "badsize", []string{"a1 b2"}, 0)
		addBookModel(sz, "badsize-nolines", nil, 0)
	}
	addBookModel(5, "nolines", nil, 4)
	addBookModel(5, "emptyline", []string{"a1 e5", ""}, 4)

	// ---- the randomised GetMove: model correspondence (CASE RAND) ----
	for j := 0; j < 40*c.scale; j++ {
		size := 3
		if j%4 == 3 {
			size = 4
		}
		sc := srchCfg{size: size, depth: 1 + r.Intn(2), evk: r.Intn(2) * r.Intn(2), nosort: true, nonull: r.Intn(2) == 0, noreduce: r.Intn(2) == 0, multicut: r.Intn(3) == 0,
			tableMem: []int64{-1, 64, 400, 4000, 1 << 15}[r.Intn(5)]}
		if size == 3 && r.Intn(3) == 0 {
			sc.depth = 3
		}
		if r.Intn(4) == 0 { // precise
			sc.nonull, sc.noreduce, sc.multicut = true, true, false
		}
		window := []int64{1, 10, 100, 1000, 1 << 20}[r.Intn(5)]
		scale := int64(1)
		if sc.precise() && sc.tableMem < 0 && window >= 10 && r.Intn(2) == 0 {
			scale = []int64{2, 3, 7}[r.Intn(3)] // pv[0] scores window/scale >= 1 points first, so Int63n's argument stays positive
		}
		kind := []string{"opening", "middle", "middle", "nearterm", "lowres"}[r.Intn(5)]
		if j%5 == 4 {
			// Cfg.DedupSymmetry (model coq/SearchDedup.v): the plain GetMove (window 0 = Analyze's first move), in the plies where the option acts
			sc.dedup, window, scale, kind = true, 0, 1, "opening"
		}
		pp, ok := newPos(size, kind)
		if !ok {
			continue
		}
		seed := 1 + r.Int63n(1<<30)
		jobs = append(jobs, c04Job{desc: fmt.Sprintf("randmodel %s window=%d scale=%d", sc.String(), window, scale), run: func(o *c04Out) { c04RunRandModel(o, sc, window, scale, seed, pp) }})
	}

	// ---- Monte-Carlo ----
	nmc := 128 * c.scale
	if thorough {
		nmc = 1200
	}
	for j := 0; j < nmc; j++ {
		size := 3 + j%6
		k := c04MCCfg{size: size, seed: 1 + r.Int63n(1<<30), policy: []string{"uniform", "place_win"}[r.Intn(2)], corners: r.Intn(2) == 0}
		k.limitMs = 20 + r.Intn(31)
		if j%10 == 0 {
			k.limitMs = 100
		}
		kind := c04Kinds[r.Intn(len(c04Kinds))]
		if k.corners && r.Intn(2) == 0 {
			kind = "opening"
		} else if k.policy == "place_win" && r.Intn(5) < 2 { // rollouts in which a player runs out of flat stones
			kind = "lowres"
		}
		pp, ok := newPos(size, kind)
		if !ok {
			continue
		}
		jobs = append(jobs, c04Job{desc: k.String(), run: func(o *c04Out) { c04RunMCTS(o, k, pp) }})
	}

	// corner forcing answers at once in the two opening plies: sweep first stones (every corner, some other squares) x seeds
	for size := 3; size <= 8; size++ {
		type xy struct{ x, y int }
		firsts := []xy{{0, 0}, {size - 1, 0}, {0, size - 1}, {size - 1, size - 1}, {r.Intn(size), r.Intn(size)}, {-1, -1}}
		for _, f := range firsts {
			p := tak.New(tak.Config{Size: size})
			if f.x >= 0 {
				p, _ = p.Move(tak.Move{X: int8(f.x), Y: int8(f.y), Type: tak.PlaceFlat})
			}
			pp := c04Pos{p, "opening"}
			allPos = append(allPos, pp)
			for sd := 0; sd < 3*c.scale; sd++ {
				k := c04MCCfg{size: size, seed: 1 + r.Int63n(1<<30), policy: []string{"uniform", "place_win"}[r.Intn(2)], corners: true, limitMs: 20}
				jobs = append(jobs, c04Job{desc: k.String(), run: func(o *c04Out) { c04RunMCTS(o, k, pp) }})
			}
		}
	}

	// ---- run, print in job order ----
	outs := c04Parallel(jobs)
	seenCase := map[string]bool{}
	emit := func(l string) {
		if strings.HasPrefix(l, "CASE ") {
			key := l[:strings.Index(l, " | ")]
			if seenCase[key] {
				return
			}
			seenCase[key] = true
			c.stat("cases", 1)
			if strings.HasPrefix(l, "CASE M") {
				c.stat("cases_returned_move", 1)
			}
		}
		c.printf("%s\n", l)
	}
	nfail := 0
	for _, o := range outs {
		for _, l := range o.lines {
			if strings.HasPrefix(l, "ORACLE-FAIL ") {
				nfail++
				if nfail > 200 { // a systematic failure: keep the case file small
					continue
				}
			}
			emit(l)
		}
		for k, v := range o.stats {
			c.stat(k, v)
		}
	}
	// ---- legal move sets of every position used: the model's notion of legality vs the implementation's ----
	seenPos := map[string]bool{}
	samples := 0
	for _, pp := range allPos {
		e := enc(pp.p)
		if seenPos[e] {
			continue
		}
		seenPos[e] = true
		lm := legalMoves(pp.p)
		s := make([]string, len(lm))
		for i, m := range lm {
			s[i] = encMove(m)
		}
		sort.Strings(s)
		set := "-"
		if len(s) > 0 {
			set = strings.Join(s, ",")
		}
		emit(fmt.Sprintf("CASE P ; %s | %d %s", e, b2i(c04Live(pp.p)), set))
		c.stat("cases_position", 1)
		c.stat("positions_kind_"+pp.kind, 1)
		c.stat(fmt.Sprintf("positions_size%d", pp.p.Size()), 1)
		if st, cp := c04MoverReserves(pp.p); st == 0 && cp > 0 {
			c.stat("positions_mover_has_only_capstones", 1)
		}
		if pp.p.MoveNumber() < 2 {
			c.stat("positions_ply_lt2", 1)
		}
		if len(pp.p.AllMoves(nil)) > 500 {
			c.stat("positions_more_than_500_generated_moves", 1)
		}
		if len(lm) == 0 {
			c.printf("ORACLE-FAIL live-position-without-legal-move | %s | AllMoves holds no legal move | a live position has a legal placement\n", c04PosStr(pp.p))
		}
		if samples < 6 && len(allPos) > 0 && (len(seenPos)%(1+len(allPos)/6)) == 0 {
			samples++
			c.printf("SAMPLE %s position %s: %d legal moves\n", pp.kind, c04PosStr(pp.p), len(lm))
		}
	}
	c.stat("jobs", int64(len(jobs)))
	// iteration-level MCTS cases (model correspondence), see mcts_steps.go
	runMctsSteps(c)
}

// ---------- replay ----------

func c04KV(s string) (string, map[string]string) {
	fs := strings.Fields(s)
	kv := map[string]string{}
	for _, f := range fs[1:] {
		if i := strings.Index(f, "="); i > 0 {
			kv[f[:i]] = f[i+1:]
		}
	}
	return fs[0], kv
}

func c04Replay(c *ctx) {
	if len(c.args) < 1 {
		fmt.Fprintln(os.Stderr, "usage: runimpl C04 replay <seed> <replay.json>")
		os.Exit(2)
	}
	raw, err := os.ReadFile(c.args[0])
	if err != nil {
		fmt.Fprintln(os.Stderr, err)
		os.Exit(2)
	}
	var rep struct {
		Input string `json:"input"`
	}
	if err := json.Unmarshal(raw, &rep); err != nil || rep.Input == "" {
		fmt.Fprintln(os.Stderr, "replay file has no input")
		os.Exit(2)
	}
	o := &c04Out{stats: map[string]int64{}}
	atoi := func(s string) int64 { v, _ := strconv.ParseInt(s, 10, 64); return v }
	kind, kv := c04KV(rep.Input)
	if kind == "mcts-steps" { // iteration-level MCTS cases: re-run by mcts_steps.go, which prints its own verdict
		mctsStepsReplay(c, rep.Input)
		return
	}
	switch kind {
	case "mm":
		k := c04MMCfg{size: int(atoi(kv["size"])), depth: int(atoi(kv["depth"])), tableMem: atoi(kv["table"]), nosort: kv["nosort"] == "1",
			nonull: kv["nonull"] == "1", noreduce: kv["noreduce"] == "1", multicut: kv["multicut"] == "1", ded: kv["dedup"] == "1",
			maxEvals: uint64(atoi(kv["maxevals"])), timeoutMs: int(atoi(kv["timeout"])), window: atoi(kv["window"]), seed: atoi(kv["seed"]), evk: int(atoi(kv["eval"])), plant: int(atoi(kv["plant"]))}
		var calls []c04Call
		for _, cs := range strings.Split(kv["calls"], "+") {
			if len(cs) < 3 {
				continue
			}
			p, err := c04ParsePos(cs[2:])
			if err != nil {
				fmt.Fprintln(os.Stderr, "bad position in replay:", err)
				os.Exit(2)
			}
			calls = append(calls, c04Call{mode: cs[0], pos: c04Pos{p, "replay"}})
		}
		c04RunMM(o, k, calls)
	case "mcts":
		p, err := c04ParsePos(kv["pos"])
		if err != nil {
			fmt.Fprintln(os.Stderr, "bad position in replay:", err)
			os.Exit(2)
		}
		k := c04MCCfg{size: int(atoi(kv["size"])), limitMs: int(atoi(kv["limit"])), seed: atoi(kv["seed"]), policy: kv["policy"], corners: kv["corners"] == "1"}
		c04RunMCTS(o, k, c04Pos{p, "replay"})
	case "book":
		lines := strings.Split(strings.ReplaceAll(kv["lines"], "_", " "), ";")
		c04RunBook(o, int(atoi(kv["size"])), kv["src"], lines, atoi(kv["seed"]), nil)
	case "bookmodel":
		var lines []string
		if _, has := kv["lines"]; has {
			lines = strings.Split(strings.ReplaceAll(kv["lines"], "_", " "), ";")
		}
		c04RunBookModel(o, int(atoi(kv["size"])), kv["src"], lines, atoi(kv["seed"]), nil, 1<<30)
	default:
		p, err := c04ParsePos(strings.Fields(rep.Input)[0])
		if err == nil && len(legalMoves(p)) == 0 {
			o.fail("live-position-without-legal-move", rep.Input, "AllMoves holds no legal move", "a live position has a legal placement")
		}
	}
	for _, l := range o.lines {
		if strings.HasPrefix(l, "ORACLE-FAIL ") {
			c.printf("%s\n", l)
		}
	}
	if len(o.stats) >= 0 && !strings.Contains(strings.Join(o.lines, "\n"), "ORACLE-FAIL ") {
		c.printf("REPLAY-OK %s\n", rep.Input)
	}
}
