//go:build verif_solve

package main

// C19, solver-instance family: DFPNSolver.solve (prove/dfpn.go) is the detector as the depth-first prover uses it.  It
// is asked through ONE long-lived solver instance about runs of closely related positions of one game configuration:
// the same board with the kind of one top piece changed (flat / wall / capstone), with buried stones recoloured, with
// one square emptied, each several times and in random order - whatever the instance remembers between calls must not
// turn into a reported road threat that does not exist.  Class `solver-phantom-threat`.

import (
	"fmt"
	"math/rand"
	"strings"

	"github.com/nelhage/taktician/prove"
	"github.com/nelhage/taktician/tak"
)

// c19Variants: boards related to b (b itself first).  me = the colour whose road material b was built around.
func c19Variants(r *rand.Rand, b evBoard, me tak.Color) []evBoard {
	out := []evBoard{b}
	type xy struct{ x, y int }
	var mine, any, tall []xy
	for y := range b {
		for x := range b[y] {
			if len(b[y][x]) == 0 {
				continue
			}
			any = append(any, xy{x, y})
			if b[y][x][0].Color() == me {
				mine = append(mine, xy{x, y})
			}
			if len(b[y][x]) > 1 {
				tall = append(tall, xy{x, y})
			}
		}
	}
	rekind := func(src evBoard, s xy, k tak.Kind) evBoard {
		v := src.clone()
		v[s.y][s.x][0] = tak.MakePiece(v[s.y][s.x][0].Color(), k)
		return v
	}
	kinds := []tak.Kind{tak.Flat, tak.Standing, tak.Capstone}
	// every kind on one or two squares of the road colour, and on one square of any colour
	for rep := 0; rep < 2 && len(mine) > 0; rep++ {
		s := mine[r.Intn(len(mine))]
		for _, k := range kinds {
			if k != b[s.y][s.x][0].Kind() {
				out = append(out, rekind(b, s, k))
			}
		}
	}
	if len(any) > 0 {
		s := any[r.Intn(len(any))]
		for _, k := range kinds {
			if k != b[s.y][s.x][0].Kind() {
				out = append(out, rekind(b, s, k))
			}
		}
	}
	// all walls <-> capstones at once
	sw := b.clone()
	changed := false
	for _, s := range any {
		switch sw[s.y][s.x][0].Kind() {
		case tak.Standing:
			sw[s.y][s.x][0] = tak.MakePiece(sw[s.y][s.x][0].Color(), tak.Capstone)
			changed = true
		case tak.Capstone:
			sw[s.y][s.x][0] = tak.MakePiece(sw[s.y][s.x][0].Color(), tak.Standing)
			changed = true
		}
	}
	if changed {
		out = append(out, sw)
	}
	// buried stones recoloured / removed / added: the tops stay
	if len(tall) > 0 {
		v := b.clone()
		for _, s := range tall {
			for j := 1; j < len(v[s.y][s.x]); j++ {
				v[s.y][s.x][j] = tak.MakePiece(v[s.y][s.x][j].Color().Flip(), tak.Flat)
			}
		}
		out = append(out, v)
	}
	if len(any) > 0 {
		v := b.clone()
		s := any[r.Intn(len(any))]
		v[s.y][s.x] = append(v[s.y][s.x], tak.MakePiece(evCol(r), tak.Flat))
		out = append(out, v)
		w := b.clone()
		s = any[r.Intn(len(any))]
		w[s.y][s.x] = nil
		out = append(out, w)
	}
	// the top changes colour (owner bitboards differ, blockers do not)
	if len(any) > 0 {
		v := b.clone()
		s := any[r.Intn(len(any))]
		v[s.y][s.x][0] = tak.MakePiece(v[s.y][s.x][0].Color().Flip(), v[s.y][s.x][0].Kind())
		out = append(out, v)
	}
	return out
}

func c19SolverFamily(c *ctx) {
	c19CrossSize(c)
	r := c.r
	for inst := 0; inst < 60*c.scale; inst++ {
		size := 3 + inst%6
		// one game configuration per solver instance (a solver serves one game; the reserves are then a function of the board)
		type item struct {
			b    evBoard
			move int
			fam  string
		}
		var items []item
		maxSt, maxCp := 0, 0
		for k := 0; k < 6; k++ {
			b, me, _, fam := threatBoard(r, size)
			evTrim(b)
			if r.Intn(2) == 0 { // a capstone or a wall of the road colour as a link of the line itself
				var own [][2]int
				for y := range b {
					for x := range b[y] {
						if len(b[y][x]) > 0 && b[y][x][0].Color() == me && b[y][x][0].Kind() == tak.Flat {
							own = append(own, [2]int{x, y})
						}
					}
				}
				if len(own) > 0 {
					s := own[r.Intn(len(own))]
					b[s[1]][s[0]][0] = tak.MakePiece(me, []tak.Kind{tak.Capstone, tak.Standing}[r.Intn(2)])
				}
			}
			move := 2 + 2*r.Intn(20)
			if me == tak.Black {
				move++
			}
			vs := c19Variants(r, b, me)
			// random order with repeats: each variant is seen before and after its relatives
			order := r.Perm(len(vs))
			order = append(order, r.Perm(len(vs))...)
			for _, i := range order {
				st, cp := evCount(vs[i])
				for _, v := range st {
					if v > maxSt {
						maxSt = v
					}
				}
				for _, v := range cp {
					if v > maxCp {
						maxCp = v
					}
				}
				items = append(items, item{vs[i], move, fam})
			}
		}
		cfg := tak.Config{Size: size, Pieces: maxSt + r.Intn(3), Capstones: maxCp + r.Intn(2)}
		if cfg.Capstones == 0 {
			cfg.Capstones = 1
		}
		if cfg.Pieces < size {
			cfg.Pieces = size
		}
		if cfg.Pieces+cfg.Capstones > 255 {
			continue
		}
		d := prove.NewDFPN(&prove.DFPNConfig{TableMem: 1 << 16})
		// the public entry point prepares the instance for this board size (a finished game: decided at once)
		fin := evNew(size)
		for x := 0; x < size; x++ {
			fin[0][x] = tak.Square{tak.MakePiece(tak.White, tak.Flat)}
		}
		fp, err := tak.FromSquares(cfg, fin, 2*size)
		if err != nil {
			panic(err)
		}
		if pk, msg := safely(func() { d.Prove(fp) }); pk {
			c.printf("ORACLE-FAIL solver-panic | %s | Prove panicked on a finished game: %s | a verdict\n", enc(fp), msg)
			continue
		}
		c.stat("solver_instances", 1)
		hist := []string{}
		for _, it := range items {
			p, err := tak.FromSquares(cfg, it.b, it.move)
			if err != nil {
				panic(err)
			}
			a := absOf(p)
			if over, _, _ := a.outcome(); over {
				c.stat("solver_family_skipped_game_over", 1)
				continue
			}
			var rep bool
			var who tak.Color
			pk, msg := safely(func() { rep, who = prove.VerifSolve(d, p) })
			c.stat("solver_detector_calls", 1)
			if pk {
				c.printf("ORACLE-FAIL solver-detector-panic | %s | panic: %s | an answer\n", enc(p), msg)
				break
			}
			hist = append(hist, enc(p))
			if len(hist) > 12 {
				hist = hist[1:]
			}
			if !rep {
				continue
			}
			c.stat("solver_detector_reports", 1)
			okI, _ := implRoadWin(p)
			okR, _ := rulesRoadWin(a)
			if who != p.ToMove() || !okI || !okR {
				c.printf("ORACLE-FAIL solver-phantom-threat | solverseq;%d;%d;%d;%s | DFPNSolver.solve on a reused solver instance reports an immediate road win for %v on the LAST position of the sequence (side to move %v); one-ply road win by implementation search: %v, by rules oracle: %v; family %s; the positions before it are what the instance was asked last (oldest first) | a legal move of the side to move that completes its road\n",
					cfg.Size, cfg.Pieces, cfg.Capstones, strings.Join(hist, "@"), who, p.ToMove(), okI, okR, it.fam)
			}
		}
	}
}

// c19CrossSize: ONE solver instance serves a board of size a and then a LARGER board of size b (the public Prove switches it
// over, as when an analysis session moves on to another game).  The positions asked on the larger board have, square INDEX by
// square index, exactly the contents of positions the instance was asked on the smaller board: the same bitboards, heights and
// stack words, hence the same Hash() - but another geometry, so a road threat of the small board is (almost always) none on
// the large one.  Whatever the instance keyed by bitboards or by Hash() must not survive the change of size.
func c19CrossSize(c *ctx) {
	r := c.r
	for inst := 0; inst < 40*c.scale; inst++ {
		a := 3 + inst%5
		b := a + 1 + r.Intn(8-a)
		if b > 8 {
			b = 8
		}
		type item struct {
			small evBoard
			move  int
		}
		var items []item
		maxSt, maxCp := b, 0
		for k := 0; k < 10; k++ {
			bd, me, _, _ := threatBoard(r, a)
			evTrim(bd)
			move := 2 + 2*r.Intn(10)
			if me == tak.Black {
				move++
			}
			st, cp := evCount(bd)
			for _, v := range st {
				if v > maxSt {
					maxSt = v
				}
			}
			for _, v := range cp {
				if v > maxCp {
					maxCp = v
				}
			}
			items = append(items, item{bd, move})
		}
		if maxSt+maxCp+3 > 255 {
			continue
		}
		cfgA := tak.Config{Size: a, Pieces: maxSt + 1, Capstones: maxCp + 1}
		cfgB := tak.Config{Size: b, Pieces: maxSt + 1, Capstones: maxCp + 1}
		d := prove.NewDFPN(&prove.DFPNConfig{TableMem: 1 << 16})
		fin := func(cfg tak.Config) *tak.Position {
			f := evNew(cfg.Size)
			for x := 0; x < cfg.Size; x++ {
				f[0][x] = tak.Square{tak.MakePiece(tak.White, tak.Flat)}
			}
			fp, err := tak.FromSquares(cfg, f, 2*cfg.Size)
			if err != nil {
				panic(err)
			}
			return fp
		}
		if pk, msg := safely(func() { d.Prove(fin(cfgA)) }); pk {
			c.printf("ORACLE-FAIL solver-panic | %s | Prove panicked on a finished game: %s | a verdict\n", enc(fin(cfgA)), msg)
			continue
		}
		c.stat("solver_instances_cross_size", 1)
		var hist []string
		ask := func(p *tak.Position) bool {
			a0 := absOf(p)
			if over, _, _ := a0.outcome(); over {
				return true
			}
			var rep bool
			var who tak.Color
			pk, msg := safely(func() { rep, who = prove.VerifSolve(d, p) })
			c.stat("solver_detector_calls", 1)
			if pk {
				c.printf("ORACLE-FAIL solver-detector-panic | %s | panic: %s | an answer\n", enc(p), msg)
				return false
			}
			hist = append(hist, enc(p))
			if len(hist) > 14 {
				hist = hist[1:]
			}
			if !rep {
				return true
			}
			c.stat("solver_detector_reports", 1)
			okI, _ := implRoadWin(p)
			okR, _ := rulesRoadWin(a0)
			if who != p.ToMove() || !okI || !okR {
				c.printf("ORACLE-FAIL solver-phantom-threat | solverseq;%d;%d;%d;%s | DFPNSolver.solve on a solver instance that served a %dx%d board before this %dx%d board reports an immediate road win for %v on the LAST position (side to move %v); one-ply road win by implementation search: %v, by rules oracle: %v | a legal move of the side to move that completes its road\n",
					p.Size(), cfgB.Pieces, cfgB.Capstones, strings.Join(hist, "@"), a, a, b, b, who, p.ToMove(), okI, okR)
			}
			return true
		}
		ok := true
		for _, it := range items {
			p, err := tak.FromSquares(cfgA, it.small, it.move)
			if err != nil {
				panic(err)
			}
			if !ask(p) {
				ok = false
				break
			}
		}
		if !ok {
			continue
		}
		if pk, msg := safely(func() { d.Prove(fin(cfgB)) }); pk {
			c.printf("ORACLE-FAIL reused-solver-panic | %s | Prove panicked on a finished game of another size: %s | a verdict\n", enc(fin(cfgB)), msg)
			continue
		}
		for _, it := range items {
			big := evNew(b)
			for y := range it.small {
				for x := range it.small[y] {
					i := y*a + x
					big[i/b][i%b] = it.small[y][x]
				}
			}
			p, err := tak.FromSquares(cfgB, big, it.move)
			if err != nil {
				panic(err)
			}
			if !ask(p) {
				break
			}
		}
	}
}

// c19SolverReplay: input `solverseq;<size>;<pieces>;<capstones>;<enc>@<enc>...`: one fresh solver instance is asked about the
// positions in order; the last answer is judged.
func c19SolverReplay(c *ctx, inp string) bool {
	if !strings.HasPrefix(inp, "solverseq;") {
		return false
	}
	f := strings.SplitN(inp, ";", 5)
	if len(f) != 5 {
		return false
	}
	var size int
	fmt.Sscan(f[1], &size)
	d := prove.NewDFPN(&prove.DFPNConfig{TableMem: 1 << 16})
	encs := strings.Split(f[4], "@")
	lastSize := 0
	for i, e := range encs {
		p, err := evDecode(e)
		if err != nil {
			fmt.Println("bad position in replay:", err)
			return true
		}
		if i == 0 || p.Size() != lastSize {
			lastSize = p.Size()
			fin := evNew(p.Size())
			for x := 0; x < p.Size(); x++ {
				fin[0][x] = tak.Square{tak.MakePiece(tak.White, tak.Flat)}
			}
			if fp, err := tak.FromSquares(tak.Config{Size: p.Size(), Pieces: 60, Capstones: 2}, fin, 2*p.Size()); err == nil {
				d.Prove(fp)
			}
		}
		rep, who := prove.VerifSolve(d, p)
		if i < len(encs)-1 {
			continue
		}
		okI, _ := implRoadWin(p)
		okR, _ := rulesRoadWin(absOf(p))
		c.printf("SAMPLE replay: solve on the last position of %d: reported=%v for %v; road win by implementation search %v, by rules oracle %v\n", len(encs), rep, who, okI, okR)
		if rep && (who != p.ToMove() || !okI || !okR) {
			c.printf("ORACLE-FAIL solver-phantom-threat | %s | reproduced | a legal move of the side to move that completes its road\n", inp)
		}
	}
	return true
}
